#!/bin/sh
# Audit of the Coq development: no Admitted / admit / Axiom / Parameter / Conjecture / disabled checks
# anywhere; coqchk -o re-checks every compiled Props library and prints the axioms of the context.
HERE="$(cd "$(dirname "$0")" && pwd)"; cd "$HERE/coq" || exit 1
echo "== forbidden vernacular in the sources (expected: none) =="
grep -rnE '\b(Admitted|admit|Axiom|Parameter|Conjecture|Admit Obligations)\b|Unset Guard|Unset Positivity|Unset Universe|bypass_check|type-in-type|impredicative-set' \
  --include='*.v' Kit Model Proofs Inst Run Props Pinned Gen 2>/dev/null | grep -v '^[^:]*:[0-9]*: *(\*' || echo "none"
echo "== coqchk -o on every Props library =="
timeout 3000 coqchk -silent -o -Q . JV $(ls Props/*.v | sed 's/\.v$//; s/\//./; s/^/JV./') 2>&1 | tee "$HERE/audit/coqchk_o.txt" | grep -v 'PrimInt63\|Uint63\|PrimFloat\|FloatOps\|FloatAxioms\|SpecFloat' 
