(* Proofs/P_loaders.v -- C15: gathered rows stay aligned *)
From Coq Require Import ZArith List Bool Lia Permutation.
From JV Require Import Kit.Lists Kit.GenTypes Model.M_datagen Model.M_loaders Proofs.P_datagen.
Import ListNotations.
Open Scope nat_scope.

Section G.
Context {R : Type}.
Variable d : R.
Lemma gather_length (t : list R) idx : length (gather d t idx) = length idx.
Proof. apply map_length. Qed.
(* position r of every gathered table is the original row number (nth r idx) *)
Lemma gather_nth (t : list R) idx r : r < length idx -> nth r (gather d t idx) d = nth (nth r idx 0) t d.
Proof. intro Hr. unfold gather. set (f := fun i => nth i t d).
  rewrite (nth_indep _ d (f 0)) by (rewrite map_length; exact Hr).
  rewrite (map_nth f). reflexivity. Qed.
End G.

(* gathering three tables with one index list = gathering the table of triples *)
Lemma gather_zip3 {R} (d : R) (P V E : list R) idx :
  length P = length V -> length V = length E -> (forall i, In i idx -> i < length P) ->
  combine (gather d P idx) (combine (gather d V idx) (gather d E idx)) =
  gather (d, (d, d)) (combine P (combine V E)) idx.
Proof. intros H1 H2 Hi. unfold gather. induction idx as [|i idx IH]; cbn [map combine]; [reflexivity|].
  rewrite IH by (intros j Hj; apply Hi; right; exact Hj). f_equal.
  rewrite !combine_nth by (rewrite ?combine_length; lia). reflexivity. Qed.

(* a slice of a permutation of 0..n-1 only holds valid, pairwise distinct row numbers *)
Lemma slice_of_perm_valid n (l : list nat) s b i :
  Permutation l (seq 0 n) -> In i (slice (A:=nat) s b l) -> i < n.
Proof. intros Hp Hin. unfold slice in Hin. apply In_firstn, In_skipn in Hin.
  apply (Permutation_in _ Hp) in Hin. apply in_seq in Hin. lia. Qed.
Lemma slice_of_perm_nodup n (l : list nat) s b :
  Permutation l (seq 0 n) -> NoDup (slice (A:=nat) s b l).
Proof. intro Hp. assert (Hn : NoDup l) by (eapply Permutation_NoDup; [apply Permutation_sym; exact Hp|apply seq_NoDup]).
  unfold slice. remember (Z.to_nat s) as a. remember (Z.to_nat b) as c. clear Heqa Heqc.
  assert (Hs : NoDup (skipn a l)).
  { rewrite <- (firstn_skipn a l) in Hn. apply NoDup_app_r in Hn. exact Hn. }
  rewrite <- (firstn_skipn c (skipn a l)) in Hs. apply NoDup_app_l in Hs. exact Hs. Qed.

Lemma multi_batch_nth {L B} (batch : L -> B) (empty : B) (ls : list (option L)) k :
  k < length ls ->
  nth k (multi_batch batch empty ls) empty = match nth k ls None with Some l => batch l | None => empty end.
Proof. intro Hk. unfold multi_batch.
  set (f := fun o : option L => match o with Some l => batch l | None => empty end).
  change empty with (f None) at 1. rewrite (map_nth f). reflexivity. Qed.

(* one call of the observation loader: a single list of valid, pairwise distinct row numbers
   indexes the three tables; the index vector stays a permutation of 0..n-1 *)
Section ObsGet.
Context {R : Type}.
Variable d : R.
Variable G : cursor_gen.
Variable perm : nat -> list nat -> list nat.
Hypothesis perm_ok : forall r l, Permutation (perm r l) l.
Variables (P V E : list R) (b : Z).
Let n := length P.
Hypothesis Hb : (1 <= b <= Z.of_nat n)%Z.
Lemma obs_get_spec (c : @cst nat) : Permutation (store c) (seq 0 n) ->
  let '(c', (p, v, e)) := obs_get d G perm P V E b c in
  exists idx, length idx = Z.to_nat b /\ NoDup idx /\ (forall i, In i idx -> i < n) /\
              p = gather d P idx /\ v = gather d V idx /\ e = gather d E idx /\
              Permutation (store c') (seq 0 n).
Proof. intro Hp. unfold obs_get. fold n.
  destruct (get G perm b (g_neff G (Z.of_nat n)) c) as [c' idx] eqn:Eg.
  assert (Hc' : Permutation (store c') (seq 0 n)).
  { unfold get in Eg. injection Eg as Ec _. subst c'.
    destruct (do_reset G b (g_neff G (Z.of_nat n)) c); cbn [store]; [|exact Hp].
    eapply Permutation_trans; [apply perm_ok|exact Hp]. }
  assert (Hi : idx = dyn_slice (M_datagen.idx c') b (store c')).
  { unfold get in Eg. injection Eg as Ec Ei. subst c'. symmetry. exact Ei. }
  exists idx. subst idx. unfold dyn_slice. repeat split; try reflexivity.
  - unfold slice. rewrite firstn_length, skipn_length. rewrite (Permutation_length Hc'), seq_length.
    unfold clampZ. lia.
  - eapply slice_of_perm_nodup. exact Hc'.
  - intros i Hin. eapply slice_of_perm_valid; eassumption.
  - exact Hc'. Qed.
End ObsGet.
