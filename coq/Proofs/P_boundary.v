(* Proofs/P_boundary.v -- C04: outward normals, return-shape independence *)
From Coq Require Import List Arith Bool ZArith QArith Lqa Lia.
From JV Require Import Kit.Field Kit.Expr Model.M_operators Model.M_boundary.
Import ListNotations.

(* ---- the tables are the OUTWARD unit normals of the box, facets ordered xmin, xmax, ymin, ymax ---- *)
Open Scope Q_scope.
Definition zq (z : Z) : Q := inject_Z z.
Definition nq1 (n1d : list Z) (facet : nat) : Q := zq (nth facet n1d 0%Z).
Definition nq2 (n2d : list (list Z)) (facet : nat) : Q * Q :=
  (zq (nth facet (nth 0 n2d []) 0%Z), zq (nth facet (nth 1 n2d []) 0%Z)).
(* 1-D: facet 0 is x = a, facet 1 is x = b *)
Definition outward_1d (n1d : list Z) : Prop :=
  forall (a b eps : Q), a < b -> 0 < eps ->
    (let p := a in let n := nq1 n1d 0 in ~ (a <= p + eps * n <= b) /\ (eps <= b - a -> a <= p - eps * n <= b)) /\
    (let p := b in let n := nq1 n1d 1 in ~ (a <= p + eps * n <= b) /\ (eps <= b - a -> a <= p - eps * n <= b)) /\
    nq1 n1d 0 * nq1 n1d 0 == 1 /\ nq1 n1d 1 * nq1 n1d 1 == 1.
Lemma outward_1d_ok : outward_1d [(-1)%Z; 1%Z].
Proof. intros a b eps Hab He. unfold nq1, zq, inject_Z. cbn [nth]. cbv zeta. repeat split; try (intros [H1 H2]; lra); try (intros; lra). Qed.
(* 2-D box [a0, b0] x [a1, b1]; facets: x = a0, x = b0, y = a1, y = b1; q is the free coordinate *)
Definition on_facet (a0 b0 a1 b1 : Q) (facet : nat) (q : Q) : Q * Q :=
  match facet with 0%nat => (a0, q) | 1%nat => (b0, q) | 2%nat => (q, a1) | _ => (q, b1) end.
Definition in_box (a0 b0 a1 b1 : Q) (p : Q * Q) : Prop := a0 <= fst p <= b0 /\ a1 <= snd p <= b1.
Definition outward_2d (n2d : list (list Z)) : Prop :=
  forall (a0 b0 a1 b1 eps q : Q) (facet : nat), (facet < 4)%nat -> a0 < b0 -> a1 < b1 -> 0 < eps ->
    (match facet with 0%nat | 1%nat => a1 <= q <= b1 | _ => a0 <= q <= b0 end) ->
    let p := on_facet a0 b0 a1 b1 facet q in let n := nq2 n2d facet in
    ~ in_box a0 b0 a1 b1 (fst p + eps * fst n, snd p + eps * snd n) /\
    (eps <= b0 - a0 -> eps <= b1 - a1 -> in_box a0 b0 a1 b1 (fst p - eps * fst n, snd p - eps * snd n)) /\
    fst n * fst n + snd n * snd n == 1.
Lemma outward_2d_ok : outward_2d [[(-1)%Z; 1%Z; 0%Z; 0%Z]; [0%Z; 0%Z; (-1)%Z; 1%Z]].
Proof. intros a0 b0 a1 b1 eps q facet Hf H0 H1 He Hq.
  destruct facet as [|[|[|[|f]]]]; [| | | |lia]; unfold nq2, zq, in_box, on_facet, inject_Z; cbn [nth fst snd] in *;
  cbv zeta; repeat split; try (intros [[H2 H3] [H4 H5]]; cbn [fst snd] in *; lra); try (intros; cbn [fst snd] in *; lra). Qed.
Close Scope Q_scope.

(* ---- the value does not depend on whether f returns a scalar or a length-one array ---- *)
Section S.
Variable F : fld.
Add Field Ffb : (Kfield F).
Open Scope K_scope.
Lemma neumann_shape_independent grad_u nrm y :
  neumann_point F grad_u nrm (FScalar y) = neumann_point F grad_u nrm (FVec [y]).
Proof. reflexivity. Qed.
Lemma dirichlet_shape_independent uvals lo hi y :
  dirichlet_point F uvals lo hi (FScalar y) = dirichlet_point F uvals lo hi (FVec [y]).
Proof. reflexivity. Qed.
(* a facet without condition contributes nothing, a facet with one contributes its own term *)
Lemma boundary_term_cons w o facets :
  boundary_term F w (o :: facets) = (match o with Some vals => facet_term F w vals | None => k0 end) + boundary_term F w facets.
Proof. reflexivity. Qed.
End S.
