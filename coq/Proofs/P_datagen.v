(* Proofs/P_datagen.v -- C09: closed form of the batch cursor, epochs, served slices *)
From Coq Require Import ZArith List Bool Lia ZifyBool Permutation.
From JV Require Import Model.M_datagen.
Import ListNotations.
Ltac Zify.zify_post_hook ::= Z.to_euclidean_division_equations.
Open Scope Z_scope.

Definition int32_max : Z := 2147483647.

(* what the regenerated definitions must satisfy (discharged in Props by unfolding Gen) *)
Definition cursor_gen_ok (G : cursor_gen) : Prop :=
  (forall bend n, (if g_true_resets G then g_done G bend n else negb (g_done G bend n)) = (bend >=? n)) /\
  (forall i b, g_bend G i b = i + b) /\ (forall i b, g_incr G i b = i + b) /\ g_reset G = 0 /\
  (forall b m, 1 <= b <= m -> m <= int32_max - 1 -> m <= g_init G b + b <= int32_max) /\
  (forall n, g_neff G n = n) /\ g_wiring G = true.

Lemma mod_succ_wrap k m : 0 < m -> k mod m = m - 1 -> (k + 1) mod m = 0.
Proof. intros Hm H. rewrite Z.add_mod by lia. rewrite H.
  destruct (Z.eq_dec m 1) as [->|]; [reflexivity|].
  rewrite (Z.mod_small 1) by lia. replace (m - 1 + 1) with (1 * m) by lia. apply Z.mod_mul. lia. Qed.
Lemma mod_succ_nowrap k m : 0 < m -> k mod m + 1 < m -> (k + 1) mod m = k mod m + 1.
Proof. intros Hm H. pose proof (Z.mod_pos_bound k m Hm). rewrite Z.add_mod by lia.
  rewrite (Z.mod_small 1) by lia. apply Z.mod_small. lia. Qed.

Section S.
Context {A : Type}.
Variable G : cursor_gen.
Hypothesis Gok : cursor_gen_ok G.
Variable perm : nat -> list A -> list A.
Hypothesis perm_ok : forall r l, Permutation (perm r l) l.
Variables (b n_eff : Z).
Hypothesis Hb : 1 <= b <= n_eff.

Definition epoch_len : Z := (n_eff + b - 1) / b.
Notation e := epoch_len.
Notation st := (state G perm b n_eff).

Lemma e_bounds : (e - 1) * b < n_eff <= e * b.
Proof. unfold epoch_len. nia. Qed.
Lemma e_pos : 1 <= e. Proof. pose proof e_bounds. nia. Qed.

Lemma do_reset_spec (c : @cst A) : do_reset G b n_eff c = (idx c + b >=? n_eff).
Proof. destruct Gok as (Hd & Hbe & _). unfold do_reset. rewrite Hbe. apply Hd. Qed.

(* C09 (1): drawing batches only permutes the store *)
Lemma state_perm k (c : @cst A) : Permutation (store (st k c)) (store c).
Proof. induction k as [|k IH]; cbn [state]; [apply Permutation_refl|].
  unfold get. destruct (do_reset G b n_eff (st k c)); cbn [fst store]; [|exact IH].
  eapply Permutation_trans; [apply perm_ok|exact IH]. Qed.
Lemma state_length k (c : @cst A) : length (store (st k c)) = length (store c).
Proof. apply Permutation_length, state_perm. Qed.

(* C09 (2): closed form -- after call number k the cursor is (k mod e) * b, and call k
   reshuffles iff k mod e = 0, i.e. exactly when all points have been served *)
Lemma idx_closed (c : @cst A) (H0 : n_eff <= idx c + b) k :
  idx (st (S k) c) = (Z.of_nat k mod e) * b.
Proof.
  pose proof e_bounds as He. pose proof e_pos as He1.
  destruct Gok as (_ & _ & Hinc & Hres & _).
  induction k as [|k IHi].
  - cbn [state]. unfold get. rewrite do_reset_spec.
    replace (Z.of_nat 0 mod e) with 0 by (rewrite Z.mod_0_l; lia).
    destruct (idx c + b >=? n_eff) eqn:E; [cbn [fst idx]; lia|lia].
  - remember (S k) as k1. cbn [state]. unfold get. rewrite do_reset_spec. rewrite IHi. subst k1.
    assert (Hk : Z.of_nat (S k) = Z.of_nat k + 1) by lia. rewrite Hk.
    pose proof (mod_succ_wrap (Z.of_nat k) e) as Hw.
    pose proof (mod_succ_nowrap (Z.of_nat k) e) as Hnw.
    assert (Hj : 0 <= Z.of_nat k mod e < e) by (apply Z.mod_pos_bound; lia).
    remember (Z.of_nat k mod e) as j eqn:Ej. clear Ej IHi Hk.
    destruct (j * b + b >=? n_eff) eqn:E; cbn [fst idx].
    + assert (Hje : j = e - 1) by nia. rewrite Hw by lia. lia.
    + assert (Hlt : j + 1 < e) by nia. rewrite Hnw by lia. rewrite Hinc. ring.
Qed.
Lemma reshuffled_closed (c : @cst A) (H0 : n_eff <= idx c + b) k :
  reshuffled G perm b n_eff k c = (Z.of_nat k mod e =? 0).
Proof.
  pose proof e_bounds as He. pose proof e_pos as He1.
  unfold reshuffled. rewrite do_reset_spec. destruct k as [|k].
  - cbn [state]. rewrite Z.mod_0_l by lia. lia.
  - rewrite idx_closed by exact H0.
    assert (Hk : Z.of_nat (S k) = Z.of_nat k + 1) by lia. rewrite Hk.
    pose proof (mod_succ_wrap (Z.of_nat k) e) as Hw.
    pose proof (mod_succ_nowrap (Z.of_nat k) e) as Hnw.
    assert (Hj : 0 <= Z.of_nat k mod e < e) by (apply Z.mod_pos_bound; lia).
    remember (Z.of_nat k mod e) as j eqn:Ej. clear Ej Hk.
    destruct (j * b + b >=? n_eff) eqn:E.
    + assert (Hje : j = e - 1) by nia. rewrite Hw by lia. reflexivity.
    + assert (Hlt : j + 1 < e) by nia. rewrite Hnw by lia. lia.
Qed.
Lemma state_closed (c : @cst A) (H0 : n_eff <= idx c + b) k :
  idx (st (S k) c) = (Z.of_nat k mod e) * b /\ reshuffled G perm b n_eff k c = (Z.of_nat k mod e =? 0).
Proof. split; [apply idx_closed|apply reshuffled_closed]; exact H0. Qed.

(* within an epoch the store does not change *)
Lemma epoch_store_const (c : @cst A) (H0 : n_eff <= idx c + b) k :
  Z.of_nat (S k) mod e <> 0 -> store (st (S (S k)) c) = store (st (S k) c).
Proof. intro Hne. destruct (state_closed c H0 (S k)) as [_ Hr]. unfold reshuffled in Hr.
  cbn [state]. unfold get at 1. cbn [state] in Hr. rewrite Hr.
  destruct (Z.of_nat (S k) mod e =? 0) eqn:E; [lia|reflexivity]. Qed.

Section WithStore.
Variable l0 : list A.
Let n := Z.of_nat (length l0).
Hypothesis Hn : n_eff <= n.

(* the first call always reshuffles and never overflows int32 *)
Lemma init_forces_reshuffle : n_eff <= int32_max - 1 -> n_eff <= idx (init G l0 b) + b.
Proof. destruct Gok as (_ & _ & _ & _ & Hi & _). intros H. cbn [init idx]. apply (Hi b n_eff); lia. Qed.
Lemma init_no_overflow : n_eff <= int32_max - 1 -> idx (init G l0 b) + b <= int32_max.
Proof. destruct Gok as (_ & _ & _ & _ & Hi & _). intros H. cbn [init idx]. apply (Hi b n_eff); lia. Qed.

(* C09 (3): the slice served by call k *)
Definition served_start (j : Z) : Z := if j <? e - 1 then j * b else Z.min (j * b) (n - b).
Lemma batch_eq (c : @cst A) k :
  batch G perm b n_eff k c = dyn_slice (idx (st (S k) c)) b (store (st (S k) c)).
Proof. unfold batch. cbn [state]. unfold get. reflexivity. Qed.
Lemma batch_closed (c : @cst A) (Hc : length (store c) = length l0) (H0 : n_eff <= idx c + b) k :
  batch G perm b n_eff k c = slice (served_start (Z.of_nat k mod e)) b (store (st (S k) c)).
Proof. pose proof e_bounds as He. pose proof e_pos as He1.
  rewrite batch_eq. unfold dyn_slice. f_equal. rewrite state_length, Hc. fold n.
  rewrite idx_closed by exact H0.
  assert (Hj : 0 <= Z.of_nat k mod e < e) by (apply Z.mod_pos_bound; lia).
  unfold served_start, clampZ. destruct (Z.of_nat k mod e <? e - 1) eqn:E2; nia.
Qed.

(* C09 (4): one epoch covers every active index; exactly once when b divides n_eff *)
Lemma epoch_covers i : 0 <= i < n_eff -> exists j, 0 <= j < e /\ served_start j <= i < served_start j + b.
Proof. pose proof e_bounds as He. pose proof e_pos as He1. intro Hi.
  pose proof (Z.div_mod i b ltac:(lia)) as Hq. pose proof (Z.mod_pos_bound i b ltac:(lia)) as Hr.
  assert (Hq0 : 0 <= i / b) by (apply Z.div_pos; lia).
  remember (i / b) as q eqn:Eq. remember (i mod b) as r eqn:Er. clear Eq Er.
  destruct (Z_lt_ge_dec q (e - 1)) as [Hlt|Hge].
  - exists q. unfold served_start. replace (q <? e - 1) with true by lia.
    split; [lia|]. split; [rewrite Hq; nia|rewrite Hq; nia].
  - exists (e - 1). unfold served_start. replace (e - 1 <? e - 1) with false by lia.
    assert (e - 1 <= q) by lia. assert ((e - 1) * b <= q * b) by nia.
    split; [lia|]. split; [|]; lia. Qed.
Lemma divides_e : n_eff mod b = 0 -> e * b = n_eff.
Proof. intro Hd. apply Z.mod_divide in Hd; [|lia]. destruct Hd as [q Hq].
  unfold epoch_len. rewrite Hq. replace (q * b + b - 1) with (q * b + (b - 1)) by lia.
  rewrite Z.div_add_l by lia. rewrite Z.div_small by lia. lia. Qed.
Lemma epoch_unique_when_divides i j j' : n_eff mod b = 0 -> 0 <= j < e -> 0 <= j' < e ->
  served_start j <= i < served_start j + b -> served_start j' <= i < served_start j' + b -> j = j'.
Proof. intros Hd Hj Hj' H1 H2. pose proof (divides_e Hd) as Heq. unfold served_start in *.
  destruct (j <? e - 1) eqn:E1; destruct (j' <? e - 1) eqn:E2; nia. Qed.
Lemma no_clamp_when_divides j : n_eff mod b = 0 -> 0 <= j < e -> served_start j = j * b.
Proof. intros Hd Hj. pose proof (divides_e Hd). unfold served_start. destruct (j <? e - 1) eqn:E; nia. Qed.
End WithStore.
End S.

(* element level: the slices [j*b, j*b+b), j < m, concatenated are the first m*b elements,
   in order: when b divides n_eff one epoch serves every active point exactly once *)
Lemma firstn_add {A} (a c : nat) (l : list A) : firstn (a + c) l = firstn a l ++ firstn c (skipn a l).
Proof. revert l. induction a as [|a IH]; intro l; [reflexivity|].
  destruct l as [|x l]; cbn [Nat.add firstn skipn app]; [rewrite firstn_nil; reflexivity|].
  rewrite IH. reflexivity. Qed.
Lemma slices_concat {A} (l : list A) (b m : nat) :
  concat (map (fun j => slice (A:=A) (Z.of_nat (j * b)) (Z.of_nat b) l) (seq 0 m)) = firstn (m * b) l.
Proof. induction m as [|m IH]; [reflexivity|].
  rewrite seq_S, map_app, concat_app, IH. cbn [map concat Nat.add]. rewrite app_nil_r.
  unfold slice. rewrite !Nat2Z.id. replace (S m * b)%nat with (m * b + b)%nat by lia.
  symmetry. apply firstn_add. Qed.
