(* Proofs/P_lossterms.v -- C03: algebra of the batch-mean weighted squared residual *)
From Coq Require Import List Arith Bool Lia Permutation Field_theory Field Ring.
From JV Require Import Kit.Field Model.M_lossterms.
Import ListNotations.
Section P.
Variable F : fld.
Add Field Ff : (Kfield F).
Open Scope K_scope.
Hypothesis Hchar : char0 F.

Lemma total_sum terms : total F terms = sumK (map (opt_term F) terms).
Proof. unfold total. assert (G : forall acc, fold_left (fun a o => a + opt_term F o) terms acc = acc + sumK (map (opt_term F) terms)).
  { unfold sumK. induction terms as [|t r IH]; intro acc; cbn [fold_left map fold_right]; [ring|].
    rewrite IH. ring. }
  rewrite G. ring. Qed.
Lemma total_absent_is_zero : opt_term F None = k0. Proof. reflexivity. Qed.

(* the dynamic term written out: (1/|B|) sum_p sum_c w_c r_c(p)^2 *)
Lemma mse_term_def w res :
  mse_term F w res = sumK (map (fun r => sumK (map (fun p => wat F w (fst p) * (snd p * snd p)) (enumerate r))) res) / of_nat (length res).
Proof. unfold mse_term, meanK, wsum, sq. rewrite map_length. reflexivity. Qed.

Lemma sumK_lin {A} a b (f g : A -> F) l :
  sumK (map (fun x => a * f x + b * g x) l) = a * sumK (map f l) + b * sumK (map g l).
Proof. unfold sumK. induction l as [|x l IH]; cbn [map fold_right]; [ring|]. rewrite IH. ring. Qed.
Lemma mul_nonzero (a b : F) : a <> k0 -> b <> k0 -> a * b <> k0.
Proof. intros Ha Hb H. apply Hb. transitivity (kinv a * (a * b)).
  - transitivity ((kinv a * a) * b); [|ring]. rewrite (Finv_l (Kfield F)) by exact Ha. ring.
  - rewrite H. ring. Qed.
Lemma div_def (x y : F) : x / y = x * kinv y.
Proof. apply (Fdiv_def (Kfield F)). Qed.

(* linear in the weight: scalar weights ... *)
Lemma wsum_scalar_lin a b w w' r :
  wsum F (WScalar (a * w + b * w')) r = a * wsum F (WScalar w) r + b * wsum F (WScalar w') r.
Proof. unfold wsum. cbn [wat]. rewrite <- sumK_lin. apply sumK_map_ext. intros p _. ring. Qed.
(* ... and per-component weights *)
Definition wlin a b (w w' : list F) := map (fun p => a * fst p + b * snd p) (combine w w').
Lemma nth_wlin a b w w' c : length w = length w' -> nth c (wlin a b w w') k0 = a * nth c w k0 + b * nth c w' k0.
Proof. revert w' c. induction w as [|x w IH]; intros [|y w'] c Hl; cbn in *; try discriminate.
  - destruct c; ring.
  - destruct c; [reflexivity|]. apply IH. lia. Qed.
Lemma wsum_vec_lin a b w w' r : length w = length w' ->
  wsum F (WVec (wlin a b w w')) r = a * wsum F (WVec w) r + b * wsum F (WVec w') r.
Proof. intro Hl. unfold wsum. cbn [wat]. rewrite <- sumK_lin. apply sumK_map_ext. intros p _. rewrite nth_wlin by exact Hl. ring. Qed.
Lemma mean_lin {A} a b (f g h : A -> F) res : (forall r, h r = a * f r + b * g r) ->
  meanK (map h res) = a * meanK (map f res) + b * meanK (map g res).
Proof. intro H. unfold meanK. rewrite !map_length, !div_def.
  rewrite (sumK_map_ext F h (fun r => a * f r + b * g r)) by (intros; apply H). rewrite sumK_lin. ring. Qed.

(* C03: the dynamic term is linear in its weight *)
Theorem mse_scalar_weight_linear a b w w' res :
  mse_term F (WScalar (a * w + b * w')) res = a * mse_term F (WScalar w) res + b * mse_term F (WScalar w') res.
Proof. unfold mse_term. apply mean_lin. intro r. apply wsum_scalar_lin. Qed.
Theorem mse_vector_weight_linear a b w w' res : length w = length w' ->
  mse_term F (WVec (wlin a b w w')) res = a * mse_term F (WVec w) res + b * mse_term F (WVec w') res.
Proof. intro Hl. unfold mse_term. apply mean_lin. intro r. apply wsum_vec_lin. exact Hl. Qed.

(* ... invariant under permutation of the batch *)
Theorem mse_permutation w res res' : Permutation res res' -> mse_term F w res = mse_term F w res'.
Proof. intro Hp. unfold mse_term, meanK. rewrite !map_length, (Permutation_length Hp).
  f_equal. apply sumK_perm. apply Permutation_map. exact Hp. Qed.

(* ... and the average of its values on two equal halves of the batch *)
Theorem mse_halves w b1 b2 : length b1 = length b2 -> (0 < length b1)%nat ->
  mse_term F w (b1 ++ b2) = (mse_term F w b1 + mse_term F w b2) / (k1 + k1).
Proof. intros Hl Hpos. unfold mse_term, meanK. rewrite map_app, sumK_app, app_length, !map_length, <- Hl, of_nat_add.
  destruct (length b1) as [|n] eqn:E; [lia|].
  assert (H2 : of_nat (F:=F) 2 <> k0) by apply Hchar. cbn [of_nat] in H2.
  pose proof (Hchar n) as Hn. remember (of_nat (F:=F) (S n)) as m eqn:Em. clear Em.
  remember (sumK (map (wsum F w) b1)) as s1. remember (sumK (map (wsum F w) b2)) as s2.
  assert (H2' : k1 + k1 <> k0 :> F) by (intro H0; apply H2; transitivity (k1 + k1 : F); [ring|exact H0]).
  assert (H3 : m + m <> k0) by (intro H0; apply (mul_nonzero m (k1 + k1) Hn H2'); rewrite <- H0; ring).
  field. split; [exact Hn|]. split; [exact H2'|exact H3]. Qed.
End P.
