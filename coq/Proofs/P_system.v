(* Proofs/P_system.v -- C13 *)
From Coq Require Import List Arith Bool Lia Field Ring Field_theory.
From JV Require Import Kit.Field Kit.GenTypes Model.M_lossterms Model.M_params Model.M_system Proofs.P_lossterms.
Import ListNotations.
Section P.
Variable F : fld.
Add Field Ffs : (Kfield F).
Open Scope K_scope.

Lemma lookup_const {A} (x : A) keys k : In k keys -> lookup k (map (fun j => (j, x)) keys) = Some x.
Proof. unfold lookup. induction keys as [|j l IH]; [intros []|]. cbn [map find fst]. intros [->|Hin].
  - rewrite Nat.eqb_refl. reflexivity.
  - destruct (Nat.eqb j k); [reflexivity|apply IH; exact Hin]. Qed.
(* a scalar weight is the constant dictionary: every unknown (equation) gets that weight *)
Theorem scalar_weight_broadcasts x keys (singles : list (nat * F)) : (forall kv, In kv singles -> In (fst kv) keys) ->
  sys_term F (map (fun k => (k, x)) keys) singles = x * sumK (map snd singles).
Proof. intro H. unfold sys_term. rewrite <- sumK_map_scal. apply sumK_map_ext. intros kv Hkv.
  unfold wlook. rewrite lookup_const by (apply H; exact Hkv). reflexivity. Qed.
(* the dynamic term is the sum over equations of weight * batch-mean squared residual *)
Lemma mse_scalar w res : mse_term F (WScalar w) res = w * mse_term F (WScalar k1) res.
Proof. transitivity (w * mse_term F (WScalar k1) res + k0 * mse_term F (WScalar k1) res); [|ring].
  rewrite <- (mse_scalar_weight_linear F w k0 k1 k1 res). do 2 f_equal. ring. Qed.
Theorem sys_dyn_spec ws res :
  sys_dyn F ws res = sumK (map (fun kr => wlook F ws (fst kr) * mse_term F (WScalar k1) (snd kr)) res).
Proof. unfold sys_dyn. apply sumK_map_ext. intros kr _. apply mse_scalar. Qed.
(* one equation and one unknown: the plain loss *)
Theorem one_by_one k w res single :
  sys_dyn F [(k, w)] [(k, res)] = mse_term F (WScalar w) res /\ sys_term F [(k, w)] [(k, single)] = w * single.
Proof. assert (Hl : forall x : F, wlook F [(k, x)] k = x) by (intro x; unfold wlook, lookup; cbn [find fst snd]; rewrite Nat.eqb_refl; reflexivity).
  unfold sys_dyn, sys_term. cbn [map fst snd sumK fold_right]. rewrite !Hl. split; ring. Qed.
End P.
