(* Proofs/P_cart.v -- C14: indexing of the cartesian product, each pair exactly once *)
From Coq Require Import List Arith Bool Lia.
From JV Require Import Kit.GenTypes Model.M_cart.
Import ListNotations.
Section C.
Context {A : Type}.
Variable cat : A -> A -> A.

Lemma repeat_each_length m (b : list A) : length (repeat_each m b) = length b * m.
Proof. unfold repeat_each. induction b as [|r b IH]; cbn; [reflexivity|]. rewrite app_length, repeat_length, IH. lia. Qed.
Lemma tile_length m (b : list A) : length (tile m b) = m * length b.
Proof. induction m as [|k IH]; cbn; [reflexivity|]. rewrite app_length, IH. lia. Qed.
Lemma nth_repeat_lt (B : Type) (x d : B) n j : j < n -> nth j (repeat x n) d = x.
Proof. revert j. induction n as [|n IH]; intros [|j] Hj; cbn; try lia; [reflexivity|apply IH; lia]. Qed.
Lemma nth_repeat_each m (b : list A) i j d : i < length b -> j < m ->
  nth (i * m + j) (repeat_each m b) d = nth i b d.
Proof. unfold repeat_each. revert i. induction b as [|r b IH]; intros i Hi Hj; cbn in *; [lia|].
  destruct i as [|i].
  - cbn. rewrite app_nth1 by (rewrite repeat_length; lia). apply nth_repeat_lt. lia.
  - rewrite app_nth2 by (rewrite repeat_length; cbn; lia). rewrite repeat_length.
    replace (S i * m + j - m) with (i * m + j) by (cbn; lia). apply IH; lia. Qed.
Lemma nth_tile m (b : list A) i j d : i < m -> j < length b ->
  nth (i * length b + j) (tile m b) d = nth j b d.
Proof. revert i. induction m as [|k IH]; intros i Hi Hj; [lia|]. cbn [tile].
  destruct i as [|i].
  - cbn. rewrite app_nth1 by lia. reflexivity.
  - rewrite app_nth2 by (cbn; lia). replace (S i * length b + j - length b) with (i * length b + j) by (cbn; lia).
    apply IH; lia. Qed.

Theorem cart_length (b1 b2 : list A) : length (cart cat b1 b2) = length b1 * length b2.
Proof. unfold cart, cart_gen. cbn [expand]. rewrite map_length, combine_length, repeat_each_length, tile_length. lia. Qed.

(* row i*n2 + j of the product is row i of the first factor joined with row j of the second *)
Theorem cart_nth (b1 b2 : list A) i j d1 d2 : i < length b1 -> j < length b2 ->
  nth (i * length b2 + j) (cart cat b1 b2) (cat d1 d2) = cat (nth i b1 d1) (nth j b2 d2).
Proof. intros Hi Hj. unfold cart, cart_gen. cbn [expand].
  set (f := fun p : A * A => cat (fst p) (snd p)).
  change (cat d1 d2) with (f (d1, d2)). rewrite map_nth. unfold f.
  rewrite combine_nth by (rewrite repeat_each_length, tile_length; lia).
  cbn [fst snd]. rewrite nth_repeat_each, nth_tile by assumption. reflexivity. Qed.

(* (i, j) |-> i*n2 + j is a bijection between the pairs and the rows: every pair exactly once *)
Theorem cart_index_bijective n1 n2 k : k < n1 * n2 ->
  exists i j, i < n1 /\ j < n2 /\ k = i * n2 + j /\
  forall i' j', i' < n1 -> j' < n2 -> k = i' * n2 + j' -> i' = i /\ j' = j.
Proof. intro Hk. assert (Hn2 : n2 <> 0) by (intro; subst; lia).
  exists (k / n2), (k mod n2).
  pose proof (Nat.div_mod k n2 Hn2) as Hdm. pose proof (Nat.mod_upper_bound k n2 Hn2) as Hm.
  assert (Hd : k / n2 < n1) by (apply Nat.div_lt_upper_bound; lia).
  rewrite (Nat.mul_comm n2) in Hdm.
  remember (k / n2) as q eqn:Eq. remember (k mod n2) as r eqn:Er. clear Eq Er.
  split; [exact Hd|]. split; [exact Hm|]. split; [exact Hdm|].
  intros i' j' Hi' Hj' Hk'. subst k.
  assert (i' = q) by nia. subst i'. split; [reflexivity|lia]. Qed.

Theorem pairing_nth (b1 b2 : list A) i d1 d2 : length b1 = length b2 ->
  nth i (pairing cat b1 b2) (cat d1 d2) = cat (nth i b1 d1) (nth i b2 d2).
Proof. intro Hl. unfold pairing. set (f := fun p : A * A => cat (fst p) (snd p)).
  change (cat d1 d2) with (f (d1, d2)). rewrite map_nth. unfold f. rewrite combine_nth by exact Hl. reflexivity. Qed.
Lemma pairing_length (b1 b2 : list A) : length b1 = length b2 -> length (pairing cat b1 b2) = length b1.
Proof. intro Hl. unfold pairing. rewrite map_length, combine_length. lia. Qed.
End C.

(* a facet (or any row-wise projection h compatible with the concatenation) of a product is the
   product of the projected factors: each facet of the border batch is itself an exact product *)
Section H.
Context {A B : Type}.
Variables (cat : A -> A -> A) (cat' : B -> B -> B) (h1 h2 h : A -> B).
Hypothesis Hh : forall a b, h (cat a b) = cat' (h1 a) (h2 b).
Lemma map_repeat' (f : A -> B) x m : map f (repeat x m) = repeat (f x) m.
Proof. induction m as [|m IH]; cbn; [reflexivity|rewrite IH; reflexivity]. Qed.
Lemma map_repeat_each (f : A -> B) m l : map f (repeat_each m l) = repeat_each m (map f l).
Proof. unfold repeat_each. induction l as [|r l IH]; cbn; [reflexivity|]. rewrite map_app, IH, map_repeat'. reflexivity. Qed.
Lemma map_tile (f : A -> B) m l : map f (tile m l) = tile m (map f l).
Proof. induction m as [|m IH]; cbn; [reflexivity|]. rewrite map_app, IH. reflexivity. Qed.
Lemma map_combine_pair (l1 l2 : list A) :
  map (fun p => h (cat (fst p) (snd p))) (combine l1 l2) =
  map (fun p => cat' (fst p) (snd p)) (combine (map h1 l1) (map h2 l2)).
Proof. revert l2. induction l1 as [|a l1 IH]; intros [|b l2]; cbn; try reflexivity. rewrite Hh, IH. reflexivity. Qed.
Theorem cart_projection (b1 b2 : list A) : map h (cart cat b1 b2) = cart cat' (map h1 b1) (map h2 b2).
Proof. unfold cart, cart_gen. cbn [expand]. rewrite map_map, map_combine_pair, map_repeat_each, map_tile, !map_length. reflexivity. Qed.
End H.
