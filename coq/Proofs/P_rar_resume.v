(* Proofs/P_rar_resume.v -- C16 / C17 for resumed training: a generator that has already made J0 refinement steps is
   handed to a new training call.  init_rar only re-arms the period counter (obligation on the regenerated init_rar);
   iteration numbers restart at 0.  The concrete machine then projects onto the abstract machine started at J0, so
   steps happen at start + j * every of the new call while a full set fits, the step count after k iterations is
   min(cap, J0 + scheduled(k)), and the masks stay prefix masks with n_start + J * sel active entries -- hence every
   later step again only writes inactive slots (C17_only_inactive_slots_written applies to each of them). *)
From Coq Require Import ZArith List Bool Lia ZifyBool.
From JV Require Import Kit.Lists Model.M_datagen Model.M_rar Proofs.P_rar_sched Proofs.P_rar.
Import ListNotations.
Open Scope Z_scope.
Section Resume.
Context {A : Type}.
Variable G : rar_gen.
Hypothesis Gok : rar_gen_ok G.
Variables (start every : Z) (pt px : dpar).
Hypothesis Hev : 1 <= every. Hypothesis Hst : 0 <= start.
Hypothesis Hpt : par_ok pt. Hypothesis Hpx : par_ok px.
Notation cap := (cap_of G pt px).
Variable sel : Z -> list A * list A.
Variable J0 : Z.
Hypothesis HJ0 : 0 <= J0 <= cap.
(* what init_rar returns for a generator that has made J0 steps: counter re-armed, everything else kept *)
Variable s0 : @rst A.
Hypothesis Hs0 : cnt s0 = every - 1 /\ J s0 = J0 /\ dinv (r_t G) pt J0 (st_t s0) /\ dinv (r_x G) px J0 (st_x s0).

Lemma simulation_from k : let s := run G start every pt px sel s0 k in
  (cnt s, J s) = arun_from start every cap J0 k /\ 0 <= J s <= cap /\
  dinv (r_t G) pt (J s) (st_t s) /\ dinv (r_x G) px (J s) (st_x s) /\
  proceed G start every pt px (Z.of_nat k) s = aproceed start every cap (Z.of_nat k) (cnt s) (J s).
Proof.
  destruct Gok as (Hbu & Hpe & Hin & Hco & _ & _ & _ & HnJ & Hsc & _ & Ht & Hx & Hsome).
  assert (Hcapt : match r_t G with Some _ => cap <= dcap pt | None => True end)
    by (unfold cap_of; destruct (r_t G), (r_x G); try exact I; lia).
  assert (Hcapx : match r_x G with Some _ => cap <= dcap px | None => True end)
    by (unfold cap_of; destruct (r_t G), (r_x G); try exact I; lia).
  assert (Hpro : forall i (s : @rst A), 0 <= J s <= cap -> dinv (r_t G) pt (J s) (st_t s) -> dinv (r_x G) px (J s) (st_x s) ->
            proceed G start every pt px i s = aproceed start every cap i (cnt s) (J s)).
  { intros i s HJ Hit Hix. unfold proceed, aproceed. rewrite Hbu, Hpe. rewrite <- !andb_assoc. do 2 f_equal.
    unfold cap_of in *. destruct (r_t G) as [gt|] eqn:Et; destruct (r_x G) as [gx|] eqn:Ex.
    - rewrite (dim_ok_spec (Some gt) pt (fun a _ => a) (J s)), (dim_ok_spec (Some gx) px (fun _ b => b) (J s));
        try assumption; try (cbn [dim_ok]; lia).
    - rewrite (dim_ok_spec (Some gt) pt (fun a _ => a) (J s)); try assumption; try (cbn [dim_ok]; lia).
    - rewrite (dim_ok_spec (Some gx) px (fun _ b => b) (J s)); try assumption; try (cbn [dim_ok]; lia).
    - destruct Hsome as [H|H]; congruence. }
  induction k as [|k IH].
  - cbn [run arun_from]. destruct Hs0 as (H1 & H2 & H3 & H4). rewrite H1, H2.
    split; [reflexivity|]. split; [lia|]. split; [exact H3|]. split; [exact H4|].
    rewrite <- H1, <- H2 at 1. apply Hpro; rewrite ?H2; try assumption; lia.
  - cbn zeta in IH. destruct IH as (Har & HJ & Hit & Hix & Hp).
    cbn [run arun_from]. set (s := run G start every pt px sel s0 k) in *.
    rewrite <- Har. unfold atrig. unfold trigger. rewrite Hp.
    destruct (aproceed start every cap (Z.of_nat k) (cnt s) (J s)) eqn:Ea.
    + assert (HJlt : J s < cap) by (unfold aproceed in Ea; lia).
      cbn [cnt J st_t st_x]. rewrite Hsc, HnJ.
      assert (Hit' : dinv (r_t G) pt (J s + 1) (dim_step pt px (r_t G) pt (J s) (fst (sel (Z.of_nat k))) (st_t s))).
      { destruct (r_t G) eqn:Et; [|exact I]. apply (dim_step_mask _ _ _ pt (fun a _ => a)); try assumption; try reflexivity; lia. }
      assert (Hix' : dinv (r_x G) px (J s + 1) (dim_step pt px (r_x G) px (J s) (snd (sel (Z.of_nat k))) (st_x s))).
      { destruct (r_x G) eqn:Ex; [|exact I]. apply (dim_step_mask _ _ _ px (fun _ b => b)); try assumption; try reflexivity; lia. }
      split; [reflexivity|]. split; [lia|]. split; [exact Hit'|]. split; [exact Hix'|].
      match goal with |- proceed _ _ _ _ _ ?i ?s' = _ => apply (Hpro i s') end; cbn [J st_t st_x]; rewrite ?HnJ; try assumption; lia.
    + cbn [cnt J st_t st_x]. rewrite Hco, Hin.
      split; [reflexivity|]. split; [lia|]. split; [exact Hit|]. split; [exact Hix|].
      match goal with |- proceed _ _ _ _ _ ?i ?s' = _ => apply (Hpro i s') end; cbn [J st_t st_x]; try assumption; lia.
Qed.

Notation st k := (run G start every pt px sel s0 k).
(* steps done after k iterations of the resumed call: the earlier J0 plus the scheduled ones, capped *)
Theorem resumed_steps_done k : J (st k) = Z.min cap (J0 + sched start every (Z.of_nat k)).
Proof. destruct (simulation_from k) as (Har & _).
  pose proof (schedule_from start every cap J0 Hev Hst HJ0 k) as H. rewrite <- Har in H. exact H. Qed.
(* a step at iteration k of the resumed call iff k = start + j * every and a full set still fits *)
Theorem resumed_step_schedule k :
  stepped G start every pt px sel s0 k =
  (start <=? Z.of_nat k) && ((Z.of_nat k - start) mod every =? 0) && (J0 + sched start every (Z.of_nat k) <? cap).
Proof. destruct (simulation_from k) as (Har & _ & _ & _ & Hp). unfold stepped. rewrite Hp.
  pose proof (step_iff_from start every cap J0 Hev Hst HJ0 k) as H. rewrite <- Har in H. exact H. Qed.
(* the masks stay the prefix masks of the current step count (so earlier refinements stay active) *)
Theorem resumed_masks k : dinv (r_t G) pt (J (st k)) (st_t (st k)) /\ dinv (r_x G) px (J (st k)) (st_x (st k)).
Proof. destruct (simulation_from k) as (_ & _ & Ht & Hx & _). split; assumption. Qed.
End Resume.
