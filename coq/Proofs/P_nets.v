(* Proofs/P_nets.v -- C10 *)
From Coq Require Import List Arith Bool Lia.
From JV Require Import Kit.Field Kit.Lists Model.M_nets.
Import ListNotations.
Section P.
Variable F : fld.
Open Scope K_scope.

(* the wrapper always returns an array with a trailing component axis *)
Lemma at_least_1d_nonempty_scalar (x : F) : at_least_1d F (Sc x) = [x]. Proof. reflexivity. Qed.

(* slot m0 of the feature vector: entries m0*r .. m0*r + r - 1 *)
Lemma slot_slice_nth r m0 (f : list F) z : z < r -> (m0 * r + r <= length f) ->
  nth z (slot_slice F r m0 f) k0 = nth (m0 * r + z) f k0.
Proof. intros Hz Hl. unfold slot_slice. rewrite nth_firstn_lt by exact Hz. apply nth_skipn. Qed.
(* separable network: entry (i_1 .. i_d), slot m0 is sum_{z < r} prod_k f_k(x_{i_k})[m0 r + z] *)
Theorem spinn_entry_spec r feats idx m0 :
  (forall k i, length (nth i (nth k feats []) []) >= m0 * r + r \/ True) ->
  Forall (fun p => m0 * r + r <= length (nth (snd p) (fst p) [])) (combine feats idx) ->
  spinn_entry F r feats idx m0 =
  sumK (map (fun z => prodK F (map (fun p => nth (m0 * r + z) (nth (snd p) (fst p) []) k0) (combine feats idx))) (seq 0 r)).
Proof. intros _ Hall. unfold spinn_entry. apply sumK_map_ext. intros z Hz. apply in_seq in Hz. f_equal.
  apply map_ext_in. intros p Hp. apply slot_slice_nth; [lia|]. exact (proj1 (Forall_forall _ _) Hall p Hp). Qed.

(* hyper-network: splitting the concatenation of the leaves at their sizes gives the leaves back,
   in parameter-leaf order *)
Theorem split_concat {A} (leaves : list (list A)) : split_sizes (map (@length A) leaves) (concat leaves) = leaves.
Proof. induction leaves as [|l ls IH]; cbn [map concat split_sizes]; [reflexivity|].
  rewrite firstn_app, Nat.sub_diag, firstn_all. cbn [firstn]. rewrite app_nil_r.
  rewrite skipn_app, Nat.sub_diag, skipn_all. cbn [skipn app]. rewrite IH. reflexivity. Qed.
(* leaf j receives the segment [cum_{j-1}, cum_j) of the flat vector *)
Theorem split_segment {A} (sizes : list nat) (flat : list A) j : j < length sizes ->
  nth j (split_sizes sizes flat) [] = firstn (nth j sizes 0) (skipn (fold_right Nat.add 0 (firstn j sizes)) flat).
Proof. revert flat j. induction sizes as [|s rest IH]; intros flat j Hj; [cbn in Hj; lia|].
  destruct j as [|j]; cbn [split_sizes nth firstn fold_right]; [reflexivity|].
  rewrite IH by (cbn in Hj; lia). f_equal. rewrite skipn_add. reflexivity. Qed.
End P.
