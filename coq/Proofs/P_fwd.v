(* Proofs/P_fwd.v -- C11 *)
From Coq Require Import List Arith Bool Lia.
From JV Require Import Kit.Field Kit.Expr Kit.Lists Model.M_operators Model.M_fwd Proofs.P_operators.
Import ListNotations.
Section P.
Variable F : fld.
Add Field Fff : (Kfield F).
Variable prim : nat -> F -> F.
Variable dp : nat -> nat.
Notation ev := (ev prim). Notation D := (D dp).
Open Scope K_scope.

Lemma sum_one_hot_gen i (g : nat -> F) n : forall s,
  sumK (map (fun j => (if Nat.eqb i j then k1 else k0) * g j) (seq s n)) =
  if (s <=? i) && (i <? s + n) then g i else k0.
Proof. unfold sumK. induction n as [|n IH]; intro s; cbn [seq map fold_right].
  - replace ((s <=? i) && (i <? s + 0)) with false by (symmetry; apply Bool.andb_false_iff; destruct (Nat.leb_spec s i); [right; apply Nat.ltb_ge; lia|left; reflexivity]). reflexivity.
  - rewrite IH. destruct (Nat.eqb i s) eqn:E.
    + apply Nat.eqb_eq in E. subst s.
      replace ((S i <=? i) && (i <? S i + n)) with false by (symmetry; apply Bool.andb_false_iff; left; apply Nat.leb_gt; lia).
      replace ((i <=? i) && (i <? i + S n)) with true by (symmetry; apply Bool.andb_true_iff; split; [apply Nat.leb_le|apply Nat.ltb_lt]; lia). ring.
    + apply Nat.eqb_neq in E.
      replace ((s <=? i) && (i <? s + S n)) with ((S s <=? i) && (i <? S s + n)).
      * ring.
      * destruct (Nat.leb_spec (S s) i), (Nat.leb_spec s i), (Nat.ltb_spec i (S s + n)), (Nat.ltb_spec i (s + S n)); try reflexivity; lia. Qed.
Lemma sum_one_hot d i (g : nat -> F) : i < d ->
  sumK (map (fun j => (if Nat.eqb i j then k1 else k0) * g j) (seq 0 d)) = g i.
Proof. intro Hi. rewrite sum_one_hot_gen. replace ((0 <=? i) && (i <? 0 + d)) with true; [reflexivity|].
  symmetry. apply Bool.andb_true_iff. split; [apply Nat.leb_le|apply Nat.ltb_lt]; lia. Qed.
(* a jvp with the i-th one-hot tangent is the partial derivative w.r.t. x_i *)
Theorem jvp_one_hot has_t d i e env : i < d ->
  ev env (jvp F dp has_t d (one_hot F d i) e) = ev env (D (xvar has_t i) e).
Proof. intro Hi. unfold jvp. rewrite ev_sumE, map_map.
  rewrite (sumK_map_ext F _ (fun j => (if Nat.eqb i j then k1 else k0) * ev env (D (xvar has_t j) e))).
  - apply (sum_one_hot d i (fun j => ev env (D (xvar has_t j) e)) Hi).
  - intros j Hj. apply in_seq in Hj. cbn [Expr.ev]. f_equal. unfold one_hot.
    rewrite (nth_indep _ k0 ((fun j0 => if Nat.eqb i j0 then k1 else k0) 0)) by (rewrite map_length, seq_length; lia).
    rewrite (map_nth (fun j0 => if Nat.eqb i j0 then @k1 F else k0)). rewrite seq_nth by lia. reflexivity. Qed.
Lemma D_jvp_one_hot has_t d i e env v : i < d ->
  ev env (D v (jvp F dp has_t d (one_hot F d i) e)) = ev env (D v (D (xvar has_t i) e)).
Proof. intro Hi. unfold jvp. rewrite D_sumE, ev_sumE, !map_map.
  rewrite (sumK_map_ext F _ (fun j => (if Nat.eqb i j then k1 else k0) * ev env (D v (D (xvar has_t j) e)))).
  - apply (sum_one_hot d i (fun j => ev env (D v (D (xvar has_t j) e))) Hi).
  - intros j Hj. apply in_seq in Hj. cbn [Expr.D Expr.ev]. unfold one_hot.
    rewrite (nth_indep _ k0 ((fun j0 => if Nat.eqb i j0 then k1 else k0) 0)) by (rewrite map_length, seq_length; lia).
    rewrite (map_nth (fun j0 => if Nat.eqb i j0 then @k1 F else k0)). rewrite seq_nth by lia. cbn [Nat.add]. ring. Qed.

(* forward-mode operators equal the reverse-mode ones on the same function *)
Theorem laplacian_fwd_is_rev has_t d u env :
  ev env (laplacian_fwd F dp has_t d u) = ev env (laplacian_rev F dp has_t d u).
Proof. rewrite (laplacian_rev_spec F prim dp). unfold laplacian_fwd. rewrite ev_sumE, map_map.
  apply sumK_map_ext. intros i Hi. apply in_seq in Hi. rewrite jvp_one_hot by lia. apply D_jvp_one_hot. lia. Qed.
Theorem div_fwd_is_rev has_t d u env :
  ev env (div_fwd F dp has_t d u) = ev env (div_rev F dp has_t d u).
Proof. rewrite (div_rev_spec F prim dp). unfold div_fwd. rewrite ev_sumE, map_map.
  apply sumK_map_ext. intros i Hi. apply in_seq in Hi. apply jvp_one_hot. lia. Qed.
End P.

(* grid axes: entry (i_1 .. i_d) of the ij-meshgrid is (col_1[i_1], .., col_d[i_d]) *)
Lemma grid_flat_length {A} (cols : list (list A)) : length (grid_flat cols) = fold_right Nat.mul 1 (map (@length A) cols).
Proof. induction cols as [|c rest IH]; [reflexivity|]. cbn [grid_flat map fold_right].
  induction c as [|x c IHc]; [reflexivity|]. cbn [flat_map length]. rewrite app_length, map_length, IHc, IH. lia. Qed.
Theorem grid_flat_nth {A} (d0 : A) (cols : list (list A)) (idx : list nat) :
  length idx = length cols -> Forall2 (fun i c => i < length c) idx cols ->
  nth (flat_index (map (@length A) cols) idx) (grid_flat cols) [] = map (fun p => nth (fst p) (snd p) d0) (combine idx cols).
Proof. revert idx. induction cols as [|c rest IH]; intros idx Hl Hall.
  - destruct idx; [reflexivity|discriminate].
  - destruct idx as [|i is_]; [discriminate|]. inversion Hall as [|? ? ? ? Hi Hrest]; subst.
    cbn [map flat_index combine grid_flat fst snd]. set (m := fold_right Nat.mul 1 (map (@length A) rest)).
    assert (Hm : length (grid_flat rest) = m) by apply grid_flat_length.
    assert (Hf : flat_index (map (@length A) rest) is_ < m).
    { clear IH Hl Hall Hi. unfold m. revert Hrest. generalize rest. induction is_ as [|j js IHj]; intros r Hr.
      - inversion Hr; subst. cbn. lia.
      - inversion Hr as [|? c0 ? r0 Hj Hr']; subst. cbn [map flat_index fold_right].
        specialize (IHj r0 Hr'). set (mm := fold_right Nat.mul 1 (map (@length A) r0)) in *. nia. }
    assert (Hl' : length is_ = length rest) by (cbn in Hl; lia). clear Hl Hall.
    revert i Hi. induction c as [|x c IHc]; intros i Hi; [cbn in Hi; lia|].
    cbn [flat_map]. destruct i as [|i].
    + cbn [Nat.mul Nat.add nth]. rewrite app_nth1 by (rewrite map_length, Hm; exact Hf).
      rewrite (nth_indep _ [] (cons x [])) by (rewrite map_length, Hm; exact Hf). rewrite map_nth.
      rewrite IH by (try exact Hl'; exact Hrest). reflexivity.
    + rewrite app_nth2 by (rewrite map_length, Hm; nia). rewrite map_length, Hm.
      replace (S i * m + flat_index (map (@length A) rest) is_ - m) with (i * m + flat_index (map (@length A) rest) is_) by nia.
      cbn [nth]. apply IHc. cbn in Hi. lia. Qed.
