(* Proofs/P_validation.v -- C19: the built-in validation module *)
From Coq Require Import ZArith List Bool Lia ZifyBool QArith.
From JV Require Import Kit.GenTypes Model.M_solve.
Import ListNotations.
Open Scope Z_scope.

Definition vl_gen_ok (Gv : vl_gen) : Prop :=
  v_improves Gv = QLt /\ v_reset Gv = 0 /\ (forall c, v_incr Gv c = c + 1) /\
  (forall o n p e, v_stop Gv o n p e = (o =? p) && e) /\ v_wiring Gv = true.

Definition qlt (a b : Q) : bool := negb (Qle_bool b a).
(* strict new minimum w.r.t. everything seen before (None = nothing seen, best = +inf) *)
Definition below_best (v : Q) (best : option Q) : bool := match best with None => true | Some b => qlt v b end.

Section V.
Variable Gv : vl_gen.
Hypothesis Gok : vl_gen_ok Gv.
Variables (patience : Z) (early : bool).

Lemma vl_call_spec s v :
  vl_call Gv patience early s v =
  (if below_best v (vbest s) then {| vcounter := 0; vbest := Some v |}
   else {| vcounter := vcounter s + 1; vbest := vbest s |},
   (vcounter s =? patience) && early, below_best v (vbest s)).
Proof. destruct Gok as (Hi & Hr & Hinc & Hst & _). unfold vl_call. rewrite Hi, Hr, Hst, Hinc.
  unfold below_best, cmp_q, qlt. destruct (vbest s) as [b|]; [|reflexivity].
  destruct (negb (Qle_bool b v)); reflexivity. Qed.

(* the best value is the minimum of the values seen, and is one of them *)
Definition is_min (best : option Q) (seen : list Q) : Prop :=
  match best with None => seen = [] | Some b => In b seen /\ forall w, In w seen -> Qle_bool b w = true end.
Lemma best_stays_min s v seen : is_min (vbest s) seen ->
  is_min (vbest (fst (fst (vl_call Gv patience early s v)))) (seen ++ [v]).
Proof. intro H. rewrite vl_call_spec. cbn [fst]. unfold below_best, qlt. destruct (vbest s) as [b|] eqn:Eb; cbn in *.
  - destruct H as [Hin Hmin]. destruct (Qle_bool b v) eqn:E; cbn [negb vbest].
    + try rewrite Eb. cbn. split; [apply in_or_app; left; exact Hin|]. intros w Hw. apply in_app_or in Hw as [Hw|[<-|[]]]; [apply Hmin; exact Hw|exact E].
    + split; [apply in_or_app; right; left; reflexivity|]. intros w Hw. apply in_app_or in Hw as [Hw|[<-|[]]].
      * apply Qle_bool_iff. apply Qle_trans with b.
        -- apply Qlt_le_weak. apply Qnot_le_lt. intro Hle. apply Qle_bool_iff in Hle. congruence.
        -- apply Qle_bool_iff. apply Hmin. exact Hw.
      * apply Qle_bool_iff. apply Qle_refl.
  - subst seen. cbn. split; [left; reflexivity|]. intros w [<-|[]]. apply Qle_bool_iff. apply Qle_refl. Qed.

(* number of consecutive non-improving invocations at the end of a script *)
Fixpoint run_len (flags : list bool) (acc : Z) : Z :=
  match flags with [] => acc | true :: r => run_len r 0 | false :: r => run_len r (acc + 1) end.
Fixpoint final_state (s : vl_state) (vs : list Q) : vl_state :=
  match vs with [] => s | v :: r => final_state (fst (fst (vl_call Gv patience early s v))) r end.
Lemma counter_is_run_len s vs :
  vcounter (final_state s vs) = run_len (map snd (vl_run Gv patience early s vs)) (vcounter s).
Proof. revert s. induction vs as [|v r IH]; intro s; cbn [final_state vl_run map]; [reflexivity|].
  destruct (vl_call Gv patience early s v) as [[s' stop] imp] eqn:E. cbn [fst snd map].
  rewrite IH. rewrite vl_call_spec in E. injection E as <- _ <-.
  destruct (below_best v (vbest s)); cbn [run_len vcounter]; reflexivity. Qed.

(* a stop is requested at an invocation iff early stopping is enabled and the counter before it,
   i.e. the number of consecutive non-improving invocations just before it, equals patience *)
Lemma stop_request pre s0 v :
  snd (fst (vl_call Gv patience early (final_state s0 pre) v)) =
  early && (run_len (map snd (vl_run Gv patience early s0 pre)) (vcounter s0) =? patience).
Proof. rewrite vl_call_spec. cbn [fst snd]. rewrite counter_is_run_len. apply andb_comm. Qed.
Lemma never_stops_when_disabled s vs : early = false -> forallb (fun p => negb (fst p)) (vl_run Gv patience early s vs) = true.
Proof. intro He. revert s. induction vs as [|v r IH]; intro s; cbn [vl_run]; [reflexivity|].
  destruct (vl_call Gv patience early s v) as [[s' stop] imp] eqn:E. rewrite vl_call_spec in E. injection E as Es Est Ei.
  assert (Hs : stop = false) by (rewrite <- Est, He; apply andb_false_r).
  cbn [forallb fst]. rewrite Hs. cbn. apply IH. Qed.
End V.
