(* Proofs/P_dynloss.v -- C02: each built-in residual is its documented differential expression;
   the Tmax factor is the one the time rescaling t = Tmax * s requires *)
From Coq Require Import List Arith Bool Lia.
From JV Require Import Kit.Field Kit.Expr Model.M_operators Model.M_dynloss Proofs.P_operators.
Import ListNotations.
Section P.
Variable F : fld.
Add Field Ff : (Kfield F).
Variable prim : nat -> F -> F.
Variable dp : nat -> nat.
Notation ev := (ev prim). Notation D := (D dp).
Notation Dt := (D tvar). Notation Dx i := (D (xvar true i)).
Open Scope K_scope.
Variable tmax : F.
Notation nu k := (Var (F:=F) (Nu k)).

Theorem burgers_spec u env :
  ev env (burgers F dp tmax u) =
  ev env (Dt u) + tmax * (ev env u * ev env (Dx 0 u) - env (Nu 0) * ev env (Dx 0 (Dx 0 u))).
Proof. unfold burgers, par. rewrite ?ev_Sub. cbn [ev]. rewrite ?ev_Sub. cbn [ev]. ring. Qed.

Theorem fisher_spec d u env :
  ev env (fisher F dp tmax d u) =
  ev env (Dt u) - tmax * (env (Nu 0) * sumK (map (fun i => ev env (Dx i (Dx i u))) (seq 0 d))
                          + ev env u * (env (Nu 1) - env (Nu 2) * ev env u)).
Proof. unfold fisher, par. cbn [ev]. rewrite !ev_Sub. cbn [ev]. rewrite ev_Sub. cbn [ev].
  rewrite (laplacian_rev_spec F prim dp true d [u] env). cbn [comp nth]. ring. Qed.

Theorem fpe_spec drift diffusion u env :
  ev env (fpe F dp tmax drift diffusion u) =
  - ev env (Dt u) + tmax * (- (ev env (Dx 0 (Mul (drift 0) u)) + ev env (Dx 1 (Mul (drift 1) u)))
     + (ev env (Dx 0 (Dx 0 (Mul u (diffusion 0 0)))) + ev env (Dx 0 (Dx 1 (Mul u (diffusion 1 0))))
        + ev env (Dx 1 (Dx 0 (Mul u (diffusion 0 1)))) + ev env (Dx 1 (Dx 1 (Mul u (diffusion 1 1)))))).
Proof. unfold fpe. cbn [ev]. ring. Qed.
Variable half : F.
Theorem ou_coefficients env i j :
  ev env (ou_drift F i) = env (Nu i) * (env (Nu (2 + i)) - env (xvar true i)) /\
  ev env (ou_diffusion F half i j) = half * (if Nat.eqb i j then env (Nu (4 + i)) * env (Nu (4 + j)) else k0).
Proof. unfold ou_drift, ou_diffusion, par. split.
  - cbn [ev]. rewrite ev_Sub. reflexivity.
  - destruct (Nat.eqb i j); reflexivity. Qed.

(* generalised Lotka-Volterra, log form *)
Lemma ev_fold_add {A} env (f : A -> expr F) (l : list A) acc :
  ev env (fold_left (fun a x => Add a (f x)) l acc) = ev env acc + sumK (map (fun x => ev env (f x)) l).
Proof. revert acc. induction l as [|x r IH]; intro acc; cbn [fold_left map sumK fold_right]; [ring|].
  rewrite IH. cbn [ev]. fold (sumK (map (fun x => ev env (f x)) r)). ring. Qed.
Theorem glv_spec u_main others env :
  ev env (glv F dp tmax u_main others) =
  ev env (Dt u_main) * kinv (ev env u_main)
  + tmax * (- env (Nu 0)
            - (env (Nu 2) * ev env u_main + sumK (map (fun ik => env (Nu (2 + (fst ik + 1))) * ev env (snd ik)) (enumerate others)))
            + (env (Nu 1) * ev env u_main + sumK (map (fun ik => env (Nu 1) * ev env (snd ik)) (enumerate others)))).
Proof. unfold glv, par. cbn [ev]. rewrite ev_Sub. cbn [ev].
  rewrite (ev_fold_add env (fun ik => Mul (Var (Nu 1)) (snd ik))), (ev_fold_add env (fun ik => Mul (Var (Nu (2 + (fst ik + 1)))) (snd ik))).
  cbn [ev]. ring. Qed.

Theorem mass_conservation_spec d u env :
  ev env (mass_conservation F dp d u) = sumK (map (fun i => ev env (D (xvar false i) (comp F u i))) (seq 0 d)).
Proof. apply (div_rev_spec F prim dp). Qed.

Theorem navier_stokes_spec u p env c : c < 2 ->
  length (navier_stokes F dp u p) = 2 /\
  ev env (nth c (navier_stokes F dp u p) (Cst k0)) =
  (ev env (comp F u 0) * ev env (D (xvar false 0) (comp F u c)) + ev env (comp F u 1) * ev env (D (xvar false 1) (comp F u c)))
  + k1 * kinv (env (Nu 0)) * ev env (D (xvar false c) p)
  - env (Nu 1) * sumK (map (fun i => ev env (D (xvar false i) (D (xvar false i) (comp F u c)))) (seq 0 2)).
Proof. intro Hc. unfold navier_stokes.
  destruct (u_dot_nabla_u_spec F prim dp false u env) as (r & Hr & Hlen & Hadv). rewrite Hr.
  split; [reflexivity|].
  assert (Hvl := vectorial_laplacian_spec F prim dp false 2 2 u c env Hc).
  destruct c as [|[|c]]; [| |lia]; cbn [map nth]; rewrite ev_Sub; cbn [ev]; rewrite Hadv by lia; unfold par; cbn [ev]; rewrite Hvl; reflexivity. Qed.

(* ---- time rescaling: if v solves the physical-time equation then u(s, x) = v(Tmax * s, x)
   makes the residual vanish; more precisely residual(u)(s, x) = Tmax * physical_residual(v)(Tmax s, x) ---- *)
Lemma xvar_neq_t i : var_eqb (xvar true i) tvar = false. Proof. reflexivity. Qed.
Lemma D2_rescale_other t c x y env e : var_eqb x t = false -> var_eqb y t = false ->
  ev env (D x (D y (subst (rescale F t c) e))) = ev (env_rescale F t c env) (D x (D y e)).
Proof. intros Hx Hy. induction e as [w|k|a IHa b IHb|a IHa b IHb|a IHa|a IHa|q a IHa]; cbn [subst D ev];
  rewrite ?IHa, ?IHb, ?(D_rescale_other F prim dp t c x env _ Hx), ?(D_rescale_other F prim dp t c y env _ Hy), ?(ev_rescale F prim t c env); try ring.
  unfold rescale. destruct (var_eqb t w) eqn:E; cbn [D ev].
  - apply var_eqb_eq in E. subst w. rewrite Hy. cbn [D ev]. ring.
  - destruct (var_eqb y w); cbn [D ev]; reflexivity. Qed.

Definition rs (v : expr F) : expr F := subst (rescale F tvar tmax) v.
Definition env' (env : var -> F) := env_rescale F tvar tmax env.

Theorem burgers_rescaling v env :
  ev env (burgers F dp tmax (rs v)) =
  tmax * (ev (env' env) (Dt v) + ev (env' env) v * ev (env' env) (Dx 0 v) - env (Nu 0) * ev (env' env) (Dx 0 (Dx 0 v))).
Proof. rewrite burgers_spec. unfold rs, env'.
  rewrite (D_rescale_same F prim dp), (ev_rescale F prim), (D_rescale_other F prim dp) by apply xvar_neq_t.
  rewrite D2_rescale_other by apply xvar_neq_t. ring. Qed.
Theorem fisher_rescaling d v env :
  ev env (fisher F dp tmax d (rs v)) =
  tmax * (ev (env' env) (Dt v) - (env (Nu 0) * sumK (map (fun i => ev (env' env) (Dx i (Dx i v))) (seq 0 d))
                                   + ev (env' env) v * (env (Nu 1) - env (Nu 2) * ev (env' env) v))).
Proof. rewrite fisher_spec. unfold rs, env'.
  rewrite (D_rescale_same F prim dp), (ev_rescale F prim).
  rewrite (sumK_map_ext F _ (fun i => ev (env_rescale F tvar tmax env) (Dx i (Dx i v)))) by (intros i _; apply D2_rescale_other; apply xvar_neq_t).
  ring. Qed.
End P.
