(* Proofs/P_params.v -- C12 *)
From Coq Require Import ZArith List Bool Arith Lia.
From JV Require Import Model.M_params.
Import ListNotations.
Section P.
Context {V : Type}.
Variable merge_takes_batch : bool -> bool.
Variable axis_for_key : bool -> option Z.
Hypothesis Hmerge : merge_takes_batch true = true.
Hypothesis Haxis : axis_for_key true = Some 0%Z /\ axis_for_key false = None.
Variable d : V.
Notation pos := (params_of_sample merge_takes_batch axis_for_key d).

Lemma lookup_map {A B} (f : nat * A -> B) k (l : list (nat * A)) :
  lookup k (map (fun kv => (fst kv, f kv)) l) = match find (fun kv => Nat.eqb (fst kv) k) l with Some kv => Some (f kv) | None => None end.
Proof. unfold lookup. induction l as [|x l IH]; cbn [map find fst]; [reflexivity|].
  destruct (Nat.eqb (fst x) k); [reflexivity|exact IH]. Qed.

(* sample i sees, for each key of the caller's parameters (same keys, same order): row i of the
   batch when the key is batched, the caller's value otherwise *)
Theorem sample_params i params batch :
  pos i params (Some batch) =
  map (fun kv => (fst kv, match lookup (fst kv) batch with Some rows => Plain (nth i rows d) | None => Plain (snd kv) end)) params.
Proof. unfold params_of_sample, update_eq_params, axes. destruct Haxis as [Ht Hf]. rewrite Hmerge.
  induction params as [|kv ps IH]; cbn [map combine]; [reflexivity|]. rewrite IH. f_equal.
  cbn [fst snd]. destruct (lookup (fst kv) batch) as [rows|]; [rewrite Ht|rewrite Hf]; reflexivity. Qed.
Theorem no_batch_params i params :
  pos i params None = map (fun kv => (fst kv, Plain (snd kv))) params.
Proof. unfold params_of_sample, axes. induction params as [|kv ps IH]; cbn [map combine]; [reflexivity|]. rewrite IH. reflexivity. Qed.
(* keys of the batch that are not parameters are ignored; the keys are exactly the caller's *)
Theorem sample_params_keys i params batch : map fst (pos i params batch) = map fst params.
Proof. destruct batch as [b|]; [rewrite sample_params|rewrite no_batch_params]; rewrite map_map; reflexivity. Qed.

(* heterogeneity: declared keys are replaced by their function of (point, given parameters),
   keys mapped to None or not declared pass through *)
Theorem hetero_spec {Pt} (hs : list (nat * option (Pt -> list (nat * V) -> V))) pt params k v :
  In (k, v) params -> NoDup (map fst params) ->
  lookup k (hetero hs pt params) = Some (match lookup k hs with Some (Some h) => h pt params | _ => v end).
Proof. intros Hin Hnd. unfold hetero.
  rewrite (lookup_map (fun kv => match lookup (fst kv) hs with Some (Some h) => h pt params | _ => snd kv end)).
  assert (Hf : find (fun kv => Nat.eqb (fst kv) k) params = Some (k, v)).
  { clear hs. induction params as [|x ps IH]; [destruct Hin|]. cbn [find]. destruct Hin as [->|Hin].
    - cbn [fst]. rewrite Nat.eqb_refl. reflexivity.
    - inversion Hnd as [|? ? Hni Hnd']; subst. destruct (Nat.eqb (fst x) k) eqn:E.
      + apply Nat.eqb_eq in E. exfalso. apply Hni. rewrite E. change k with (fst (k, v)). apply in_map. exact Hin.
      + apply IH; assumption. }
  rewrite Hf. reflexivity. Qed.
End P.
