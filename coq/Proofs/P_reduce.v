(* Proofs/P_reduce.v -- meaning of the reduction terms (Kit/Tx.v) the translator regenerates from
   jinns/loss/_loss_utils.py: each expected term evaluates to the corresponding definition of
   Model/M_lossterms.v, for every batch, component count and weight shape. *)
From Coq Require Import List Arith Bool Lia ZArith Field_theory Field Ring.
From JV Require Import Kit.Field Kit.Tx Model.M_lossterms Model.M_boundary Proofs.P_lossterms.
Import ListNotations.
Section P.
Variable F : fld.
Add Field Ffr : (Kfield F).
Open Scope K_scope.

Definition wten (w : weight F) : ten F := match w with WScalar x => T0 x | WVec l => T1 l end.
(* jnp.mean(jnp.sum(w * r ** 2, axis=-1)) and jnp.mean(jnp.sum(w * (a - b) ** 2, axis=-1)) *)
Definition mse_expected : tx := XMeanAll (XSumLast (XMul (XIn 1) (XSq (XIn 0)))).
Definition diff_expected : tx := XMeanAll (XSumLast (XMul (XIn 2) (XSq (XSub (XIn 0) (XIn 1))))).
(* w * jnp.mean(jnp.abs(jnp.mean(u, axis=(-2, -1)) * L - 1) ** 2) *)
Definition norm_expected : tx := XMul (XIn 2) (XMeanAll (XSq (XSub (XMul (XIn 1) (XMeanLast2 (XIn 0))) (XInt 1)))).

Lemma combine_map_l' {A B C} (g : A -> C) (l : list A) (l' : list B) :
  combine (map g l) l' = map (fun p => (g (fst p), snd p)) (combine l l').
Proof. revert l'. induction l as [|a l IH]; intros [|b l']; cbn [map combine]; try reflexivity. rewrite IH. reflexivity. Qed.
Lemma sumK_cons (x : F) l : sumK (x :: l) = x + sumK l.
Proof. reflexivity. Qed.
Lemma wsum_scalar_sem x r : sumK (map (kmul x) (map (@sq F) r)) = wsum F (WScalar x) r.
Proof. unfold wsum, enumerate. cbn [wat]. generalize 0%nat as s.
  induction r as [|y r IH]; intro s; cbn [map length seq combine fst snd]; [reflexivity|].
  rewrite !sumK_cons. f_equal. apply IH. Qed.
Lemma wsum_vec_sem ws r : sumK (zipw kmul ws (map (@sq F) r)) = wsum F (WVec ws) r.
Proof. unfold wsum, enumerate. cbn [wat].
  assert (G : forall r ws s, sumK (zipw kmul ws (map (@sq F) r)) =
                             sumK (map (fun p => nth (fst p - s) ws k0 * sq (snd p)) (combine (seq s (length r)) r))).
  { clear. induction r as [|y r IH]; intros ws s.
    - destruct ws; reflexivity.
    - destruct ws as [|w ws].
      + unfold zipw. cbn [combine map]. change (sumK (@nil F)) with (@k0 F).
        rewrite (sumK_map_ext F _ (fun _ => k0)); [symmetry; apply sumK_zero|].
        intros p _. destruct (fst p - s)%nat; cbn [nth]; ring.
      + unfold zipw in *. cbn [map combine length seq fst snd].
        rewrite !sumK_cons, Nat.sub_diag. cbn [nth]. f_equal. rewrite (IH ws (S s)).
        apply sumK_map_ext. intros [i v] Hp. apply in_combine_l in Hp. apply in_seq in Hp. cbn [fst snd] in *.
        replace (i - s)%nat with (S (i - S s)) by lia. reflexivity. }
  rewrite (G r ws 0%nat). apply sumK_map_ext. intros p _. rewrite Nat.sub_0_r. reflexivity. Qed.

(* the weighted sum over the trailing axis of a matrix of squares *)
Lemma weighted_rows_sem w (m : list (list F)) :
  obind (bop F kmul (wten w) (T2 (map (map (@sq F)) m))) (sum_last F) = Some (T1 (map (wsum F w) m)).
Proof. destruct w as [x|ws]; cbn [wten bop obind sum_last]; do 2 f_equal; rewrite !map_map; apply map_ext; intro r.
  - apply wsum_scalar_sem.
  - apply wsum_vec_sem. Qed.

Theorem mse_expected_sem w res : tsem F [T2 res; wten w] mse_expected = Some (T0 (mse_term F w res)).
Proof. unfold mse_expected. cbn [tsem nth_error obind usq].
  change (obind (obind (bop F kmul (wten w) (T2 (map (map (@sq F)) res))) (sum_last F)) (fun x => Some (mean_all_t F x)) = Some (T0 (mse_term F w res))).
  rewrite weighted_rows_sem. reflexivity. Qed.

Lemma diff_rows_sem (a b : list (list F)) : zipw (zipw (@ksub F)) a b = diff_rows F a b.
Proof. reflexivity. Qed.
Theorem diff_expected_sem w a b : tsem F [T2 a; T2 b; wten w] diff_expected = Some (T0 (mse_term F w (diff_rows F a b))).
Proof. unfold diff_expected. cbn [tsem nth_error obind bop usq]. rewrite diff_rows_sem.
  change (obind (obind (bop F kmul (wten w) (T2 (map (map (@sq F)) (diff_rows F a b)))) (sum_last F)) (fun x => Some (mean_all_t F x)) = Some (T0 (mse_term F w (diff_rows F a b)))).
  rewrite weighted_rows_sem. reflexivity. Qed.
(* ODE initial condition: one row of u(t0) per parameter sample against the vector u0 *)
Theorem ode_ic_expected_sem w (ut0 : list (list F)) (u0 : list F) :
  tsem F [T2 ut0; T1 u0; wten w] diff_expected = Some (T0 (ode_ic_term F w ut0 u0)).
Proof. unfold diff_expected, ode_ic_term. cbn [tsem nth_error obind bop usq].
  change (obind (obind (bop F kmul (wten w) (T2 (map (map (@sq F)) (map (fun r => zipw ksub r u0) ut0)))) (sum_last F)) (fun x => Some (mean_all_t F x)) = Some (T0 (mse_term F w (map (fun r => zipw ksub r u0) ut0)))).
  rewrite weighted_rows_sem. reflexivity. Qed.

Lemma of_Z_1 : @of_Z F 1 = k1.
Proof. unfold of_Z. change (Pos.to_nat 1) with 1%nat. cbn [of_nat]. ring. Qed.
Lemma div_def' (x y : F) : x / y = x * kinv y.
Proof. apply (Fdiv_def (Kfield F)). Qed.
Theorem norm_statio_expected_sem w L m : tsem F [T2 m; T0 L; T0 w] norm_expected = Some (T0 (norm_term_statio F w L m)).
Proof. unfold norm_expected, norm_term_statio, norm_one, mean_all. cbn [tsem nth_error obind bop usq mean_last2 mean_all_t].
  rewrite of_Z_1. reflexivity. Qed.
Theorem norm_nonstatio_expected_sem w L ms : tsem F [T3 ms; T0 L; T0 w] norm_expected = Some (T0 (norm_term_nonstatio F w L ms)).
Proof. unfold norm_expected, norm_term_nonstatio, norm_one, mean_all. cbn [tsem nth_error obind bop usq mean_last2 mean_all_t].
  rewrite of_Z_1. f_equal. f_equal. rewrite !map_map. unfold meanK. rewrite !map_length, !div_def'.
  rewrite (sumK_map_scal F w). ring. Qed.

(* boundary term: one facet = jnp.mean(loss_weight * per-point squared mismatch); Dirichlet per-point
   mismatch = jnp.sum((u[dim_to_apply] - f) ** 2, axis=-1) *)
Definition facet_expected : tx := XMeanAll (XMul (XIn 0) (XIn 1)).
Definition dirichlet_expected : tx := XSumLast (XSq (XSub (XIn 0) (XIn 1))).
Theorem facet_expected_sem w vals : tsem F [T1 vals; T0 w] facet_expected = Some (T0 (facet_term F w vals)).
Proof. unfold facet_expected, facet_term. cbn [tsem nth_error obind bop mean_all_t]. do 3 f_equal. apply map_ext. intro v. ring. Qed.
Theorem dirichlet_expected_sem (us fs : list (list F)) lo hi :
  Forall (fun l => length l <> 1%nat) fs ->
  tsem F [T2 (map (take_slice lo hi) us); T2 fs] dirichlet_expected =
  Some (T1 (map (fun p => dirichlet_point F (fst p) lo hi (FVec (snd p))) (combine us fs))).
Proof. intro Hf. unfold dirichlet_expected. cbn [tsem nth_error obind bop usq sum_last]. do 2 f_equal.
  unfold zipw. rewrite !map_map. rewrite combine_map_l'. rewrite map_map. apply map_ext_in. intros [u f] Hin. cbn [fst snd].
  unfold dirichlet_point, sumsq, minus_f. assert (Hl : length f <> 1%nat).
  { apply in_combine_r in Hin. rewrite Forall_forall in Hf. apply Hf. exact Hin. }
  destruct f as [|y [|z f]]; try reflexivity. exfalso. apply Hl. reflexivity. Qed.
End P.
