(* Proofs/P_gridnd.v -- C08, grid sampling in dimension >= 2 (CubicMeshPDEStatio.generate_data, method "grid"):
   the store is the mesh of the per-axis grids a_k + i * (b_k - a_k) / n_side, i < n_side, i.e. the cartesian product of
   d one-dimensional grids: n_side^d points, every coordinate in [a_k, b_k). *)
From Coq Require Import List Arith QArith Lia.
From JV Require Import Model.M_domain Proofs.P_domain.
Import ListNotations.
Open Scope Q_scope.

(* all tuples (x_0, .., x_{d-1}) with x_k taken from the k-th axis *)
Fixpoint mesh (axes : list (list Q)) : list (list Q) :=
  match axes with
  | [] => [[]]
  | ax :: rest => flat_map (fun x => map (cons x) (mesh rest)) ax
  end.
Definition grid_nd (mins maxs : list Q) (n_side : nat) : list (list Q) :=
  mesh (map (fun ab => grid (fst ab) (snd ab) n_side) (combine mins maxs)).

Lemma flat_map_const_length {A B} (f : A -> list B) (l : list A) k :
  (forall x, In x l -> length (f x) = k) -> length (flat_map f l) = (length l * k)%nat.
Proof. induction l as [|x l IH]; intro H; cbn [flat_map length]; [reflexivity|].
  rewrite app_length, IH by (intros y Hy; apply H; right; exact Hy). rewrite (H x) by (left; reflexivity). lia. Qed.
Lemma mesh_length axes : length (mesh axes) = fold_right (fun ax acc => (length ax * acc)%nat) 1%nat axes.
Proof. induction axes as [|ax rest IH]; [reflexivity|]. cbn [mesh fold_right].
  rewrite (flat_map_const_length _ ax (length (mesh rest))) by (intros x _; apply map_length). rewrite IH. reflexivity. Qed.
(* exactly n_side^d points *)
Theorem grid_nd_count mins maxs n_side : length mins = length maxs ->
  length (grid_nd mins maxs n_side) = (n_side ^ length mins)%nat.
Proof. intro Hl. unfold grid_nd. rewrite mesh_length. revert maxs Hl.
  induction mins as [|a mins IH]; intros [|b maxs] Hl; try discriminate; [reflexivity|].
  cbn [combine map fold_right length Nat.pow]. rewrite grid_length. rewrite IH by (cbn in Hl; lia). reflexivity. Qed.
(* membership: a point of the mesh takes its k-th coordinate from the k-th axis *)
Lemma mesh_in axes p : In p (mesh axes) -> length p = length axes /\ forall k, (k < length axes)%nat -> In (nth k p 0) (nth k axes []).
Proof. revert p. induction axes as [|ax rest IH]; intros p Hp.
  - destruct Hp as [<-|[]]. split; [reflexivity|]. intros k Hk. cbn in Hk. lia.
  - cbn [mesh] in Hp. apply in_flat_map in Hp. destruct Hp as (x & Hx & Hp). apply in_map_iff in Hp. destruct Hp as (q & <- & Hq).
    destruct (IH q Hq) as (Hlen & Hk). split; [cbn; rewrite Hlen; reflexivity|].
    intros [|k] Hlt; cbn [nth]; [exact Hx|]. apply Hk. cbn in Hlt. lia. Qed.
(* every coordinate of every stored point lies in its axis' interval [a_k, b_k) *)
Theorem grid_nd_in_box mins maxs n_side p k : length mins = length maxs ->
  (forall j, (j < length mins)%nat -> nth j mins 0 < nth j maxs 0) ->
  In p (grid_nd mins maxs n_side) -> (k < length mins)%nat ->
  nth k mins 0 <= nth k p 0 /\ nth k p 0 < nth k maxs 0.
Proof. intros Hl Hbox Hp Hk. unfold grid_nd in Hp. apply mesh_in in Hp. destruct Hp as (_ & Hin).
  assert (Hk' : (k < length (map (fun ab => grid (fst ab) (snd ab) n_side) (combine mins maxs)))%nat)
    by (rewrite map_length, combine_length, <- Hl, Nat.min_id; exact Hk).
  specialize (Hin k Hk').
  rewrite (nth_indep _ [] (grid (fst (0, 0)) (snd (0, 0)) n_side)) in Hin by exact Hk'.
  rewrite (map_nth (fun ab => grid (fst ab) (snd ab) n_side) (combine mins maxs) (0, 0) k) in Hin.
  rewrite combine_nth in Hin by exact Hl. cbn [fst snd] in Hin.
  apply grid_points in Hin; [exact Hin|apply Hbox; exact Hk]. Qed.
