(* Proofs/P_domain.v -- C08 *)
From Coq Require Import QArith List Arith Bool Lqa Lia.
From JV Require Import Model.M_domain.
Import ListNotations.
Open Scope Q_scope.
Lemma uniform_in_range a b u : a <= b -> 0 <= u -> u < 1 -> a <= uniform_pt a b u <= b.
Proof. intros Hab H0 H1. unfold uniform_pt. split; nra. Qed.
Lemma grid_length a b n : length (grid a b n) = n.
Proof. unfold grid. rewrite map_length, seq_length. reflexivity. Qed.
Lemma grid_in_range a b n i : a < b -> (i < n)%nat -> a <= grid_pt a b n i /\ grid_pt a b n i < b.
Proof. intros Hab Hi. unfold grid_pt.
  assert (Hn : 0 < inject_Z (Z.of_nat n)) by (unfold Qlt, inject_Z; cbn; lia).
  assert (Hi0 : 0 <= inject_Z (Z.of_nat i)) by (unfold Qle, inject_Z; cbn; lia).
  assert (Hin : inject_Z (Z.of_nat i) < inject_Z (Z.of_nat n)) by (unfold Qlt, inject_Z; cbn; lia).
  remember (inject_Z (Z.of_nat n)) as N. remember (inject_Z (Z.of_nat i)) as I.
  assert (Hq : I * ((b - a) / N) == (b - a) * (I / N)) by (field; lra).
  rewrite Hq. assert (Hr : 0 <= I / N /\ I / N < 1).
  { split; [apply Qle_shift_div_l; lra|apply Qlt_shift_div_r; lra]. }
  destruct Hr. split; nra. Qed.
Lemma grid_points a b n x : a < b -> In x (grid a b n) -> a <= x /\ x < b.
Proof. intros Hab Hin. unfold grid in Hin. apply in_map_iff in Hin as (i & <- & Hi). apply in_seq in Hi.
  apply grid_in_range; [exact Hab|lia]. Qed.

(* the four facets of a 2-D box, in the documented order xmin, xmax, ymin, ymax *)
Definition documented_facets : list (nat * bool * nat * nat * nat) :=
  [(0, false, 0, 1, 1); (0, true, 0, 1, 1); (1, false, 1, 0, 0); (1, true, 1, 0, 0)]%nat.
Lemma facet_points_on_facet (a0 b0 a1 b1 u : Q) k : a0 <= b0 -> a1 <= b1 -> 0 <= u -> u < 1 -> (k < 4)%nat ->
  let p := facet_point (nth k documented_facets (0, false, 0, 0, 0)%nat) [a0; a1] [b0; b1] u in
  let x := nth 0 p 0 in let y := nth 1 p 0 in
  length p = 2%nat /\ a0 <= x <= b0 /\ a1 <= y <= b1 /\
  match k with 0%nat => x == a0 | 1%nat => x == b0 | 2%nat => y == a1 | _ => y == b1 end.
Proof. intros H0 H1 Hu0 Hu1 Hk.
  pose proof (uniform_in_range a0 b0 u H0 Hu0 Hu1) as U0. pose proof (uniform_in_range a1 b1 u H1 Hu0 Hu1) as U1.
  destruct k as [|[|[|[|k]]]]; [| | | |lia]; cbn -[uniform_pt]; repeat split; try lra; try reflexivity. Qed.
