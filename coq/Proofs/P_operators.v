(* Proofs/P_operators.v -- C01: the operators are the mathematical ones *)
From Coq Require Import List Arith Bool Lia.
From JV Require Import Kit.Field Kit.Expr Model.M_operators.
Import ListNotations.
Section P.
Variable F : fld.
Add Field Ff : (Kfield F).
Variable prim : nat -> F -> F.
Variable dp : nat -> nat.
Notation ev := (ev prim). Notation D := (D dp).
Open Scope K_scope.

Lemma gvar_x has_t i : gvar has_t (xarg has_t) i = xvar has_t i.
Proof. destruct has_t; reflexivity. Qed.

Lemma trace_hessian has_t a d e env :
  ev env (trace F (hessian F dp has_t a d e)) = sumK (map (fun i => ev env (Dg F dp has_t a i (Dg F dp has_t a i e))) (seq 0 d)).
Proof. unfold trace, hessian. rewrite ev_sumE, map_length, seq_length, map_map.
  f_equal. apply map_ext_in. intros i Hi. apply in_seq in Hi.
  rewrite (nth_indep _ [] (map (fun j => Dg F dp has_t a j (Dg F dp has_t a 0 e)) (seq 0 d))) by (rewrite map_length, seq_length; lia).
  rewrite (map_nth (fun i0 => map (fun j => Dg F dp has_t a j (Dg F dp has_t a i0 e)) (seq 0 d)) (seq 0 d) 0 i).
  rewrite seq_nth by lia. cbn [Nat.add].
  rewrite (nth_indep _ (Cst k0) (Dg F dp has_t a 0 (Dg F dp has_t a i e))) by (rewrite map_length, seq_length; lia).
  rewrite (map_nth (fun j => Dg F dp has_t a j (Dg F dp has_t a i e)) (seq 0 d) 0 i).
  rewrite seq_nth by lia. reflexivity. Qed.

(* Laplacian: sum over the d spatial coordinates of the second derivative of component 0 *)
Theorem laplacian_rev_spec has_t d u env :
  ev env (laplacian_rev F dp has_t d u) =
  sumK (map (fun i => ev env (D (xvar has_t i) (D (xvar has_t i) (comp F u 0)))) (seq 0 d)).
Proof. unfold laplacian_rev. rewrite trace_hessian. f_equal. apply map_ext. intro i. unfold Dg. rewrite gvar_x. reflexivity. Qed.

(* divergence: sum over i of d u_i / d x_i *)
Theorem div_rev_spec has_t d u env :
  ev env (div_rev F dp has_t d u) = sumK (map (fun i => ev env (D (xvar has_t i) (comp F u i))) (seq 0 d)).
Proof. unfold div_rev. rewrite ev_sumE, map_map. f_equal. apply map_ext. intro i. unfold Dg. rewrite gvar_x. reflexivity. Qed.

(* vector Laplacian: component j is the Laplacian of u_j, for every j < n *)
Theorem vectorial_laplacian_spec has_t d n u j env : j < n ->
  ev env (nth j (vectorial_laplacian F dp has_t d n u) (Cst k0)) =
  sumK (map (fun i => ev env (D (xvar has_t i) (D (xvar has_t i) (comp F u j)))) (seq 0 d)).
Proof. intro Hj. unfold vectorial_laplacian.
  rewrite (nth_indep _ (Cst k0) (laplacian_rev F dp has_t d [comp F u 0])) by (rewrite map_length, seq_length; exact Hj).
  rewrite (map_nth (fun j0 => laplacian_rev F dp has_t d [comp F u j0]) (seq 0 n) 0 j).
  rewrite seq_nth by exact Hj. cbn [Nat.add]. rewrite laplacian_rev_spec. reflexivity. Qed.
Lemma vectorial_laplacian_length has_t d n u : length (vectorial_laplacian F dp has_t d n u) = n.
Proof. unfold vectorial_laplacian. rewrite map_length, seq_length. reflexivity. Qed.

(* advection (u . grad) u in two dimensions: component c is u_0 d u_c/dx_0 + u_1 d u_c/dx_1 *)
Theorem u_dot_nabla_u_spec has_t u env :
  exists r, u_dot_nabla_u F dp has_t 2 u = Some r /\ length r = 2 /\
  forall c, c < 2 -> ev env (nth c r (Cst k0)) =
    ev env (comp F u 0) * ev env (D (xvar has_t 0) (comp F u c)) + ev env (comp F u 1) * ev env (D (xvar has_t 1) (comp F u c)).
Proof. unfold u_dot_nabla_u. cbn [Nat.eqb]. eexists. split; [reflexivity|]. split; [reflexivity|].
  intros c Hc. unfold Dg. rewrite !gvar_x. destruct c as [|[|c]]; [reflexivity|reflexivity|lia]. Qed.
Lemma u_dot_nabla_u_other_dims has_t d u : d <> 2 -> u_dot_nabla_u F dp has_t d u = None.
Proof. intro H. unfold u_dot_nabla_u. destruct (Nat.eqb d 2) eqn:E; [apply Nat.eqb_eq in E; contradiction|reflexivity]. Qed.

(* ---- time is held fixed: substituting the value of the time for the time variable does not
   change any spatial derivative ---- *)
Definition fix_var (w : var) (c : F) : var -> expr F := fun v => if var_eqb w v then Cst c else Var v.
Lemma ev_fix_var w c env e : env w = c -> ev env (subst (fix_var w c) e) = ev env e.
Proof. intro Hw. rewrite ev_subst. apply ev_ext. intros v _. unfold fix_var.
  destruct (var_eqb w v) eqn:E; [apply var_eqb_eq in E; subst v; cbn; symmetry; exact Hw|reflexivity]. Qed.
Lemma D_fix_var w c x env e : env w = c -> var_eqb x w = false ->
  ev env (D x (subst (fix_var w c) e)) = ev env (D x e).
Proof. intros Hw Hx. induction e as [v|k|a IHa b IHb|a IHa b IHb|a IHa|a IHa|p a IHa]; cbn [subst D ev];
  rewrite ?IHa, ?IHb, ?(ev_fix_var w c env _ Hw); try reflexivity.
  unfold fix_var. destruct (var_eqb w v) eqn:E; cbn [D ev].
  - apply var_eqb_eq in E. subst v. rewrite Hx. reflexivity.
  - reflexivity. Qed.
Lemma D2_fix_var w c x y env e : env w = c -> var_eqb x w = false -> var_eqb y w = false ->
  ev env (D x (D y (subst (fix_var w c) e))) = ev env (D x (D y e)).
Proof. intros Hw Hx Hy. induction e as [v|k|a IHa b IHb|a IHa b IHb|a IHa|a IHa|p a IHa]; cbn [subst D ev];
  rewrite ?IHa, ?IHb, ?(D_fix_var w c x env _ Hw Hx), ?(D_fix_var w c y env _ Hw Hy), ?(ev_fix_var w c env _ Hw); try reflexivity.
  unfold fix_var. destruct (var_eqb w v) eqn:E; cbn [D ev].
  - apply var_eqb_eq in E. subst v. rewrite Hy. cbn [D ev]. reflexivity.
  - reflexivity. Qed.

Lemma xvar_not_t i : var_eqb (xvar true i) tvar = false.
Proof. reflexivity. Qed.

Theorem laplacian_time_fixed d u env :
  ev env (laplacian_rev F dp true d u) =
  ev env (laplacian_rev F dp true d (map (subst (fix_var tvar (env tvar))) u)).
Proof. rewrite !laplacian_rev_spec. f_equal. apply map_ext. intro i. unfold comp.
  change (Cst k0) with (subst (fix_var tvar (env tvar)) (Cst (F:=F) k0)) at 2. rewrite map_nth.
  symmetry. apply D2_fix_var; [reflexivity|apply xvar_not_t|apply xvar_not_t]. Qed.
Theorem div_time_fixed d u env :
  ev env (div_rev F dp true d u) = ev env (div_rev F dp true d (map (subst (fix_var tvar (env tvar))) u)).
Proof. rewrite !div_rev_spec. f_equal. apply map_ext. intro i. unfold comp.
  change (Cst k0) with (subst (fix_var tvar (env tvar)) (Cst (F:=F) k0)) at 2. rewrite map_nth.
  symmetry. apply D_fix_var; [reflexivity|apply xvar_not_t]. Qed.

(* ---- unrelated parameters: the value only depends on the variables occurring in u ---- *)
Lemma free_Dg v has_t a i e : free v e = false -> free v (Dg F dp has_t a i e) = false.
Proof. apply free_D. Qed.
Theorem laplacian_ignores_unrelated has_t d u env env' :
  (forall v, free v (comp F u 0) = true -> env v = env' v) ->
  ev env (laplacian_rev F dp has_t d u) = ev env' (laplacian_rev F dp has_t d u).
Proof. intro H. rewrite !laplacian_rev_spec. f_equal. apply map_ext. intro i. apply ev_ext.
  intros v Hv. apply H. destruct (free v (comp F u 0)) eqn:E; [reflexivity|].
  rewrite (free_D F dp v _ _ (free_D F dp v _ _ E)) in Hv. discriminate. Qed.
Theorem div_ignores_unrelated has_t d u env env' :
  (forall v i, i < d -> free v (comp F u i) = true -> env v = env' v) ->
  ev env (div_rev F dp has_t d u) = ev env' (div_rev F dp has_t d u).
Proof. intro H. rewrite !div_rev_spec. f_equal. apply map_ext_in. intros i Hi. apply in_seq in Hi. apply ev_ext.
  intros v Hv. apply (H v i); [lia|]. destruct (free v (comp F u i)) eqn:E; [reflexivity|].
  rewrite (free_D F dp v _ _ E) in Hv. discriminate. Qed.
End P.
