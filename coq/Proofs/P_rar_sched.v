(* Proofs/P_rar_sched.v -- C16: closed form of the refinement schedule on the abstract
   (counter, number of steps) machine with capacity [cap] *)
From Coq Require Import ZArith List Lia Bool ZifyBool.
Open Scope Z_scope.
Section R.
Variables start every cap : Z.
Hypothesis Hev : 1 <= every. Hypothesis Hst : 0 <= start. Hypothesis Hcap : 0 <= cap.
Definition aproceed (i cnt J : Z) : bool := (start <=? i) && (every - 1 =? cnt) && (J <? cap).
Definition atrig (i : Z) (s : Z * Z) : Z * Z :=
  let '(cnt, J) := s in
  if aproceed i cnt J then (0, J + 1) else (cnt + (if i <=? start then 0 else 1), J).
Fixpoint arun (k : nat) : Z * Z :=                          (* state before iteration k *)
  match k with O => (every - 1, 0) | S k' => atrig (Z.of_nat k') (arun k') end.
(* number of scheduled iterations strictly below i *)
Definition sched (i : Z) := if i <=? start then 0 else (i - start - 1) / every + 1.
Definition cnt_spec (i : Z) := if i <=? start then every - 1 else (i - start - 1) mod every.

Lemma sched_nonneg i : 0 <= sched i.
Proof. unfold sched. destruct (i <=? start) eqn:E; [lia|]. apply Z.leb_gt in E.
  assert (0 <= (i - start - 1) / every) by (apply Z.div_pos; lia). lia. Qed.

Lemma div_succ m e : 0 <= m -> 1 <= e ->
  (m + 1) / e = m / e + (if (m + 1) mod e =? 0 then 1 else 0).
Proof. intros Hm He.
  pose proof (Z.div_mod m e ltac:(lia)) as H1. pose proof (Z.mod_pos_bound m e ltac:(lia)) as B1.
  pose proof (Z.div_mod (m + 1) e ltac:(lia)) as H2. pose proof (Z.mod_pos_bound (m + 1) e ltac:(lia)) as B2.
  set (q := m / e) in *. set (r := m mod e) in *. set (q' := (m + 1) / e) in *. set (r' := (m + 1) mod e) in *.
  assert (Hd : e * (q' - q) = r + 1 - r') by lia.
  assert (Hq : q' - q = 0 \/ q' - q = 1) by nia.
  destruct (r' =? 0) eqn:E; [apply Z.eqb_eq in E|apply Z.eqb_neq in E]; destruct Hq as [Hq|Hq]; nia. Qed.

Lemma sched_succ i : 0 <= i ->
  sched (i + 1) = sched i + (if (start <=? i) && ((i - start) mod every =? 0) then 1 else 0).
Proof. intro Hi. unfold sched.
  destruct (i + 1 <=? start) eqn:E1; destruct (i <=? start) eqn:E2; destruct (start <=? i) eqn:E3; cbn [andb]; try lia.
  - assert (i = start) by lia. subst i. replace (start + 1 - start - 1) with 0 by lia.
    replace (start - start) with 0 by lia. rewrite Z.div_0_l, Z.mod_0_l by lia. reflexivity.
  - remember (i - start - 1) as m eqn:Em.
    replace (i + 1 - start - 1) with (m + 1) by lia. replace (i - start) with (m + 1) by lia.
    rewrite (div_succ m every) by lia. lia. Qed.

Lemma mod_pred m e : 0 <= m -> 1 <= e -> ((m + 1) mod e =? 0) = (m mod e =? e - 1).
Proof. intros Hm He.
  pose proof (Z.div_mod m e ltac:(lia)) as H1. pose proof (Z.mod_pos_bound m e ltac:(lia)) as B1.
  pose proof (Z.div_mod (m + 1) e ltac:(lia)) as H2. pose proof (Z.mod_pos_bound (m + 1) e ltac:(lia)) as B2.
  set (q := m / e) in *. set (r := m mod e) in *. set (q' := (m + 1) / e) in *. set (r' := (m + 1) mod e) in *.
  assert (Hd : e * (q' - q) = r + 1 - r') by lia.
  assert (Hq : q' - q = 0 \/ q' - q = 1) by nia.
  destruct (r' =? 0) eqn:E; destruct (r =? e - 1) eqn:E'; try reflexivity; exfalso;
  [apply Z.eqb_eq in E; apply Z.eqb_neq in E'|apply Z.eqb_neq in E; apply Z.eqb_eq in E']; destruct Hq; nia. Qed.
Lemma mod_succ_nowrap' m e : 0 <= m -> 1 <= e -> m mod e <> e - 1 -> (m + 1) mod e = m mod e + 1.
Proof. intros Hm He Hne.
  pose proof (Z.div_mod m e ltac:(lia)) as H1. pose proof (Z.mod_pos_bound m e ltac:(lia)) as B1.
  symmetry. apply Z.mod_unique with (q := m / e); lia. Qed.

(* number of completed steps before iteration k, and (while capacity remains) the counter *)
Theorem schedule k :
  snd (arun k) = Z.min cap (sched (Z.of_nat k)) /\
  (sched (Z.of_nat k) < cap -> fst (arun k) = cnt_spec (Z.of_nat k)).
Proof.
  induction k as [|k [IHJ IHc]].
  - cbn [arun fst snd]. unfold sched, cnt_spec. change (Z.of_nat 0) with 0.
    replace (0 <=? start) with true by (symmetry; apply Z.leb_le; lia). split; [lia|reflexivity].
  - cbn [arun]. set (i := Z.of_nat k) in *. replace (Z.of_nat (S k)) with (i + 1) by lia.
    assert (Hi : 0 <= i) by lia. pose proof (sched_nonneg i) as Hs. pose proof (sched_succ i Hi) as Hss.
    destruct (arun k) as [cnt J]. cbn [fst snd] in *. unfold atrig, aproceed.
    destruct (Z_lt_ge_dec (sched i) cap) as [Hlt|Hge].
    + specialize (IHc Hlt). subst cnt. assert (HJ : J = sched i) by lia.
      replace (J <? cap) with true by (symmetry; apply Z.ltb_lt; lia). rewrite andb_true_r.
      unfold cnt_spec in *. destruct (start <=? i) eqn:E3; cbn [andb] in *.
      * destruct (i <=? start) eqn:E2.
        -- assert (i = start) by lia.
           replace (every - 1 =? every - 1) with true by (symmetry; apply Z.eqb_eq; reflexivity).
           replace ((i - start) mod every =? 0) with true in Hss
             by (symmetry; apply Z.eqb_eq; replace (i - start) with 0 by lia; apply Z.mod_0_l; lia).
           cbn [fst snd]. split; [lia|]. intros _.
           replace (i + 1 <=? start) with false by (symmetry; apply Z.leb_gt; lia).
           replace (i + 1 - start - 1) with 0 by lia. rewrite Z.mod_0_l by lia. reflexivity.
        -- remember (i - start - 1) as m eqn:Em. assert (Hm : 0 <= m) by lia.
           replace (i - start) with (m + 1) in Hss by lia. rewrite mod_pred in Hss by lia.
           replace (i + 1 <=? start) with false by (symmetry; apply Z.leb_gt; lia).
           replace (i + 1 - start - 1) with (m + 1) by lia.
           rewrite (Z.eqb_sym (every - 1)). destruct (m mod every =? every - 1) eqn:E4; cbn [fst snd].
           ++ split; [lia|]. intros _. apply Z.eqb_eq in E4. symmetry.
              pose proof (mod_pred m every Hm Hev) as Hp. rewrite E4, Z.eqb_refl in Hp. apply Z.eqb_eq in Hp. exact Hp.
           ++ split; [lia|]. intros _. apply Z.eqb_neq in E4. rewrite mod_succ_nowrap' by lia. reflexivity.
      * cbn [fst snd].
        replace (i <=? start) with true in * by (symmetry; apply Z.leb_le; lia).
        split; [lia|]. intros _. replace (i + 1 <=? start) with true by (symmetry; apply Z.leb_le; lia). lia.
    + assert (HJ : J = cap) by lia.
      replace (J <? cap) with false by (symmetry; apply Z.ltb_ge; lia). rewrite andb_false_r. cbn [fst snd].
      assert (sched i <= sched (i + 1)) by (rewrite Hss; destruct (_ && _); lia). split; lia.
Qed.

(* a refinement step happens at iteration k iff k = start + j*every for some j >= 0 and a full
   set still fits *)
Theorem step_iff k :
  aproceed (Z.of_nat k) (fst (arun k)) (snd (arun k)) =
  (start <=? Z.of_nat k) && ((Z.of_nat k - start) mod every =? 0) && (sched (Z.of_nat k) <? cap).
Proof. destruct (schedule k) as [HJ Hc]. set (i := Z.of_nat k) in *. assert (Hi : 0 <= i) by lia.
  pose proof (sched_nonneg i) as Hs. unfold aproceed. rewrite HJ.
  destruct (Z_lt_ge_dec (sched i) cap) as [Hlt|Hge].
  - rewrite (Hc Hlt). replace (Z.min cap (sched i) <? cap) with true by lia.
    replace (sched i <? cap) with true by lia. rewrite !andb_true_r. unfold cnt_spec.
    destruct (start <=? i) eqn:E3; cbn [andb]; [|reflexivity].
    destruct (i <=? start) eqn:E2.
    + assert (i = start) by lia. replace (i - start) with 0 by lia. rewrite Z.mod_0_l by lia. lia.
    + remember (i - start - 1) as m eqn:Em. replace (i - start) with (m + 1) by lia.
      rewrite mod_pred by lia. rewrite (Z.eqb_sym (every - 1)). reflexivity.
  - replace (Z.min cap (sched i) <? cap) with false by lia. replace (sched i <? cap) with false by lia.
    rewrite !andb_false_r. reflexivity. Qed.
End R.

(* ---- resumed training: the machine restarted with J0 steps already done (iteration numbers restart at 0 and the
   period counter is re-armed, which is all init_rar does) ---- *)
Section Resume.
Variables start every cap J0 : Z.
Hypothesis Hev : 1 <= every. Hypothesis Hst : 0 <= start. Hypothesis HJ0 : 0 <= J0 <= cap.
Fixpoint arun_from (k : nat) : Z * Z :=
  match k with O => (every - 1, J0) | S k' => atrig start every cap (Z.of_nat k') (arun_from k') end.
(* it is the fresh machine of capacity cap - J0, shifted by J0 *)
Lemma arun_from_shift k : arun_from k = (fst (arun start every (cap - J0) k), J0 + snd (arun start every (cap - J0) k)).
Proof. induction k as [|k IH]; [cbn [arun_from arun fst snd]; f_equal; lia|].
  cbn [arun_from arun]. rewrite IH. destruct (arun start every (cap - J0) k) as [c j]. cbn [fst snd].
  unfold atrig, aproceed. replace (J0 + j <? cap) with (j <? cap - J0) by lia.
  destruct ((start <=? Z.of_nat k) && (every - 1 =? c) && (j <? cap - J0)); cbn [fst snd]; f_equal; lia. Qed.
(* steps done after k further iterations: the J0 earlier ones plus the scheduled ones, capped by the capacity *)
Theorem schedule_from k : snd (arun_from k) = Z.min cap (J0 + sched start every (Z.of_nat k)).
Proof. rewrite arun_from_shift. cbn [snd].
  destruct (schedule start every (cap - J0) Hev Hst ltac:(lia) k) as [H _]. rewrite H. lia. Qed.
Theorem step_iff_from k :
  aproceed start every cap (Z.of_nat k) (fst (arun_from k)) (snd (arun_from k)) =
  (start <=? Z.of_nat k) && ((Z.of_nat k - start) mod every =? 0) && (J0 + sched start every (Z.of_nat k) <? cap).
Proof. rewrite arun_from_shift. cbn [fst snd].
  pose proof (step_iff start every (cap - J0) Hev Hst ltac:(lia) k) as H. unfold aproceed in *.
  replace (J0 + snd (arun start every (cap - J0) k) <? cap) with (snd (arun start every (cap - J0) k) <? cap - J0) by lia.
  rewrite H. f_equal. lia. Qed.
End Resume.
