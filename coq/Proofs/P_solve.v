(* Proofs/P_solve.v -- C07 / C18 / C19: the while_loop of solve() equals the textbook training
   loop run until the first iteration after which a NaN parameter or an early-stopping request
   appears (or n iterations). *)
From Coq Require Import ZArith List Bool Lia ZifyBool Arith.
From JV Require Import Kit.Lists Model.M_solve.
Import ListNotations.
Open Scope Z_scope.

Definition solve_gen_ok (G : solve_gen) : Prop :=
  (forall i e, s_val_due G i e = (i mod e =? 0)) /\ (forall i, s_carry_idx G i = i - 1) /\
  (forall i, s_crit_idx G i = i) /\ (forall i, s_loss_idx G i = i) /\ (forall i, s_terms_idx G i = i) /\
  (forall i, s_tracked_idx G i = i) /\ (forall i, s_next G i = i + 1) /\
  (forall (P : Type) (b : bool) (l n : P), s_keep_last G P b l n = if b then l else n) /\
  (forall i n nan early, s_continue G i n nan early = (i <? n) && negb nan && negb early) /\
  s_wiring G = true.

Lemma at_set_app {A} (xs zs : list A) v z : at_set (Z.of_nat (length xs)) v (xs ++ z :: zs) = (xs ++ [v]) ++ zs.
Proof. unfold at_set. rewrite app_length. cbn [length].
  replace (Z.of_nat (length xs) <? 0) with false by lia.
  replace ((0 <=? Z.of_nat (length xs)) && (Z.of_nat (length xs) <? Z.of_nat (length xs + S (length zs)))) with true by lia.
  rewrite Nat2Z.id. apply upd_app. Qed.
Lemma at_set_app' {A} (xs zs : list A) v z k : length xs = k -> at_set (Z.of_nat k) v (xs ++ z :: zs) = (xs ++ [v]) ++ zs.
Proof. intros <-. apply at_set_app. Qed.
Lemma at_get_prefix {A} (xs zs : list A) d k : (k < length xs)%nat -> at_get (Z.of_nat k) d (xs ++ zs) = nth k xs d.
Proof. intro H. unfold at_get. rewrite app_length. replace (Z.of_nat k <? 0) with false by lia.
  replace (Z.to_nat (Z.max 0 (Z.min (Z.of_nat (length xs + length zs) - 1) (Z.of_nat k)))) with k by lia.
  apply app_nth1. exact H. Qed.

Section S.
Variables P Os D B Gr U LV LT T V C : Type.
Variable G : solve_gen.
Hypothesis Gok : solve_gen_ok G.
Variable draw : D -> B * D.
Variable vg : P -> B -> (LV * LT) * Gr.
Variable opt_update : Gr -> Os -> P -> U * Os.
Variable apply : P -> U -> P.
Variable has_nan : P -> bool.
Variable track : P -> T.
Variable validate : V -> P -> V * bool * C * bool.
Variable call_every : V -> Z.
Variable rar : Z -> P -> D -> D.
Variable rar_init : D -> D.
Variables (zLV : LV) (zLT : LT) (zT : T) (zC : C).

Notation carry := (carry P Os D LV LT T V C).
Notation body := (body P Os D B Gr U LV LT T V C G draw vg opt_update apply has_nan track validate call_every rar zC).
Notation cond := (cond P Os D LV LT T V C G has_nan).
Notation loop := (loop P Os D B Gr U LV LT T V C G draw vg opt_update apply has_nan track validate call_every rar zC).

(* ---------- the textbook loop ---------- *)
Record R := { r_p : P; r_last : P; r_o : Os; r_d : D; r_v : option V; r_best : P; r_early : bool;
              r_l : list LV; r_t : list LT; r_tr : list T; r_c : list C }.
(* iteration number k: draw the next batch, record loss and terms at the current parameters,
   update; validate every call_every iterations with the updated parameters; refine *)
Definition rstep (k : nat) (r : R) : R :=
  let '(b, d1) := draw (r_d r) in
  let '((lv, lt), g) := vg (r_p r) b in
  let '(u, o') := opt_update g (r_o r) (r_p r) in
  let p' := apply (r_p r) u in
  let '(v', early, cs, best') :=
    match r_v r with
    | Some v => let '(v1, es, cr, ub) := if Z.of_nat k mod call_every v =? 0 then validate v p'
                                         else (v, false, nth (k - 1) (r_c r) zC, false) in
                (Some v1, es, r_c r ++ [cr], if ub then p' else r_best r)
    | None => (None, false, r_c r, p') end in
  {| r_p := p'; r_last := if has_nan p' then r_last r else p'; r_o := o'; r_d := rar (Z.of_nat k) p' d1;
     r_v := v'; r_best := best'; r_early := early;
     r_l := r_l r ++ [lv]; r_t := r_t r ++ [lt]; r_tr := r_tr r ++ [track p']; r_c := cs |}.
Fixpoint rrun (k : nat) (r0 : R) : R := match k with O => r0 | S k' => rstep k' (rrun k' r0) end.
Definition r_init (p0 : P) (o0 : Os) (d : D) (v0 : option V) : R :=
  {| r_p := p0; r_last := p0; r_o := o0; r_d := d; r_v := v0; r_best := p0; r_early := false;
     r_l := []; r_t := []; r_tr := []; r_c := [] |}.
Definition halt (r : R) : bool := has_nan (r_p r) || r_early r.

Definition embed (n k : nat) (r : R) : carry :=
  {| ci := Z.of_nat k; cp := r_p r; clast := r_last r; co := r_o r; cd := r_d r; cv := r_v r;
     cbest := r_best r; cearly := r_early r;
     hl := r_l r ++ repeat zLV (n - k); ht := r_t r ++ repeat zLT (n - k); htr := r_tr r ++ repeat zT (n - k);
     hc := match r_v r with Some _ => r_c r ++ repeat zC (n - k) | None => repeat zC n end |}.
Definition Inv (k : nat) (r : R) : Prop :=
  length (r_l r) = k /\ length (r_t r) = k /\ length (r_tr r) = k /\ (r_v r <> None -> length (r_c r) = k).

Lemma rstep_v k r : (r_v (rstep k r) = None) <-> (r_v r = None).
Proof. unfold rstep. destruct (draw (r_d r)) as [b d1]. destruct (vg (r_p r) b) as [[lv lt] g].
  destruct (opt_update g (r_o r) (r_p r)) as [u o']. destruct (r_v r) as [v|]; cbn.
  - destruct (Z.of_nat k mod call_every v =? 0); [destruct (validate v (apply (r_p r) u)) as [[[v1 es] cr] ub]|]; cbn; split; discriminate.
  - split; reflexivity. Qed.

Lemma rstep_inv k r : Inv k r -> Inv (S k) (rstep k r).
Proof. intros (H1 & H2 & H3 & H4). unfold Inv, rstep.
  destruct (draw (r_d r)) as [b d1]. destruct (vg (r_p r) b) as [[lv lt] g].
  destruct (opt_update g (r_o r) (r_p r)) as [u o']. destruct (r_v r) as [v|] eqn:Ev.
  - destruct (Z.of_nat k mod call_every v =? 0); [destruct (validate v (apply (r_p r) u)) as [[[v1 es] cr] ub]|];
    cbn; rewrite !app_length; cbn; rewrite H1, H2, H3, H4 by discriminate; repeat split; lia.
  - cbn. rewrite !app_length; cbn. rewrite H1, H2, H3. repeat split; try lia. intro H; congruence. Qed.
Lemma rrun_inv k r0 : Inv 0 r0 -> Inv k (rrun k r0).
Proof. intro H0. induction k as [|k IH]; [exact H0|]. cbn [rrun]. apply rstep_inv. exact IH. Qed.

Lemma repeat_S_minus {A} (z : A) n k : (k < n)%nat -> repeat z (n - k) = z :: repeat z (n - S k).
Proof. intro H. replace (n - k)%nat with (S (n - S k)) by lia. reflexivity. Qed.

(* one iteration of the while_loop on the embedding of a textbook state is the embedding of the
   next textbook state *)
Lemma body_embed n k r : (k < n)%nat -> Inv k r -> body (embed n k r) = embed n (S k) (rstep k r).
Proof. intros Hk (H1 & H2 & H3 & H4).
  destruct Gok as (Hdue & Hcar & Hci & Hli & Hti & Htri & Hnx & Hkeep & _).
  unfold body, embed, rstep. cbn [ci cp clast co cd cv cbest cearly hl ht htr hc].
  destruct (draw (r_d r)) as [b d1]. destruct (vg (r_p r) b) as [[lv lt] g].
  destruct (opt_update g (r_o r) (r_p r)) as [u o'].
  rewrite Hli, Hti, Htri, Hnx, Hkeep.
  rewrite (repeat_S_minus zLV n k Hk), (repeat_S_minus zLT n k Hk), (repeat_S_minus zT n k Hk).
  rewrite (at_set_app' (r_l r)) by exact H1. rewrite (at_set_app' (r_t r)) by exact H2. rewrite (at_set_app' (r_tr r)) by exact H3.
  rewrite <- !app_assoc. cbn [app].
  replace (Z.of_nat k + 1) with (Z.of_nat (S k)) by lia.
  destruct (r_v r) as [v|] eqn:Ev.
  - rewrite Hdue, Hci, Hcar. specialize (H4 ltac:(discriminate)).
    destruct (Z.of_nat k mod call_every v =? 0) eqn:Ed.
    + destruct (validate v (apply (r_p r) u)) as [[[v1 es] cr] ub]. cbn.
      rewrite (repeat_S_minus zC n k Hk). rewrite (at_set_app' (r_c r)) by exact H4. rewrite <- ?app_assoc. reflexivity.
    + assert (Hk0 : (1 <= k)%nat) by (destruct k; [rewrite Z.mod_0_l in Ed by (destruct (call_every v); discriminate || lia); discriminate|lia]).
      replace (Z.of_nat k - 1) with (Z.of_nat (k - 1)) by lia. rewrite at_get_prefix by lia. cbn.
      rewrite (repeat_S_minus zC n k Hk). rewrite (at_set_app' (r_c r)) by exact H4. rewrite <- ?app_assoc. reflexivity.
  - cbn. rewrite <- ?app_assoc. reflexivity. Qed.

Lemma cond_embed n k r : cond (Z.of_nat n) (embed n k r) = (k <? n)%nat && negb (halt r).
Proof. destruct Gok as (_ & _ & _ & _ & _ & _ & _ & _ & Hc & _). unfold cond, embed, halt. cbn [ci cp cearly].
  rewrite Hc. rewrite negb_orb, andb_assoc. f_equal. f_equal. lia. Qed.

(* main theorem: the loop runs the textbook iterations 0 .. m-1 where m is the first index at
   which a NaN parameter or an early-stopping request is present (m = n if there is none) *)
Theorem loop_is_textbook n m r0 : Inv 0 r0 -> (m <= n)%nat ->
  (forall j, (j < m)%nat -> halt (rrun j r0) = false) -> (m = n \/ halt (rrun m r0) = true) ->
  loop n (Z.of_nat n) (embed n 0 r0) = embed n m (rrun m r0).
Proof. intros H0 Hm Hno Hstop.
  assert (Gn : forall fuel j, (j <= m)%nat -> (m <= j + fuel)%nat ->
          loop fuel (Z.of_nat n) (embed n j (rrun j r0)) = embed n m (rrun m r0)).
  { induction fuel as [|f IH]; intros j Hj Hf.
    - assert (j = m) by lia. subst j. reflexivity.
    - cbn [M_solve.loop]. rewrite cond_embed. destruct (Nat.eq_dec j m) as [->|Hne].
      + destruct Hstop as [->|Hh]; [replace (n <? n)%nat with false by lia; reflexivity|].
        rewrite Hh, andb_false_r. reflexivity.
      + rewrite Hno by lia. replace (j <? n)%nat with true by lia. cbn [andb negb].
        rewrite body_embed by (try lia; apply rrun_inv; exact H0).
        change (rstep j (rrun j r0)) with (rrun (S j) r0). apply IH; lia. }
  apply (Gn n 0%nat); lia. Qed.

Lemma init_embed n p0 o0 d v0 :
  init P Os D LV LT T V C zLV zLT zT zC n p0 o0 d v0 = embed n 0 (r_init p0 o0 d v0).
Proof. unfold init, embed, r_init. cbn. rewrite Nat.sub_0_r. destruct v0; reflexivity. Qed.
Lemma r_init_inv p0 o0 d v0 : Inv 0 (r_init p0 o0 d v0).
Proof. unfold Inv, r_init. cbn. repeat split. Qed.

(* C18 ingredient: the parameters kept as "last non-NaN" *)
Lemma last_no_nan k r0 : has_nan (r_last r0) = false -> has_nan (r_last (rrun k r0)) = false.
Proof. intro H0. induction k as [|k IH]; [exact H0|]. cbn [rrun]. unfold rstep.
  destruct (draw (r_d (rrun k r0))) as [b d1]. destruct (vg (r_p (rrun k r0)) b) as [[lv lt] g].
  destruct (opt_update g (r_o (rrun k r0)) (r_p (rrun k r0))) as [u o'].
  destruct (r_v (rrun k r0)) as [v|]; [destruct (Z.of_nat k mod call_every v =? 0); [destruct (validate v _) as [[[v1 es] cr] ub]|]|]; cbn;
  destruct (has_nan (apply (r_p (rrun k r0)) u)) eqn:E; assumption. Qed.
Lemma last_is_current k r0 : r_last r0 = r_p r0 -> (forall j, (j <= k)%nat -> has_nan (r_p (rrun j r0)) = false) ->
  r_last (rrun k r0) = r_p (rrun k r0).
Proof. intros H0 Hn. induction k as [|k IH]; [exact H0|]. specialize (Hn (S k) (le_n _)). cbn [rrun] in *. unfold rstep in *.
  destruct (draw (r_d (rrun k r0))) as [b d1]. destruct (vg (r_p (rrun k r0)) b) as [[lv lt] g].
  destruct (opt_update g (r_o (rrun k r0)) (r_p (rrun k r0))) as [u o'].
  destruct (r_v (rrun k r0)) as [v|]; [destruct (Z.of_nat k mod call_every v =? 0); [destruct (validate v _) as [[[v1 es] cr] ub]|]|]; cbn in *;
  rewrite Hn; reflexivity. Qed.
Lemma last_after_first_nan k r0 : r_last r0 = r_p r0 ->
  (forall j, (j <= k)%nat -> has_nan (r_p (rrun j r0)) = false) -> has_nan (r_p (rrun (S k) r0)) = true ->
  r_last (rrun (S k) r0) = r_p (rrun k r0).
Proof. intros H0 Hn Hbad. pose proof (last_is_current k r0 H0 Hn) as Hl. cbn [rrun] in *. unfold rstep in *.
  destruct (draw (r_d (rrun k r0))) as [b d1]. destruct (vg (r_p (rrun k r0)) b) as [[lv lt] g].
  destruct (opt_update g (r_o (rrun k r0)) (r_p (rrun k r0))) as [u o'].
  destruct (r_v (rrun k r0)) as [v|]; [destruct (Z.of_nat k mod call_every v =? 0); [destruct (validate v _) as [[[v1 es] cr] ub]|]|]; cbn in *;
  rewrite Hbad; exact Hl. Qed.

(* what one textbook iteration does with the validation module *)
Lemma rstep_params k r : r_p (rstep k r) =
  apply (r_p r) (fst (opt_update (snd (vg (r_p r) (fst (draw (r_d r))))) (r_o r) (r_p r))).
Proof. unfold rstep. destruct (draw (r_d r)) as [b d1]. cbn [fst]. destruct (vg (r_p r) b) as [[lv lt] g]. cbn [snd].
  destruct (opt_update g (r_o r) (r_p r)) as [u o']. cbn [fst].
  destruct (r_v r) as [v|]; [destruct (Z.of_nat k mod call_every v =? 0); [destruct (validate v _) as [[[v1 es] cr] ub]|]|]; reflexivity. Qed.
Lemma rstep_val_due k r v : r_v r = Some v -> Z.of_nat k mod call_every v = 0 ->
  let '(v1, es, cr, ub) := validate v (r_p (rstep k r)) in
  r_v (rstep k r) = Some v1 /\ r_early (rstep k r) = es /\ r_c (rstep k r) = r_c r ++ [cr] /\
  r_best (rstep k r) = (if ub then r_p (rstep k r) else r_best r).
Proof. intros Hv Hd. rewrite rstep_params. unfold rstep. destruct (draw (r_d r)) as [b d1]. cbn [fst].
  destruct (vg (r_p r) b) as [[lv lt] g]. cbn [snd]. destruct (opt_update g (r_o r) (r_p r)) as [u o']. cbn [fst].
  rewrite Hv, Hd. cbn [Z.eqb]. destruct (validate v (apply (r_p r) u)) as [[[v1 es] cr] ub]. cbn. repeat split. Qed.
Lemma rstep_val_skip k r v : r_v r = Some v -> Z.of_nat k mod call_every v <> 0 ->
  r_v (rstep k r) = Some v /\ r_early (rstep k r) = false /\ r_c (rstep k r) = r_c r ++ [nth (k - 1) (r_c r) zC] /\
  r_best (rstep k r) = r_best r.
Proof. intros Hv Hd. unfold rstep. destruct (draw (r_d r)) as [b d1]. destruct (vg (r_p r) b) as [[lv lt] g].
  destruct (opt_update g (r_o r) (r_p r)) as [u o']. rewrite Hv.
  replace (Z.of_nat k mod call_every v =? 0) with false by lia. cbn. repeat split. Qed.
Lemma rstep_noval k r : r_v r = None -> r_early (rstep k r) = false /\ r_best (rstep k r) = r_p (rstep k r).
Proof. intros Hv. unfold rstep. destruct (draw (r_d r)) as [b d1]. destruct (vg (r_p r) b) as [[lv lt] g].
  destruct (opt_update g (r_o r) (r_p r)) as [u o']. rewrite Hv. cbn. split; reflexivity. Qed.
End S.
