(* Proofs/P_rar.v -- C16 / C17: the concrete refinement machine (stores and probability masks,
   clamped slice updates) simulates the abstract schedule; active counts; preservation. *)
From Coq Require Import ZArith List Bool Lia ZifyBool Arith.
From JV Require Import Kit.Lists Model.M_datagen Model.M_rar Proofs.P_rar_sched.
Import ListNotations.
Open Scope nat_scope.

Definition mask (a n : nat) : list bool := repeat true a ++ repeat false (n - a).

Lemma firstn_repeat {A} (x : A) s a : s <= a -> firstn s (repeat x a) = repeat x s.
Proof. revert a. induction s as [|s IH]; intros a H; [reflexivity|]. destruct a as [|a]; [lia|].
  cbn. rewrite IH by lia. reflexivity. Qed.
Lemma skipn_repeat {A} (x : A) s a : skipn s (repeat x a) = repeat x (a - s).
Proof. revert a. induction s as [|s IH]; intros a; [rewrite Nat.sub_0_r; reflexivity|]. destruct a as [|a]; [reflexivity|].
  cbn. apply IH. Qed.
Lemma mask_length a n : a <= n -> length (mask a n) = n.
Proof. intro H. unfold mask. rewrite app_length, !repeat_length. lia. Qed.
Lemma filter_repeat_true (f : bool -> bool) b k : f b = true -> filter f (repeat b k) = repeat b k.
Proof. intro H. induction k as [|k IH]; cbn; [reflexivity|]. rewrite H, IH. reflexivity. Qed.
Lemma filter_repeat_false (f : bool -> bool) b k : f b = false -> filter f (repeat b k) = [].
Proof. intro H. induction k as [|k IH]; cbn; [reflexivity|]. rewrite H, IH. reflexivity. Qed.
Lemma zeros_mask a n : length (filter negb (mask a n)) = n - a.
Proof. unfold mask. rewrite filter_app, filter_repeat_false, filter_repeat_true by reflexivity.
  cbn. apply repeat_length. Qed.
Lemma actives_mask a n : length (filter (fun b => b) (mask a n)) = a.
Proof. unfold mask. rewrite filter_app, filter_repeat_true, filter_repeat_false by reflexivity.
  rewrite app_nil_r. apply repeat_length. Qed.
Lemma firstn_mask s a n : s <= a -> firstn s (mask a n) = repeat true s.
Proof. intro H. unfold mask. rewrite firstn_app, repeat_length. replace (s - a) with 0 by lia.
  cbn [firstn]. rewrite app_nil_r. apply firstn_repeat. exact H. Qed.
Lemma skipn_mask_lo t a n : t <= a -> skipn t (mask a n) = repeat true (a - t) ++ repeat false (n - a).
Proof. intro H. unfold mask. rewrite skipn_app, repeat_length. replace (t - a) with 0 by lia.
  cbn [skipn]. rewrite skipn_repeat. reflexivity. Qed.
Lemma skipn_mask_hi t a n : a <= t -> skipn t (mask a n) = repeat false (n - t).
Proof. intro H. unfold mask. rewrite skipn_app, repeat_length, !skipn_repeat.
  replace (a - t) with 0 by lia. cbn [repeat app]. f_equal. lia. Qed.

Lemma set_prefix_mask k a n : (0 <= k)%Z -> Z.to_nat k <= a -> a <= n -> set_prefix k (mask a n) = mask a n.
Proof. intros Hk Ha Hn. unfold set_prefix. rewrite mask_length by exact Hn.
  rewrite Nat.min_l by lia. rewrite skipn_mask_lo by exact Ha. unfold mask.
  rewrite app_assoc, <- repeat_app. do 2 f_equal. lia. Qed.

Lemma upd_trues s sel a n : s <= a -> a <= n -> s + sel <= n ->
  upd_slice (Z.of_nat s) (repeat true sel) (mask a n) = mask (Nat.max a (s + sel)) n.
Proof. intros Hs Ha Hn. unfold upd_slice. rewrite mask_length, repeat_length by exact Ha.
  unfold clampZ. replace (Z.to_nat (Z.max 0 (Z.min (Z.of_nat n - Z.of_nat sel) (Z.of_nat s)))) with s by lia.
  rewrite firstn_mask by exact Hs.
  destruct (Nat.le_gt_cases (s + sel) a) as [Hle|Hgt].
  - rewrite skipn_mask_lo by exact Hle. rewrite Nat.max_l by exact Hle. unfold mask.
    rewrite !app_assoc, <- !repeat_app. do 2 f_equal. lia.
  - rewrite skipn_mask_hi by lia. rewrite Nat.max_r by lia. unfold mask.
    rewrite app_assoc, <- repeat_app. reflexivity. Qed.

(* the fori_loop over the slices start + k*sel, k = lo .. lo+c-1, on a prefix mask *)
Lemma fori_slices ns sel n c : forall lo cur, ns + lo * sel <= cur -> cur <= n -> ns + (lo + c) * sel <= n ->
  fori (Z.of_nat lo) c (fun k m => upd_slice (Z.of_nat ns + k * Z.of_nat sel)%Z (repeat true sel) m) (mask cur n)
  = mask (Nat.max cur (if c then cur else ns + (lo + c) * sel)) n.
Proof. induction c as [|c IH]; intros lo cur H1 H2 H3.
  - cbn [fori]. rewrite Nat.max_id. reflexivity.
  - cbn [fori].
    replace (Z.of_nat ns + Z.of_nat lo * Z.of_nat sel)%Z with (Z.of_nat (ns + lo * sel)) by lia.
    rewrite upd_trues by lia.
    replace (Z.of_nat lo + 1)%Z with (Z.of_nat (S lo)) by lia.
    rewrite IH by lia. f_equal. destruct c; lia. Qed.

(* ---------------- C17: a clamped-free update of the store ---------------- *)
Section Store.
Context {A : Type}.
Lemma upd_slice_noclamp (s : nat) (vals l : list A) : s + length vals <= length l ->
  upd_slice (Z.of_nat s) vals l = firstn s l ++ vals ++ skipn (s + length vals) l.
Proof. intro H. unfold upd_slice, clampZ.
  replace (Z.to_nat (Z.max 0 (Z.min (Z.of_nat (length l) - Z.of_nat (length vals)) (Z.of_nat s)))) with s by lia.
  reflexivity. Qed.
(* slots below the write offset are untouched, the written slots hold the new points, the slots
   above are untouched *)
Lemma upd_slice_frame (s : nat) (vals l : list A) : s + length vals <= length l ->
  firstn s (upd_slice (Z.of_nat s) vals l) = firstn s l /\
  firstn (length vals) (skipn s (upd_slice (Z.of_nat s) vals l)) = vals /\
  skipn (s + length vals) (upd_slice (Z.of_nat s) vals l) = skipn (s + length vals) l /\
  length (upd_slice (Z.of_nat s) vals l) = length l.
Proof. intro H. rewrite upd_slice_noclamp by exact H.
  assert (Hf : length (firstn s l) = s) by (rewrite firstn_length; lia).
  repeat split.
  - rewrite firstn_app, Hf, Nat.sub_diag. cbn [firstn]. rewrite app_nil_r. rewrite <- Hf at 1. apply firstn_all.
  - rewrite skipn_app, Hf, Nat.sub_diag. cbn [skipn]. rewrite <- Hf at 1. rewrite skipn_all. cbn [app].
    rewrite firstn_app, Nat.sub_diag. cbn [firstn]. rewrite app_nil_r. apply firstn_all.
  - rewrite skipn_app, Hf. rewrite (skipn_all2 (firstn s l)) by lia. cbn [app].
    replace (s + length vals - s) with (length vals) by lia. rewrite skipn_app, Nat.sub_diag, skipn_all. reflexivity.
  - rewrite !app_length, Hf, skipn_length. lia. Qed.
End Store.

(* ---------------- what the regenerated definitions must satisfy ---------------- *)
Open Scope Z_scope.
Definition dim_gen_ok (g : dim_gen) (own : dpar -> dpar -> dpar) : Prop :=
  (forall sel z, d_cap g sel z = (sel <=? z)) /\
  (forall pt px Jc, d_offset g pt px Jc = dstart (own pt px) + Jc * dsel (own pt px)) /\
  (forall pt px, d_pprefix g pt px = dstart (own pt px)) /\
  (forall pt px k, d_pslice g pt px k = dstart (own pt px) + k * dsel (own pt px)) /\
  d_lo g = 0 /\ (forall Jc, d_hi g Jc = Jc + 1).
Definition opt_ok (g : option dim_gen) (own : dpar -> dpar -> dpar) : Prop :=
  match g with Some g => dim_gen_ok g own | None => True end.
Definition rar_gen_ok (G : rar_gen) : Prop :=
  (forall s i, r_burnin G s i = (s <=? i)) /\ (forall e c, r_period G e c = (e - 1 =? c)) /\
  (forall i s, r_incr G i s = if i <=? s then 0 else 1) /\ (forall c x, r_count G c x = c + x) /\
  (forall e, r_init_counter G e = e - 1) /\ r_ctor_step G = 0 /\ (forall ns, r_ctor_active G ns = ns) /\
  (forall Jc, r_newJ G Jc = Jc + 1) /\ r_step_counter G = 0 /\ r_wiring G = true /\
  opt_ok (r_t G) (fun pt _ => pt) /\ opt_ok (r_x G) (fun _ px => px) /\
  (r_t G <> None \/ r_x G <> None).

Definition par_ok (p : dpar) : Prop := 1 <= dsel p /\ 1 <= dstart p <= dn p.
Definition dcap (p : dpar) : Z := (dn p - dstart p) / dsel p.
Definition cap_of (G : rar_gen) (pt px : dpar) : Z :=
  match r_t G, r_x G with
  | Some _, Some _ => Z.min (dcap pt) (dcap px) | Some _, None => dcap pt
  | None, Some _ => dcap px | None, None => 0 end.

Lemma cap_spec p Jc : par_ok p -> 0 <= Jc ->
  (dsel p <=? dn p - (dstart p + Jc * dsel p)) = (Jc <? dcap p).
Proof. intros (Hs & Hn) HJ. unfold dcap.
  destruct (dsel p <=? dn p - (dstart p + Jc * dsel p)) eqn:E; destruct (Jc <? (dn p - dstart p) / dsel p) eqn:E2; try reflexivity.
  - exfalso. apply Z.ltb_ge in E2. apply Z.leb_le in E.
    assert ((Jc + 1) * dsel p <= dn p - dstart p) by nia.
    assert (Jc + 1 <= (dn p - dstart p) / dsel p) by (apply Z.div_le_lower_bound; lia). lia.
  - exfalso. apply Z.ltb_lt in E2. apply Z.leb_gt in E.
    assert (H : dsel p * ((dn p - dstart p) / dsel p) <= dn p - dstart p) by (apply Z.mul_div_le; lia). nia. Qed.
Lemma dcap_nonneg p : par_ok p -> 0 <= dcap p.
Proof. intros (Hs & Hn). unfold dcap. apply Z.div_pos; lia. Qed.
Lemma dcap_fits p Jc : par_ok p -> 0 <= Jc <= dcap p -> dstart p + Jc * dsel p <= dn p.
Proof. intros (Hs & Hn) HJ. unfold dcap in HJ.
  assert (H : dsel p * ((dn p - dstart p) / dsel p) <= dn p - dstart p) by (apply Z.mul_div_le; lia). nia. Qed.

Lemma fori_ext {S} (f g : Z -> S -> S) c : forall lo x, (forall k y, f k y = g k y) -> fori lo c f x = fori lo c g x.
Proof. induction c as [|c IH]; intros lo x H; cbn [fori]; [reflexivity|]. rewrite H. apply IH. exact H. Qed.

Lemma cap_nonneg G pt px : par_ok pt -> par_ok px -> 0 <= cap_of G pt px.
Proof. intros Hpt Hpx. unfold cap_of. pose proof (dcap_nonneg pt Hpt). pose proof (dcap_nonneg px Hpx).
  destruct (r_t G), (r_x G); lia. Qed.

Definition amask (p : dpar) (Jc : Z) : list bool := mask (Z.to_nat (dstart p + Jc * dsel p)) (Z.to_nat (dn p)).

Section Sim.
Context {A : Type}.
Variable G : rar_gen.
Hypothesis Gok : rar_gen_ok G.
Variables (start every : Z) (pt px : dpar).
Hypothesis Hev : 1 <= every. Hypothesis Hst : 0 <= start.
Hypothesis Hpt : par_ok pt. Hypothesis Hpx : par_ok px.
Notation cap := (cap_of G pt px).

Definition dinv (g : option dim_gen) (own : dpar) (Jc : Z) (d : @dst A) : Prop :=
  match g with None => True | Some _ => act d = amask own Jc end.

(* the refinement step on one store: the mask of step J becomes the mask of step J + 1 *)
Lemma dim_step_mask g own (sel_own : dpar -> dpar -> dpar) Jc newpts (d : @dst A) :
  opt_ok g sel_own -> sel_own pt px = own -> par_ok own -> 0 <= Jc -> Jc < dcap own ->
  dinv g own Jc d -> dinv g own (Jc + 1) (dim_step pt px g own Jc newpts d).
Proof. intros Hg Hown Hp HJ0 HJ Hinv. destruct g as [g|]; [|exact I]. cbn [dinv dim_step act] in *.
  destruct Hg as (_ & _ & Hpre & Hsl & Hlo & Hhi). destruct Hp as (Hs & Hn).
  pose proof (dcap_fits own (Jc + 1) (conj Hs Hn) ltac:(lia)) as Hfit.
  rewrite Hinv, Hpre, Hown, Hlo, Hhi. unfold amask.
  rewrite set_prefix_mask by nia. unfold fori_loop.
  set (ns := Z.to_nat (dstart own)). set (sel := Z.to_nat (dsel own)). set (n := Z.to_nat (dn own)).
  rewrite (fori_ext _ (fun k m => upd_slice (Z.of_nat ns + k * Z.of_nat sel) (repeat true sel) m))
    by (intros k y; rewrite Hsl, Hown; f_equal; unfold ns, sel; lia).
  change 0 with (Z.of_nat 0).
  replace (Z.to_nat (Jc + 1 - Z.of_nat 0)) with (S (Z.to_nat Jc)) by lia.
  rewrite fori_slices by (unfold ns, sel, n; nia).
  f_equal. unfold ns, sel. nia. Qed.

Lemma zeros_amask own Jc (d : @dst A) : par_ok own -> 0 <= Jc <= dcap own -> act d = amask own Jc ->
  zeros d = dn own - (dstart own + Jc * dsel own).
Proof. intros Hp HJ Hd. pose proof (dcap_fits own Jc Hp HJ) as Hfit. destruct Hp as (Hs & Hn).
  unfold zeros. rewrite Hd. unfold amask. rewrite zeros_mask. nia. Qed.

Lemma dim_ok_spec g own (sel_own : dpar -> dpar -> dpar) Jc (d : @dst A) :
  opt_ok g sel_own -> par_ok own -> 0 <= Jc <= dcap own -> dinv g own Jc d ->
  dim_ok g own d = match g with Some _ => (Jc <? dcap own) | None => true end.
Proof. intros Hg Hp HJ Hinv. destruct g as [g|]; [|reflexivity]. cbn [dim_ok dinv] in *.
  destruct Hg as (Hc & _). rewrite Hc, (zeros_amask own Jc d Hp HJ Hinv). apply cap_spec; [exact Hp|lia]. Qed.

Variable sel : Z -> list A * list A.
Variable s0 : @rst A.
Hypothesis Hs0 : cnt s0 = every - 1 /\ J s0 = 0 /\ dinv (r_t G) pt 0 (st_t s0) /\ dinv (r_x G) px 0 (st_x s0).


(* the concrete machine projects onto the abstract schedule machine, and its masks are prefix
   masks with n_start + J * sel active entries *)
Lemma simulation k : let s := run G start every pt px sel s0 k in
  (cnt s, J s) = arun start every cap k /\ 0 <= J s <= cap /\
  dinv (r_t G) pt (J s) (st_t s) /\ dinv (r_x G) px (J s) (st_x s) /\
  proceed G start every pt px (Z.of_nat k) s = aproceed start every cap (Z.of_nat k) (cnt s) (J s).
Proof.
  destruct Gok as (Hbu & Hpe & Hin & Hco & _ & _ & _ & HnJ & Hsc & _ & Ht & Hx & Hsome).
  pose proof (cap_nonneg G pt px Hpt Hpx) as Hc0.
  assert (Hcapt : match r_t G with Some _ => cap <= dcap pt | None => True end)
    by (unfold cap_of; destruct (r_t G), (r_x G); try exact I; lia).
  assert (Hcapx : match r_x G with Some _ => cap <= dcap px | None => True end)
    by (unfold cap_of; destruct (r_t G), (r_x G); try exact I; lia).
  assert (Hpro : forall i (s : @rst A), 0 <= J s <= cap -> dinv (r_t G) pt (J s) (st_t s) -> dinv (r_x G) px (J s) (st_x s) ->
            proceed G start every pt px i s = aproceed start every cap i (cnt s) (J s)).
  { intros i s HJ Hit Hix. unfold proceed, aproceed. rewrite Hbu, Hpe. rewrite <- !andb_assoc. do 2 f_equal.
    unfold cap_of in *. destruct (r_t G) as [gt|] eqn:Et; destruct (r_x G) as [gx|] eqn:Ex.
    - rewrite (dim_ok_spec (Some gt) pt (fun a _ => a) (J s)), (dim_ok_spec (Some gx) px (fun _ b => b) (J s));
        try assumption; try (cbn [dim_ok]; lia).
    - rewrite (dim_ok_spec (Some gt) pt (fun a _ => a) (J s)); try assumption; try (cbn [dim_ok]; lia).
    - rewrite (dim_ok_spec (Some gx) px (fun _ b => b) (J s)); try assumption; try (cbn [dim_ok]; lia).
    - destruct Hsome as [H|H]; congruence. }
  induction k as [|k IH].
  - cbn [run arun]. destruct Hs0 as (H1 & H2 & H3 & H4). rewrite H1, H2.
    split; [reflexivity|]. split; [lia|]. split; [exact H3|]. split; [exact H4|].
    rewrite <- H1, <- H2 at 1. apply Hpro; rewrite ?H2; try assumption; lia.
  - cbn zeta in IH. destruct IH as (Har & HJ & Hit & Hix & Hp).
    cbn [run arun]. set (s := run G start every pt px sel s0 k) in *.
    rewrite <- Har. unfold atrig. unfold trigger. rewrite Hp.
    destruct (aproceed start every cap (Z.of_nat k) (cnt s) (J s)) eqn:Ea.
    + assert (HJlt : J s < cap) by (unfold aproceed in Ea; lia).
      cbn [cnt J st_t st_x]. rewrite Hsc, HnJ.
      assert (Hit' : dinv (r_t G) pt (J s + 1) (dim_step pt px (r_t G) pt (J s) (fst (sel (Z.of_nat k))) (st_t s))).
      { destruct (r_t G) eqn:Et; [|exact I]. apply (dim_step_mask _ pt (fun a _ => a)); try assumption; try reflexivity; lia. }
      assert (Hix' : dinv (r_x G) px (J s + 1) (dim_step pt px (r_x G) px (J s) (snd (sel (Z.of_nat k))) (st_x s))).
      { destruct (r_x G) eqn:Ex; [|exact I]. apply (dim_step_mask _ px (fun _ b => b)); try assumption; try reflexivity; lia. }
      split; [reflexivity|]. split; [lia|]. split; [exact Hit'|]. split; [exact Hix'|].
      match goal with |- proceed _ _ _ _ _ ?i ?s' = _ => apply (Hpro i s') end; cbn [J st_t st_x]; rewrite ?HnJ; try assumption; lia.
    + cbn [cnt J st_t st_x]. rewrite Hco, Hin.
      split; [reflexivity|]. split; [lia|]. split; [exact Hit|]. split; [exact Hix|].
      match goal with |- proceed _ _ _ _ _ ?i ?s' = _ => apply (Hpro i s') end; cbn [J st_t st_x]; try assumption; lia.
Qed.
End Sim.

Section Cor.
Context {A : Type}.
Variable G : rar_gen.
Hypothesis Gok : rar_gen_ok G.
Variables (start every : Z) (pt px : dpar).
Hypothesis Hev : 1 <= every. Hypothesis Hst : 0 <= start.
Hypothesis Hpt : par_ok pt. Hypothesis Hpx : par_ok px.
Variable sel : Z -> list A * list A.
Variables lt lx : list A.
Notation cap := (cap_of G pt px).
Notation s0 := (init_state G every pt px lt lx).
Notation st k := (run G start every pt px sel s0 k).

Lemma init_ok : cnt s0 = every - 1 /\ J s0 = 0 /\ dinv (r_t G) pt 0 (st_t s0) /\ dinv (r_x G) px 0 (st_x s0).
Proof. destruct Gok as (_ & _ & _ & _ & Hic & Hcs & Hca & _). cbn [init_state cnt J st_t st_x].
  rewrite Hic, Hcs. split; [reflexivity|]. split; [reflexivity|].
  split; [destruct (r_t G)|destruct (r_x G)]; try exact I; cbn [dinv ctor_dst act]; rewrite Hca; unfold amask, mask;
  (do 3 f_equal; destruct Hpt, Hpx; lia). Qed.

Definition sim k := simulation G Gok start every pt px Hpt Hpx sel s0 init_ok k.

(* C16: number of completed steps and schedule *)
Theorem steps_done k : J (st k) = Z.min cap (sched start every (Z.of_nat k)).
Proof. destruct (sim k) as (Har & _). pose proof (cap_nonneg G pt px Hpt Hpx) as Hc.
  destruct (schedule start every cap Hev Hst Hc k) as [HJ _]. rewrite <- Har in HJ. exact HJ. Qed.
Theorem step_schedule k :
  stepped G start every pt px sel s0 k =
  (start <=? Z.of_nat k) && ((Z.of_nat k - start) mod every =? 0) && (sched start every (Z.of_nat k) <? cap).
Proof. destruct (sim k) as (Har & _ & _ & _ & Hp). unfold stepped. rewrite Hp.
  pose proof (cap_nonneg G pt px Hpt Hpx) as Hc.
  pose proof (step_iff start every cap Hev Hst Hc k) as H. rewrite <- Har in H. exact H. Qed.
Theorem nothing_before_start k : Z.of_nat k <= start -> J (st k) = 0.
Proof. intro H. rewrite steps_done. unfold sched. replace (Z.of_nat k <=? start) with true by lia.
  pose proof (cap_nonneg G pt px Hpt Hpx). lia. Qed.

(* C16: active counts, independently for time and space, never above the store *)
Theorem active_t k g : r_t G = Some g ->
  actives (st_t (st k)) = dstart pt + J (st k) * dsel pt /\ actives (st_t (st k)) <= dn pt /\
  length (act (st_t (st k))) = Z.to_nat (dn pt).
Proof. intro Hg. destruct (sim k) as (_ & HJ & Hit & _ & _). rewrite Hg in Hit. cbn [dinv] in Hit.
  assert (Hc : cap <= dcap pt) by (unfold cap_of; rewrite Hg; destruct (r_x G); lia).
  pose proof (dcap_fits pt (J (st k)) Hpt ltac:(lia)) as Hfit. destruct Hpt as (Hs & Hn).
  unfold actives. rewrite Hit. unfold amask. rewrite actives_mask, mask_length by nia. nia. Qed.
Theorem active_x k g : r_x G = Some g ->
  actives (st_x (st k)) = dstart px + J (st k) * dsel px /\ actives (st_x (st k)) <= dn px /\
  length (act (st_x (st k))) = Z.to_nat (dn px).
Proof. intro Hg. destruct (sim k) as (_ & HJ & _ & Hix & _). rewrite Hg in Hix. cbn [dinv] in Hix.
  assert (Hc : cap <= dcap px) by (unfold cap_of; rewrite Hg; destruct (r_t G); lia).
  pose proof (dcap_fits px (J (st k)) Hpx ltac:(lia)) as Hfit. destruct Hpx as (Hs & Hn).
  unfold actives. rewrite Hix. unfold amask. rewrite actives_mask, mask_length by nia. nia. Qed.

(* C17: a step writes exactly the first [sel] inactive slots: active slots keep their points, the
   new points land in [a, a + sel), everything above is untouched; nothing is clamped *)
Lemma step_frame g own (sel_own : dpar -> dpar -> dpar) Jc (newpts : list A) (d : @dst A) :
  dim_gen_ok g sel_own -> sel_own pt px = own -> par_ok own -> 0 <= Jc < dcap own ->
  length newpts = Z.to_nat (dsel own) -> length (pts d) = Z.to_nat (dn own) ->
  let a := Z.to_nat (dstart own + Jc * dsel own) in
  let d' := dim_step pt px (Some g) own Jc newpts d in
  firstn a (pts d') = firstn a (pts d) /\ firstn (length newpts) (skipn a (pts d')) = newpts /\
  skipn (a + length newpts) (pts d') = skipn (a + length newpts) (pts d) /\ length (pts d') = length (pts d) /\
  (forall i, (a <= i < a + length newpts)%nat -> nth i (amask own Jc) true = false).
Proof. intros (_ & Hoff & _) Hown Hp HJ Hl Hn a d'. subst d'. cbn [dim_step pts]. rewrite Hoff, Hown.
  pose proof (dcap_fits own (Jc + 1) Hp ltac:(lia)) as Hfit. destruct Hp as (Hs & Hnn).
  replace (dstart own + Jc * dsel own) with (Z.of_nat a) by (unfold a; nia).
  destruct (upd_slice_frame a newpts (pts d)) as (H1 & H2 & H3 & H4); [unfold a; nia|].
  repeat split; try assumption.
  intros i Hi. unfold amask, mask. fold a. rewrite app_nth2 by (rewrite repeat_length; lia).
  rewrite repeat_length. apply nth_repeat_lt'. nia. Qed.
End Cor.

(* ---------------- selection ---------------- *)
Open Scope nat_scope.
(* with the argsort oracle sorted ascending, every chosen candidate has a squared residual at
   least as large as every candidate that is not chosen; chosen ones are candidates *)
Lemma select_tail_spec (mse : nat -> Z) (order : list nat) (sel : nat) :
  sel <= length order ->
  (forall i j, i <= j < length order -> (mse (nth i order O) <= mse (nth j order O))%Z) ->
  let chosen := select_tail (fun n s => (n - s)%Z) order (Z.of_nat sel) in
  chosen = skipn (length order - sel) order /\ length chosen = sel /\
  (forall c r, In c chosen -> In r (firstn (length order - sel) order) -> (mse r <= mse c)%Z).
Proof. intros Hs Hsorted chosen. unfold chosen, select_tail, dyn_slice, slice, clampZ.
  replace (Z.to_nat (Z.max 0 (Z.min (Z.of_nat (length order) - Z.of_nat sel) (Z.of_nat (length order) - Z.of_nat sel))))
    with (length order - sel) by lia.
  rewrite Nat2Z.id.
  assert (Hall : firstn sel (skipn (length order - sel) order) = skipn (length order - sel) order)
    by (apply firstn_all2; rewrite skipn_length; lia).
  rewrite Hall. split; [reflexivity|]. split; [rewrite skipn_length; lia|].
  intros c r Hc Hr. apply In_nth with (d := O) in Hc. destruct Hc as (j & Hj & <-).
  apply In_nth with (d := O) in Hr. destruct Hr as (i & Hi & <-).
  rewrite skipn_length in Hj. rewrite firstn_length in Hi.
  rewrite nth_skipn. rewrite nth_firstn_lt by lia. apply Hsorted. lia. Qed.

(* top_k oracle (descending, dominating the rest): the first s entries are the s largest *)
Lemma topk_prefix_dominates (mse : nat -> Z) (top : list nat) (N s : nat) :
  (forall i j, i <= j < length top -> (mse (nth j top O) <= mse (nth i top O))%Z) ->
  (forall k r, In k top -> r < N -> ~ In r top -> (mse r <= mse k)%Z) ->
  forall k r, In k (firstn s top) -> r < N -> ~ In r (firstn s top) -> (mse r <= mse k)%Z.
Proof. intros Hsorted Hdom k r Hk Hr Hnr.
  destruct (in_dec Nat.eq_dec r top) as [Hin|Hnin].
  - apply In_nth with (d := O) in Hk. destruct Hk as (i & Hi & <-). rewrite firstn_length in Hi.
    apply In_nth with (d := O) in Hin. destruct Hin as (j & Hj & <-).
    rewrite nth_firstn_lt by lia.
    destruct (Nat.lt_ge_cases j s) as [Hlt|Hge].
    + exfalso. apply Hnr. rewrite <- (nth_firstn_lt top s j O Hlt). apply nth_In. rewrite firstn_length. lia.
    + apply Hsorted. lia.
  - apply Hdom; [eapply In_firstn; exact Hk|exact Hr|exact Hnin]. Qed.
Lemma select_pairs_spec nx top st sx :
  select_pairs nx top st sx = (map (fun k => k / nx) (firstn st top), map (fun k => k mod nx) (firstn sx top)).
Proof. unfold select_pairs, unravel. cbn [fst snd]. rewrite !firstn_map. reflexivity. Qed.

(* a reshuffle driven by the probabilities keeps the active slots active, as a set *)
From Coq Require Import Permutation.
Section Reshuffle.
Context {A : Type}.
Variable Gc : cursor_gen.
Variable perm : nat -> list A -> list A.
Variable a : nat.
(* jax.random.choice(..., replace=False, p): entries with p = 0 come last, in store order *)
Hypothesis perm_p : forall r l, Permutation (firstn a (perm r l)) (firstn a l) /\ skipn a (perm r l) = skipn a l.
Lemma get_keeps_active b n_eff (c : @cst A) :
  Permutation (firstn a (store (fst (get Gc perm b n_eff c)))) (firstn a (store c)) /\
  skipn a (store (fst (get Gc perm b n_eff c))) = skipn a (store c).
Proof. unfold get. destruct (do_reset Gc b n_eff c); cbn [fst store]; [apply perm_p|split; [apply Permutation_refl|reflexivity]]. Qed.
Lemma state_keeps_active b n_eff k (c : @cst A) :
  Permutation (firstn a (store (state Gc perm b n_eff k c))) (firstn a (store c)) /\
  skipn a (store (state Gc perm b n_eff k c)) = skipn a (store c).
Proof. induction k as [|k [IH1 IH2]]; cbn [state]; [split; [apply Permutation_refl|reflexivity]|].
  destruct (get_keeps_active b n_eff (state Gc perm b n_eff k c)) as [H1 H2].
  split; [eapply Permutation_trans; eassumption|congruence]. Qed.
End Reshuffle.
