(* Proofs/P_derivkeys.v -- C06: gradient routing *)
From Coq Require Import List Arith Bool Lia.
From JV Require Import Kit.Field Kit.Expr Model.M_derivkeys.
Import ListNotations.
Section P.
Variable F : fld.
Add Field Ffd : (Kfield F).
Variable prim : nat -> F -> F.
Variable dp : nat -> nat.
Notation ev := (ev prim). Notation D := (D dp).
Open Scope K_scope.
Variable env : var -> F.
Hypothesis Henv : forall v, env (Fz v) = env v.      (* stop_gradient does not change values *)

Definition is_param (g : var) : Prop := (exists k, g = Th k) \/ (exists k, g = Nu k).
Lemma param_not_fz g : is_param g -> forall x, g <> Fz x.
Proof. intros [[k ->]|[k ->]] x; discriminate. Qed.
Lemma frozen_by_spec m g : is_param g -> frozen_by true m g = negb (selects m g).
Proof. intros [[k ->]|[k ->]]; reflexivity. Qed.

(* loss values never depend on the derivative specification *)
Lemma masked_term_value m t : ev env (masked_term F true m t) = ev env t.
Proof. apply freeze_value. exact Henv. Qed.
Theorem total_value terms : ev env (masked_total F true terms) = sumK (map (fun mt => ev env (snd mt)) terms).
Proof. unfold masked_total. rewrite ev_sumE, map_map. apply sumK_map_ext. intros mt _. apply masked_term_value. Qed.

(* a (term, group) pair that is not selected contributes exactly zero, a selected one the
   gradient of the term *)
Lemma masked_term_grad m t g : is_param g ->
  ev env (D g (masked_term F true m t)) = if selects m g then ev env (D g t) else k0.
Proof. intro Hg. unfold masked_term. destruct (selects m g) eqn:E.
  - apply freeze_D_other; [rewrite frozen_by_spec, E by exact Hg; reflexivity|apply param_not_fz; exact Hg|exact Henv].
  - apply stopped_gradient_is_zero; [rewrite frozen_by_spec, E by exact Hg; reflexivity|apply param_not_fz; exact Hg]. Qed.
Theorem total_grad terms g : is_param g ->
  ev env (D g (masked_total F true terms)) =
  sumK (map (fun mt => if selects (fst mt) g then ev env (D g (snd mt)) else k0) terms).
Proof. intro Hg. unfold masked_total. rewrite D_sumE, ev_sumE, !map_map. apply sumK_map_ext.
  intros mt _. apply masked_term_grad. exact Hg. Qed.
End P.
