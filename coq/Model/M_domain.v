(* Model/M_domain.v -- how the stores of collocation points are built: uniform samples
   a + (b - a) * u with u in [0, 1), grids a + i * (b - a) / n, the border of a 2-D box by facets. *)
From Coq Require Import QArith List Arith Bool.
Import ListNotations.
Open Scope Q_scope.
Definition uniform_pt (a b u : Q) : Q := a + (b - a) * u.
Definition grid_pt (a b : Q) (n i : nat) : Q := a + inject_Z (Z.of_nat i) * ((b - a) / inject_Z (Z.of_nat n)).
Definition grid (a b : Q) (n : nat) : list Q := map (grid_pt a b n) (seq 0 n).
(* one border point of facet row (pinned column, to max?, bound dimension, free column, free dimension)
   of the box prod [mins_k, maxs_k], the free coordinate being uniform_pt with u *)
Definition facet_point (row : nat * bool * nat * nat * nat) (mins maxs : list Q) (u : Q) : list Q :=
  let '(pc, is_max, bd, fc, fd) := row in
  let pinned := nth bd (if is_max then maxs else mins) 0 in
  let free := uniform_pt (nth fd mins 0) (nth fd maxs 0) u in
  if Nat.eqb pc 0 then [pinned; free] else [free; pinned].
