(* Model/M_params.v -- per-sample equation parameters: the batch dictionary is merged into the
   parameters (only its keys are overridden, functionally), the vmap axes select row i of the
   batched keys and broadcast the others; heterogeneous parameters are replaced inside the
   equation only. *)
From Coq Require Import ZArith List Bool Arith.
Import ListNotations.
Section P.
Context {V : Type}.            (* a parameter value (any shape) *)
(* a leaf of eq_params after the merge: the caller's value, or the rows of the batch *)
Inductive leaf := Plain (v : V) | Rows (l : list V).
Definition lookup {A} (k : nat) (d : list (nat * A)) : option A :=
  match find (fun kv => Nat.eqb (fst kv) k) d with Some kv => Some (snd kv) | None => None end.
Variable merge_takes_batch : bool -> bool.       (* q if q is not None else p *)
Variable axis_for_key : bool -> option Z.        (* 0 if k in batch else None *)
(* _update_eq_params_dict: returns a NEW dictionary with the keys of params *)
Definition update_eq_params (params : list (nat * V)) (batch : list (nat * list V)) : list (nat * leaf) :=
  map (fun kv => (fst kv, match lookup (fst kv) batch with
                          | Some rows => if merge_takes_batch true then Rows rows else Plain (snd kv)
                          | None => Plain (snd kv) end)) params.
Definition axes (params : list (nat * V)) (batch : option (list (nat * list V))) : list (nat * option Z) :=
  match batch with
  | None => map (fun kv => (fst kv, None)) params
  | Some b => map (fun kv => (fst kv, axis_for_key (match lookup (fst kv) b with Some _ => true | None => false end))) params end.
(* what vmap hands to sample i for one leaf *)
Definition select (d : V) (i : nat) (ax : option Z) (l : leaf) : leaf :=
  match ax, l with Some _, Rows rows => Plain (nth i rows d) | _, x => x end.
Definition params_of_sample (d : V) (i : nat) (params : list (nat * V)) (batch : option (list (nat * list V))) : list (nat * leaf) :=
  let merged := match batch with Some b => update_eq_params params b | None => map (fun kv => (fst kv, Plain (snd kv))) params end in
  map (fun t => (fst (fst t), select d i (snd (snd t)) (snd (fst t)))) (combine merged (axes params batch)).
(* heterogeneous parameters: inside the equation, key k is h_k(point, params) when a function is
   declared for it, the given value otherwise *)
Definition hetero {Pt} (hs : list (nat * option (Pt -> list (nat * V) -> V))) (pt : Pt) (params : list (nat * V)) : list (nat * V) :=
  map (fun kv => (fst kv, match lookup (fst kv) hs with Some (Some h) => h pt params | _ => snd kv end)) params.
End P.
