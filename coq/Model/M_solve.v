(* Model/M_solve.v -- jinns.solve as a state machine: the carry of the while_loop, the loop
   condition, one iteration in the order of the source (draw, gradient step, validation, RAR,
   store, increment), histories as pre-allocated lists written with .at[idx].set.  The index
   expressions, the validation test, the NaN bookkeeping and the loop condition are fields of
   [solve_gen] (regenerated from jinns/solver/_solve.py).  Optimizer, loss, generators and the
   validation module are abstract callbacks. *)
From Coq Require Import ZArith List Bool.
From JV Require Import Kit.Lists.
Import ListNotations.
Open Scope Z_scope.

Record solve_gen := {
  s_val_due : Z -> Z -> bool;           (* i % call_every == 0 *)
  s_carry_idx : Z -> Z;                 (* validation_crit_values[...] carried when validation is not due *)
  s_crit_idx : Z -> Z; s_loss_idx : Z -> Z; s_terms_idx : Z -> Z; s_tracked_idx : Z -> Z;   (* .at[...].set *)
  s_next : Z -> Z;                      (* i += 1 *)
  s_keep_last : forall P : Type, bool -> P -> P -> P;   (* cond(nan, last_non_nan, params) *)
  s_continue : Z -> Z -> bool -> bool -> bool;          (* break_fun: i, n_iter, nan, early *)
  s_wiring : bool }.

(* x.at[i].set(v) under jit: a negative index wraps around, an out-of-range one is dropped *)
Definition at_set {A} (i : Z) (v : A) (l : list A) : list A :=
  let n := Z.of_nat (length l) in
  let j := if i <? 0 then i + n else i in
  if (0 <=? j) && (j <? n) then upd (Z.to_nat j) v l else l.
Definition at_get {A} (i : Z) (d : A) (l : list A) : A :=
  let n := Z.of_nat (length l) in
  let j := if i <? 0 then i + n else i in nth (Z.to_nat (Z.max 0 (Z.min (n - 1) j))) l d.

Section Solve.
Variables P Os D B Gr U LV LT T V C : Type.
Variable G : solve_gen.
Variable draw : D -> B * D.                       (* data / param_data / obs_data get_batch, appended *)
Variable vg : P -> B -> (LV * LT) * Gr.           (* value_and_grad(loss, has_aux=True) *)
Variable opt_update : Gr -> Os -> P -> U * Os.      (* optimizer.update(grads, opt_state, params) *)
Variable apply : P -> U -> P.                     (* optax.apply_updates *)
Variable has_nan : P -> bool.
Variable track : P -> T.                          (* the tracked leaves of the parameters *)
Variable validate : V -> P -> V * bool * C * bool.  (* (module', early stop, criterion, improved) *)
Variable call_every : V -> Z.
Variable rar : Z -> P -> D -> D.                  (* trigger_rar *)
Variable rar_init : D -> D.                       (* init_rar *)
Variables (zLV : LV) (zLT : LT) (zT : T) (zC : C).

Record carry := { ci : Z; cp : P; clast : P; co : Os; cd : D; cv : option V; cbest : P; cearly : bool;
                  hl : list LV; ht : list LT; htr : list T; hc : list C }.

Definition body (c : carry) : carry :=
  let i := ci c in
  let '(b, d1) := draw (cd c) in
  let '((lv, lt), g) := vg (cp c) b in
  let '(u, o') := opt_update g (co c) (cp c) in
  let p' := apply (cp c) u in
  let last' := s_keep_last G P (has_nan p') (clast c) p' in
  let '(v', early, hc', best') :=
    match cv c with
    | Some v =>
        let '(v1, es, cr, ub) := if s_val_due G i (call_every v) then validate v p'
                                 else (v, false, at_get (s_carry_idx G i) zC (hc c), false) in
        (Some v1, es, at_set (s_crit_idx G i) cr (hc c), if ub then p' else cbest c)
    | None => (None, false, hc c, p') end in
  let d2 := rar i p' d1 in
  {| ci := s_next G i; cp := p'; clast := last'; co := o'; cd := d2; cv := v'; cbest := best'; cearly := early;
     hl := at_set (s_loss_idx G i) lv (hl c); ht := at_set (s_terms_idx G i) lt (ht c);
     htr := at_set (s_tracked_idx G i) (track p') (htr c); hc := hc' |}.

Definition cond (n : Z) (c : carry) : bool := s_continue G (ci c) n (has_nan (cp c)) (cearly c).
Fixpoint loop (fuel : nat) (n : Z) (c : carry) : carry :=
  match fuel with O => c | S f => if cond n c then loop f n (body c) else c end.

Definition init (n : nat) (p0 : P) (o0 : Os) (d : D) (v0 : option V) : carry :=
  {| ci := 0; cp := p0; clast := p0; co := o0; cd := d; cv := v0; cbest := p0; cearly := false;
     hl := repeat zLV n; ht := repeat zLT n; htr := repeat zT n; hc := repeat zC n |}.
(* solve: init_rar, one batch drawn before the loop (to shape the containers), the loop *)
Definition solve (n : nat) (p0 : P) (o0 : Os) (d0 : D) (v0 : option V) : carry :=
  loop n (Z.of_nat n) (init n p0 o0 (snd (draw (rar_init d0))) v0).
End Solve.

(* ---- the built-in validation module ---- *)
From JV Require Import Kit.GenTypes.
From Coq Require Import QArith.
Record vl_gen := {
  v_improves : cmpop; v_reset : Z; v_incr : Z -> Z; v_stop : Z -> Z -> Z -> bool -> bool; v_wiring : bool }.
Definition cmp_q (o : cmpop) (a b : Q) : bool :=
  match o with QLt => negb (Qle_bool b a) | QLe => Qle_bool a b | QGt => negb (Qle_bool a b) | QGe => Qle_bool b a end.
Record vl_state := { vcounter : Z; vbest : option Q }.       (* best = None encodes +inf *)
(* one invocation with validation loss value v: (state', stop request, improvement flag) *)
Definition vl_call (Gv : vl_gen) (patience : Z) (early : bool) (s : vl_state) (v : Q) : vl_state * bool * bool :=
  let imp := match vbest s with None => match v_improves Gv with QLt | QLe => true | _ => false end
                              | Some b => cmp_q (v_improves Gv) v b end in
  let s' := if imp then {| vcounter := v_reset Gv; vbest := Some v |}
            else {| vcounter := v_incr Gv (vcounter s); vbest := vbest s |} in
  (s', v_stop Gv (vcounter s) (vcounter s') patience early, imp).
Fixpoint vl_run (Gv : vl_gen) (patience : Z) (early : bool) (s : vl_state) (vs : list Q) : list (bool * bool) :=
  match vs with [] => [] | v :: r => let '(s', stop, imp) := vl_call Gv patience early s v in
                                     (stop, imp) :: vl_run Gv patience early s' r end.
Definition vl_init : vl_state := {| vcounter := 0; vbest := None |}.
