(* Model/M_datagen.v -- the mini-batch cursor machine shared by every data generator
   (times, interior, border, observation indices, each parameter key).
   Executable; the decisive tests and updates are the fields of [cursor_gen], which
   Props instantiates with the definitions regenerated from the source (Gen). *)
From Coq Require Import ZArith List Bool.
Import ListNotations.
Open Scope Z_scope.

Record cursor_gen := {
  g_done : Z -> Z -> bool;        (* test of the lax.cond in _reset_or_increment *)
  g_true_resets : bool;           (* the true branch is the reshuffle *)
  g_bend : Z -> Z -> Z;           (* hypothetical end of the next batch *)
  g_incr : Z -> Z -> Z;           (* _increment_batch_idx *)
  g_reset : Z;                    (* _reset_batch_idx_and_permute *)
  g_init : Z -> Z;                (* cursor set by __post_init__ *)
  g_neff : Z -> Z;                (* points to serve per epoch when refinement is off *)
  g_wiring : bool                 (* operands / slice / tree_at refer to the right attributes *)
}.

Definition clampZ (lo hi x : Z) : Z := Z.max lo (Z.min hi x).

Section Cursor.
Context {A : Type}.
Variable G : cursor_gen.
Variable perm : nat -> list A -> list A.      (* oracle: the r-th reshuffle applied to the store *)

Record cst := { store : list A; idx : Z; nres : nat }.

Definition slice (s b : Z) (l : list A) : list A := firstn (Z.to_nat b) (skipn (Z.to_nat s) l).
(* lax.dynamic_slice clamps the start so that the slice fits *)
Definition dyn_slice (s b : Z) (l : list A) : list A :=
  slice (clampZ 0 (Z.of_nat (length l) - b) s) b l.

Definition do_reset (b n_eff : Z) (c : cst) : bool :=
  let t := g_done G (g_bend G (idx c) b) n_eff in if g_true_resets G then t else negb t.

Definition get (b n_eff : Z) (c : cst) : cst * list A :=
  let c' := if do_reset b n_eff c
            then {| store := perm (nres c) (store c); idx := g_reset G; nres := S (nres c) |}
            else {| store := store c; idx := g_incr G (idx c) b; nres := nres c |} in
  (c', dyn_slice (idx c') b (store c')).

(* state after k calls *)
Fixpoint state (b n_eff : Z) (k : nat) (c : cst) : cst :=
  match k with O => c | S k' => fst (get b n_eff (state b n_eff k' c)) end.
(* batch returned by call number k (0-based) *)
Definition batch (b n_eff : Z) (k : nat) (c : cst) : list A := snd (get b n_eff (state b n_eff k c)).
Definition reshuffled (b n_eff : Z) (k : nat) (c : cst) : bool := do_reset b n_eff (state b n_eff k c).
Definition init (l : list A) (b : Z) : cst := {| store := l; idx := g_init G b; nres := 0 |}.

(* trace of k calls: (cursor after the call, batch) *)
Fixpoint trace (b n_eff : Z) (k : nat) (c : cst) : list (Z * list A) :=
  match k with O => [] | S k' => let '(c', bt) := get b n_eff c in (idx c', bt) :: trace b n_eff k' c' end.
End Cursor.
Arguments store {A}. Arguments idx {A}. Arguments nres {A}.
