(* Model/M_loaders.v -- observation loader (an index vector is shuffled by the cursor machine and
   three tables are gathered with the SAME mini-batch of indices), parameter loader (per key,
   table or range), multi-network loader (a finite map of optional loaders). *)
From Coq Require Import ZArith List Bool.
From JV Require Import Kit.GenTypes Model.M_datagen.
Import ListNotations.

Section L.
Context {R : Type}.      (* a table row *)
Variable d : R.
Definition gather (tbl : list R) (idx : list nat) : list R := map (fun i => nth i tbl d) idx.
End L.

Section Obs.
Context {R : Type}.
Variable d : R.
Variable G : cursor_gen.
Variable perm : nat -> list nat -> list nat.
(* one observation batch: the three gathered tables *)
Definition obs_get (P V E : list R) (b : Z) (c : @cst nat) : @cst nat * (list R * list R * list R) :=
  let '(c', idx) := get G perm b (g_neff G (Z.of_nat (length P))) c in
  (c', (gather d P idx, gather d V idx, gather d E idx)).
Fixpoint obs_trace (P V E : list R) (b : Z) (k : nat) (c : @cst nat) : list (list R * list R * list R) :=
  match k with O => [] | S k' => let '(c', bt) := obs_get P V E b c in bt :: obs_trace P V E b k' c' end.
Definition obs_init (n : nat) (b : Z) : @cst nat := init G (seq 0 n) b.
End Obs.

(* multi-network loader: networks without observations give an empty entry *)
Definition multi_batch {L B} (batch : L -> B) (empty : B) (loaders : list (option L)) : list B :=
  map (fun o => match o with Some l => batch l | None => empty end) loaders.
