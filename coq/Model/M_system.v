(* Model/M_system.v -- system losses: weight expansion (set_loss_weights), the dynamic term as a
   weighted sum over equations, every other term as a weighted sum over unknowns of the
   single-network term. *)
From Coq Require Import List Arith Bool.
From JV Require Import Kit.Field Kit.GenTypes Model.M_lossterms Model.M_params.
Import ListNotations.
Section S.
Variable F : fld.
Open Scope K_scope.
(* the dictionary a weight field is expanded to: keyed by equation or by unknown *)
Definition expand (e : wexp) (given : list (nat * F)) (x : F) (eq_keys u_keys : list nat) : option (list (nat * F)) :=
  match e with
  | WUseDict => Some given
  | WZerosEquations => Some (map (fun k => (k, k0)) eq_keys) | WZerosUnknowns => Some (map (fun k => (k, k0)) u_keys)
  | WConstEquations => Some (map (fun k => (k, x)) eq_keys) | WConstUnknowns => Some (map (fun k => (k, x)) u_keys)
  | WUnset | WErr => None end.
Definition wlook (ws : list (nat * F)) (k : nat) : F := match lookup k ws with Some w => w | None => k0 end.
(* a non-dynamic term of the system: sum over the unknowns of weight * single-network term *)
Definition sys_term (ws : list (nat * F)) (singles : list (nat * F)) : F :=
  sumK (map (fun kv => wlook ws (fst kv) * snd kv) singles).
(* the dynamic term: sum over the equations of the batch-mean weighted squared residual *)
Definition sys_dyn (ws : list (nat * F)) (res : list (nat * list (list F))) : F :=
  sumK (map (fun kr => mse_term F (WScalar (wlook ws (fst kr))) (snd kr)) res).
End S.
