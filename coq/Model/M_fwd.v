(* Model/M_fwd.v -- forward-mode (separable) computations: jvp with a tangent vector, the scan
   over one-hot tangents of _laplacian_fwd / _div_fwd, the grid of _get_grid (meshgrid, 'ij'). *)
From Coq Require Import List Arith Bool.
From JV Require Import Kit.Field Kit.Expr Model.M_operators.
Import ListNotations.
Section Fwd.
Variable F : fld.
Variable dp : nat -> nat.
Notation expr := (expr F).
(* jax.jvp(f, (x,), (v,))[1] = sum_j v_j * df/dx_j *)
Definition jvp (has_t : bool) (d : nat) (v : list F) (e : expr) : expr :=
  sumE (map (fun j => Mul (Cst (nth j v k0)) (D dp (xvar has_t j) e)) (seq 0 d)).
Definition one_hot (d i : nat) : list F := map (fun j => if Nat.eqb i j then k1 else k0) (seq 0 d).
(* _laplacian_fwd: scan over i of jvp(jvp(u[..., 0], e_i), e_i), summed *)
Definition laplacian_fwd (has_t : bool) (d : nat) (u : list expr) : expr :=
  sumE (map (fun i => jvp has_t d (one_hot d i) (jvp has_t d (one_hot d i) (comp F u 0))) (seq 0 d)).
(* _div_fwd: scan over i of jvp(u[..., i], e_i), summed *)
Definition div_fwd (has_t : bool) (d : nat) (u : list expr) : expr :=
  sumE (map (fun i => jvp has_t d (one_hot d i) (comp F u i)) (seq 0 d)).
End Fwd.
(* _get_grid: stack of meshgrid over the columns with indexing='ij', on the last axis, flattened row-major: the first
   coordinate varies slowest *)
Fixpoint grid_flat {A} (cols : list (list A)) : list (list A) :=
  match cols with [] => [[]] | c :: rest => flat_map (fun x => map (cons x) (grid_flat rest)) c end.
Fixpoint flat_index (dims idx : list nat) : nat :=
  match dims, idx with _ :: ds, i :: is_ => i * fold_right Nat.mul 1 ds + flat_index ds is_ | _, _ => 0 end.
