(* Model/M_jx.v -- semantics of the emitted terms as expression trees: networks are lists of
   component expressions, equation parameters are variables Nu (pcode name i), the derivative of
   log is modelled as u'/u (d/dt log u = u_t / u). *)
From Coq Require Import List Arith ZArith Bool.
From JV Require Import Kit.Field Kit.Expr Kit.Jx Model.M_operators.
Import ListNotations.
Section S.
Variable F : fld.
Variable dp : nat -> nat.
Variable has_t : bool.
Variable dim : nat.
Variable nets : nat -> list (expr F).
Variable pcode : nat -> option nat -> nat.       (* which Nu variable a parameter (entry) is *)
Variable tmax : F.
Definition ix (iv : nat) (i : idx) : nat := match i with IC n => n | IV => iv end.
Definition qcst (n : Z) (d : positive) : F := kdiv (of_Z n) (of_Z (Zpos d)).
(* log is only ever differentiated: JLog a is kept symbolic by returning a marker handled in JDt *)
Fixpoint sem (iv : nat) (e : jx) : expr F :=
  match e with
  | JC n d => Cst (qcst n d)
  | JT => Var tvar
  | JX i => Var (xvar has_t (ix iv i))
  | JU n c => comp F (nets n) (ix iv c)
  | JP name i => Var (Nu (pcode name i))
  | JTmax => Cst tmax
  | JAdd a b => Add (sem iv a) (sem iv b)
  | JSub a b => Sub (sem iv a) (sem iv b)
  | JMul a b => Mul (sem iv a) (sem iv b)
  | JDiv a b => Mul (sem iv a) (Inv (sem iv b))
  | JNeg a => Opp (sem iv a)
  | JLog a => sem iv a                       (* only meaningful under JDt, see below *)
  | JDt (JLog a) => Mul (D dp tvar (sem iv a)) (Inv (sem iv a))
  | JDt a => D dp tvar (sem iv a)
  | JDx i a => D dp (xvar has_t (ix iv i)) (sem iv a)
  | JSumDim body => sumE (map (fun k => sem k body) (seq 0 dim))
  end.
End S.
