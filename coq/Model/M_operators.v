(* Model/M_operators.v -- the reverse-mode differential operators of jinns/loss/_operators.py on
   expression-defined fields.  A network is the list of its output components; the point is the
   environment; grad(f, argnum)(args)[i] is D (gvar has_t argnum i) f. *)
From Coq Require Import List Arith Bool.
From JV Require Import Kit.Field Kit.Expr.
Import ListNotations.
Section Ops.
Variable F : fld.
Variable dp : nat -> nat.
Notation expr := (expr F).
Definition tvar : var := In 0.
Definition xvar (has_t : bool) (i : nat) : var := In (if has_t then S i else i).
(* which input variable index i of positional argument argnum is: the arguments are (t, x) when
   a time is present (t has one entry), (x) otherwise *)
Definition gvar (has_t : bool) (argnum i : nat) : var :=
  if has_t then match argnum with O => tvar | _ => xvar true i end else xvar false i.
Definition Dg (has_t : bool) (argnum i : nat) (e : expr) : expr := D dp (gvar has_t argnum i) e.
Definition comp (u : list expr) (k : nat) : expr := nth k u (Cst k0).
(* the argnums the source passes: 1 (= x) when a time is present, 0 otherwise *)
Definition xarg (has_t : bool) : nat := if has_t then 1 else 0.

(* jax.hessian(u_, argnums=a)(..): entry (i, j) is d/dx_j (d/dx_i u_) ; jnp.trace *)
Definition hessian (has_t : bool) (a d : nat) (e : expr) : list (list expr) :=
  map (fun i => map (fun j => Dg has_t a j (Dg has_t a i e)) (seq 0 d)) (seq 0 d).
Definition trace (m : list (list expr)) : expr :=
  sumE (map (fun i => nth i (nth i m []) (Cst k0)) (seq 0 (length m))).
(* _laplacian_rev: u_ = u(...)[0]; trace of the Hessian w.r.t. x *)
Definition laplacian_rev (has_t : bool) (d : nat) (u : list expr) : expr :=
  trace (hessian has_t (xarg has_t) d (comp u 0)).
(* _div_rev: scan over i of grad(u(...)[i], x)[i], summed *)
Definition div_rev (has_t : bool) (d : nat) (u : list expr) : expr :=
  sumE (map (fun i => Dg has_t (xarg has_t) i (comp u i)) (seq 0 d)).
(* _vectorial_laplacian: scan over the n output components j of the Laplacian of
   expand_dims(u(...)[j]) *)
Definition vectorial_laplacian (has_t : bool) (d n : nat) (u : list expr) : list expr :=
  map (fun j => laplacian_rev has_t d [comp u j]) (seq 0 n).
(* _u_dot_nabla_times_u_rev (x of size 2 only; the source raises otherwise) *)
Definition u_dot_nabla_u (has_t : bool) (d : nat) (u : list expr) : option (list expr) :=
  if Nat.eqb d 2 then
    let a := xarg has_t in let ux := comp u 0 in let uy := comp u 1 in
    Some [Add (Mul ux (Dg has_t a 0 ux)) (Mul uy (Dg has_t a 1 ux));
          Add (Mul ux (Dg has_t a 0 uy)) (Mul uy (Dg has_t a 1 uy))]
  else None.
End Ops.
