(* Model/M_dynloss.v -- the built-in dynamic losses of jinns/loss/_DynamicLoss.py (PINN branches)
   on expression-defined networks.  Equation parameters are the variables Nu k (per equation,
   see the comments), Tmax is a field element. *)
From Coq Require Import List Arith Bool.
From JV Require Import Kit.Field Kit.Expr Model.M_operators.
Import ListNotations.
Section Dyn.
Variable F : fld.
Variable dp : nat -> nat.
Notation expr := (expr F).
Notation Dt := (D dp tvar).
Notation Dx i := (D dp (xvar true i)).
Notation Dxs i := (D dp (xvar false i)).
Variable tmax : F.
Definition par (k : nat) : expr := Var (Nu k).

(* BurgerEquation (1 space dimension); nu = Nu 0.
   du_dt(t, x) + Tmax * (u * du_dx(t, x) - nu * d2u_dx2(t, x)) *)
Definition burgers (u : expr) : expr :=
  Add (Dt u) (Mul (Cst tmax) (Sub (Mul u (Dx 0 u)) (Mul (par 0) (Dx 0 (Dx 0 u))))).

(* FisherKPP (any dimension d); D = Nu 0, r = Nu 1, g = Nu 2.
   du_dt + Tmax * (-D * lap - u * (r - g * u)) *)
Definition fisher (d : nat) (u : expr) : expr :=
  Add (Dt u) (Mul (Cst tmax) (Sub (Mul (Opp (par 0)) (laplacian_rev F dp true d [u])) (Mul u (Sub (par 1) (Mul (par 2) u))))).

(* FPENonStatioLoss2D with abstract drift (2 components) and diffusion (2 x 2):
   -du_dt + Tmax * (-order_1 + order_2), the index pattern of the source kept as is *)
Definition fpe (drift : nat -> expr) (diffusion : nat -> nat -> expr) (u : expr) : expr :=
  let order_1 := Add (Dx 0 (Mul (drift 0) u)) (Dx 1 (Mul (drift 1) u)) in
  let order_2 := Add (Add (Add (Dx 0 (Dx 0 (Mul u (diffusion 0 0)))) (Dx 0 (Dx 1 (Mul u (diffusion 1 0)))))
                          (Dx 1 (Dx 0 (Mul u (diffusion 0 1))))) (Dx 1 (Dx 1 (Mul u (diffusion 1 1)))) in
  Add (Opp (Dt u)) (Mul (Cst tmax) (Add (Opp order_1) order_2)).
(* OU_FPENonStatioLoss2D: alpha_i = Nu i, mu_i = Nu (2 + i), sigma_i = Nu (4 + i);
   drift = alpha * (mu - x); diffusion = 0.5 * diag(sigma) diag(sigma)^T *)
Variable half : F.                       (* 1/2 *)
Definition ou_drift (i : nat) : expr := Mul (par i) (Sub (par (2 + i)) (Var (xvar true i))).
Definition ou_diffusion (i j : nat) : expr :=
  Mul (Cst half) (if Nat.eqb i j then Mul (par (4 + i)) (par (4 + j)) else Cst k0).
Definition ou (u : expr) : expr := fpe ou_drift ou_diffusion u.

(* GeneralizedLotkaVolterra in log form; growth = Nu 0, carrying = Nu 1, interactions[j] = Nu (2 + j);
   u_main and the other populations; d/dt log u = u'/u.
   du_dt + Tmax * (-growth - interaction_terms + carrying_term) *)
Definition enumerate {A} (l : list A) : list (nat * A) := combine (seq 0 (length l)) l.
Definition glv (u_main : expr) (others : list expr) : expr :=
  let du_dt := Mul (Dt u_main) (Inv u_main) in
  let carrying := fold_left (fun acc ik => Add acc (Mul (par 1) (snd ik))) (enumerate others) (Mul (par 1) u_main) in
  let inter := fold_left (fun acc ik => Add acc (Mul (par (2 + (fst ik + 1))) (snd ik))) (enumerate others) (Mul (par 2) u_main) in
  Add du_dt (Mul (Cst tmax) (Add (Sub (Opp (par 0)) inter) carrying)).

(* MassConservation2DStatio: divergence of the stationary field *)
Definition mass_conservation (d : nat) (u : list expr) : expr := div_rev F dp false d u.

(* NavierStokes2DStatio; rho = Nu 0, nu = Nu 1; u has two components, p is scalar.
   result_c = (u . grad u)_c + 1 / rho * dp/dx_c - nu * lap(u_c) *)
Definition navier_stokes (u : list expr) (p : expr) : list expr :=
  match u_dot_nabla_u F dp false 2 u with
  | Some adv =>
      let vl := vectorial_laplacian F dp false 2 2 u in
      map (fun c => Sub (Add (nth c adv (Cst k0)) (Mul (Mul (Cst k1) (Inv (par 0))) (Dxs c p))) (Mul (par 1) (nth c vl (Cst k0)))) [0; 1]
  | None => [] end.
End Dyn.
