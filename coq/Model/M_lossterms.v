(* Model/M_lossterms.v -- the reductions of jinns/loss/_loss_utils.py and of the evaluate methods:
   a term is the batch mean of the weighted sum over components of squared mismatches; weights
   are scalars or per-component vectors (numpy broadcasting on the trailing axis). *)
From Coq Require Import List Arith Bool.
From JV Require Import Kit.Field.
Import ListNotations.
Section T.
Variable F : fld.
Open Scope K_scope.
(* a weight: scalar (broadcast to every component) or one entry per component *)
Inductive weight := WScalar (w : F) | WVec (ws : list F).
Definition wat (w : weight) (c : nat) : F := match w with WScalar x => x | WVec l => nth c l k0 end.
Definition enumerate {A} (l : list A) : list (nat * A) := combine (seq 0 (length l)) l.
(* sum over the trailing (component) axis of w * r^2 *)
Definition wsum (w : weight) (r : list F) : F := sumK (map (fun p => wat w (fst p) * sq (snd p)) (enumerate r)).
(* jnp.mean(jnp.sum(w * res ** 2, axis=-1)): res has one row per batch point *)
Definition mse_term (w : weight) (res : list (list F)) : F := meanK (map (wsum w) res).
(* mismatch rows a - b *)
Definition diff_rows (a b : list (list F)) : list (list F) :=
  map (fun p => map (fun q => fst q - snd q) (combine (fst p) (snd p))) (combine a b).
(* dynamic term: residual rows; initial condition (PDE): u0(x_i) - u(0, x_i); observations:
   u(in_i; params_i)[slices] - val_i *)
Definition dyn_term := mse_term.
Definition ic_term (w : weight) (u0 ut0 : list (list F)) : F := mse_term w (diff_rows u0 ut0).
Definition obs_term (w : weight) (pred vals : list (list F)) : F := mse_term w (diff_rows pred vals).
(* ODE initial condition: u(t0; params) - u0, one row per parameter sample (one row without a
   parameter batch) *)
Definition ode_ic_term (w : weight) (ut0 : list (list F)) (u0 : list F) : F :=
  mse_term w (map (fun r => map (fun q => fst q - snd q) (combine r u0)) ut0).
(* normalisation: w * (L * mean over samples (and components) of u - 1)^2, averaged over the
   batch times when u depends on time; vals = one matrix (samples x components) per time *)
Definition mean_all (m : list (list F)) : F := meanK (concat m).
Definition norm_one (w L : F) (m : list (list F)) : F := w * sq (L * mean_all m - k1).
Definition norm_term_statio (w L : F) (m : list (list F)) : F := norm_one w L m.
Definition norm_term_nonstatio (w L : F) (ms : list (list (list F))) : F := meanK (map (norm_one w L) ms).
(* total loss: the sum of the terms, an absent part contributing the constant 0 *)
Definition opt_term (o : option F) : F := match o with Some x => x | None => k0 end.
Definition total (terms : list (option F)) : F := fold_left (fun a o => a + opt_term o) terms k0.
End T.
Arguments WScalar {F}. Arguments WVec {F}.
