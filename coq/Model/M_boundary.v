(* Model/M_boundary.v -- boundary term (jinns/loss/_boundary_conditions.py, PINN branches, and
   boundary_condition_apply): per facet, the mean over that facet's border points of the weighted
   squared mismatch between f and u (Dirichlet) or the normal derivative of u (Neumann); summed
   over the facets that carry a condition.  The normal tables are parameters (regenerated). *)
From Coq Require Import List Arith Bool ZArith.
From JV Require Import Kit.Field Kit.Expr Model.M_operators.
Import ListNotations.
Section B.
Variable F : fld.
Variable prim : nat -> F -> F.
Variable dp : nat -> nat.
Open Scope K_scope.
Variables (n1d : list Z) (n2d : list (list Z)).
(* n[..., facet]: a scalar in 1-D, a column in 2-D *)
Definition normal (dim facet : nat) : list F :=
  if Nat.eqb dim 1 then [of_Z (nth facet n1d 0%Z)] else map (fun row => of_Z (nth facet row 0%Z)) n2d.
(* what the user's boundary function returns at a point: a scalar or an array *)
Inductive fret := FScalar (y : F) | FVec (l : list F).
Definition sumsq (l : list F) : F := sumK (map sq l).
(* numpy: v - f(p) with v an array of k components *)
Definition minus_f (v : list F) (f : fret) : list F :=
  match f with
  | FScalar y => map (fun x => x - y) v
  | FVec [y] => map (fun x => x - y) v
  | FVec l => map (fun q => fst q - snd q) (combine v l) end.
Definition take_slice {A} (lo hi : nat) (l : list A) : list A := firstn (hi - lo) (skipn lo l).
(* Dirichlet at one border point: sum_c (u(p)[dim_to_apply] - f(p))_c^2 *)
Definition dirichlet_point (uvals : list F) (lo hi : nat) (f : fret) : F := sumsq (minus_f (take_slice lo hi uvals) f).
(* Neumann at one border point: atleast_1d(dot(grad u_, n[..., facet]) - f(p)), squared, summed *)
Definition neumann_point (grad_u : list F) (nrm : list F) (f : fret) : F :=
  let g := sumK (map (fun q => fst q * snd q) (combine grad_u nrm)) in
  sumsq (match f with FScalar y => [g - y] | FVec l => map (fun y => g - y) l end).
(* one facet: jnp.mean(loss_weight * per_point_values) *)
Definition facet_term (w : F) (vals : list F) : F := meanK (map (fun v => w * v) vals).
(* all facets: None = no condition on that facet (skipped) *)
Definition boundary_term (w : F) (facets : list (option (list F))) : F :=
  sumK (map (fun o => match o with Some vals => facet_term w vals | None => k0 end) facets).
(* spatial gradient of the selected (scalar) component at the point env *)
Definition grad_at (has_t : bool) (dim : nat) (ucomp : expr F) (env : var -> F) : list F :=
  map (fun k => ev prim env (D dp (xvar has_t k) ucomp)) (seq 0 dim).
End B.
Arguments FScalar {F}. Arguments FVec {F}.
