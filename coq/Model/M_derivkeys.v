(* Model/M_derivkeys.v -- derivative keys: each loss term is evaluated on parameters whose
   unselected groups went through stop_gradient (= were frozen); the total is the sum of the terms.
   Groups: the network parameters (all Th variables) and each equation parameter (Nu k). *)
From Coq Require Import List Arith Bool.
From JV Require Import Kit.Field Kit.Expr.
Import ListNotations.
Section M.
Variable F : fld.
(* a mask: the network parameters as a whole, and one flag per equation parameter *)
Record mask := { m_nn : bool; m_eq : nat -> bool }.
Definition selects (m : mask) (v : var) : bool :=
  match v with Th _ => m_nn m | Nu k => m_eq m k | _ => true end.
(* `keep` = a True mask entry keeps the leaf differentiable (what the source's cond does) *)
Definition frozen_by (keep : bool) (m : mask) (v : var) : bool :=
  match v with Th _ | Nu _ => if keep then negb (selects m v) else selects m v | _ => false end.
Definition masked_term (keep : bool) (m : mask) (t : expr F) : expr F := freeze (frozen_by keep m) t.
Definition masked_total (keep : bool) (terms : list (mask * expr F)) : expr F :=
  sumE (map (fun mt => masked_term keep (fst mt) (snd mt)) terms).
(* masks from the three strings *)
Definition mask_of (nn eq : bool) : mask := {| m_nn := nn; m_eq := fun _ => eq |}.
End M.
