(* Model/M_rar.v -- residual-adaptive refinement: the trigger (schedule + capacity tests), the
   refinement step on the pre-allocated stores and on the probability masks, the candidate
   selection.  Executable; every test, offset and loop bound is a field of [rar_gen] that Inst
   fills with the definitions regenerated from jinns/solver/_rar.py and the constructors. *)
From Coq Require Import ZArith List Bool.
From JV Require Import Model.M_datagen.
Import ListNotations.
Open Scope Z_scope.

Record dpar := { dn : Z; dstart : Z; dsel : Z }.         (* store size, initial active count, added per step *)
Record dim_gen := {
  d_cap : Z -> Z -> bool;                 (* capacity test: selected size, number of zero probabilities *)
  d_offset : dpar -> dpar -> Z -> Z;      (* where the new points are written (times par, omega par, J) *)
  d_pprefix : dpar -> dpar -> Z;          (* p.at[:k].set(...) *)
  d_pslice : dpar -> dpar -> Z -> Z;      (* start of the k-th slice of p given a non-zero value *)
  d_lo : Z; d_hi : Z -> Z }.              (* bounds of the fori_loop over the slices *)
Record rar_gen := {
  r_burnin : Z -> Z -> bool; r_period : Z -> Z -> bool;
  r_incr : Z -> Z -> Z; r_count : Z -> Z -> Z;
  r_init_counter : Z -> Z; r_ctor_step : Z; r_ctor_active : Z -> Z;
  r_newJ : Z -> Z; r_step_counter : Z;
  r_t : option dim_gen; r_x : option dim_gen;    (* which stores the generator kind refines *)
  r_wiring : bool }.

Section R.
Context {A : Type}.
Definition set_prefix (k : Z) (m : list bool) : list bool :=
  repeat true (Nat.min (Z.to_nat k) (length m)) ++ skipn (Z.to_nat k) m.
(* lax.dynamic_update_slice: the start is clamped so that the update fits *)
Definition upd_slice {B} (s : Z) (vals : list B) (l : list B) : list B :=
  let s' := Z.to_nat (clampZ 0 (Z.of_nat (length l) - Z.of_nat (length vals)) s) in
  firstn s' l ++ vals ++ skipn (s' + length vals)%nat l.
Fixpoint fori {S} (lo : Z) (c : nat) (f : Z -> S -> S) (x : S) : S :=
  match c with O => x | S c' => fori (lo + 1) c' f (f lo x) end.
Definition fori_loop {S} (lo hi : Z) (f : Z -> S -> S) (x : S) : S := fori lo (Z.to_nat (hi - lo)) f x.

Record dst := { pts : list A; act : list bool }.         (* one store and its p <> 0 mask *)
Record rst := { cnt : Z; J : Z; st_t : dst; st_x : dst }.
Definition zeros (d : dst) : Z := Z.of_nat (length (filter negb (act d))).
Definition actives (d : dst) : Z := Z.of_nat (length (filter (fun b => b) (act d))).

Variable G : rar_gen.
Variables (start every : Z) (pt px : dpar).

Definition dim_ok (g : option dim_gen) (own : dpar) (d : dst) : bool :=
  match g with Some g => d_cap g (dsel own) (zeros d) | None => true end.
Definition proceed (i : Z) (s : rst) : bool :=
  r_burnin G start i && r_period G every (cnt s) && dim_ok (r_t G) pt (st_t s) && dim_ok (r_x G) px (st_x s).

Definition dim_step (g : option dim_gen) (own : dpar) (Jc : Z) (newpts : list A) (d : dst) : dst :=
  match g with
  | None => d
  | Some g =>
    {| pts := upd_slice (d_offset g pt px Jc) newpts (pts d);
       act := fori_loop (d_lo g) (d_hi g Jc)
                (fun k m => upd_slice (d_pslice g pt px k) (repeat true (Z.to_nat (dsel own))) m)
                (set_prefix (d_pprefix g pt px) (act d)) |} end.

(* one call of trigger_rar at iteration i; [nt], [nx] are the points chosen by the selection *)
Definition trigger (i : Z) (nt nx : list A) (s : rst) : rst :=
  if proceed i s then
    {| cnt := r_step_counter G; J := r_newJ G (J s);
       st_t := dim_step (r_t G) pt (J s) nt (st_t s); st_x := dim_step (r_x G) px (J s) nx (st_x s) |}
  else {| cnt := r_count G (cnt s) (r_incr G i start); J := J s; st_t := st_t s; st_x := st_x s |}.

Definition ctor_dst (own : dpar) (l : list A) : dst :=
  {| pts := l; act := repeat true (Z.to_nat (r_ctor_active G (dstart own)))
                        ++ repeat false (Z.to_nat (dn own) - Z.to_nat (r_ctor_active G (dstart own))) |}.
(* the generator as built, then init_rar *)
Definition init_state (lt lx : list A) : rst :=
  {| cnt := r_init_counter G every; J := r_ctor_step G; st_t := ctor_dst pt lt; st_x := ctor_dst px lx |}.

(* state before iteration k, the selection being an oracle [sel i = (new times, new points)] *)
Fixpoint run (sel : Z -> list A * list A) (s0 : rst) (k : nat) : rst :=
  match k with O => s0 | S k' => trigger (Z.of_nat k') (fst (sel (Z.of_nat k'))) (snd (sel (Z.of_nat k'))) (run sel s0 k') end.
Definition stepped (sel : Z -> list A * list A) (s0 : rst) (k : nat) : bool := proceed (Z.of_nat k) (run sel s0 k).
End R.
Arguments pts {A}. Arguments act {A}. Arguments cnt {A}. Arguments J {A}. Arguments st_t {A}. Arguments st_x {A}.

(* ---- selection ---- *)
(* argsort oracle [order] (ascending by squared residual): the chosen candidates are the slice of
   length sel starting at the regenerated offset *)
Definition select_tail (sel_start : Z -> Z -> Z) (order : list nat) (sel : Z) : list nat :=
  dyn_slice (sel_start (Z.of_nat (length order)) sel) sel order.
(* top_k oracle [top] on the flattened (times x omega) table, then unravel_index *)
Definition unravel (nx : nat) (k : nat) : nat * nat := (Nat.div k nx, Nat.modulo k nx).
Definition select_pairs (nx : nat) (top : list nat) (sel_t sel_x : nat) : list nat * list nat :=
  (firstn sel_t (map (fun k => fst (unravel nx k)) top), firstn sel_x (map (fun k => snd (unravel nx k)) top)).
