(* Model/M_cart.v -- make_cartesian_product and the space-time batch of the non-stationary
   generator.  Rows are abstract (type A) with a concatenation [cat]; the expansion modes and
   the concatenation order are what the source says (Gen). *)
From Coq Require Import List Arith Bool.
From JV Require Import Kit.GenTypes.
Import ListNotations.
Section C.
Context {A : Type}.
Variable cat : A -> A -> A.
(* jnp.repeat(b, m, axis=0): every row m times in a row; jnp.tile(b, (m, 1, ..)): the block m times *)
Definition repeat_each (m : nat) (b : list A) : list A := flat_map (fun r => repeat r m) b.
Fixpoint tile (m : nat) (b : list A) : list A := match m with O => [] | S k => b ++ tile k b end.
Definition expand (e : expansion) (m : nat) (b : list A) : list A :=
  match e with ExpRepeat => repeat_each m b | ExpTile => tile m b end.
Definition cart_gen (e1 e2 : expansion) (first_then_second : bool) (b1 b2 : list A) : list A :=
  map (fun p => if first_then_second then cat (fst p) (snd p) else cat (snd p) (fst p))
      (combine (expand e1 (length b2) b1) (expand e2 (length b1) b2)).
(* the documented product: time-major *)
Definition cart (b1 b2 : list A) : list A := cart_gen ExpRepeat ExpTile true b1 b2.
(* jnp.concatenate([t, x], axis=1) on equally long batches *)
Definition pairing (b1 b2 : list A) : list A := map (fun p => cat (fst p) (snd p)) (combine b1 b2).
(* CubicMeshPDENonStatio.get_batch, interior part and border part *)
Definition inside_batch (e1 e2 : expansion) (o : bool) (cartesian : bool) (t x : list A) : list A :=
  if cartesian then cart_gen e1 e2 o t x else pairing t x.
Definition border_batch (e1 e2 : expansion) (o : bool) (cartesian dim1 : bool) (t dx : list A) : list A :=
  if cartesian || dim1 then cart_gen e1 e2 o t dx else pairing t dx.
End C.
