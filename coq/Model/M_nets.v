(* Model/M_nets.v -- network wrappers (jinns/utils/_pinn.py, _spinn.py, _hyperpinn.py):
   dense forward pass, PINN.eval_nn (transforms, squeeze, output slice, trailing-axis rule),
   SPINN.eval_nn (einsum of per-dimension feature slices), HYPERPINN._hyper_to_pinn (split of the
   hyper-network output at cumulative leaf sizes). *)
From Coq Require Import List Arith Bool.
From JV Require Import Kit.Field.
Import ListNotations.
Section N.
Variable F : fld.
Open Scope K_scope.
Definition dot (a b : list F) : F := sumK (map (fun p => fst p * snd p) (combine a b)).
(* eqx.nn.Linear: W x + b *)
Definition linear (W : list (list F)) (b : list F) (x : list F) : list F :=
  map (fun p => dot (fst p) x + snd p) (combine W b).
(* an activation: applied componentwise *)
Definition layer := ((list (list F) * list F) + (F -> F))%type.
Definition apply_layer (l : layer) (x : list F) : list F :=
  match l with inl (W, b) => linear W b x | inr f => map f x end.
Definition mlp (ls : list layer) (x : list F) : list F := fold_left (fun acc l => apply_layer l acc) ls x.

(* a jax value of rank 0 or 1 *)
Inductive val := Sc (x : F) | Vec (l : list F).
Definition squeeze (l : list F) : val := match l with [x] => Sc x | _ => Vec l end.
(* res[output_slice] on a rank-1 value; the source only slices when a slice is given *)
Definition slice_val (s : option (nat * nat)) (v : val) : val :=
  match s, v with Some (lo, hi), Vec l => Vec (firstn (hi - lo) (skipn lo l)) | _, _ => v end.
(* force a trailing component axis *)
Definition at_least_1d (v : val) : list F := match v with Sc x => [x] | Vec l => l end.
(* PINN.eval_nn: output_transform(inputs, net(input_transform(inputs, params)).squeeze(), params),
   sliced, with a trailing axis *)
Definition pinn_eval {P} (net : list F -> list F) (tin : list F -> P -> list F) (tout : list F -> val -> P -> val)
  (oslice : option (nat * nat)) (inputs : list F) (params : P) : list F :=
  at_least_1d (slice_val oslice (tout inputs (squeeze (net (tin inputs params))) params)).

(* SPINN.eval_nn: feats k i = feature vector (length r * m) of dimension k at batch point i;
   entry (i_1 .. i_d), slot m0 = sum_z prod_k feats k i_k [m0 * r + z]  (einsum "az, bz, .. -> ab..") *)
Definition prodK (l : list F) : F := fold_right kmul k1 l.
Definition slot_slice (r m0 : nat) (f : list F) : list F := firstn r (skipn (m0 * r) f).
Definition spinn_entry (r : nat) (feats : list (list (list F))) (idx : list nat) (m0 : nat) : F :=
  sumK (map (fun z => prodK (map (fun p => nth z (slot_slice r m0 (nth (snd p) (fst p) [])) k0) (combine feats idx))) (seq 0 r)).

(* HYPERPINN._hyper_to_pinn: jnp.split(hyper_output, cumsum[:-1]) then reshape (row-major, i.e.
   the flat order is kept): leaf j receives the segment [cum_{j-1}, cum_j) *)
Fixpoint split_sizes {A} (sizes : list nat) (flat : list A) : list (list A) :=
  match sizes with [] => [] | s :: rest => firstn s flat :: split_sizes rest (skipn s flat) end.
End N.
Arguments Sc {F}. Arguments Vec {F}.
