(* Run/R_C17.v -- correspondence runner for C17: one refinement step as observed through the
   hook (candidates, squared residuals, chosen indices) and on the stores / masks before and
   after; the model's selection and slice updates must reproduce it. *)
From Coq Require Import ZArith List Bool Arith QArith Qcanon.
From JV Require Export Kit.Field Model.M_rar.
From JV Require Import Model.M_datagen Inst.I_rar.
Import ListNotations.
Definition row := list QcF.
Record case := mkcase {
  cid : nat; kind : nat; pt : dpar; px : dpar; Jc : Z;
  tb : list row; xb : list row; mtb : list bool; mxb : list bool;
  ct : list row; cx : list row; order : list nat; msev : list QcF;
  cht : list nat; chx : list nat;
  ta : list row; xa : list row; mta : list bool; mxa : list bool }.
Definition eqb_ln (a b : list nat) := Nat.eqb (length a) (length b) && forallb (fun p => Nat.eqb (fst p) (snd p)) (combine a b).
Definition eqb_lb (a b : list bool) := Nat.eqb (length a) (length b) && forallb (fun p => Bool.eqb (fst p) (snd p)) (combine a b).
Definition eqb_rows (a b : list row) := Nat.eqb (length a) (length b) && forallb (fun p => qeqb_list (fst p) (snd p)) (combine a b).
Definition qle (a b : QcF) : bool := Qle_bool (this a) (this b).
Definition mse_at (c : case) (i : nat) : QcF := nth i (msev c) (qz 0).
Fixpoint sorted_by (le : QcF -> QcF -> bool) (c : case) (l : list nat) : bool :=
  match l with a :: ((b :: _) as r) => le (mse_at c a) (mse_at c b) && sorted_by le c r | _ => true end.
Definition nodup_lt (n : nat) (l : list nat) : bool :=
  forallb (fun i => Nat.ltb i n) l && forallb (fun i => Nat.eqb (length (filter (Nat.eqb i) l)) 1) l.
Definition G (c : case) := rar_of (kind c).
Definition gather_rows (cand : list row) (idx : list nat) : list row := map (fun i => nth i cand []) idx.
Definition check (c : case) : bool :=
  let selt := Z.to_nat (dsel (pt c)) in let selx := Z.to_nat (dsel (px c)) in
  let sel_ok :=
    match kind c with
    | O => sorted_by qle c (order c) && nodup_lt (length (msev c)) (order c) && Nat.eqb (length (order c)) (length (msev c)) &&
           eqb_ln (select_tail (sel_start_of 0) (order c) (dsel (pt c))) (cht c)
    | S O => sorted_by qle c (order c) && nodup_lt (length (msev c)) (order c) && Nat.eqb (length (order c)) (length (msev c)) &&
             eqb_ln (select_tail (sel_start_of 1) (order c) (dsel (px c))) (chx c)
    | _ => sorted_by (fun a b => qle b a) c (order c) && nodup_lt (length (msev c)) (order c) &&
           (* the oracle dominates every pair it leaves out *)
           forallb (fun r => existsb (Nat.eqb r) (order c) || forallb (fun k => qle (mse_at c r) (mse_at c k)) (order c)) (seq 0 (length (msev c))) &&
           let '(a, b) := select_pairs (length (cx c)) (order c) selt selx in eqb_ln a (cht c) && eqb_ln b (chx c)
    end in
  let dt := dim_step (pt c) (px c) (r_t (G c)) (pt c) (Jc c) (gather_rows (ct c) (cht c)) {| pts := tb c; act := mtb c |} in
  let dx := dim_step (pt c) (px c) (r_x (G c)) (px c) (Jc c) (gather_rows (cx c) (chx c)) {| pts := xb c; act := mxb c |} in
  r_wiring (G c) && sel_ok && eqb_rows (pts dt) (ta c) && eqb_rows (pts dx) (xa c) && eqb_lb (act dt) (mta c) && eqb_lb (act dx) (mxa c).
Definition summary (cases : list case) :=
  let bad := filter (fun c => negb (check c)) cases in (length cases, length bad, firstn 5 (map cid bad)).
