(* Run/R_C04.v -- correspondence runner for C04 *)
From Coq Require Import ZArith List Bool Arith QArith Qcanon.
From JV Require Export Kit.Field Kit.Expr Kit.NumRun Model.M_boundary.
From JV Require Import Model.M_operators Inst.I_boundary.
Import ListNotations.
(* per facet: None (no condition) or (is_neumann, f polynomial per returned component, returns_scalar) *)
Definition fspec := option (bool * list poly * bool).
Record case := mkcase {
  cid : nat; statio : bool; dim : nat; w : QcF; upolys : list poly; lo : nat; hi : nat;
  specs : list fspec;                       (* one per facet, in batch order *)
  points : list (list (list QcF));          (* per facet: the border points (time first when present) *)
  obs : QcF }.
Definition nv (c : case) : nat := (dim c + if statio c then 0 else 1)%nat.
Definition fval (c : case) (ps : list poly) (scalar : bool) (pt : list QcF) : fret QcF :=
  let vals := map (fun p => evq (mkenv pt [] []) (polyIn (nv c) p)) ps in
  if scalar then FScalar (nth 0 vals (qz 0)) else FVec vals.
Definition point_val (c : case) (facet : nat) (neu : bool) (ps : list poly) (scalar : bool) (pt : list QcF) : QcF :=
  let env := mkenv pt [] [] in
  let comps := map (polyIn (nv c)) (upolys c) in
  if neu then neumann_point QcF (grad_at QcF prim0 dp0 (negb (statio c)) (dim c) (nth (lo c) comps (Cst (qz 0))) env)
                            (g_normal QcF (statio c) (dim c) facet) (fval c ps scalar pt)
  else dirichlet_point QcF (map (evq env) comps) (lo c) (hi c) (fval c ps scalar pt).
Definition run (c : case) : QcF :=
  boundary_term QcF (w c)
    (map (fun t => match fst (snd t) with
                   | None => None
                   | Some (neu, ps, scalar) => Some (map (point_val c (fst t) neu ps scalar) (snd (snd t))) end)
         (combine (seq 0 (length (specs c))) (combine (specs c) (points c)))).
Definition check (c : case) : bool := g_boundary_wiring && qclose (run c) (obs c).
Definition summary (cases : list case) :=
  let bad := filter (fun c => negb (check c)) cases in (length cases, length bad, firstn 5 (map cid bad)).
