(* Run/R_C02.v -- correspondence runner for C02: polynomial candidate solutions, rational
   parameters; exact comparison except for the Lotka-Volterra log-derivative (tolerance) *)
From Coq Require Import ZArith List Bool Arith QArith Qcanon.
From JV Require Export Kit.Field Kit.Expr Kit.NumRun.
From JV Require Import Model.M_operators Model.M_dynloss.
Import ListNotations.
Record case := mkcase {
  cid : nat; eqn : nat;       (* 0 Burgers, 1 Fisher-KPP, 2 OU Fokker-Planck, 3 Lotka-Volterra, 4 mass conservation, 5 Navier-Stokes *)
  d : nat; tmax : QcF; polys : list poly; pt : list QcF; nus : list QcF; obs : list QcF }.
Definition nv (c : case) : nat := match eqn c with 0 | 1 | 2 => S (d c) | 3 => 1 | _ => d c end%nat.
Definition net (c : case) : list (expr QcF) := map (polyIn (nv c)) (polys c).
Definition run (c : case) : list QcF :=
  let ev1 := evq (mkenv (pt c) [] (nus c)) in
  let u0 := nth 0 (net c) (Cst (qz 0)) in
  match eqn c with
  | 0 => [ev1 (burgers QcF dp0 (tmax c) u0)]
  | 1 => [ev1 (fisher QcF dp0 (tmax c) (d c) u0)]
  | 2 => [ev1 (ou QcF dp0 (tmax c) (qq 1 2) u0)]
  | 3 => [ev1 (glv QcF dp0 (tmax c) u0 (tl (net c)))]
  | 4 => [ev1 (mass_conservation QcF dp0 (d c) (net c))]
  | _ => map ev1 (navier_stokes QcF dp0 (firstn 2 (net c)) (nth 2 (net c) (Cst (qz 0))))
  end%nat.
Definition check (c : case) : bool := if Nat.eqb (eqn c) 3 then qclose_list (run c) (obs c) else qeqb_list (run c) (obs c).
Definition summary (cases : list case) :=
  let bad := filter (fun c => negb (check c)) cases in (length cases, length bad, firstn 5 (map cid bad)).
