(* Run/R_C14.v -- correspondence runner for C14: the batch returned by get_batch must be the
   model's product / pairing of the three sub-batches drawn separately from the same state. *)
From Coq Require Import ZArith List Bool Arith QArith Qcanon.
From JV Require Import Kit.Field Model.M_cart Inst.I_cart.
Import ListNotations.
(* border rows are dim x facets matrices, stored as list (coordinate) of list (facet) *)
Record case := mkcase {
  cid : nat; cartesian : bool; dim1 : bool;
  ts : list QcF; xs : list (list QcF); dxs : list (list (list QcF));
  obs_inside : list (list QcF); obs_border : list (list (list QcF)) }.
Definition eq_row := qeqb_list.
Definition eq_rows (a b : list (list QcF)) := Nat.eqb (length a) (length b) && forallb (fun p => eq_row (fst p) (snd p)) (combine a b).
Definition eq_mats (a b : list (list (list QcF))) := Nat.eqb (length a) (length b) && forallb (fun p => eq_rows (fst p) (snd p)) (combine a b).
Definition nfacets (c : case) : nat := match dxs c with (r :: _) :: _ => length r | _ => 0 end.
Definition check (c : case) : bool :=
  g_nonstatio_wiring &&
  eq_rows (g_inside (@app QcF) (cartesian c) (map (fun s => [s]) (ts c)) (xs c)) (obs_inside c) &&
  eq_mats (g_border (@app (list QcF)) (cartesian c) (dim1 c) (map (fun s => [repeat s (nfacets c)]) (ts c)) (dxs c)) (obs_border c).
Definition summary (cases : list case) :=
  let bad := filter (fun c => negb (check c)) cases in (length cases, length bad, firstn 5 (map cid bad)).
