(* Run/R_C05.v -- correspondence runner for C05: initial-condition, normalisation and
   observation terms on polynomial networks u_c(in; a) = p_c(in) + a (a = equation parameter Nu 0) *)
From Coq Require Import ZArith List Bool Arith QArith Qcanon.
From JV Require Export Kit.Field Kit.Expr Kit.NumRun Kit.Tx Model.M_lossterms.
From JV Require Import Inst.I_reduce.
Import ListNotations.
Definition slice := (nat * nat)%type.     (* [lo, hi) on the component axis *)
Definition take (s : slice) {A} (l : list A) : list A := firstn (snd s - fst s) (skipn (fst s) l).
Inductive case :=
| IcOde (cid : nat) (w : weight QcF) (upolys : list poly) (a : QcF) (t0 : QcF) (u0 : list QcF) (obs : QcF)
| IcPde (cid : nat) (w : weight QcF) (dim : nat) (upolys icpolys : list poly) (a : QcF) (xs : list (list QcF)) (obs : QcF)
| NormStatio (cid : nat) (w L : QcF) (dim : nat) (upolys : list poly) (a : QcF) (samples : list (list QcF)) (obs : QcF)
| NormNonStatio (cid : nat) (w L : QcF) (dim : nat) (upolys : list poly) (a : QcF) (times : list QcF) (samples : list (list QcF)) (obs : QcF)
| Obs (cid : nat) (w : weight QcF) (nv : nat) (upolys : list poly) (sol obs_slice : slice) (a0 : QcF) (arows : list QcF)
      (inputs vals : list (list QcF)) (obs : QcF).
Definition cid (c : case) : nat := match c with IcOde i _ _ _ _ _ _ | IcPde i _ _ _ _ _ _ _ | NormStatio i _ _ _ _ _ _ _
  | NormNonStatio i _ _ _ _ _ _ _ _ | Obs i _ _ _ _ _ _ _ _ _ _ => i end.
(* network outputs at an input point, with equation parameter a *)
Definition net_at (nv : nat) (upolys : list poly) (a : QcF) (pt : list QcF) : list QcF :=
  map (fun p => evq (mkenv pt [] [a]) (Add (polyIn nv p) (Var (Nu 0)))) upolys.
Definition wten (w : weight QcF) : ten QcF := match w with WScalar x => T0 x | WVec l => T1 l end.
(* a reduction expression regenerated from the source, evaluated on the term's input tensors *)
Definition regen (e : tx) (env : list (ten QcF)) (obs : QcF) : bool :=
  match tsem QcF env e with Some (T0 v) => qclose v obs | _ => false end.
Definition check_model (c : case) : bool :=
  match c with
  | IcOde _ w up a t0 u0 obs => qclose (ode_ic_term QcF w [net_at 1 up a [t0]] u0) obs
  | IcPde _ w dim up ic a xs obs =>
      qclose (ic_term QcF w (map (fun x => map (fun p => evq (mkenv x [] []) (polyIn dim p)) ic) xs)
                            (map (fun x => net_at (S dim) up a (qz 0 :: x)) xs)) obs
  | NormStatio _ w L dim up a samples obs => qclose (norm_term_statio QcF w L (map (net_at dim up a) samples)) obs
  | NormNonStatio _ w L dim up a times samples obs =>
      qclose (norm_term_nonstatio QcF w L (map (fun t => map (fun s => net_at (S dim) up a (t :: s)) samples) times)) obs
  | Obs _ w nv up sol osl a0 arows inputs vals obs =>
      let rows := combine inputs (if Nat.eqb (length arows) 0 then map (fun _ => a0) inputs else arows) in
      qclose (obs_term QcF w (map (fun r => take osl (take sol (net_at nv up (snd r) (fst r)))) rows) vals) obs
  end.
Definition check_regenerated (c : case) : bool :=
  match c with
  | IcOde _ w up a t0 u0 obs => regen g_ode_ic_reduce [T2 [net_at 1 up a [t0]]; T1 u0; wten w] obs
  | IcPde _ w dim up ic a xs obs =>
      regen g_ic_reduce_pinn [T2 (map (fun x => map (fun p => evq (mkenv x [] []) (polyIn dim p)) ic) xs);
                              T2 (map (fun x => net_at (S dim) up a (qz 0 :: x)) xs); wten w] obs
  | NormStatio _ w L dim up a samples obs => regen g_norm_reduce_statio [T2 (map (net_at dim up a) samples); T0 L; T0 w] obs
  | NormNonStatio _ w L dim up a times samples obs =>
      regen g_norm_reduce_nonstatio [T3 (map (fun t => map (fun s => net_at (S dim) up a (t :: s)) samples) times); T0 L; T0 w] obs
  | Obs _ w nv up sol osl a0 arows inputs vals obs =>
      let rows := combine inputs (if Nat.eqb (length arows) 0 then map (fun _ => a0) inputs else arows) in
      regen g_obs_reduce [T2 (map (fun r => take osl (take sol (net_at nv up (snd r) (fst r)))) rows); T2 vals; wten w] obs
  end.
Definition check (c : case) : bool := check_model c && check_regenerated c.
Definition summary (cases : list case) :=
  let bad := filter (fun c => negb (check c)) cases in (length cases, length bad, firstn 5 (map cid bad)).
