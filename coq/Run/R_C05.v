(* Run/R_C05.v -- correspondence runner for C05: initial-condition, normalisation and
   observation terms on polynomial networks u_c(in; a) = p_c(in) + a (a = equation parameter Nu 0) *)
From Coq Require Import ZArith List Bool Arith QArith Qcanon.
From JV Require Export Kit.Field Kit.Expr Kit.NumRun Model.M_lossterms.
Import ListNotations.
Definition slice := (nat * nat)%type.     (* [lo, hi) on the component axis *)
Definition take (s : slice) {A} (l : list A) : list A := firstn (snd s - fst s) (skipn (fst s) l).
Inductive case :=
| IcOde (cid : nat) (w : weight QcF) (upolys : list poly) (a : QcF) (t0 : QcF) (u0 : list QcF) (obs : QcF)
| IcPde (cid : nat) (w : weight QcF) (dim : nat) (upolys icpolys : list poly) (a : QcF) (xs : list (list QcF)) (obs : QcF)
| NormStatio (cid : nat) (w L : QcF) (dim : nat) (upolys : list poly) (a : QcF) (samples : list (list QcF)) (obs : QcF)
| NormNonStatio (cid : nat) (w L : QcF) (dim : nat) (upolys : list poly) (a : QcF) (times : list QcF) (samples : list (list QcF)) (obs : QcF)
| Obs (cid : nat) (w : weight QcF) (nv : nat) (upolys : list poly) (sol obs_slice : slice) (a0 : QcF) (arows : list QcF)
      (inputs vals : list (list QcF)) (obs : QcF).
Definition cid (c : case) : nat := match c with IcOde i _ _ _ _ _ _ | IcPde i _ _ _ _ _ _ _ | NormStatio i _ _ _ _ _ _ _
  | NormNonStatio i _ _ _ _ _ _ _ _ | Obs i _ _ _ _ _ _ _ _ _ _ => i end.
(* network outputs at an input point, with equation parameter a *)
Definition net_at (nv : nat) (upolys : list poly) (a : QcF) (pt : list QcF) : list QcF :=
  map (fun p => evq (mkenv pt [] [a]) (Add (polyIn nv p) (Var (Nu 0)))) upolys.
Definition check (c : case) : bool :=
  match c with
  | IcOde _ w up a t0 u0 obs => qclose (ode_ic_term QcF w [net_at 1 up a [t0]] u0) obs
  | IcPde _ w dim up ic a xs obs =>
      qclose (ic_term QcF w (map (fun x => map (fun p => evq (mkenv x [] []) (polyIn dim p)) ic) xs)
                            (map (fun x => net_at (S dim) up a (qz 0 :: x)) xs)) obs
  | NormStatio _ w L dim up a samples obs => qclose (norm_term_statio QcF w L (map (net_at dim up a) samples)) obs
  | NormNonStatio _ w L dim up a times samples obs =>
      qclose (norm_term_nonstatio QcF w L (map (fun t => map (fun s => net_at (S dim) up a (t :: s)) samples) times)) obs
  | Obs _ w nv up sol osl a0 arows inputs vals obs =>
      let rows := combine inputs (if Nat.eqb (length arows) 0 then map (fun _ => a0) inputs else arows) in
      qclose (obs_term QcF w (map (fun r => take osl (take sol (net_at nv up (snd r) (fst r)))) rows) vals) obs
  end.
Definition summary (cases : list case) :=
  let bad := filter (fun c => negb (check c)) cases in (length cases, length bad, firstn 5 (map cid bad)).
