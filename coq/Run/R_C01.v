(* Run/R_C01.v -- correspondence runner for C01: polynomial networks, exact comparison *)
From Coq Require Import ZArith List Bool Arith QArith Qcanon.
From JV Require Export Kit.Field Kit.Expr Kit.NumRun.
From JV Require Import Model.M_operators.
Import ListNotations.
Record case := mkcase {
  cid : nat; op : nat;                       (* 0 Laplacian, 1 divergence, 2 vector Laplacian, 3 advection *)
  has_t : bool; d : nat; polys : list poly; pt : list QcF; nus : list QcF; obs : list QcF }.
Definition nv (c : case) := (d c + if has_t c then 1 else 0)%nat.
Definition net (c : case) : list (expr QcF) := map (polyIn (nv c)) (polys c).
Definition run (c : case) : list QcF :=
  let ev1 := evq (mkenv (pt c) [] (nus c)) in
  match op c with
  | 0 => [ev1 (laplacian_rev QcF dp0 (has_t c) (d c) (net c))]
  | 1 => [ev1 (div_rev QcF dp0 (has_t c) (d c) (net c))]
  | 2 => map ev1 (vectorial_laplacian QcF dp0 (has_t c) (d c) (length (polys c)) (net c))
  | _ => match u_dot_nabla_u QcF dp0 (has_t c) (d c) (net c) with Some r => map ev1 r | None => [] end
  end%nat.
Definition check (c : case) : bool := qeqb_list (run c) (obs c).
Definition summary (cases : list case) :=
  let bad := filter (fun c => negb (check c)) cases in (length cases, length bad, firstn 5 (map cid bad)).
