(* Run/R_C03.v -- correspondence runner for C03 *)
From Coq Require Import ZArith List Bool Arith QArith Qcanon.
From JV Require Export Kit.Field Kit.Expr Kit.NumRun Kit.Tx Model.M_lossterms.
From JV Require Import Inst.I_reduce.
Import ListNotations.
Record case := mkcase {
  cid : nat; nvars : nat; w : weight QcF;
  res_polys : list poly;                 (* one polynomial of the batch point per residual component *)
  batch : list (list QcF);               (* collocation points (time first when present) *)
  obs_dyn : QcF;                         (* the dynamic term returned *)
  obs_terms : list QcF; absent : list QcF;  (* every returned term; the terms of parts not configured *)
  obs_total : QcF }.
Definition residuals (c : case) : list (list QcF) :=
  map (fun p => map (fun q => evq (mkenv p [] []) (polyIn (nvars c) q)) (res_polys c)) (batch c).
Definition wten (w : weight QcF) : ten QcF := match w with WScalar x => T0 x | WVec l => T1 l end.
(* the reduction expression regenerated from dynamic_loss_apply, evaluated on the residual matrix *)
Definition regenerated_dyn (c : case) : bool :=
  match tsem QcF [T2 (residuals c); wten (w c)] g_dyn_reduce_pinn with
  | Some (T0 v) => qclose v (obs_dyn c) | _ => false end.
Definition check (c : case) : bool :=
  qclose (dyn_term QcF (w c) (residuals c)) (obs_dyn c) && regenerated_dyn c &&
  qclose (total QcF (map Some (obs_terms c))) (obs_total c) &&
  forallb (fun x => qeqb x (qz 0)) (absent c).
Definition summary (cases : list case) :=
  let bad := filter (fun c => negb (check c)) cases in (length cases, length bad, firstn 5 (map cid bad)).
