(* Run/R_C03.v -- correspondence runner for C03 *)
From Coq Require Import ZArith List Bool Arith QArith Qcanon.
From JV Require Export Kit.Field Kit.Expr Kit.NumRun Model.M_lossterms.
Import ListNotations.
Record case := mkcase {
  cid : nat; nvars : nat; w : weight QcF;
  res_polys : list poly;                 (* one polynomial of the batch point per residual component *)
  batch : list (list QcF);               (* collocation points (time first when present) *)
  obs_dyn : QcF;                         (* the dynamic term returned *)
  obs_terms : list QcF; absent : list QcF;  (* every returned term; the terms of parts not configured *)
  obs_total : QcF }.
Definition residuals (c : case) : list (list QcF) :=
  map (fun p => map (fun q => evq (mkenv p [] []) (polyIn (nvars c) q)) (res_polys c)) (batch c).
Definition check (c : case) : bool :=
  qclose (dyn_term QcF (w c) (residuals c)) (obs_dyn c) &&
  qclose (total QcF (map Some (obs_terms c))) (obs_total c) &&
  forallb (fun x => qeqb x (qz 0)) (absent c).
Definition summary (cases : list case) :=
  let bad := filter (fun c => negb (check c)) cases in (length cases, length bad, firstn 5 (map cid bad)).
