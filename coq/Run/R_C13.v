(* Run/R_C13.v -- correspondence runner for C13 *)
From Coq Require Import ZArith List Bool Arith QArith Qcanon.
From JV Require Export Kit.Field Kit.Expr Kit.NumRun Kit.GenTypes Model.M_lossterms Model.M_system.
From JV Require Import Model.M_params Inst.I_system.
Import ListNotations.
(* the weight a field was given: scalar, dictionary (by key), or missing *)
Inductive wgiven := GScalar (x : QcF) | GDict (d : list (nat * QcF)) | GNone.
Record case := mkcase {
  cid : nat; pde : bool; nvars : nat;
  eq_keys : list nat; u_keys : list nat;
  upolys : list (nat * poly);                         (* unknown -> network polynomial *)
  eqs : list (nat * (list (nat * QcF) * poly));       (* equation -> (coefficient per unknown, q): r = sum c_u U_u(p) + q(p) *)
  pts : list (list QcF);
  w_dyn : wgiven; w_other : list wgiven;              (* one per non-dynamic term, in the order of o_terms *)
  singles : list (list (nat * QcF));                  (* per non-dynamic term: the single-network term of every unknown *)
  o_dyn : QcF; o_terms : list QcF }.
Definition expand_given (c : case) (is_dyn : bool) (g : wgiven) : option (list (nat * QcF)) :=
  let keys := if is_dyn then eq_keys c else u_keys c in
  let same (d : list (nat * QcF)) (ks : list nat) := Nat.eqb (length d) (length ks) && forallb (fun k => existsb (Nat.eqb k) (map fst d)) ks in
  let e := match g with
           | GScalar _ => g_sys_weights (pde c) false false is_dyn false false true true
           | GDict d => g_sys_weights (pde c) true false is_dyn (same d (eq_keys c)) (same d (u_keys c)) true true
           | GNone => g_sys_weights (pde c) false true is_dyn false false true true end in
  expand QcF e (match g with GDict d => d | _ => [] end) (match g with GScalar x => x | _ => qz 0 end) (eq_keys c) (u_keys c).
Definition pv (c : case) (p : poly) (pt : list QcF) := evq (mkenv pt [] []) (polyIn (nvars c) p).
Definition residual_rows (c : case) (e : list (nat * QcF) * poly) : list (list QcF) :=
  map (fun pt => [(sumK (map (fun cu => (snd cu * match lookup (fst cu) (upolys c) with Some p => pv c p pt | None => qz 0 end)%K) (fst e)) + pv c (snd e) pt)%K]) (pts c).
Definition check (c : case) : bool :=
  g_sys_wiring &&
  match expand_given c true (w_dyn c) with
  | Some ws => qclose (sys_dyn QcF ws (map (fun ke => (fst ke, residual_rows c (snd ke))) (eqs c))) (o_dyn c)
  | None => false end &&
  forallb (fun t => let '(g, (sg, o)) := t in
                    match expand_given c false g with Some ws => qclose (sys_term QcF ws sg) o | None => false end)
          (combine (w_other c) (combine (singles c) (o_terms c))).
Definition summary (cases : list case) :=
  let bad := filter (fun c => negb (check c)) cases in (length cases, length bad, firstn 5 (map cid bad)).
