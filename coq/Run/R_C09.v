(* Run/R_C09.v -- correspondence runner for C09: the cursor model is run on the same batch
   size / point count / observed reshuffles as the real generator, and must return the same
   batches (points are identified by their index in the initial store). *)
From Coq Require Import ZArith List Bool Arith.
From JV Require Import Model.M_datagen Inst.I_datagen.
Import ListNotations.
Record case := mkcase {
  cid : nat; kind : nat; n : nat; b : Z;
  perms : list (list nat);        (* store after each reshuffle, as observed *)
  obs : list (list nat) }.        (* batches returned by the implementation *)
Definition run (c : case) : list (list nat) :=
  let G := cursor_of (kind c) in
  map snd (trace G (fun r _ => nth r (perms c) []) (b c) (g_neff G (Z.of_nat (n c)))
             (length (obs c)) (init G (seq 0 (n c)) (b c))).
Definition is_perm (n : nat) (l : list nat) : bool :=
  Nat.eqb (length l) n && forallb (fun i => existsb (Nat.eqb i) l) (seq 0 n).
Definition eqb_ll (a b : list (list nat)) : bool :=
  Nat.eqb (length a) (length b) &&
  forallb (fun p => Nat.eqb (length (fst p)) (length (snd p)) &&
                    forallb (fun q => Nat.eqb (fst q) (snd q)) (combine (fst p) (snd p))) (combine a b).
Definition check (c : case) : bool :=
  g_wiring (cursor_of (kind c)) && forallb (is_perm (n c)) (perms c) && eqb_ll (run c) (obs c).
Definition summary (cases : list case) :=
  let bad := filter (fun c => negb (check c)) cases in
  (length cases, length bad, firstn 5 (map cid bad)).
