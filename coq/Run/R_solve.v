(* Run/R_solve.v -- correspondence runner for C07 / C18 / C19.  The loop model is run on
   TOKENS: parameters, optimizer state and generators are identified by their version (number of
   updates / draws), a loss value by (parameter version, batch number).  The harness obtains the
   NaN table and the validation outcomes from a textbook Python loop over the real loss and
   optimizer, and translates what jinns.solve returned into the same tokens. *)
From Coq Require Import ZArith List Bool Arith QArith.
From JV Require Export Model.M_solve.
From JV Require Import Kit.GenTypes Inst.I_solve.
Import ListNotations.
Record case := mkcase {
  cid : nat; n : nat; nan_tab : list bool; has_val : bool; every : Z;
  val_tab : list (bool * bool);            (* scripted module: (stop request, improvement) per invocation *)
  vl_losses : list Q; vl_patience : Z; vl_early : bool; use_vl : bool;   (* built-in ValidationLoss instead *)
  o_last : nat; o_opt : nat; o_data : nat; o_best : nat;
  o_hl : list (nat * nat); o_ht : list (nat * nat);
  o_htr : option (list nat);               (* None: no parameter is tracked (the history is not returned) *)
  o_hc : list nat }.
Definition table (c : case) : list (bool * bool) :=
  if use_vl c then vl_run G_vl (vl_patience c) (vl_early c) vl_init (vl_losses c) else val_tab c.
Definition run (c : case) :=
  solve nat nat nat nat nat nat (nat * nat) (nat * nat) nat nat nat G_solve
    (fun d => (d, S d)) (fun p b => (((p, b), (p, b)), p)) (fun g o p => (1%nat, S o)) (fun p u => (p + u)%nat)
    (fun p => nth p (nan_tab c) false) (fun p => p)
    (fun v p => (S v, fst (nth v (table c) (false, false)), p, snd (nth v (table c) (false, false))))
    (fun _ => every c) (fun _ _ d => d) (fun d => d) (0, 0)%nat (0, 0)%nat 0%nat 0%nat
    (n c) 0%nat 0%nat 0%nat (if has_val c then Some 0%nat else None).
Definition eqb_ln (a b : list nat) := Nat.eqb (length a) (length b) && forallb (fun p => Nat.eqb (fst p) (snd p)) (combine a b).
Definition eqb_lp (a b : list (nat * nat)) := eqb_ln (map fst a) (map fst b) && eqb_ln (map snd a) (map snd b).
Definition check (c : case) : bool :=
  let r := run c in
  s_wiring G_solve && v_wiring G_vl &&
  Nat.eqb (clast _ _ _ _ _ _ _ _ r) (o_last c) && Nat.eqb (co _ _ _ _ _ _ _ _ r) (o_opt c) && Nat.eqb (cd _ _ _ _ _ _ _ _ r) (o_data c) &&
  eqb_lp (hl _ _ _ _ _ _ _ _ r) (o_hl c) && eqb_lp (ht _ _ _ _ _ _ _ _ r) (o_ht c) && match o_htr c with Some l => eqb_ln (htr _ _ _ _ _ _ _ _ r) l | None => true end &&
  (negb (has_val c) || (eqb_ln (hc _ _ _ _ _ _ _ _ r) (o_hc c) && Nat.eqb (cbest _ _ _ _ _ _ _ _ r) (o_best c))).
Definition summary (cases : list case) :=
  let bad := filter (fun c => negb (check c)) cases in (length cases, length bad, firstn 5 (map cid bad)).
