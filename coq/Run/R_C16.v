(* Run/R_C16.v -- correspondence runner for C16: after every trigger_rar call the model and the
   implementation must agree on whether a step happened, on the number of steps and on the
   non-zero pattern of p_times / p_omega. *)
From Coq Require Import ZArith List Bool Arith.
From JV Require Export Model.M_rar.
From JV Require Import Model.M_datagen Inst.I_rar.
Import ListNotations.
Record case := mkcase {
  cid : nat; kind : nat; start : Z; every : Z; pt : dpar; px : dpar;
  obs : list (bool * Z * list bool * list bool) }.
Definition eqb_lb (a b : list bool) := Nat.eqb (length a) (length b) && forallb (fun p => Bool.eqb (fst p) (snd p)) (combine a b).
Fixpoint steps (G : rar_gen) (c : case) (k : nat) (n : nat) (s : @rst nat) : list (bool * Z * list bool * list bool) :=
  match n with O => [] | S n' =>
    let p := proceed G (start c) (every c) (pt c) (px c) (Z.of_nat k) s in
    let s' := trigger G (start c) (every c) (pt c) (px c) (Z.of_nat k)
                (repeat O (Z.to_nat (dsel (pt c)))) (repeat O (Z.to_nat (dsel (px c)))) s in
    (p, J s', act (st_t s'), act (st_x s')) :: steps G c (S k) n' s' end.
Definition run (c : case) :=
  let G := rar_of (kind c) in
  steps G c 0 (length (obs c))
        (init_state G (every c) (pt c) (px c) (repeat O (Z.to_nat (dn (pt c)))) (repeat O (Z.to_nat (dn (px c))))).
Definition has_t (c : case) := match r_t (rar_of (kind c)) with Some _ => true | None => false end.
Definition has_x (c : case) := match r_x (rar_of (kind c)) with Some _ => true | None => false end.
Definition check (c : case) : bool :=
  r_wiring (rar_of (kind c)) && Nat.eqb (length (run c)) (length (obs c)) &&
  forallb (fun p => let '(s1, j1, t1, x1) := fst p in let '(s2, j2, t2, x2) := snd p in
             Bool.eqb s1 s2 && Z.eqb j1 j2 && (negb (has_t c) || eqb_lb t1 t2) && (negb (has_x c) || eqb_lb x1 x2))
          (combine (run c) (obs c)).
Definition summary (cases : list case) :=
  let bad := filter (fun c => negb (check c)) cases in (length cases, length bad, firstn 5 (map cid bad)).
