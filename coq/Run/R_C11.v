(* Run/R_C11.v -- correspondence runner for C11: a real separable network's weights are turned
   into the expression sum_z prod_k f_k(x_k)[m r + z]; the forward-mode operators returned on the
   batch grid are compared with the operator model at the grid points. *)
From Coq Require Import ZArith List Bool Arith QArith Qcanon.
From JV Require Export Kit.Field Kit.Expr Kit.NumRun.
From JV Require Import Model.M_operators Model.M_fwd.
Import ListNotations.
Definition lay := option (list (list QcF) * list QcF).     (* Some (W, b) = Linear; None = square *)
Definition apply_lay (l : lay) (xs : list (expr QcF)) : list (expr QcF) :=
  match l with
  | Some (W, b) => map (fun p => Add (sumE (map (fun q => Mul (Cst (fst q)) (snd q)) (combine (fst p) xs))) (Cst (snd p))) (combine W b)
  | None => map (fun e => Mul e e) xs end.
Definition feat (ls : list lay) (v : var) : list (expr QcF) := fold_left (fun acc l => apply_lay l acc) ls [Var v].
Definition prodE (l : list (expr QcF)) : expr QcF := fold_right Mul (Cst k1) l.
(* output slot m0 of the separable network with per-dimension networks nets *)
Definition spinn_expr (r : nat) (nets : list (list lay)) (m0 : nat) : expr QcF :=
  sumE (map (fun z => prodE (map (fun p => nth (m0 * r + z) (feat (snd p) (In (fst p))) (Cst k0)) (combine (seq 0 (length nets)) nets))) (seq 0 r)).
Record case := mkcase {
  cid : nat; op : nat;                  (* 0 Laplacian, 1 divergence *)
  has_t : bool; r : nat; m : nat; nets : list (list lay);
  coords : list (list QcF);             (* per dimension (time first): the batch coordinates *)
  idxs : list (list nat); obs : list QcF }.
Definition run (c : case) : list QcF :=
  let d := length (nets c) in
  let ds := (d - if has_t c then 1 else 0)%nat in
  let u := map (spinn_expr (r c) (nets c)) (seq 0 (m c)) in
  let e := match op c with 0%nat => laplacian_fwd QcF dp0 (has_t c) ds u | _ => div_fwd QcF dp0 (has_t c) ds u end in
  map (fun ix => evq (mkenv (map (fun p => nth (fst p) (snd p) (qz 0)) (combine ix (coords c))) [] []) e) (idxs c).
Definition check (c : case) : bool := qclose_list (run c) (obs c).
Definition summary (cases : list case) :=
  let bad := filter (fun c => negb (check c)) cases in (length cases, length bad, firstn 5 (map cid bad)).
