(* Run/R_C15.v -- correspondence runner for C15 *)
From Coq Require Import ZArith List Bool Arith.
From JV Require Import Kit.GenTypes Model.M_datagen Inst.I_datagen Model.M_loaders Inst.I_loaders.
Import ListNotations.
(* tables hold integer row codes (the harness encodes row j by distinct integers per table) *)
Inductive case :=
| ObsCase (cid : nat) (b : Z) (P V E : list Z) (perms : list (list nat)) (obs : list (list Z * list Z * list Z))
| ParamCase (cid : nat) (has_table shape_n1 shape_n grid uniform : bool) (observed : pstore).
Definition cid (c : case) := match c with ObsCase i _ _ _ _ _ _ => i | ParamCase i _ _ _ _ _ _ => i end.
Definition eqb_lz (a b : list Z) := Nat.eqb (length a) (length b) && forallb (fun p => Z.eqb (fst p) (snd p)) (combine a b).
Definition pstore_eqb (a b : pstore) : bool :=
  match a, b with PUnset, PUnset | PTable, PTable | PTableAsColumn, PTableAsColumn | PRangeGrid, PRangeGrid
                | PRangeUniform, PRangeUniform | PErr, PErr => true | _, _ => false end.
Definition check (c : case) : bool :=
  match c with
  | ObsCase _ b P V E perms obs =>
      let run := obs_trace 0%Z G_obs (fun r _ => nth r perms []) P V E b (length obs) (obs_init G_obs (length P) b) in
      g_loader_wiring && Nat.eqb (length run) (length obs) &&
      forallb (fun p => let '(p1, v1, e1) := fst p in let '(p2, v2, e2) := snd p in
                        eqb_lz p1 p2 && eqb_lz v1 v2 && eqb_lz e1 e2) (combine run obs)
  | ParamCase _ ht s1 s2 g u observed => pstore_eqb (g_param_store ht s1 s2 g u) observed
  end.
Definition summary (cases : list case) :=
  let bad := filter (fun c => negb (check c)) cases in (length cases, length bad, firstn 5 (map cid bad)).
