(* Run/R_C10.v -- correspondence runner for C10: real create_PINN / create_SPINN / create_HYPERPINN
   networks with linear layers and identity / square activations, weights exported as rationals *)
From Coq Require Import ZArith List Bool Arith QArith Qcanon.
From JV Require Export Kit.Field Model.M_nets.
Import ListNotations.
Definition lay := option (list (list QcF) * list QcF).     (* Some (W, b) = Linear; None = square activation *)
Definition to_layers (ls : list lay) : list (layer QcF) :=
  map (fun l => match l with Some wb => inl wb | None => inr (fun x => (x * x)%K) end) ls.
Inductive case :=
| Pinn (cid : nat) (layers : list lay) (a : QcF) (use_tin use_tout : bool) (oslice : option (nat * nat)) (inputs : list QcF) (obs : list QcF)
| Spinn (cid : nat) (r m : nat) (nets : list (list lay)) (coords : list (list QcF)) (idxs : list (list nat)) (obs : list (list QcF))
| Hyper (cid : nat) (hyper_layers : list lay) (eqp : list QcF) (a : QcF) (shapes : list (nat * nat)) (acts : list bool) (use_tin use_tout : bool) (oslice : option (nat * nat)) (inputs : list QcF) (obs : list QcF).
Definition cid (c : case) := match c with Pinn i _ _ _ _ _ _ _ | Spinn i _ _ _ _ _ _ | Hyper i _ _ _ _ _ _ _ _ _ _ => i end.
(* transforms used by the harness: input_transform = inputs * a ; output_transform = out + a * inputs[0] *)
Definition tin (use : bool) (i : list QcF) (a : QcF) : list QcF := if use then map (fun x => (x * a)%K) i else i.
Definition tout (use : bool) (i : list QcF) (o : val QcF) (a : QcF) : val QcF :=
  if use then let s := (a * nth 0 i (qz 0))%K in match o with Sc x => Sc (x + s)%K | Vec l => Vec (map (fun x => (x + s)%K) l) end else o.
(* rebuild the inner network of a hyper-network: leaves in order (W then b per linear layer),
   W reshaped row-major from the flat segment *)
Fixpoint chunk {A} (n : nat) (rows : nat) (l : list A) : list (list A) :=
  match rows with O => [] | S k => firstn n l :: chunk n k (skipn n l) end.
Fixpoint build (shapes : list (nat * nat)) (acts : list bool) (segs : list (list QcF)) : list lay :=
  match shapes, segs with
  | (o, i) :: sh, w :: b :: rest =>
      Some (chunk i o w, b) :: (match acts with true :: _ => [None] | _ => [] end) ++ build sh (tl acts) rest
  | _, _ => [] end.
Definition check (c : case) : bool :=
  match c with
  | Pinn _ ls a ti to sl inputs obs =>
      qclose_list (pinn_eval QcF (mlp QcF (to_layers ls)) (tin ti) (tout to) sl inputs a) obs
  | Spinn _ r m nets coords idxs obs =>
      let feats := map (fun p => map (fun x => mlp QcF (to_layers (fst p)) [x]) (snd p)) (combine nets coords) in
      forallb (fun t => qclose_list (map (spinn_entry QcF r feats (fst t)) (seq 0 m)) (snd t)) (combine idxs obs)
  | Hyper _ hl eqp a shapes acts ti to sl inputs obs =>
      let flat := mlp QcF (to_layers hl) eqp in
      let sizes := flat_map (fun s => [fst s * snd s; fst s]%nat) shapes in
      let inner := build shapes acts (split_sizes sizes flat) in
      qclose_list (pinn_eval QcF (mlp QcF (to_layers inner)) (tin ti) (tout to) sl inputs a) obs
  end.
Definition summary (cases : list case) :=
  let bad := filter (fun c => negb (check c)) cases in (length cases, length bad, firstn 5 (map cid bad)).
