(* Run/R_C06.v -- correspondence runner for C06: the symbolic total loss with masks is
   differentiated w.r.t. the network scale theta = Th 0 and the equation parameters a = Nu 0,
   b = Nu 1 and compared with jax.grad of the real loss.  Network: U(P) = theta * P + b. *)
From Coq Require Import ZArith List Bool Arith QArith Qcanon.
From JV Require Export Kit.Field Kit.Expr Kit.NumRun.
From JV Require Import Model.M_derivkeys Inst.I_derivkeys.
Import ListNotations.
(* one squared-mismatch row: (alpha * a * U(P) + beta * U(P) + gamma)^2 *)
Record row := mkrow { r_alpha : QcF; r_beta : QcF; r_gamma : QcF; r_P : QcF }.
Inductive tdesc :=
| TMeanSq (w : QcF) (rows : list row)                       (* mean over rows of w * row^2 *)
| TNorm (w L : QcF) (groups : list (list QcF)).             (* mean over groups of w * (L * mean_s U(P_s) - 1)^2 *)
Record tspec := mkt { t_nn : bool; t_a : bool; t_b : bool; t_desc : list tdesc }.   (* a term = sum of descriptions *)
Record case := mkcase {
  cid : nat; theta : QcF; pa : QcF; pb : QcF; terms : list tspec;
  obs_value : QcF; obs_grad : list QcF }.
Definition TH : expr QcF := Var (Th 0). Definition A : expr QcF := Var (Nu 0). Definition B : expr QcF := Var (Nu 1).
Definition U (P : QcF) : expr QcF := Add (Mul TH (Cst P)) B.
Definition sqE (e : expr QcF) := Mul e e.
Definition meanE (l : list (expr QcF)) : expr QcF := Mul (Cst (kdiv k1 (of_nat (length l)))) (sumE l).
Definition row_expr (r : row) : expr QcF :=
  Add (Add (Mul (Cst (r_alpha r)) (Mul A (U (r_P r)))) (Mul (Cst (r_beta r)) (U (r_P r)))) (Cst (r_gamma r)).
Definition desc_expr (d : tdesc) : expr QcF :=
  match d with
  | TMeanSq w rows => meanE (map (fun r => Mul (Cst w) (sqE (row_expr r))) rows)
  | TNorm w L groups => meanE (map (fun g => Mul (Cst w) (sqE (Sub (Mul (Cst L) (meanE (map U g))) (Cst k1)))) groups)
  end.
Definition term_expr (t : tspec) : mask * expr QcF :=
  ({| m_nn := t_nn t; m_eq := fun k => match k with O => t_a t | _ => t_b t end |}, sumE (map desc_expr (t_desc t))).
Definition total (c : case) : expr QcF := g_total QcF (map term_expr (terms c)).
Definition check (c : case) : bool :=
  let env := mkenv [] [theta c] [pa c; pb c] in
  g_derivkeys_wiring && qclose (evq env (total c)) (obs_value c) &&
  qclose_list (map (fun g => evq env (Dq g (total c))) [Th 0; Nu 0; Nu 1]) (obs_grad c).
Definition summary (cases : list case) :=
  let bad := filter (fun c => negb (check c)) cases in (length cases, length bad, firstn 5 (map cid bad)).

(* ---- system losses: two networks U_n(P) = theta_n * P + b; one row = (alpha * a * U_n1(P1) + beta * U_n2(P2) + gamma) ---- *)
Record row2 := mkrow2 { q_n1 : nat; q_P1 : QcF; q_n2 : nat; q_P2 : QcF; q_alpha : QcF; q_beta : QcF; q_gamma : QcF }.
Definition Un (n : nat) (P : QcF) : expr QcF := Add (Mul (Var (Th n)) (Cst P)) B.
Definition row2_expr (r : row2) : expr QcF :=
  Add (Add (Mul (Cst (q_alpha r)) (Mul A (Un (q_n1 r) (q_P1 r)))) (Mul (Cst (q_beta r)) (Un (q_n2 r) (q_P2 r)))) (Cst (q_gamma r)).
Record sspec := mks { s_nn : bool; s_a : bool; s_b : bool; s_w : QcF; s_rows : list row2 }.      (* mean over rows of w * row^2 *)
Record scase := mkscase { scid : nat; sthetas : list QcF; spa : QcF; spb : QcF; sterms : list sspec; sobs_value : QcF; sobs_grad : list QcF }.
Definition sterm_expr (t : sspec) : mask * expr QcF :=
  ({| m_nn := s_nn t; m_eq := fun k => match k with O => s_a t | _ => s_b t end |},
   meanE (map (fun r => Mul (Cst (s_w t)) (sqE (row2_expr r))) (s_rows t))).
Definition stotal (c : scase) : expr QcF := g_total QcF (map sterm_expr (sterms c)).
Definition scheck (c : scase) : bool :=
  let env := mkenv [] (sthetas c) [spa c; spb c] in
  g_derivkeys_wiring && qclose (evq env (stotal c)) (sobs_value c) &&
  qclose_list (map (fun g => evq env (Dq g (stotal c))) [Th 0; Th 1; Nu 0; Nu 1]) (sobs_grad c).
Definition ssummary (cases : list scase) :=
  let bad := filter (fun c => negb (scheck c)) cases in (length cases, length bad, firstn 5 (map scid bad)).
