(* Run/R_C12.v -- correspondence runner for C12: every term of the single losses with a parameter
   batch (any subset of the keys a, b, c), observed parameters, heterogeneity maps.
   Network U(p; b) = P(p) + b; residual r = a * U + c + q(p), a possibly replaced by
   h(p) * a and c by h2(p) * a + c inside the equation (heterogeneity; both read the given a). *)
From Coq Require Import ZArith List Bool Arith QArith Qcanon.
From JV Require Export Kit.Field Kit.Expr Kit.NumRun Model.M_lossterms Model.M_params.
From JV Require Import Inst.I_params.
Import ListNotations.
Record case := mkcase {
  cid : nat; nvars : nat; P : poly; q : poly; h : option poly;      (* h: heterogeneity factor of a *)
  h2 : option poly;                         (* heterogeneity of c: c := h2(p) * a + c, a and c the GIVEN parameters *)
  plain : list QcF;                         (* caller's a, b, c *)
  batched : list (nat * list QcF);          (* param_batch_dict (key index -> rows) *)
  obs_batched : list (nat * list QcF);      (* observed eq_params (for the observation term) *)
  pts : list (list QcF); w : QcF;
  ic : option (list QcF * QcF * QcF);       (* ODE: (t0 as a point, u0, weight) *)
  obs_in : list (list QcF); obs_val : list QcF; w_obs : QcF;
  o_dyn : QcF; o_ic : QcF; o_obs : QcF }.
Definition val_of (l : leaf) : QcF := match l with Plain v => v | Rows _ => qz 0 end.
Definition par (c : case) (batch : list (nat * list QcF)) (i k : nat) : QcF :=
  let ps := g_params_of_sample (qz 0) i (combine (seq 0 3) (plain c)) (match batch with [] => None | _ => Some batch end) in
  match lookup k ps with Some l => val_of l | None => qz 0 end.
Definition pv (c : case) (p : poly) (pt : list QcF) := evq (mkenv pt [] []) (polyIn (nvars c) p).
Definition U (c : case) batch i pt : QcF := (pv c (P c) pt + par c batch i 1)%K.
Definition a_eff (c : case) batch i pt : QcF := match h c with Some hp => (pv c hp pt * par c batch i 0)%K | None => par c batch i 0 end.
Definition c_eff (c : case) batch i pt : QcF := match h2 c with Some hp => (pv c hp pt * par c batch i 0 + par c batch i 2)%K | None => par c batch i 2 end.
Definition dyn (c : case) : QcF :=
  meanK (map (fun ip => let '(i, pt) := ip in (w c * sq (a_eff c (batched c) i pt * U c (batched c) i pt + c_eff c (batched c) i pt + pv c (q c) pt))%K)
             (combine (seq 0 (length (pts c))) (pts c))).
Definition nrows (c : case) : nat := match batched c with (_, rows) :: _ => length rows | [] => 1 end.
Definition icv (c : case) : QcF :=
  match ic c with
  | Some (t0, u0, wi) => meanK (map (fun i => (wi * sq (U c (batched c) i t0 - u0))%K) (seq 0 (nrows c)))
  | None => qz 0 end.
Definition both (c : case) := batched c ++ obs_batched c.
Definition obsv (c : case) : QcF :=
  match obs_in c with [] => qz 0 | _ =>
  meanK (map (fun t => let '(i, (pt, v)) := t in (w_obs c * sq (U c (filter (fun kv => negb (existsb (fun kv' => Nat.eqb (fst kv') (fst kv)) (obs_batched c))) (batched c) ++ obs_batched c) i pt - v))%K)
             (combine (seq 0 (length (obs_in c))) (combine (obs_in c) (obs_val c)))) end.
Definition check (c : case) : bool :=
  g_params_wiring && qclose (dyn c) (o_dyn c) && qclose (icv c) (o_ic c) && qclose (obsv c) (o_obs c).
Definition summary (cases : list case) :=
  let bad := filter (fun c => negb (check c)) cases in (length cases, length bad, firstn 5 (map cid bad)).
