(* Run/R_C08.v -- correspondence runner for C08: grid stores against the grid formula (tolerance),
   uniform stores inside their box, border stores against the regenerated facet table. *)
From Coq Require Import ZArith List Bool Arith QArith.
From JV Require Import Model.M_domain Inst.I_domain.
Import ListNotations.
Open Scope Q_scope.
Inductive case :=
| GridCase (cid : nat) (a b : Q) (n : nat) (store : list Q)
| BoxCase (cid : nat) (mins maxs : list Q) (n : nat) (store : list (list Q))      (* interior points of any method *)
| BorderCase (cid : nat) (mins maxs : list Q) (facets : list (list (list Q))).       (* per facet: its points *)
Definition cid (c : case) := match c with GridCase i _ _ _ _ | BoxCase i _ _ _ _ | BorderCase i _ _ _ => i end.
Definition qabs (x : Q) := if Qle_bool 0 x then x else - x.
Definition close (x y : Q) : bool := Qle_bool (qabs (x - y)) ((1 # 1073741824) * (1 + qabs x)).
Definition within (a b x : Q) : bool := Qle_bool a x && Qle_bool x b.
Definition check (c : case) : bool :=
  g_domain_wiring &&
  match c with
  | GridCase _ a b n store => Nat.eqb (length store) n && forallb (fun p => close (fst p) (snd p)) (combine (grid a b n) store)
  | BoxCase _ mins maxs n store =>
      Nat.eqb (length store) n &&
      forallb (fun r => Nat.eqb (length r) (length mins) && forallb (fun t => within (fst (fst t)) (snd (fst t)) (snd t)) (combine (combine mins maxs) r)) store
  | BorderCase _ mins maxs facets =>
      Nat.eqb (length facets) (length g_facet_table) &&
      forallb (fun t : (nat * bool * nat * nat * nat) * list (list Q) => let '(pc, is_max, bd, fc, fd, pts) := t in
                        forallb (fun p => Qeq_bool (nth pc p 0) (nth bd (if is_max then maxs else mins) 0) &&
                                          within (nth fd mins 0) (nth fd maxs 0) (nth fc p 0) && Nat.eqb (length p) 2) pts)
              (combine g_facet_table facets)
  end.
Definition summary (cases : list case) :=
  let bad := filter (fun c => negb (check c)) cases in (length cases, length bad, firstn 5 (map cid bad)).
