(* Props/C02.v -- Built-in dynamic losses equal the residual of their documented equation. *)
From Coq Require Import List Arith Bool Lia QArith Qcanon.
From JV Require Import Kit.Field Kit.Expr Kit.NumRun Model.M_operators Model.M_dynloss Proofs.P_operators Proofs.P_dynloss.
Import ListNotations.
Open Scope nat_scope.

Section C02.
Variable F : fld.
Variable prim : nat -> F -> F.
Variable dp : nat -> nat.
Notation ev := (ev prim). Notation D := (D dp).
Notation Dt := (D tvar). Notation Dx i := (D (xvar true i)). Notation Dxs i := (D (xvar false i)).
Variable tmax : F.                    (* the Tmax attribute *)
Variable env : var -> F.              (* the point, the network weights and the equation parameters Nu k *)
Open Scope K_scope.

(* Burgers (nu = Nu 0): u_t + Tmax (u u_x - nu u_xx) *)
Theorem C02_burgers u :
  ev env (burgers F dp tmax u) = ev env (Dt u) + tmax * (ev env u * ev env (Dx 0 u) - env (Nu 0) * ev env (Dx 0 (Dx 0 u))).
Proof. exact (burgers_spec F prim dp tmax u env). Qed.
(* Fisher-KPP (D = Nu 0, r = Nu 1, gamma = Nu 2): u_t - Tmax (D lap u + u (r - gamma u)), any dimension *)
Theorem C02_fisher_kpp d u :
  ev env (fisher F dp tmax d u) =
  ev env (Dt u) - tmax * (env (Nu 0) * sumK (map (fun i => ev env (Dx i (Dx i u))) (seq 0 d)) + ev env u * (env (Nu 1) - env (Nu 2) * ev env u)).
Proof. exact (fisher_spec F prim dp tmax d u env). Qed.
(* Fokker-Planck in 2-D: -u_t + Tmax (- sum_i d_i (mu_i u) + sum_ij d_i d_j (D_ij u)) ... *)
Theorem C02_fokker_planck drift diffusion u :
  ev env (fpe F dp tmax drift diffusion u) =
  - ev env (Dt u) + tmax * (- (ev env (Dx 0 (Mul (drift 0) u)) + ev env (Dx 1 (Mul (drift 1) u)))
     + (ev env (Dx 0 (Dx 0 (Mul u (diffusion 0 0)))) + ev env (Dx 0 (Dx 1 (Mul u (diffusion 1 0))))
        + ev env (Dx 1 (Dx 0 (Mul u (diffusion 0 1)))) + ev env (Dx 1 (Dx 1 (Mul u (diffusion 1 1)))))).
Proof. exact (fpe_spec F prim dp tmax drift diffusion u env). Qed.
(* ... with the Ornstein-Uhlenbeck coefficients mu = alpha (mu0 - x), D = 1/2 diag(sigma)^2
   (alpha_i = Nu i, mu0_i = Nu (2+i), sigma_i = Nu (4+i)) *)
Theorem C02_ornstein_uhlenbeck_coefficients half i j :
  ev env (ou_drift F i) = env (Nu i) * (env (Nu (2 + i)) - env (xvar true i)) /\
  ev env (ou_diffusion F half i j) = half * (if Nat.eqb i j then env (Nu (4 + i)) * env (Nu (4 + j)) else k0).
Proof. exact (ou_coefficients F prim half env i j). Qed.
(* generalized Lotka-Volterra, log form (r = Nu 0, c = Nu 1, a_j = Nu (2+j)):
   u'/u - Tmax (r + sum_j a_j u_j - c sum_j u_j), main population first *)
Theorem C02_lotka_volterra u_main others :
  ev env (glv F dp tmax u_main others) =
  ev env (Dt u_main) * kinv (ev env u_main)
  + tmax * (- env (Nu 0)
            - (env (Nu 2) * ev env u_main + sumK (map (fun ik => env (Nu (2 + (fst ik + 1))) * ev env (snd ik)) (enumerate others)))
            + (env (Nu 1) * ev env u_main + sumK (map (fun ik => env (Nu 1) * ev env (snd ik)) (enumerate others)))).
Proof. exact (glv_spec F prim dp tmax u_main others env). Qed.
(* mass conservation: div u *)
Theorem C02_mass_conservation d u :
  ev env (mass_conservation F dp d u) = sumK (map (fun i => ev env (Dxs i (comp F u i))) (seq 0 d)).
Proof. exact (mass_conservation_spec F prim dp d u env). Qed.
(* stationary Navier-Stokes (rho = Nu 0, nu = Nu 1): (u . grad) u + 1/rho grad p - nu lap u *)
Theorem C02_navier_stokes u p c : (c < 2)%nat ->
  length (navier_stokes F dp u p) = 2%nat /\
  ev env (nth c (navier_stokes F dp u p) (Cst k0)) =
  (ev env (comp F u 0) * ev env (Dxs 0 (comp F u c)) + ev env (comp F u 1) * ev env (Dxs 1 (comp F u c)))
  + k1 * kinv (env (Nu 0)) * ev env (Dxs c p)
  - env (Nu 1) * sumK (map (fun i => ev env (Dxs i (Dxs i (comp F u c)))) (seq 0 2)).
Proof. exact (navier_stokes_spec F prim dp u p env c). Qed.

(* the place of Tmax: for u(s, x) = v(Tmax s, x) the residual is Tmax times the physical-time
   residual of v at (Tmax s, x); in particular it vanishes where v satisfies the equation *)
Theorem C02_burgers_time_rescaling v :
  ev env (burgers F dp tmax (rs F tmax v)) =
  tmax * (ev (env' F tmax env) (Dt v) + ev (env' F tmax env) v * ev (env' F tmax env) (Dx 0 v)
          - env (Nu 0) * ev (env' F tmax env) (Dx 0 (Dx 0 v))).
Proof. exact (burgers_rescaling F prim dp tmax v env). Qed.
Theorem C02_fisher_time_rescaling d v :
  ev env (fisher F dp tmax d (rs F tmax v)) =
  tmax * (ev (env' F tmax env) (Dt v) - (env (Nu 0) * sumK (map (fun i => ev (env' F tmax env) (Dx i (Dx i v))) (seq 0 d))
                                        + ev (env' F tmax env) v * (env (Nu 1) - env (Nu 2) * ev (env' F tmax env) v))).
Proof. exact (fisher_rescaling F prim dp tmax d v env). Qed.
End C02.

Print Assumptions C02_burgers.
Print Assumptions C02_fisher_kpp.
Print Assumptions C02_fokker_planck.
Print Assumptions C02_ornstein_uhlenbeck_coefficients.
Print Assumptions C02_lotka_volterra.
Print Assumptions C02_mass_conservation.
Print Assumptions C02_navier_stokes.
Print Assumptions C02_burgers_time_rescaling.
Print Assumptions C02_fisher_time_rescaling.

(* non-vacuity: u(t, x) = x t, nu = 7, Tmax = 1: residual u_t + u u_x - nu u_xx = x + x t^2 = 5 at (t, x) = (2, 1) *)
Example C02_witness :
  this (evq (mkenv [qz 2; qz 1] [] [qz 7]) (burgers QcF dp0 (qz 1) (polyIn 2 [(qz 1, [1; 1])]))) = 5%Q.
Proof. vm_compute. reflexivity. Qed.
