(* Props/C19.v -- Validation is called on schedule; early stopping and best parameters follow it. *)
From Coq Require Import ZArith List Bool Lia QArith.
From JV Require Import Kit.Tac Kit.GenTypes Kit.Lists Gen.G_solve Gen.G_validation Model.M_solve Inst.I_solve
  Proofs.P_solve Proofs.P_validation Props.C07.
Import ListNotations.
Open Scope Z_scope.

Section C19.
Variables P Os D B Gr U LV LT T V C : Type.
Variable draw : D -> B * D.
Variable vg : P -> B -> (LV * LT) * Gr.
Variable opt_update : Gr -> Os -> P -> U * Os.
Variable apply : P -> U -> P.
Variable has_nan : P -> bool.
Variable track : P -> T.
Variable validate : V -> P -> V * bool * C * bool.     (* (module', stop request, criterion, improvement flag) *)
Variable call_every : V -> Z.
Variable rar : Z -> P -> D -> D.
Variable rar_init : D -> D.
Variables (zLV : LV) (zLT : LT) (zT : T) (zC : C).
Variables (n : nat) (p0 : P) (o0 : Os) (d0 : D) (v0 : option V).
Let result := solve P Os D B Gr U LV LT T V C G_solve draw vg opt_update apply has_nan track validate call_every rar rar_init zLV zLT zT zC n p0 o0 d0 v0.
Let r0 := r_init P Os D LV LT T V C p0 o0 (snd (draw (rar_init d0))) v0.
Let step k r := rstep P Os D B Gr U LV LT T V C draw vg opt_update apply has_nan track validate call_every rar zC k r.
Let ref k := rrun P Os D B Gr U LV LT T V C draw vg opt_update apply has_nan track validate call_every rar zC k r0.
Notation "r .p" := (r_p _ _ _ _ _ _ _ _ r) (at level 9). Notation "r .v" := (r_v _ _ _ _ _ _ _ _ r) (at level 9).
Notation "r .early" := (r_early _ _ _ _ _ _ _ _ r) (at level 9). Notation "r .crits" := (r_c _ _ _ _ _ _ _ _ r) (at level 9).
Notation "r .best" := (r_best _ _ _ _ _ _ _ _ r) (at level 9).

(* iteration k of the loop (by C07 the while_loop body is [step]): the module is invoked iff k is
   divisible by its period, with the post-update parameters; its criterion is recorded, its stop
   request and improvement flag are taken over ... *)
Theorem C19_invoked_on_schedule k r v : r.v = Some v -> Z.of_nat k mod call_every v = 0 ->
  let '(v1, es, cr, ub) := validate v (step k r).p in
  (step k r).v = Some v1 /\ (step k r).early = es /\ (step k r).crits = r.crits ++ [cr] /\
  (step k r).best = (if ub then (step k r).p else r.best).
Proof. exact (rstep_val_due P Os D B Gr U LV LT T V C draw vg opt_update apply has_nan track validate call_every rar zC k r v). Qed.
(* ... and otherwise it is not invoked: the module is unchanged, no stop is requested, the last
   criterion is carried forward and the best parameters are kept *)
Theorem C19_carried_in_between k r v : r.v = Some v -> Z.of_nat k mod call_every v <> 0 ->
  (step k r).v = Some v /\ (step k r).early = false /\ (step k r).crits = r.crits ++ [nth (k - 1) r.crits zC] /\
  (step k r).best = r.best.
Proof. exact (rstep_val_skip P Os D B Gr U LV LT T V C draw vg opt_update apply has_nan track validate call_every rar zC k r v). Qed.

(* training stops right after the first invocation that requests it: if no NaN occurs and the
   first stop request comes out of iteration k, the loop exits with counter k+1 in the textbook
   state after k+1 iterations (criterion history, best parameters, module included) *)
Theorem C19_stops_right_after_first_request k : (k < n)%nat ->
  (forall j, (j <= S k)%nat -> has_nan (ref j).p = false) ->
  (forall j, (j <= k)%nat -> (ref j).early = false) -> (ref (S k)).early = true ->
  result = embed P Os D LV LT T V C zLV zLT zT zC n (S k) (ref (S k)).
Proof. intros Hk Hnan Hno Hreq. apply C07_loop_is_textbook; [lia| |right].
  - intros j Hj. unfold halt. change (has_nan (ref j).p || (ref j).early = false). rewrite Hnan, Hno by lia. reflexivity.
  - unfold halt. change (has_nan (ref (S k)).p || (ref (S k)).early = true). rewrite Hreq. apply orb_true_r. Qed.
End C19.

(* ---- the built-in validation loss ---- *)
Lemma regenerated_validation_ok : vl_gen_ok G_vl.
Proof. unfold vl_gen_ok. unfold_gen. repeat split; intros; try reflexivity; lia. Qed.

(* an invocation flags an improvement exactly on a strict new minimum of the validation loss:
   the flag is (v < best) and best is the minimum of all values seen before (+inf at the start) *)
Theorem C19_flag_iff_strict_new_minimum patience early s v seen : is_min (vbest s) seen ->
  snd (vl_call G_vl patience early s v) = below_best v (vbest s) /\
  is_min (vbest (fst (fst (vl_call G_vl patience early s v)))) (seen ++ [v]).
Proof. intro H. split; [rewrite (vl_call_spec G_vl regenerated_validation_ok); reflexivity|].
  apply (best_stays_min G_vl regenerated_validation_ok). exact H. Qed.
(* a stop is requested at an invocation iff early stopping is enabled and the invocation is
   preceded by exactly `patience` consecutive non-improving ones *)
Theorem C19_stop_after_patience patience early pre s0 v :
  snd (fst (vl_call G_vl patience early (final_state G_vl patience early s0 pre) v)) =
  early && (run_len (map snd (vl_run G_vl patience early s0 pre)) (vcounter s0) =? patience).
Proof. exact (stop_request G_vl regenerated_validation_ok patience early pre s0 v). Qed.
Theorem C19_never_stops_when_disabled patience s vs :
  forallb (fun p => negb (fst p)) (vl_run G_vl patience false s vs) = true.
Proof. exact (never_stops_when_disabled G_vl regenerated_validation_ok patience false s vs eq_refl). Qed.

Print Assumptions C19_invoked_on_schedule.
Print Assumptions C19_carried_in_between.
Print Assumptions C19_stops_right_after_first_request.
Print Assumptions regenerated_validation_ok.
Print Assumptions C19_flag_iff_strict_new_minimum.
Print Assumptions C19_stop_after_patience.
Print Assumptions C19_never_stops_when_disabled.

(* non-vacuity: patience 2: losses 5 3 4 4 2 6 7 8 -> flags T T F F T F F F; a stop is requested
   at the invocations preceded by exactly two non-improving ones (the fifth, which is where
   training ends, and -- were it to go on -- the last) *)
Example C19_witness :
  vl_run G_vl 2 true vl_init [5#1; 3#1; 4#1; 4#1; 2#1; 6#1; 7#1; 8#1]%Q =
  [(false,true);(false,true);(false,false);(false,false);(true,true);(false,false);(false,false);(true,false)].
Proof. vm_compute. reflexivity. Qed.
