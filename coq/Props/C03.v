(* Props/C03.v -- Total loss is the sum of its terms; dynamic term is the batch-mean residual MSE. *)
From Coq Require Import List Arith Bool Lia Permutation QArith Qcanon.
From JV Require Import Kit.Field Model.M_lossterms Proofs.P_lossterms.
Import ListNotations.
Open Scope nat_scope.

Section C03.
Variable F : fld.
Hypothesis Hchar : char0 F.          (* characteristic 0: holds for the rationals, the reals, ... *)
Open Scope K_scope.

(* the total is the sum of the per-term values, a part that is not configured contributing
   exactly 0 *)
Theorem C03_total_is_sum_of_terms (terms : list (option F)) :
  total F terms = sumK (map (opt_term F) terms) /\ opt_term F None = k0.
Proof. split; [apply total_sum|reflexivity]. Qed.

(* the dynamic term is (1/|B|) sum over the batch of sum over components of w_c * r_c(p)^2 *)
Theorem C03_dynamic_term (w : weight F) (res : list (list F)) :
  dyn_term F w res =
  sumK (map (fun r => sumK (map (fun p => wat F w (fst p) * (snd p * snd p)) (enumerate r))) res) / of_nat (length res).
Proof. exact (mse_term_def F w res). Qed.

(* consequences: linear in the weight (scalar and per-component) ... *)
Theorem C03_linear_in_scalar_weight a b w w' res :
  dyn_term F (WScalar (a * w + b * w')) res = a * dyn_term F (WScalar w) res + b * dyn_term F (WScalar w') res.
Proof. exact (mse_scalar_weight_linear F a b w w' res). Qed.
Theorem C03_linear_in_vector_weight a b w w' res : length w = length w' ->
  dyn_term F (WVec (wlin F a b w w')) res = a * dyn_term F (WVec w) res + b * dyn_term F (WVec w') res.
Proof. exact (mse_vector_weight_linear F a b w w' res). Qed.
(* ... invariant under permutation of the batch ... *)
Theorem C03_permutation_invariant w res res' : Permutation res res' -> dyn_term F w res = dyn_term F w res'.
Proof. exact (mse_permutation F w res res'). Qed.
(* ... and the average of its values on two equal halves *)
Theorem C03_average_of_halves w b1 b2 : length b1 = length b2 -> (0 < length b1)%nat ->
  dyn_term F w (b1 ++ b2) = (dyn_term F w b1 + dyn_term F w b2) / (k1 + k1).
Proof. exact (mse_halves F Hchar w b1 b2). Qed.
End C03.

Print Assumptions C03_total_is_sum_of_terms.
Print Assumptions C03_dynamic_term.
Print Assumptions C03_linear_in_scalar_weight.
Print Assumptions C03_linear_in_vector_weight.
Print Assumptions C03_permutation_invariant.
Print Assumptions C03_average_of_halves.

(* non-vacuity: two points, two components, weights (2, 3): ((2*1 + 3*4) + (2*9 + 3*0)) / 2 = 16;
   the rationals have characteristic 0 *)
Example C03_witness :
  this (dyn_term QcF (WVec [qz 2; qz 3]) [[qz 1; qz 2]; [qz 3; qz 0]]) = 16%Q /\ char0 QcF.
Proof. split; [vm_compute; reflexivity|exact QcF_char0]. Qed.
