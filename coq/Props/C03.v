(* Props/C03.v -- Total loss is the sum of its terms; dynamic term is the batch-mean residual MSE. *)
From Coq Require Import List Arith Bool Lia Permutation QArith Qcanon.
From JV Require Import Kit.Field Kit.Tx Model.M_lossterms Proofs.P_lossterms Proofs.P_reduce Inst.I_reduce.
Import ListNotations.
Open Scope nat_scope.

Section C03.
Variable F : fld.
Hypothesis Hchar : char0 F.          (* characteristic 0: holds for the rationals, the reals, ... *)
Open Scope K_scope.

(* the total is the sum of the per-term values, a part that is not configured contributing
   exactly 0 *)
Theorem C03_total_is_sum_of_terms (terms : list (option F)) :
  total F terms = sumK (map (opt_term F) terms) /\ opt_term F None = k0.
Proof. split; [apply total_sum|reflexivity]. Qed.

(* the dynamic term is (1/|B|) sum over the batch of sum over components of w_c * r_c(p)^2 *)
Theorem C03_dynamic_term (w : weight F) (res : list (list F)) :
  dyn_term F w res =
  sumK (map (fun r => sumK (map (fun p => wat F w (fst p) * (snd p * snd p)) (enumerate r))) res) / of_nat (length res).
Proof. exact (mse_term_def F w res). Qed.

(* consequences: linear in the weight (scalar and per-component) ... *)
Theorem C03_linear_in_scalar_weight a b w w' res :
  dyn_term F (WScalar (a * w + b * w')) res = a * dyn_term F (WScalar w) res + b * dyn_term F (WScalar w') res.
Proof. exact (mse_scalar_weight_linear F a b w w' res). Qed.
Theorem C03_linear_in_vector_weight a b w w' res : length w = length w' ->
  dyn_term F (WVec (wlin F a b w w')) res = a * dyn_term F (WVec w) res + b * dyn_term F (WVec w') res.
Proof. exact (mse_vector_weight_linear F a b w w' res). Qed.
(* ... invariant under permutation of the batch ... *)
Theorem C03_permutation_invariant w res res' : Permutation res res' -> dyn_term F w res = dyn_term F w res'.
Proof. exact (mse_permutation F w res res'). Qed.
(* ... and the average of its values on two equal halves *)
Theorem C03_average_of_halves w b1 b2 : length b1 = length b2 -> (0 < length b1)%nat ->
  dyn_term F w (b1 ++ b2) = (dyn_term F w b1 + dyn_term F w b2) / (k1 + k1).
Proof. exact (mse_halves F Hchar w b1 b2). Qed.
End C03.

(* ---- Regenerated: what the source says today ----
   dynamic_loss_apply: the reduction expression of both branches (pointwise and separable networks),
   translated to a tensor expression, denotes the model's dynamic term for every batch, component
   count and weight shape (scalar or per component); the parameters are passed last to the equation;
   the three evaluate methods return total = the sum of exactly the returned terms, an unconfigured
   part being the constant 0. *)
Lemma regenerated_dyn_reduce_ok (F : fld) (w : weight F) (res : list (list F)) :
  tsem F [T2 res; wten F w] g_dyn_reduce_pinn = Some (T0 (dyn_term F w res)) /\
  g_dyn_reduce_spinn = g_dyn_reduce_pinn /\ g_dyn_params_last = true.
Proof. split; [exact (mse_expected_sem F w res)|split; reflexivity]. Qed.
Lemma regenerated_totals_ok : g_totals = true.
Proof. reflexivity. Qed.
Theorem C03_regenerated_dynamic_term (F : fld) (w : weight F) (res : list (list F)) :
  tsem F [T2 res; wten F w] g_dyn_reduce_pinn =
  Some (T0 (sumK (map (fun r => sumK (map (fun p => wat F w (fst p) * (snd p * snd p))%K (enumerate r))) res) / of_nat (length res))%K).
Proof. rewrite (proj1 (regenerated_dyn_reduce_ok F w res)). unfold dyn_term. rewrite (mse_term_def F w res). reflexivity. Qed.

Print Assumptions regenerated_dyn_reduce_ok.
Print Assumptions regenerated_totals_ok.
Print Assumptions C03_regenerated_dynamic_term.
Print Assumptions C03_total_is_sum_of_terms.
Print Assumptions C03_dynamic_term.
Print Assumptions C03_linear_in_scalar_weight.
Print Assumptions C03_linear_in_vector_weight.
Print Assumptions C03_permutation_invariant.
Print Assumptions C03_average_of_halves.

(* non-vacuity: two points, two components, weights (2, 3): ((2*1 + 3*4) + (2*9 + 3*0)) / 2 = 16;
   the rationals have characteristic 0 *)
Example C03_witness :
  this (dyn_term QcF (WVec [qz 2; qz 3]) [[qz 1; qz 2]; [qz 3; qz 0]]) = 16%Q /\ char0 QcF.
Proof. split; [vm_compute; reflexivity|exact QcF_char0]. Qed.
