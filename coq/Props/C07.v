(* Props/C07.v -- solve() is observationally the textbook mini-batch training loop. *)
From Coq Require Import ZArith List Bool Lia ZifyBool.
From JV Require Import Kit.Tac Kit.Lists Gen.G_solve Model.M_solve Inst.I_solve Proofs.P_solve.
Import ListNotations.
Open Scope Z_scope.

(* obligation on the regenerated index expressions, validation test, NaN bookkeeping, loop
   condition and statement order of _one_iteration / _gradient_step / _store_loss_and_params /
   break_fun / solve *)
Lemma regenerated_solve_ok : solve_gen_ok G_solve.
Proof. unfold solve_gen_ok. unfold_gen. repeat split; intros; try lia; try reflexivity.
  all: try match goal with |- _ = (if ?b then _ else _) => destruct b; reflexivity end.
  all: match goal with nan : bool, early : bool |- _ => destruct nan, early; lia end. Qed.

Section C07.
Variables P Os D B Gr U LV LT T V C : Type.
Variable draw : D -> B * D.                       (* next batch of every generator, appended *)
Variable vg : P -> B -> (LV * LT) * Gr.           (* total loss, its terms, gradient *)
Variable opt_update : Gr -> Os -> P -> U * Os.
Variable apply : P -> U -> P.
Variable has_nan : P -> bool.
Variable track : P -> T.
Variable validate : V -> P -> V * bool * C * bool.
Variable call_every : V -> Z.
Variable rar : Z -> P -> D -> D.
Variable rar_init : D -> D.
Variables (zLV : LV) (zLT : LT) (zT : T) (zC : C).
Variables (n : nat) (p0 : P) (o0 : Os) (d0 : D) (v0 : option V).

Let result := solve P Os D B Gr U LV LT T V C G_solve draw vg opt_update apply has_nan track validate call_every rar rar_init zLV zLT zT zC n p0 o0 d0 v0.
(* the reference: one batch drawn to shape the containers, then the textbook iterations *)
Let r0 := r_init P Os D LV LT T V C p0 o0 (snd (draw (rar_init d0))) v0.
Let ref k := rrun P Os D B Gr U LV LT T V C draw vg opt_update apply has_nan track validate call_every rar zC k r0.
Let stops k := halt P Os D LV LT T V C has_nan (ref k).   (* NaN parameter or early-stopping request *)

(* the while_loop runs exactly the textbook iterations up to the first stop (general form, also
   used by C18 and C19) *)
Theorem C07_loop_is_textbook m : (m <= n)%nat -> (forall j, (j < m)%nat -> stops j = false) ->
  (m = n \/ stops m = true) ->
  result = embed P Os D LV LT T V C zLV zLT zT zC n m (ref m).
Proof. intros Hm Hno Hst. unfold result, solve. rewrite init_embed.
  apply (loop_is_textbook P Os D B Gr U LV LT T V C G_solve regenerated_solve_ok draw vg opt_update apply has_nan
           track validate call_every rar zLV zLT zT zC n m r0); try assumption.
  apply r_init_inv. Qed.

(* when nothing stops it exactly n iterations run: entry i of the loss / term histories is the
   loss at the parameters before update i, entry i of the tracked history the parameters after
   it; final parameters, optimizer state and generators are those of the loop *)
Theorem C07_full_run : (forall j, (j < n)%nat -> stops j = false) ->
  ci _ _ _ _ _ _ _ _ result = Z.of_nat n /\
  hl _ _ _ _ _ _ _ _ result = r_l _ _ _ _ _ _ _ _ (ref n) /\ ht _ _ _ _ _ _ _ _ result = r_t _ _ _ _ _ _ _ _ (ref n) /\
  htr _ _ _ _ _ _ _ _ result = r_tr _ _ _ _ _ _ _ _ (ref n) /\
  cp _ _ _ _ _ _ _ _ result = r_p _ _ _ _ _ _ _ _ (ref n) /\ co _ _ _ _ _ _ _ _ result = r_o _ _ _ _ _ _ _ _ (ref n) /\
  cd _ _ _ _ _ _ _ _ result = r_d _ _ _ _ _ _ _ _ (ref n).
Proof. intro Hno. rewrite (C07_loop_is_textbook n (le_n n) Hno (or_introl eq_refl)).
  unfold embed. cbn [ci hl ht htr cp co cd]. rewrite Nat.sub_diag. cbn [repeat]. rewrite !app_nil_r. repeat split. Qed.
End C07.

Print Assumptions regenerated_solve_ok.
Print Assumptions C07_loop_is_textbook.
Print Assumptions C07_full_run.

(* non-vacuity: a toy instance (parameters = number of updates, loss = current parameter) *)
Example C07_witness :
  let res := solve nat nat nat nat nat nat nat nat nat nat nat G_solve (fun d => (d, S d)) (fun p b => ((p, b), p))
               (fun g o p => (1%nat, S o)) (fun p u => (p + u)%nat) (fun _ => false) (fun p => p)
               (fun v p => (v, false, p, false)) (fun _ => 1) (fun _ _ d => d) (fun d => d) 99%nat 99%nat 99%nat 99%nat 4 10%nat 0%nat 0%nat None in
  (hl _ _ _ _ _ _ _ _ res, ht _ _ _ _ _ _ _ _ res, htr _ _ _ _ _ _ _ _ res, cd _ _ _ _ _ _ _ _ res) = ([10;11;12;13]%nat, [1;2;3;4]%nat, [11;12;13;14]%nat, 5%nat).
Proof. vm_compute. reflexivity. Qed.
