(* Props/C12.v -- Per-sample equation parameters and heterogeneous parameters are aligned. *)
From Coq Require Import ZArith List Bool Arith Lia.
From JV Require Import Gen.G_params Model.M_params Inst.I_params Proofs.P_params.
Import ListNotations.

(* obligations on the regenerated source: a batched value replaces the caller's one; the vmap axis
   is 0 for batched keys and None for the others; wiring of merge / axes / heterogeneity decorator *)
Lemma regenerated_params_ok :
  gen_merge_takes_batch true = true /\ (gen_axis_for_key true = Some 0%Z /\ gen_axis_for_key false = None) /\ g_params_wiring = true.
Proof. repeat split; reflexivity. Qed.

Section C12.
Context {V : Type}.
Variable d : V.
(* sample i of a term is evaluated with row i of each batched parameter and the unbatched value
   of all others; the keys (and their order) are the caller's: only batched keys are overridden,
   batch keys that are not parameters are ignored, and a new dictionary is built (the caller's
   one is an argument, not a result) *)
Theorem C12_sample_parameters i (params : list (nat * V)) (batch : list (nat * list V)) :
  g_params_of_sample d i params (Some batch) =
  map (fun kv => (fst kv, match lookup (fst kv) batch with Some rows => Plain (nth i rows d) | None => Plain (snd kv) end)) params.
Proof. destruct regenerated_params_ok as (Hm & Ha & _). exact (sample_params _ _ Hm Ha d i params batch). Qed.
Theorem C12_without_batch i (params : list (nat * V)) :
  g_params_of_sample d i params None = map (fun kv => (fst kv, Plain (snd kv))) params.
Proof. exact (no_batch_params _ _ d i params). Qed.
Theorem C12_keys_are_the_callers i (params : list (nat * V)) batch :
  map fst (g_params_of_sample d i params batch) = map fst params.
Proof. destruct regenerated_params_ok as (Hm & Ha & _). exact (sample_params_keys _ _ Hm Ha d i params batch). Qed.
(* a parameter declared heterogeneous is replaced, inside the equation, by the value of its
   function at the current point (computed from the parameters the equation was given);
   undeclared parameters and parameters mapped to None are passed through *)
Theorem C12_heterogeneous_parameters {Pt} (hs : list (nat * option (Pt -> list (nat * V) -> V))) pt params k v :
  In (k, v) params -> NoDup (map fst params) ->
  lookup k (hetero hs pt params) = Some (match lookup k hs with Some (Some h) => h pt params | _ => v end).
Proof. exact (hetero_spec hs pt params k v). Qed.
End C12.

Print Assumptions regenerated_params_ok.
Print Assumptions C12_sample_parameters.
Print Assumptions C12_without_batch.
Print Assumptions C12_keys_are_the_callers.
Print Assumptions C12_heterogeneous_parameters.

Example C12_witness :
  g_params_of_sample 0%Z 1 [(0%nat, 7%Z); (1%nat, 8%Z); (2%nat, 9%Z)] (Some [(1%nat, [80; 81; 82]%Z); (5%nat, [1; 2; 3]%Z)])
  = [(0%nat, Plain 7%Z); (1%nat, Plain 81%Z); (2%nat, Plain 9%Z)].
Proof. vm_compute. reflexivity. Qed.
