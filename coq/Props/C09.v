(* Props/C09.v -- Mini-batching permutes the point set and serves each point once per epoch.
   Only statements, `exact`, Print Assumptions and non-vacuity examples live here. *)
From Coq Require Import ZArith List Bool Lia ZifyBool Permutation.
From JV Require Import Kit.Tac Gen.G_datagen Model.M_datagen Inst.I_datagen Proofs.P_datagen.
Import ListNotations.
Open Scope Z_scope.

(* with refinement configured, the number of points an epoch runs over is the number of ACTIVE points,
   n_start + (steps made) * (points added per step) -- not the store size, not the candidates drawn per step *)
Lemma regenerated_refined_epoch_length_ok n_start steps sel cand :
  gen_neff_rar_ode_t n_start steps sel cand = n_start + steps * sel /\
  gen_neff_rar_omega n_start steps sel cand = n_start + steps * sel /\
  gen_neff_rar_pde_t n_start steps sel cand = n_start + steps * sel.
Proof. unfold gen_neff_rar_ode_t, gen_neff_rar_omega, gen_neff_rar_pde_t. repeat split; lia. Qed.

Print Assumptions regenerated_refined_epoch_length_ok.

(* Proof obligation on the REGENERATED source expressions: for each of the six generator
   kinds the test, the updates, the initial cursor and the wiring are what the theorems need. *)
Lemma regenerated_cursors_ok : Forall cursor_gen_ok all_cursors.
Proof. unfold all_cursors.
  repeat (apply Forall_cons; [gen_lia|]).
  apply Forall_nil. Qed.

Section C09.
Context {A : Type}.
Variable G : cursor_gen.
Hypothesis HG : In G all_cursors.
Variable perm : nat -> list A -> list A.                  (* the reshuffles, as an oracle *)
Hypothesis perm_ok : forall r l, Permutation (perm r l) l. (* jax.random.choice(..., n, replace=False) *)
Variables (b n_eff : Z) (l0 : list A).
Hypothesis Hb : 1 <= b <= n_eff.
Hypothesis Hn : n_eff <= Z.of_nat (length l0) <= int32_max - 1.
Let c0 := init G l0 b.
Let e := epoch_len b n_eff.

Lemma Gok : cursor_gen_ok G.
Proof. exact (proj1 (Forall_forall _ _) regenerated_cursors_ok G HG). Qed.
Lemma H0 : n_eff <= idx c0 + b.
Proof. eapply init_forces_reshuffle; try eassumption; try apply Gok; lia. Qed.
(* every theorem below is an instance of a lemma of Proofs/P_datagen.v *)
Ltac by_lemma L := eapply L; try eassumption; try apply Gok; try apply H0; try reflexivity; lia.

(* drawing batches never alters the stored set of points, it only permutes it *)
Theorem C09_store_is_permuted k : Permutation (store (state G perm b n_eff k c0)) l0.
Proof. exact (state_perm G perm perm_ok b n_eff k c0). Qed.

(* a reshuffle happens exactly when all points have been served: at calls 0, e, 2e, ...
   with e = ceil(n_eff / b); the cursor after call k is (k mod e) * b *)
Theorem C09_reshuffle_schedule k :
  idx (state G perm b n_eff (S k) c0) = (Z.of_nat k mod e) * b /\
  reshuffled G perm b n_eff k c0 = (Z.of_nat k mod e =? 0).
Proof. by_lemma @state_closed. Qed.

(* call k serves the slice of length b starting at j*b (j = k mod e), the last one of an
   epoch being clamped to the end of the store *)
Theorem C09_served_slice k :
  batch G perm b n_eff k c0 =
  slice (served_start b n_eff l0 (Z.of_nat k mod e)) b (store (state G perm b n_eff (S k) c0)).
Proof. by_lemma @batch_closed. Qed.

(* between two reshuffles the store is fixed *)
Theorem C09_store_fixed_within_epoch k : Z.of_nat (S k) mod e <> 0 ->
  store (state G perm b n_eff (S (S k)) c0) = store (state G perm b n_eff (S k) c0).
Proof. by_lemma @epoch_store_const. Qed.

(* every active index is served at least once per epoch ... *)
Theorem C09_every_point_served i : 0 <= i < n_eff ->
  exists j, 0 <= j < e /\ served_start b n_eff l0 j <= i < served_start b n_eff l0 j + b.
Proof. by_lemma @epoch_covers. Qed.

(* ... and exactly once when the batch size divides the number of points *)
Theorem C09_no_point_twice_when_divides i j j' : n_eff mod b = 0 -> 0 <= j < e -> 0 <= j' < e ->
  served_start b n_eff l0 j <= i < served_start b n_eff l0 j + b ->
  served_start b n_eff l0 j' <= i < served_start b n_eff l0 j' + b -> j = j'.
Proof. by_lemma @epoch_unique_when_divides. Qed.

(* the first call reshuffles, and computing its hypothetical end does not overflow int32 *)
Theorem C09_initial_cursor_safe : idx c0 + b <= int32_max /\ n_eff <= idx c0 + b.
Proof. split; [by_lemma @init_no_overflow|apply H0]. Qed.
End C09.

(* element level: when b divides the count, the e batches of an epoch concatenated are
   exactly the first e*b stored points, in order -- each active point exactly once *)
Theorem C09_epoch_is_partition {A} (l : list A) (b m : nat) :
  concat (map (fun j => slice (A:=A) (Z.of_nat (j * b)) (Z.of_nat b) l) (seq 0 m)) = firstn (m * b) l.
Proof. exact (slices_concat l b m). Qed.

Print Assumptions regenerated_cursors_ok.
Print Assumptions C09_store_is_permuted.
Print Assumptions C09_reshuffle_schedule.
Print Assumptions C09_served_slice.
Print Assumptions C09_store_fixed_within_epoch.
Print Assumptions C09_every_point_served.
Print Assumptions C09_no_point_twice_when_divides.
Print Assumptions C09_initial_cursor_safe.
Print Assumptions C09_epoch_is_partition.

(* non-vacuity: a concrete run (n = 4, b = 2, reshuffle = reverse) meets the hypotheses and
   serves [3;2] [1;0] then, after the reshuffle at call 2, [0;1] [2;3] *)
Example C09_witness :
  map snd (trace G_omega (fun _ l => rev l) 2 4 4 (init G_omega [0;1;2;3] 2)) = [[3;2];[1;0];[0;1];[2;3]]
  /\ 1 <= 2 <= 4 /\ 4 <= Z.of_nat (length [0;1;2;3]) <= int32_max - 1.
Proof. split; [vm_compute; reflexivity|unfold int32_max; cbn; lia]. Qed.
