(* Props/C11.v -- Forward-mode (separable) and reverse-mode (pointwise) computations agree. *)
From Coq Require Import List Arith Bool Lia.
From JV Require Import Kit.Field Kit.Expr Model.M_operators Model.M_fwd Proofs.P_operators Proofs.P_fwd Inst.I_fwd.
Import ListNotations.

(* regenerated from the source: _div_fwd / _laplacian_fwd scan over the d space axes (x.shape[1]),
   step i uses the i-th one-hot tangent repeated over the batch rows -- once on component i for the
   divergence, twice (jvp of jvp, same tangent) on component 0 for the Laplacian -- and sum the
   per-axis results: exactly the model's laplacian_fwd / div_fwd; _get_grid is the ij-meshgrid of
   the columns stacked on the last axis *)
Lemma regenerated_fwd_ok : g_fwd_wiring = true.
Proof. reflexivity. Qed.

Section C11.
Variable F : fld.
Variable prim : nat -> F -> F.
Variable dp : nat -> nat.
Notation ev := (ev prim).
Variable has_t : bool.
Variable d : nat.
Variable u : list (expr F).     (* any network; for a separable one, the expression sum_z prod_k f_k(x_k)[z] *)
Variable env : var -> F.        (* the point (x_{i_1}, .., x_{i_d}) of the grid and the parameters *)

(* a jvp with the i-th one-hot tangent is the partial derivative w.r.t. x_i *)
Theorem C11_one_hot_jvp i e : i < d ->
  ev env (jvp F dp has_t d (one_hot F d i) e) = ev env (D dp (xvar has_t i) e).
Proof. exact (jvp_one_hot F prim dp has_t d i e env). Qed.
(* the forward-mode Laplacian and divergence return, at every point, the value of the
   reverse-mode ones for the same function *)
Theorem C11_laplacian_forward_is_reverse :
  ev env (laplacian_fwd F dp has_t d u) = ev env (laplacian_rev F dp has_t d u).
Proof. exact (laplacian_fwd_is_rev F prim dp has_t d u env). Qed.
Theorem C11_divergence_forward_is_reverse :
  ev env (div_fwd F dp has_t d u) = ev env (div_rev F dp has_t d u).
Proof. exact (div_fwd_is_rev F prim dp has_t d u env). Qed.
End C11.
(* grid axes follow the order of the columns (time first, then the spatial coordinates): entry
   (i_1, .., i_d) of the grid is the point (col_1[i_1], .., col_d[i_d]) *)
Theorem C11_grid_axes {A} (d0 : A) (cols : list (list A)) (idx : list nat) :
  length idx = length cols -> Forall2 (fun i c => i < length c) idx cols ->
  nth (flat_index (map (@length A) cols) idx) (grid_flat cols) [] = map (fun p => nth (fst p) (snd p) d0) (combine idx cols).
Proof. exact (grid_flat_nth d0 cols idx). Qed.

Print Assumptions regenerated_fwd_ok.
Print Assumptions C11_one_hot_jvp.
Print Assumptions C11_laplacian_forward_is_reverse.
Print Assumptions C11_divergence_forward_is_reverse.
Print Assumptions C11_grid_axes.

Example C11_witness : nth (flat_index [2; 3] [1; 2]) (grid_flat [[10; 20]; [1; 2; 3]]) [] = [20; 3].
Proof. vm_compute. reflexivity. Qed.
