(* Props/C14.v -- Space-time batches are exact cartesian products (or exact pairings). *)
From Coq Require Import List Arith Bool Lia.
From JV Require Import Kit.GenTypes Gen.G_datagen Model.M_cart Inst.I_cart Proofs.P_cart.
Import ListNotations.

(* obligation on the regenerated source: b1 is repeated, b2 is tiled, concatenated in that
   order; get_batch draws inside/border/time in that order and builds both parts as stated *)
Lemma regenerated_product_ok :
  gen_cart_first = ExpRepeat /\ gen_cart_second = ExpTile /\ gen_cart_first_then_second = true /\
  g_nonstatio_wiring = true.
Proof. repeat split; reflexivity. Qed.

Section C14.
Context {A : Type}.
Variable cat : A -> A -> A.      (* concatenation of a time row and a space row *)
Variables t x : list A.

Lemma inside_is_cart : g_inside cat true t x = cart cat t x.
Proof. destruct regenerated_product_ok as (H1 & H2 & H3 & _). unfold g_inside, inside_batch, cart. rewrite H1, H2, H3. reflexivity. Qed.

(* cartesian option: nt * nx rows, row i*nx + j is (t_i, x_j): time-major *)
Theorem C14_product_rows i j d1 d2 : i < length t -> j < length x ->
  length (g_inside cat true t x) = length t * length x /\
  nth (i * length x + j) (g_inside cat true t x) (cat d1 d2) = cat (nth i t d1) (nth j x d2).
Proof. intros Hi Hj. rewrite inside_is_cart. split; [apply cart_length|apply cart_nth; assumption]. Qed.

(* every pair appears exactly once: the row index determines (i, j) and conversely *)
Theorem C14_each_pair_exactly_once k : k < length t * length x ->
  exists i j, i < length t /\ j < length x /\ k = i * length x + j /\
  forall i' j', i' < length t -> j' < length x -> k = i' * length x + j' -> i' = i /\ j' = j.
Proof. exact (cart_index_bijective (length t) (length x) k). Qed.

(* without the option row i pairs time i with spatial point i *)
Theorem C14_pairing_rows i d1 d2 : length t = length x ->
  length (g_inside cat false t x) = length t /\
  nth i (g_inside cat false t x) (cat d1 d2) = cat (nth i t d1) (nth i x d2).
Proof. intro Hl. unfold g_inside, inside_batch. split; [apply pairing_length|apply pairing_nth]; exact Hl. Qed.
End C14.

(* each facet of the border batch is the same product with that facet's points; in 1-D the
   product is taken whatever the option *)
Theorem C14_border_facets {A B} (cat : A -> A -> A) (cat' : B -> B -> B) (h1 h2 h : A -> B)
  (Hh : forall a b, h (cat a b) = cat' (h1 a) (h2 b)) (cartesian dim1 : bool) (t dx : list A) :
  cartesian || dim1 = true ->
  map h (g_border cat cartesian dim1 t dx) = cart cat' (map h1 t) (map h2 dx).
Proof. intro Hc. destruct regenerated_product_ok as (H1 & H2 & H3 & _).
  unfold g_border, border_batch. rewrite Hc, H1, H2, H3. apply cart_projection. exact Hh. Qed.

(* column 0 is time: rows are coordinate lists, a time row is [t_i], concatenation is ++ *)
Theorem C14_column0_is_time {K} (ts : list K) (x : list (list K)) i j (d : K) :
  i < length ts -> j < length x ->
  hd d (nth (i * length x + j) (g_inside (@app K) true (map (fun s => [s]) ts) x) ([] ++ [])) = nth i ts d.
Proof. intros Hi Hj.
  pose proof (C14_product_rows (@app K) (map (fun s => [s]) ts) x i j [] []) as H.
  rewrite map_length in H. destruct (H Hi Hj) as [_ Hn]. rewrite Hn.
  rewrite (nth_indep _ [] [d]) by (rewrite map_length; exact Hi).
  change [d] with ((fun s => [s]) d). rewrite map_nth. reflexivity. Qed.

Print Assumptions regenerated_product_ok.
Print Assumptions C14_product_rows.
Print Assumptions C14_each_pair_exactly_once.
Print Assumptions C14_pairing_rows.
Print Assumptions C14_border_facets.
Print Assumptions C14_column0_is_time.

Example C14_witness :
  g_inside (@app nat) true [[10];[20]] [[1;2];[3;4];[5;6]] = [[10;1;2];[10;3;4];[10;5;6];[20;1;2];[20;3;4];[20;5;6]].
Proof. vm_compute. reflexivity. Qed.
