(* Props/C15.v -- Observation and parameter loaders keep rows aligned with the user's tables. *)
From Coq Require Import ZArith List Bool Lia Permutation.
From JV Require Import Kit.Tac Kit.GenTypes Gen.G_datagen Model.M_datagen Inst.I_datagen Model.M_loaders
  Inst.I_loaders Proofs.P_datagen Proofs.P_loaders.
Import ListNotations.
Open Scope nat_scope.

(* obligations on the regenerated source *)
Lemma regenerated_loaders_ok : g_loader_wiring = true.
Proof. reflexivity. Qed.

(* per key: a user table has priority over a range whatever the sampling method, and is accepted
   in both documented shapes, (n,1) as is and (n,) as a column; anything else is rejected;
   without a table the key's own range is used *)
Theorem C15_parameter_source (shape_n1 shape_n grid uniform : bool) : shape_n1 && shape_n = false ->
  g_param_store true shape_n1 shape_n grid uniform =
    (if shape_n1 then PTable else if shape_n then PTableAsColumn else PErr) /\
  g_param_store false shape_n1 shape_n grid uniform =
    (if grid then PRangeGrid else if uniform then PRangeUniform else PErr).
Proof. destruct shape_n1, shape_n, grid, uniform; intro H; try discriminate H; split; reflexivity. Qed.

Section C15.
Context {R : Type}.
Variable d : R.
Variable perm : nat -> list nat -> list nat.
Hypothesis perm_ok : forall r l, Permutation (perm r l) l.
Variables (P V E : list R) (b : Z).
Hypothesis Hb : (1 <= b <= Z.of_nat (length P))%Z.

(* every observation mini-batch is a set of rows of the user's tables: one list of valid,
   pairwise distinct row numbers indexes the inputs, the values and the observed parameters *)
Theorem C15_observation_rows_aligned (c : @cst nat) : Permutation (store c) (seq 0 (length P)) ->
  let '(c', (p, v, e)) := obs_get d G_obs perm P V E b c in
  exists idx, length idx = Z.to_nat b /\ NoDup idx /\ (forall i, In i idx -> i < length P) /\
              p = gather d P idx /\ v = gather d V idx /\ e = gather d E idx /\
              Permutation (store c') (seq 0 (length P)).
Proof. exact (obs_get_spec d G_obs perm perm_ok P V E b Hb c). Qed.

(* ... hence position r of a batch holds the input, value and parameter of one original row *)
Theorem C15_batch_position_is_one_row idx r : r < length idx ->
  nth r (gather d P idx) d = nth (nth r idx 0) P d /\
  nth r (gather d V idx) d = nth (nth r idx 0) V d /\
  nth r (gather d E idx) d = nth (nth r idx 0) E d.
Proof. intro Hr. repeat split; apply gather_nth; exact Hr. Qed.
End C15.

(* multi-network loader: entry k is the batch of network k's own loader, or the empty entry *)
Theorem C15_multi_network_entries {L B} (batch : L -> B) (empty : B) (ls : list (option L)) k :
  k < length ls ->
  nth k (multi_batch batch empty ls) empty = match nth k ls None with Some l => batch l | None => empty end.
Proof. exact (multi_batch_nth batch empty ls k). Qed.

Print Assumptions regenerated_loaders_ok.
Print Assumptions C15_parameter_source.
Print Assumptions C15_observation_rows_aligned.
Print Assumptions C15_batch_position_is_one_row.
Print Assumptions C15_multi_network_entries.

Example C15_witness :
  map (fun t => fst (fst t)) (obs_trace 0 G_obs (fun _ l => rev l) [10;11;12;13] [20;21;22;23] [30;31;32;33] 2 2 (obs_init G_obs 4 2))
  = [[13;12];[11;10]].
Proof. vm_compute. reflexivity. Qed.
