(* Props/C13.v -- A system loss is the weighted composition of its equations and unknowns. *)
From Coq Require Import List Arith Bool Lia QArith Qcanon.
From JV Require Import Kit.Field Kit.GenTypes Gen.G_losses Model.M_lossterms Model.M_params Model.M_system Inst.I_system Proofs.P_lossterms Proofs.P_system.
Import ListNotations.
Open Scope nat_scope.

(* obligation on the regenerated set_loss_weights of both system losses (translated from their
   if / elif / for / raise structure) and on the evaluate wiring: a dictionary with the right keys
   and scalar values is used as is (equations for dyn_loss, unknowns otherwise); a missing weight
   becomes zeros over the same keys; a scalar is broadcast over them; anything else is rejected;
   non-stationary equations receive (t, x); the parameter batch is merged functionally *)
Lemma regenerated_system_ok : forall pde is_dyn,
  (forall ke ku, g_sys_weights pde true false is_dyn ke ku true true = if (if is_dyn then ke else ku) then WUseDict else WErr) /\
  (forall ke ku so, g_sys_weights pde true false is_dyn ke ku so false = WErr) /\
  (forall ke ku so vo, g_sys_weights pde false true is_dyn ke ku so vo = if is_dyn then WZerosEquations else WZerosUnknowns) /\
  (forall ke ku vo, g_sys_weights pde false false is_dyn ke ku true vo = if is_dyn then WConstEquations else WConstUnknowns) /\
  (forall ke ku vo, g_sys_weights pde false false is_dyn ke ku false vo = WErr) /\
  g_sys_wiring = true.
Proof. intros [|] [|]; repeat split; intros; repeat match goal with b : bool |- _ => destruct b end; reflexivity. Qed.

Section C13.
Variable F : fld.
Open Scope K_scope.
(* the dynamic term: sum over equations of that equation's weight times the batch-mean squared
   residual of the equation *)
Theorem C13_dynamic_term ws res :
  sys_dyn F ws res = sumK (map (fun kr => wlook F ws (fst kr) * mse_term F (WScalar k1) (snd kr)) res).
Proof. exact (sys_dyn_spec F ws res). Qed.
(* every other term: sum over unknowns of weight * single-network term (definition of sys_term);
   a scalar weight is the constant dictionary *)
Theorem C13_scalar_weight_broadcasts x keys singles : (forall kv, In kv singles -> In (fst kv) keys) ->
  sys_term F (map (fun k => (k, x)) keys) singles = x * sumK (map snd singles).
Proof. exact (scalar_weight_broadcasts F x keys singles). Qed.
(* any number of equations with any number of unknowns: the two sums range over independent key
   sets; a one-equation one-unknown system is the plain loss *)
Theorem C13_one_equation_one_unknown k w res single :
  sys_dyn F [(k, w)] [(k, res)] = mse_term F (WScalar w) res /\ sys_term F [(k, w)] [(k, single)] = w * single.
Proof. exact (one_by_one F k w res single). Qed.
End C13.

Print Assumptions regenerated_system_ok.
Print Assumptions C13_dynamic_term.
Print Assumptions C13_scalar_weight_broadcasts.
Print Assumptions C13_one_equation_one_unknown.

(* non-vacuity: two equations (weights 2 and 3), residual rows [[1];[3]] and [[2]]: 2 * 5 + 3 * 4 = 22 *)
Example C13_witness :
  this (sys_dyn QcF [(0, qz 2); (1, qz 3)] [(0, [[qz 1]; [qz 3]]); (1, [[qz 2]])]) = 22%Q.
Proof. vm_compute. reflexivity. Qed.
