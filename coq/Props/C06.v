(* Props/C06.v -- Derivative keys route each term's gradient to exactly the selected parameters. *)
From Coq Require Import List Arith Bool Lia QArith Qcanon.
From JV Require Import Kit.Field Kit.Expr Kit.NumRun Gen.G_derivkeys Model.M_derivkeys Inst.I_derivkeys Proofs.P_derivkeys.
Import ListNotations.
Open Scope nat_scope.

(* obligations on the regenerated source: a True entry keeps the leaf differentiable; the three
   strings denote the three masks and every other string is rejected; every default is
   "nn_params"; each term is evaluated with its own field of the derivative keys *)
Lemma regenerated_derivkeys_ok :
  g_keep = true /\ g_derivkeys_wiring = true /\
  (forall code, g_mask_of_str code = match code with 0 => Some (mask_of true true) | 1 => Some (mask_of false true)
                                                   | 2 => Some (mask_of true false) | _ => None end) /\
  Forall (fun c => c = 2) g_defaults.
Proof. split; [reflexivity|]. split; [reflexivity|]. split.
  - intros [|[|[|c]]]; reflexivity.
  - repeat constructor. Qed.

Section C06.
Variable F : fld.
Variable prim : nat -> F -> F.
Variable dp : nat -> nat.
Notation ev := (ev prim). Notation D := (D dp).
Variable env : var -> F.
Hypothesis Henv : forall v, env (Fz v) = env v.      (* a frozen twin has the value of its variable *)
Variable terms : list (mask * expr F).               (* each loss term with its derivative mask *)
Variable g : var.                                    (* a network weight Th k or an equation parameter Nu k *)
Hypothesis Hg : is_param g.

(* the gradient of the total loss w.r.t. g is the sum over exactly the terms whose mask selects
   g's group of the gradient of that term; an unselected (term, group) pair contributes exactly 0 *)
Theorem C06_gradient_routing :
  ev env (D g (g_total F terms)) =
  sumK (map (fun mt => if selects (fst mt) g then ev env (D g (snd mt)) else k0) terms).
Proof. unfold g_total. rewrite (proj1 regenerated_derivkeys_ok). exact (total_grad F prim dp env Henv terms g Hg). Qed.
(* loss values never depend on the derivative specification *)
Theorem C06_values_independent_of_masks :
  ev env (g_total F terms) = sumK (map (fun mt => ev env (snd mt)) terms).
Proof. unfold g_total. rewrite (proj1 regenerated_derivkeys_ok). exact (total_value F prim env Henv terms). Qed.
End C06.

(* the string form and the boolean-tree form are equivalent; the default selects nn_params only *)
Theorem C06_strings_and_default :
  g_mask_of_str 0 = Some (mask_of true true) /\ g_mask_of_str 1 = Some (mask_of false true) /\
  g_mask_of_str 2 = Some (mask_of true false) /\ (forall c, 3 <= c -> g_mask_of_str c = None) /\
  Forall (fun c => g_mask_of_str c = Some (mask_of true false)) g_defaults.
Proof. destruct regenerated_derivkeys_ok as (_ & _ & Hs & Hd). repeat split; try (rewrite Hs; reflexivity).
  - intros c Hc. rewrite Hs. destruct c as [|[|[|c]]]; try lia. reflexivity.
  - eapply Forall_impl; [|exact Hd]. intros c ->. rewrite Hs. reflexivity. Qed.

Print Assumptions regenerated_derivkeys_ok.
Print Assumptions C06_gradient_routing.
Print Assumptions C06_values_independent_of_masks.
Print Assumptions C06_strings_and_default.

(* non-vacuity: total = [nn only] theta * a + [eq only] theta * a: d/dtheta = a, d/da = theta *)
Example C06_witness :
  let t := Mul (Var (Th 0)) (Var (Nu 0)) in
  let tot := g_total QcF [(mask_of true false, t); (mask_of false true, t)] in
  let env := mkenv [] [qz 3] [qz 5] in
  (this (evq env (Dq (Th 0) tot)), this (evq env (Dq (Nu 0) tot)), this (evq env tot)) = (5%Q, 3%Q, 30%Q).
Proof. vm_compute. reflexivity. Qed.
