(* Props/C04.v -- Boundary term enforces Dirichlet / outward-normal Neumann conditions per facet. *)
From Coq Require Import List Arith Bool ZArith QArith Qcanon Lia.
From JV Require Import Kit.Field Kit.Expr Kit.NumRun Kit.Tx Gen.G_boundary Model.M_operators Model.M_boundary Inst.I_boundary Inst.I_reduce Proofs.P_boundary Proofs.P_reduce.
Import ListNotations.
Open Scope nat_scope.

(* obligations on the regenerated tables: the 1-D and 2-D normal tables of both Neumann functions
   are the outward unit normals of the box, facets ordered xmin, xmax, ymin, ymax; the facet trees
   give xmin, xmax, ymin, ymax the facet indices 0, 1, 2, 3 *)
Theorem C04_normals_are_outward :
  outward_1d gen_normal_1d_statio /\ outward_2d gen_normal_2d_statio /\
  outward_1d gen_normal_1d_nonstatio /\ outward_2d gen_normal_2d_nonstatio.
Proof. split; [exact outward_1d_ok|]. split; [exact outward_2d_ok|]. split; [exact outward_1d_ok|exact outward_2d_ok]. Qed.
Theorem C04_facet_order :
  gen_facet_tree_1d = [(0, 0); (1, 1)]%Z /\ gen_facet_tree_2d = [(0, 0); (1, 1); (2, 2); (3, 3)]%Z /\ g_boundary_wiring = true.
Proof. repeat split; reflexivity. Qed.

Section C04.
Variable F : fld.
Open Scope K_scope.
(* one facet: the weighted mean over the facet's border points of the per-point squared mismatch *)
Theorem C04_facet_term w vals : facet_term F w vals = sumK (map (fun v => w * v) vals) / of_nat (length vals).
Proof. unfold facet_term, meanK. rewrite map_length. reflexivity. Qed.
(* Dirichlet mismatch at a point: sum over the selected components of (u_c - f_c)^2; Neumann:
   (grad u . n - f)^2 with n the facet's normal *)
Theorem C04_dirichlet_point uvals lo hi y :
  dirichlet_point F uvals lo hi (FScalar y) = sumK (map (fun x => (x - y) * (x - y)) (take_slice lo hi uvals)).
Proof. unfold dirichlet_point, sumsq, minus_f, sq. rewrite map_map. reflexivity. Qed.
Theorem C04_neumann_point grad_u nrm y :
  neumann_point F grad_u nrm (FScalar y) =
  (sumK (map (fun q => fst q * snd q) (combine grad_u nrm)) - y) * (sumK (map (fun q => fst q * snd q) (combine grad_u nrm)) - y) + k0.
Proof. reflexivity. Qed.
(* the sum runs over the facets that carry a condition; a facet set to none is skipped and a
   per-facet condition only touches its own facet *)
Theorem C04_per_facet w o facets :
  boundary_term F w (o :: facets) = (match o with Some vals => facet_term F w vals | None => k0 end) + boundary_term F w facets.
Proof. exact (boundary_term_cons F w o facets). Qed.
(* the value does not depend on whether f returns a scalar or a length-one array *)
Theorem C04_return_shape_independent grad_u nrm uvals lo hi y :
  neumann_point F grad_u nrm (FScalar y) = neumann_point F grad_u nrm (FVec [y]) /\
  dirichlet_point F uvals lo hi (FScalar y) = dirichlet_point F uvals lo hi (FVec [y]).
Proof. split; reflexivity. Qed.
End C04.

(* ---- Regenerated reductions ----
   boundary_condition_apply: in both branches (per-facet dictionaries and one global condition) a
   facet contributes jnp.mean(loss_weight * per-point mismatch) = the model's facet term, a facet
   whose condition is None is skipped, the facets are summed; the Dirichlet per-point mismatch of
   both Dirichlet functions is the sum over the selected components of (u - f)^2. *)
Lemma regenerated_facet_reduce_ok (F : fld) w vals :
  tsem F [T1 vals; T0 w] g_facet_reduce_dict = Some (T0 (facet_term F w vals)) /\
  g_facet_reduce_global = g_facet_reduce_dict /\ g_facets_wiring = true.
Proof. split; [exact (facet_expected_sem F w vals)|split; reflexivity]. Qed.
Lemma regenerated_dirichlet_reduce_ok (F : fld) (us fs : list (list F)) lo hi :
  Forall (fun l => length l <> 1) fs ->
  tsem F [T2 (map (take_slice lo hi) us); T2 fs] g_dirichlet_statio_reduce =
    Some (T1 (map (fun p => dirichlet_point F (fst p) lo hi (FVec (snd p))) (combine us fs))) /\
  g_dirichlet_nonstatio_reduce = g_dirichlet_statio_reduce.
Proof. intro H. split; [exact (dirichlet_expected_sem F us fs lo hi H)|reflexivity]. Qed.

Print Assumptions regenerated_facet_reduce_ok.
Print Assumptions regenerated_dirichlet_reduce_ok.
Print Assumptions C04_normals_are_outward.
Print Assumptions C04_facet_order.
Print Assumptions C04_facet_term.
Print Assumptions C04_dirichlet_point.
Print Assumptions C04_neumann_point.
Print Assumptions C04_per_facet.
Print Assumptions C04_return_shape_independent.

(* non-vacuity: 1-D, u(x) = x^2 at xmax = 2 with f = 1: (du/dx * (+1) - 1)^2 = 9 *)
Example C04_witness :
  this (neumann_point QcF (grad_at QcF prim0 dp0 false 1 (polyIn 1 [(qz 1, [2])]) (mkenv [qz 2] [] [])) (g_normal QcF true 1 1) (FScalar (qz 1))) = 9%Q.
Proof. vm_compute. reflexivity. Qed.
