(* Props/C16.v -- Residual-adaptive refinement follows its schedule and never exceeds capacity. *)
From Coq Require Import ZArith List Bool Lia ZifyBool.
From JV Require Import Kit.Tac Gen.G_rar Model.M_datagen Model.M_rar Inst.I_rar Proofs.P_rar_sched Proofs.P_rar Proofs.P_rar_resume.
Import ListNotations.
Open Scope Z_scope.

(* obligation on the REGENERATED trigger tests, counters, offsets and loop bounds of the three
   generator kinds *)
Lemma regenerated_rar_ok : Forall rar_gen_ok all_rar.
Proof. unfold all_rar. repeat (apply Forall_cons; [|]); [| | |apply Forall_nil].
  all: unfold rar_gen_ok, opt_ok, dim_gen_ok; unfold_gen; repeat split; intros; try lia; try (left; discriminate); try (right; discriminate). Qed.

Section C16.
Context {A : Type}.
Variable G : rar_gen.
Hypothesis HG : In G all_rar.
Variables (start every : Z) (pt px : dpar).         (* schedule; (store size, initial count, added per step) for time and space *)
Hypothesis Hev : 1 <= every. Hypothesis Hst : 0 <= start.
Hypothesis Hpt : par_ok pt. Hypothesis Hpx : par_ok px.
Variable sel : Z -> list A * list A.                (* the points chosen at each iteration (C17) *)
Variables lt lx : list A.                           (* the pre-allocated stores *)
Let s0 := init_state G every pt px lt lx.           (* generator as constructed, then init_rar *)
Let st k := run G start every pt px sel s0 k.       (* state before iteration k *)
Let cap := cap_of G pt px.                          (* number of full sets that fit (min over time/space) *)

Lemma Gok : rar_gen_ok G.
Proof. exact (proj1 (Forall_forall _ _) regenerated_rar_ok G HG). Qed.

(* refinement steps happen exactly at iterations start + j*every, while a full set still fits;
   in particular nothing is added before the start iteration *)
Theorem C16_steps_exactly_on_schedule k :
  stepped G start every pt px sel s0 k =
  (start <=? Z.of_nat k) && ((Z.of_nat k - start) mod every =? 0) && (sched start every (Z.of_nat k) <? cap).
Proof. exact (step_schedule G Gok start every pt px Hev Hst Hpt Hpx sel lt lx k). Qed.

Theorem C16_nothing_before_start k : Z.of_nat k <= start -> J (st k) = 0.
Proof. exact (nothing_before_start G Gok start every pt px Hev Hst Hpt Hpx sel lt lx k). Qed.

(* number of completed steps before iteration k: the scheduled ones, capped by the capacity *)
Theorem C16_steps_done k : J (st k) = Z.min cap (sched start every (Z.of_nat k)).
Proof. exact (steps_done G Gok start every pt px Hev Hst Hpt Hpx sel lt lx k). Qed.

(* after J steps exactly n_start + J*selected points have non-zero probability, independently
   for time and for space, and never more than the store holds *)
Theorem C16_active_times k g : r_t G = Some g ->
  actives (st_t (st k)) = dstart pt + J (st k) * dsel pt /\ actives (st_t (st k)) <= dn pt /\
  length (act (st_t (st k))) = Z.to_nat (dn pt).
Proof. exact (active_t G Gok start every pt px Hpt Hpx sel lt lx k g). Qed.
Theorem C16_active_space k g : r_x G = Some g ->
  actives (st_x (st k)) = dstart px + J (st k) * dsel px /\ actives (st_x (st k)) <= dn px /\
  length (act (st_x (st k))) = Z.to_nat (dn px).
Proof. exact (active_x G Gok start every pt px Hpt Hpx sel lt lx k g). Qed.

(* resumed training: the generator returned after k1 iterations is handed to a new call.  init_rar re-arms the period
   counter and touches nothing else (part of the obligation above); iteration numbers restart at 0.  After k iterations of
   the new call the step count is the earlier one plus the scheduled ones, capped by the capacity; steps happen at
   start + j * every of the new call while a full set fits *)
Definition reinit (s : @rst A) : @rst A := {| cnt := r_init_counter G every; J := J s; st_t := st_t s; st_x := st_x s |}.
Lemma reinit_ok k1 : let s1 := st k1 in
  0 <= J s1 <= cap /\ cnt (reinit s1) = every - 1 /\ J (reinit s1) = J s1 /\ dinv (r_t G) pt (J s1) (st_t (reinit s1)) /\ dinv (r_x G) px (J s1) (st_x (reinit s1)).
Proof. cbn zeta. destruct (sim G Gok start every pt px Hpt Hpx sel lt lx k1) as (_ & HJ & Ht & Hx & _).
  destruct Gok as (_ & _ & _ & _ & Hic & _). cbn [reinit cnt J st_t st_x]. rewrite Hic.
  split; [exact HJ|]. split; [reflexivity|]. split; [reflexivity|]. split; [exact Ht|exact Hx]. Qed.
Variable sel2 : Z -> list A * list A.
Theorem C16_resumed_steps_done k1 k :
  J (run G start every pt px sel2 (reinit (st k1)) k) = Z.min cap (J (st k1) + sched start every (Z.of_nat k)).
Proof. destruct (reinit_ok k1) as (HJ & H).
  exact (resumed_steps_done G Gok start every pt px Hev Hst Hpt Hpx sel2 (J (st k1)) HJ (reinit (st k1)) H k). Qed.
Theorem C16_resumed_steps_on_schedule k1 k :
  stepped G start every pt px sel2 (reinit (st k1)) k =
  (start <=? Z.of_nat k) && ((Z.of_nat k - start) mod every =? 0) && (J (st k1) + sched start every (Z.of_nat k) <? cap).
Proof. destruct (reinit_ok k1) as (HJ & H).
  exact (resumed_step_schedule G Gok start every pt px Hev Hst Hpt Hpx sel2 (J (st k1)) HJ (reinit (st k1)) H k). Qed.
End C16.

Print Assumptions regenerated_rar_ok.
Print Assumptions C16_resumed_steps_done.
Print Assumptions C16_resumed_steps_on_schedule.
Print Assumptions C16_steps_exactly_on_schedule.
Print Assumptions C16_nothing_before_start.
Print Assumptions C16_steps_done.
Print Assumptions C16_active_times.
Print Assumptions C16_active_space.

(* non-vacuity: start 2, every 3, nt = 7 / nt_start = 2 / 2 per step, n = 9 / n_start = 3 / 3 per
   step: steps at iterations 2 and 5 only (capacity 2), final counts 6 and 9 *)
Example C16_witness :
  let pt := {| dn := 7; dstart := 2; dsel := 2 |} in let px := {| dn := 9; dstart := 3; dsel := 3 |} in
  let s0 := init_state (A:=nat) G_rar_ns 3 pt px (repeat O 7) (repeat O 9) in
  map (fun k => stepped G_rar_ns 2 3 pt px (fun _ => ([1;1]%nat, [1;1;1]%nat)) s0 k) (seq 0 12)
  = [false;false;true;false;false;true;false;false;false;false;false;false]
  /\ (let s := run G_rar_ns 2 3 pt px (fun _ => ([1;1]%nat, [1;1;1]%nat)) s0 12 in (actives (st_t s), actives (st_x s))) = (6, 9)
  /\ par_ok pt /\ par_ok px.
Proof. split; [vm_compute; reflexivity|]. split; [vm_compute; reflexivity|]. unfold par_ok; cbn; lia. Qed.
