(* Props/C08.v -- Collocation points lie in the declared domain, with declared counts and shapes. *)
From Coq Require Import QArith List Arith Bool Lqa Lia ZArith Permutation.
From JV Require Import Kit.Float Kit.Lists Gen.G_datagen Model.M_datagen Model.M_domain Inst.I_datagen Inst.I_domain Proofs.P_datagen Proofs.P_domain Proofs.P_gridnd.
Import ListNotations.
Open Scope Q_scope.

(* obligation on the regenerated source: the 1-D border is [min, max]; the four facets of the
   2-D border are stacked as xmin, xmax, ymin, ymax, each pinning its own coordinate to its own
   bound and sampling the other in its own range; every uniform call uses the bounds of its own
   dimension; every grid is min + step * arange(count) with step = (max - min) / count *)
Lemma regenerated_domain_ok :
  g_border_1d = [false; true] /\ g_facet_table = documented_facets /\ g_domain_wiring = true.
Proof. repeat split; reflexivity. Qed.

(* uniform sampling: minval + (maxval - minval) * u with u in [0, 1) stays in the closed interval *)
Theorem C08_uniform_points_in_domain a b u : a <= b -> 0 <= u -> u < 1 -> a <= uniform_pt a b u <= b.
Proof. exact (uniform_in_range a b u). Qed.
(* grid sampling: exactly n points, all in [a, b) *)
Theorem C08_grid_count_and_range a b n x : a < b ->
  length (grid a b n) = n /\ (In x (grid a b n) -> a <= x /\ x < b).
Proof. intro Hab. split; [apply grid_length|apply grid_points; exact Hab]. Qed.
(* grid sampling in dimension d >= 2 (the mesh of d one-dimensional grids with n_side points each): exactly n_side^d
   points -- n when n is a perfect d-th power, the only counts the source accepts -- every coordinate in its own [a_k, b_k) *)
Theorem C08_grid_nd_count_and_range mins maxs n_side p k : length mins = length maxs ->
  (forall j, (j < length mins)%nat -> nth j mins 0 < nth j maxs 0) ->
  length (grid_nd mins maxs n_side) = (n_side ^ length mins)%nat /\
  (In p (grid_nd mins maxs n_side) -> (k < length mins)%nat -> nth k mins 0 <= nth k p 0 /\ nth k p 0 < nth k maxs 0).
Proof. intros Hl Hb. split; [exact (grid_nd_count mins maxs n_side Hl)|exact (grid_nd_in_box mins maxs n_side p k Hl Hb)]. Qed.
(* border points lie exactly on their facet (order xmin, xmax, ymin, ymax) and vary only along it *)
Theorem C08_border_points_on_facets (a0 b0 a1 b1 u : Q) k : a0 <= b0 -> a1 <= b1 -> 0 <= u -> u < 1 -> (k < 4)%nat ->
  let p := facet_point (nth k g_facet_table (0, false, 0, 0, 0)%nat) [a0; a1] [b0; b1] u in
  let x := nth 0 p 0 in let y := nth 1 p 0 in
  length p = 2%nat /\ a0 <= x <= b0 /\ a1 <= y <= b1 /\
  match k with 0%nat => x == a0 | 1%nat => x == b0 | 2%nat => y == a1 | _ => y == b1 end.
Proof. rewrite (proj1 (proj2 regenerated_domain_ok)). exact (facet_points_on_facet a0 b0 a1 b1 u k). Qed.
Close Scope Q_scope.

(* every batch ever returned has the declared length and only holds points of the initial store
   (hence of the domain), for every history, through reshuffles: from the cursor machine of C09 *)
Section Batches.
Context {A : Type}.
Variable G : cursor_gen.
Hypothesis HG : In G all_cursors.
Variable perm : nat -> list A -> list A.
Hypothesis perm_ok : forall r l, Permutation (perm r l) l.
Variables (b n_eff : Z) (l0 : list A).
Hypothesis Hb : (1 <= b <= n_eff)%Z.
Hypothesis Hn : (n_eff <= Z.of_nat (length l0))%Z.
Theorem C08_batches_stay_in_the_store k x :
  In x (batch G perm b n_eff k (init G l0 b)) -> In x l0.
Proof. intro Hx. rewrite batch_eq in Hx. unfold dyn_slice, slice in Hx. apply In_firstn, In_skipn in Hx.
  eapply Permutation_in; [apply (state_perm G perm perm_ok b n_eff (S k) (init G l0 b))|exact Hx]. Qed.
Theorem C08_batches_have_declared_length k :
  length (batch G perm b n_eff k (init G l0 b)) = Z.to_nat b.
Proof. rewrite batch_eq. unfold dyn_slice, slice.
  rewrite firstn_length, skipn_length, (state_length G perm perm_ok b n_eff (S k) (init G l0 b)). cbn [init store].
  unfold clampZ. lia. Qed.
End Batches.

(* binary64: the count of jnp.arange(a, b, (b - a) / k) is NOT always k -- why the grids are
   built as a + step * arange(k) (fixes f5770b6 and 38a771e) *)
Theorem C08_arange_count_refuted : exists a b k, arange_overshoots a b k = true.
Proof. exact arange_count_refuted. Qed.

Print Assumptions regenerated_domain_ok.
Print Assumptions C08_uniform_points_in_domain.
Print Assumptions C08_grid_count_and_range.
Print Assumptions C08_grid_nd_count_and_range.
Print Assumptions C08_border_points_on_facets.
Print Assumptions C08_batches_stay_in_the_store.
Print Assumptions C08_batches_have_declared_length.
Print Assumptions C08_arange_count_refuted.

Example C08_witness : grid 0 1 4 = [0 + 0 * ((1 - 0) / 4); 0 + 1 * ((1 - 0) / 4); 0 + 2 * ((1 - 0) / 4); 0 + 3 * ((1 - 0) / 4)]%Q.
Proof. reflexivity. Qed.
