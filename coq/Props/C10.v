(* Props/C10.v -- Network wrappers honour their calling and output conventions. *)
From Coq Require Import List Arith Bool Lia QArith Qcanon.
From JV Require Import Kit.Field Kit.Lists Model.M_nets Proofs.P_nets Inst.I_nets.
Import ListNotations.
Open Scope nat_scope.

(* regenerated from the source: PINN.eval_nn and HYPERPINN.eval_nn compute
   output_transform(inputs, net(input_transform(inputs, params)).squeeze(), params) on the caller's
   inputs (never rebound), slice iff an output slice is set (`is not None`), give 0-d results a
   trailing axis; __call__ lifts a scalar time and concatenates (t, x); the hyper-network output is
   split at the cumulative leaf sizes in leaf order and reshaped to the leaf shapes *)
Lemma regenerated_nets_ok : g_nets_wiring = true.
Proof. reflexivity. Qed.

Section C10.
Variable F : fld.
(* the wrapper evaluates as output_transform(inputs, net(input_transform(inputs, params)), params)
   restricted to its output slice, and always carries a trailing component axis *)
Theorem C10_wrapper {P} net (tin : list F -> P -> list F) tout oslice inputs (params : P) :
  pinn_eval F net tin tout oslice inputs params =
  at_least_1d F (slice_val F oslice (tout inputs (squeeze F (net (tin inputs params))) params)) /\
  (forall x, at_least_1d F (Sc x) = [x]) /\ (forall l, at_least_1d F (Vec l) = l).
Proof. repeat split. Qed.
(* bare network parameters in place of the full parameter object: when neither transform reads
   the parameters the two calls are the same function of the weights *)
Theorem C10_bare_parameters {P Q} (netw : list F -> list F) (tin : list F -> list F) (tout : list F -> val F -> val F) oslice inputs (p : P) (q : Q) :
  pinn_eval F netw (fun i _ => tin i) (fun i o _ => tout i o) oslice inputs p =
  pinn_eval F netw (fun i _ => tin i) (fun i o _ => tout i o) oslice inputs q.
Proof. reflexivity. Qed.
(* networks created with shared outputs are slices of one common network *)
Theorem C10_shared_outputs {P} net (tin : list F -> P -> list F) (tout : list F -> val F -> P -> val F) lo hi inputs (params : P) l :
  tout inputs (squeeze F (net (tin inputs params))) params = Vec l ->
  pinn_eval F net tin tout (Some (lo, hi)) inputs params = firstn (hi - lo) (skipn lo (pinn_eval F net tin tout None inputs params)).
Proof. intro H. unfold pinn_eval. rewrite H. reflexivity. Qed.
(* separable network: grid entry (i_1 .. i_d), slot m0 is sum_{z<r} prod_k f_k(x_{i_k})[m0 r + z] *)
Theorem C10_separable_network r feats idx m0 :
  Forall (fun p => m0 * r + r <= length (nth (snd p) (fst p) [])) (combine feats idx) ->
  spinn_entry F r feats idx m0 =
  sumK (map (fun z => prodK F (map (fun p => nth (m0 * r + z) (nth (snd p) (fst p) []) k0) (combine feats idx))) (seq 0 r)).
Proof. intro H. apply spinn_entry_spec; [intros; right; exact I|exact H]. Qed.
End C10.
(* hyper-network: the flat output is split in parameter-leaf order; leaf j gets [cum_{j-1}, cum_j) *)
Theorem C10_hyper_split_roundtrip {A} (leaves : list (list A)) : split_sizes (map (@length A) leaves) (concat leaves) = leaves.
Proof. exact (split_concat leaves). Qed.
Theorem C10_hyper_leaf_segment {A} (sizes : list nat) (flat : list A) j : j < length sizes ->
  nth j (split_sizes sizes flat) [] = firstn (nth j sizes 0) (skipn (fold_right Nat.add 0 (firstn j sizes)) flat).
Proof. exact (split_segment sizes flat j). Qed.

Print Assumptions regenerated_nets_ok.
Print Assumptions C10_wrapper.
Print Assumptions C10_bare_parameters.
Print Assumptions C10_shared_outputs.
Print Assumptions C10_separable_network.
Print Assumptions C10_hyper_split_roundtrip.
Print Assumptions C10_hyper_leaf_segment.

(* non-vacuity: d = 2, r = 2, one slot: (1*3 + 2*4) at grid index (0, 0) *)
Example C10_witness :
  this (spinn_entry QcF 2 [[[qz 1; qz 2]]; [[qz 3; qz 4]]] [0; 0] 0) = 11%Q /\
  split_sizes [2; 1; 3] [1; 2; 3; 4; 5; 6] = [[1; 2]; [3]; [4; 5; 6]].
Proof. split; vm_compute; reflexivity. Qed.
