(* Props/C17.v -- Refinement adds the highest-residual candidates and keeps active points. *)
From Coq Require Import ZArith List Bool Lia Permutation.
From JV Require Import Kit.Tac Gen.G_rar Model.M_datagen Model.M_rar Inst.I_rar Proofs.P_rar_sched Proofs.P_rar Props.C16.
Import ListNotations.
Open Scope Z_scope.

(* obligation on the regenerated selection: the slice of the ascending argsort starts at
   (number of candidates - selected size) for the ODE and stationary kinds *)
Lemma regenerated_selection_ok : forall kind n s, sel_start_of kind n s = n - s.
Proof. intros [|[|k]] n s; unfold_gen; lia. Qed.

(* the refinement step of every store of every generator kind (own = its parameters) *)
Definition store_dims : list (dim_gen * (dpar -> dpar -> dpar)) :=
  [(dim_ode, fun pt _ => pt); (dim_statio, fun _ px => px); (dim_ns_t, fun pt _ => pt); (dim_ns_x, fun _ px => px)].
Lemma regenerated_dims_ok : Forall (fun p => dim_gen_ok (fst p) (snd p)) store_dims.
Proof. unfold store_dims. repeat (apply Forall_cons; [unfold dim_gen_ok; unfold_gen; repeat split; intros; lia|]). apply Forall_nil. Qed.

Section C17.
Context {A : Type}.
Variables (g : dim_gen) (sel_own : dpar -> dpar -> dpar).
Hypothesis Hg : In (g, sel_own) store_dims.
Variables (pt px : dpar) (Jc : Z) (newpts : list A) (d : @dst A).
Let own := sel_own pt px.
Hypothesis Hp : par_ok own.
Hypothesis HJ : 0 <= Jc < dcap own.                 (* the capacity test of C16 passed *)
Hypothesis Hnew : length newpts = Z.to_nat (dsel own).
Hypothesis Hlen : length (pts d) = Z.to_nat (dn own).
Let a := Z.to_nat (dstart own + Jc * dsel own).     (* active count before the step, by C16 *)
Let d' := dim_step pt px (Some g) own Jc newpts d.

(* points that were active stay where they are; the new points fill the slots [a, a + sel), all
   of which were inactive; slots above are untouched; the update is not clamped, for equal or
   different initial counts of time and space *)
Theorem C17_only_inactive_slots_written :
  firstn a (pts d') = firstn a (pts d) /\ firstn (length newpts) (skipn a (pts d')) = newpts /\
  skipn (a + length newpts) (pts d') = skipn (a + length newpts) (pts d) /\ length (pts d') = length (pts d) /\
  (forall i, (a <= i < a + length newpts)%nat -> nth i (amask own Jc) true = false).
Proof. exact (step_frame pt px g own sel_own Jc newpts d
               (proj1 (Forall_forall _ _) regenerated_dims_ok (g, sel_own) Hg) eq_refl Hp HJ Hnew Hlen). Qed.
End C17.

(* the added points are the candidates with the largest squared residual: with the ascending
   argsort oracle, every chosen candidate dominates every candidate left out *)
Theorem C17_selection_takes_the_largest (kind : nat) (mse : nat -> Z) (order : list nat) (sel : nat) :
  (sel <= length order)%nat ->
  (forall i j, (i <= j < length order)%nat -> mse (nth i order O) <= mse (nth j order O)) ->
  let chosen := select_tail (sel_start_of kind) order (Z.of_nat sel) in
  chosen = skipn (length order - sel) order /\ length chosen = sel /\
  (forall c r, In c chosen -> In r (firstn (length order - sel) order) -> mse r <= mse c).
Proof. intros Hs Hsorted.
  assert (E : select_tail (sel_start_of kind) order (Z.of_nat sel) = select_tail (fun n s => n - s) order (Z.of_nat sel))
    by (unfold select_tail; rewrite regenerated_selection_ok; reflexivity).
  cbn zeta. rewrite E. exact (select_tail_spec mse order sel Hs Hsorted). Qed.

(* product domains: the added times / points are the time / space coordinates of the largest
   space-time pairs (top_k oracle: descending, dominating every pair it leaves out) *)
Theorem C17_pairs_selection (mse : nat -> Z) (top : list nat) (nx N st sx : nat) :
  (forall i j, (i <= j < length top)%nat -> mse (nth j top O) <= mse (nth i top O)) ->
  (forall k r, In k top -> (r < N)%nat -> ~ In r top -> mse r <= mse k) ->
  select_pairs nx top st sx = (map (fun k => Nat.div k nx) (firstn st top), map (fun k => Nat.modulo k nx) (firstn sx top)) /\
  (forall k r, In k (firstn st top) -> (r < N)%nat -> ~ In r (firstn st top) -> mse r <= mse k) /\
  (forall k r, In k (firstn sx top) -> (r < N)%nat -> ~ In r (firstn sx top) -> mse r <= mse k).
Proof. intros H1 H2. split; [apply select_pairs_spec|]. split; apply (topk_prefix_dominates mse top N); assumption. Qed.

(* batch draws and reshuffles between steps keep the active slots active (as a set) and leave the
   inactive slots in place, for every cursor kind and history *)
Theorem C17_reshuffles_keep_active {A} (Gc : cursor_gen) (perm : nat -> list A -> list A) (a : nat) :
  (forall r l, Permutation (firstn a (perm r l)) (firstn a l) /\ skipn a (perm r l) = skipn a l) ->
  forall b n_eff k (c : @cst A),
  Permutation (firstn a (store (state Gc perm b n_eff k c))) (firstn a (store c)) /\
  skipn a (store (state Gc perm b n_eff k c)) = skipn a (store c).
Proof. intros Hp b n_eff k c. exact (state_keeps_active Gc perm a Hp b n_eff k c). Qed.

Print Assumptions regenerated_selection_ok.
Print Assumptions regenerated_dims_ok.
Print Assumptions C17_only_inactive_slots_written.
Print Assumptions C17_selection_takes_the_largest.
Print Assumptions C17_pairs_selection.
Print Assumptions C17_reshuffles_keep_active.

(* non-vacuity: non-stationary times, nt_start = 4 <> n_start = 2, second step (J = 1), 2 per step *)
Example C17_witness :
  let pt := {| dn := 9; dstart := 4; dsel := 2 |} in let px := {| dn := 8; dstart := 2; dsel := 3 |} in
  pts (dim_step pt px (Some dim_ns_t) pt 1 [77; 88]%nat {| pts := seq 0 9; act := amask pt 1 |})
    = [0; 1; 2; 3; 4; 5; 77; 88; 8]%nat /\ par_ok pt /\ 0 <= 1 < dcap pt.
Proof. split; [vm_compute; reflexivity|]. unfold par_ok, dcap; cbn. lia. Qed.
