(* Props/C20.v -- Loss evaluation and batch drawing are pure and compilation-invariant (PARTIAL).
   What a theorem can carry here: the effect table regenerated from the source -- for every
   function of the loss / parameter / data-generator modules except constructor-time helpers, the
   stores, mutating method calls and global declarations rooted at an argument (or at a local
   alias of an argument-rooted location) -- is empty.  Equality of eager, jitted and
   differentiated executions depends on JAX tracing, which no Gallina model exhibits: it is
   checked by the harness only. *)
From Coq Require Import List Arith Bool.
From JV Require Import Gen.G_purity Inst.I_purity.
Import ListNotations.

(* finite domain, decided by computation and lifted: no analysed function writes through an
   argument *)
Theorem C20_partial_no_argument_writes :
  forallb (fun _ => false) g_argument_writes = true /\ (forall w, In w g_argument_writes -> False) /\ 1 <= g_functions_analysed.
Proof. assert (H : forallb (fun _ : nat * nat => false) g_argument_writes = true) by (vm_compute; reflexivity).
  split; [exact H|]. split.
  - intros w Hw. pose proof (proj1 (forallb_forall _ _) H w Hw) as Hf. discriminate Hf.
  - vm_compute. repeat constructor. Qed.
Print Assumptions C20_partial_no_argument_writes.
