(* Props/C01.v -- Differential operators return the mathematical operator's value. *)
From Coq Require Import List Arith Bool Lia QArith Qcanon.
From JV Require Import Kit.Field Kit.Expr Kit.NumRun Model.M_operators Proofs.P_operators.
Import ListNotations.
Open Scope nat_scope.

Section C01.
Variable F : fld.                     (* any field *)
Variable prim : nat -> F -> F.        (* any unary primitives (activations) ... *)
Variable dp : nat -> nat.             (* ... with their derivative primitives *)
Notation ev := (ev prim). Notation D := (D dp).
Variable has_t : bool.                (* a time argument is present *)
Variable d : nat.                     (* spatial dimension, any *)
Variable u : list (expr F).           (* the network: one expression per output component *)
Variable env : var -> F.              (* the evaluation point and every parameter value *)

Theorem C01_laplacian :
  ev env (laplacian_rev F dp has_t d u) =
  sumK (map (fun i => ev env (D (xvar has_t i) (D (xvar has_t i) (comp F u 0)))) (seq 0 d)).
Proof. exact (laplacian_rev_spec F prim dp has_t d u env). Qed.
Theorem C01_divergence :
  ev env (div_rev F dp has_t d u) = sumK (map (fun i => ev env (D (xvar has_t i) (comp F u i))) (seq 0 d)).
Proof. exact (div_rev_spec F prim dp has_t d u env). Qed.
Theorem C01_vector_laplacian n j : j < n ->
  length (vectorial_laplacian F dp has_t d n u) = n /\
  ev env (nth j (vectorial_laplacian F dp has_t d n u) (Cst k0)) =
  sumK (map (fun i => ev env (D (xvar has_t i) (D (xvar has_t i) (comp F u j)))) (seq 0 d)).
Proof. intro Hj. split; [apply vectorial_laplacian_length|apply (vectorial_laplacian_spec F prim dp); exact Hj]. Qed.
Theorem C01_advection :
  exists r, u_dot_nabla_u F dp has_t 2 u = Some r /\ length r = 2 /\
  forall c, c < 2 -> ev env (nth c r (Cst k0)) =
    (ev env (comp F u 0) * ev env (D (xvar has_t 0) (comp F u c)) + ev env (comp F u 1) * ev env (D (xvar has_t 1) (comp F u c)))%K.
Proof. exact (u_dot_nabla_u_spec F prim dp has_t u env). Qed.
Theorem C01_advection_only_2d : d <> 2 -> u_dot_nabla_u F dp has_t d u = None.    (* the source raises *)
Proof. exact (u_dot_nabla_u_other_dims F dp has_t d u). Qed.

(* a time argument is held fixed: replacing the time variable by its value changes nothing *)
Theorem C01_time_is_fixed :
  ev env (laplacian_rev F dp true d u) = ev env (laplacian_rev F dp true d (map (subst (fix_var F tvar (env tvar))) u)) /\
  ev env (div_rev F dp true d u) = ev env (div_rev F dp true d (map (subst (fix_var F tvar (env tvar))) u)).
Proof. split; [apply (laplacian_time_fixed F prim dp)|apply (div_time_fixed F prim dp)]. Qed.

(* unrelated parameters: the result only depends on the variables occurring in u *)
Theorem C01_ignores_unrelated_parameters env' :
  (forall v i, free v (comp F u i) = true -> env v = env' v) ->
  ev env (laplacian_rev F dp has_t d u) = ev env' (laplacian_rev F dp has_t d u) /\
  ev env (div_rev F dp has_t d u) = ev env' (div_rev F dp has_t d u).
Proof. intro H. split; [apply (laplacian_ignores_unrelated F prim dp); intros v Hv; exact (H v 0 Hv)
                       |apply (div_ignores_unrelated F prim dp); intros v i _ Hv; exact (H v i Hv)]. Qed.
End C01.

Print Assumptions C01_laplacian.
Print Assumptions C01_divergence.
Print Assumptions C01_vector_laplacian.
Print Assumptions C01_advection.
Print Assumptions C01_advection_only_2d.
Print Assumptions C01_time_is_fixed.
Print Assumptions C01_ignores_unrelated_parameters.

(* non-vacuity: u(t, x, y) = t x^2 y + 3 y^3 at (t, x, y) = (2, 1, 5/3): Laplacian = 2 t y + 18 y = 110/3 *)
Example C01_witness :
  this (evq (mkenv [qz 2; qz 1; qq 5 3] [] []) (laplacian_rev QcF dp0 true 2 [polyIn 3 [(qz 1, [1;2;1]); (qz 3, [0;0;3])]])) = (110 # 3)%Q.
Proof. vm_compute. reflexivity. Qed.
