(* Props/C05.v -- Initial-condition, normalisation and observation terms match their definitions. *)
From Coq Require Import List Arith Bool Lia QArith Qcanon Field Ring Field_theory.
From JV Require Import Kit.Field Kit.Tx Model.M_lossterms Proofs.P_lossterms Proofs.P_reduce Inst.I_reduce.
Import ListNotations.
Open Scope nat_scope.

Section C05.
Variable F : fld.
Open Scope K_scope.
Add Field Ff5 : (Kfield F).

(* initial condition of a PDE: mean over the spatial points of the batch of the weighted squared
   mismatch u0(x_i) - u(0, x_i) (rows = points, columns = components) *)
Theorem C05_initial_condition_pde w (u0 ut0 : list (list F)) :
  ic_term F w u0 ut0 =
  sumK (map (fun r => sumK (map (fun p => wat F w (fst p) * (snd p * snd p)) (enumerate r))) (diff_rows F u0 ut0))
  / of_nat (length (diff_rows F u0 ut0)).
Proof. exact (mse_term_def F w (diff_rows F u0 ut0)). Qed.
(* initial condition of an ODE (one parameter sample): sum_c w_c (u_c(t0) - u0_c)^2 *)
Theorem C05_initial_condition_ode w (ut0 u0 : list F) :
  ode_ic_term F w [ut0] u0 = sumK (map (fun p => wat F w (fst p) * (snd p * snd p)) (enumerate (map (fun q => fst q - snd q) (combine ut0 u0)))).
Proof. unfold ode_ic_term. rewrite mse_term_def. cbn [map sumK fold_right length of_nat]. field.
  exact (Field_theory.F_1_neq_0 (Kfield F)). Qed.
(* normalisation: the weighted squared deviation from 1 of (volume * mean of u over the samples) ... *)
Theorem C05_normalisation_stationary w L m : norm_term_statio F w L m = w * ((L * meanK (concat m) - k1) * (L * meanK (concat m) - k1)).
Proof. reflexivity. Qed.
(* ... averaged over the batch times when u depends on time *)
Theorem C05_normalisation_nonstationary w L ms :
  norm_term_nonstatio F w L ms = meanK (map (fun m => w * ((L * meanK (concat m) - k1) * (L * meanK (concat m) - k1))) ms).
Proof. reflexivity. Qed.
(* observations: mean over the rows of the weighted squared mismatch between prediction i (made
   with row i of every observed parameter) and value i *)
Theorem C05_observations w (pred vals : list (list F)) :
  obs_term F w pred vals =
  sumK (map (fun r => sumK (map (fun p => wat F w (fst p) * (snd p * snd p)) (enumerate r))) (diff_rows F pred vals))
  / of_nat (length (diff_rows F pred vals)).
Proof. exact (mse_term_def F w (diff_rows F pred vals)). Qed.
Theorem C05_rows_are_paired (a b : list (list F)) i : i < length a -> length a = length b ->
  nth i (diff_rows F a b) [] = map (fun q => fst q - snd q) (combine (nth i a []) (nth i b [])).
Proof. intros Hi Hl. unfold diff_rows.
  set (f := fun p : list F * list F => map (fun q => fst q - snd q) (combine (fst p) (snd p))).
  change [] with (f ([], [])) at 1. rewrite map_nth. unfold f. rewrite combine_nth by exact Hl. reflexivity. Qed.
End C05.

(* ---- Regenerated: what the source says today ----
   The reduction expressions of initial_condition_apply (both network kinds), of the initial-condition
   block of LossODE.evaluate, of normalization_loss_apply (pointwise networks, stationary and not) and
   of observations_loss_apply, translated from the source to tensor expressions, denote the model's
   terms for every batch, component count and weight shape; observations are sliced by
   slice_solution and then by obs_slice. *)
Lemma regenerated_ic_reduce_ok (F : fld) w (u0 ut0 : list (list F)) :
  tsem F [T2 u0; T2 ut0; wten F w] g_ic_reduce_pinn = Some (T0 (ic_term F w u0 ut0)) /\ g_ic_reduce_spinn = g_ic_reduce_pinn.
Proof. split; [exact (diff_expected_sem F w u0 ut0)|reflexivity]. Qed.
Lemma regenerated_ode_ic_reduce_ok (F : fld) w (ut0 : list (list F)) (u0 : list F) :
  tsem F [T2 ut0; T1 u0; wten F w] g_ode_ic_reduce = Some (T0 (ode_ic_term F w ut0 u0)).
Proof. exact (ode_ic_expected_sem F w ut0 u0). Qed.
Lemma regenerated_norm_reduce_ok (F : fld) w L :
  (forall m, tsem F [T2 m; T0 L; T0 w] g_norm_reduce_statio = Some (T0 (norm_term_statio F w L m))) /\
  (forall ms, tsem F [T3 ms; T0 L; T0 w] g_norm_reduce_nonstatio = Some (T0 (norm_term_nonstatio F w L ms))) /\
  g_norm_statio_sliced = true.
Proof. split; [exact (norm_statio_expected_sem F w L)|split; [exact (norm_nonstatio_expected_sem F w L)|reflexivity]]. Qed.
Lemma regenerated_obs_reduce_ok (F : fld) w (pred vals : list (list F)) :
  tsem F [T2 pred; T2 vals; wten F w] g_obs_reduce = Some (T0 (obs_term F w pred vals)) /\ g_obs_slices = true.
Proof. split; [exact (diff_expected_sem F w pred vals)|reflexivity]. Qed.

Print Assumptions regenerated_ic_reduce_ok.
Print Assumptions regenerated_ode_ic_reduce_ok.
Print Assumptions regenerated_norm_reduce_ok.
Print Assumptions regenerated_obs_reduce_ok.
Print Assumptions C05_initial_condition_pde.
Print Assumptions C05_initial_condition_ode.
Print Assumptions C05_normalisation_stationary.
Print Assumptions C05_normalisation_nonstationary.
Print Assumptions C05_observations.
Print Assumptions C05_rows_are_paired.

(* the normalisation term is NOT the mean of squared pointwise deviations: u = 1/2 and 2 at two
   samples, volume 1: (1 * 5/4 - 1)^2 = 1/16, whereas the pointwise mean would be (1/4 + 1)/2 = 5/8 *)
Example C05_witness :
  this (norm_term_statio QcF (qz 1) (qz 1) [[qq 1 2]; [qz 2]]) = (1 # 16)%Q /\
  this (meanK (map (fun u => sq (qz 1 * u - qz 1)%K) [qq 1 2; qz 2])) = (5 # 8)%Q.
Proof. split; vm_compute; reflexivity. Qed.
