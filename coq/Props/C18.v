(* Props/C18.v -- On non-finite parameters training stops and returns the last finite ones. *)
From Coq Require Import ZArith List Bool Lia.
From JV Require Import Kit.Lists Gen.G_solve Model.M_solve Inst.I_solve Proofs.P_solve Props.C07.
Import ListNotations.
Open Scope Z_scope.

Section C18.
Variables P Os D B Gr U LV LT T V C : Type.
Variable draw : D -> B * D.
Variable vg : P -> B -> (LV * LT) * Gr.
Variable opt_update : Gr -> Os -> P -> U * Os.
Variable apply : P -> U -> P.
Variable has_nan : P -> bool.
Variable track : P -> T.
Variable validate : V -> P -> V * bool * C * bool.
Variable call_every : V -> Z.
Variable rar : Z -> P -> D -> D.
Variable rar_init : D -> D.
Variables (zLV : LV) (zLT : LT) (zT : T) (zC : C).
Variables (n : nat) (p0 : P) (o0 : Os) (d0 : D) (v0 : option V).
Let result := solve P Os D B Gr U LV LT T V C G_solve draw vg opt_update apply has_nan track validate call_every rar rar_init zLV zLT zT zC n p0 o0 d0 v0.
Let r0 := r_init P Os D LV LT T V C p0 o0 (snd (draw (rar_init d0))) v0.
Let ref k := rrun P Os D B Gr U LV LT T V C draw vg opt_update apply has_nan track validate call_every rar zC k r0.
Let params_after k := r_p _ _ _ _ _ _ _ _ (ref k).          (* parameters after k updates; 0 = initial *)
Let early_after k := r_early _ _ _ _ _ _ _ _ (ref k).

(* If update number k (0-based) is the first to produce a NaN parameter and no early stop was
   requested before: the loop exits with counter k+1, returns the parameters held just before
   that update (the initial ones if k = 0), which are NaN-free; the histories up to and including
   entry k are the reference ones and every later entry still holds its initial value *)
Theorem C18_stops_after_first_nan k : (k < n)%nat ->
  (forall j, (j <= k)%nat -> has_nan (params_after j) = false) ->
  (forall j, (j <= k)%nat -> early_after j = false) ->
  has_nan (params_after (S k)) = true ->
  ci _ _ _ _ _ _ _ _ result = Z.of_nat (S k) /\
  clast _ _ _ _ _ _ _ _ result = params_after k /\ has_nan (clast _ _ _ _ _ _ _ _ result) = false /\
  hl _ _ _ _ _ _ _ _ result = r_l _ _ _ _ _ _ _ _ (ref (S k)) ++ repeat zLV (n - S k) /\
  ht _ _ _ _ _ _ _ _ result = r_t _ _ _ _ _ _ _ _ (ref (S k)) ++ repeat zLT (n - S k) /\
  htr _ _ _ _ _ _ _ _ result = r_tr _ _ _ _ _ _ _ _ (ref (S k)) ++ repeat zT (n - S k) /\
  length (r_l _ _ _ _ _ _ _ _ (ref (S k))) = S k.
Proof. intros Hk Hok Hearly Hbad.
  assert (Hres : result = embed P Os D LV LT T V C zLV zLT zT zC n (S k) (ref (S k))).
  { apply C07_loop_is_textbook; [lia| |right].
    - intros j Hj. unfold halt. fold (ref j). change (has_nan (params_after j) || early_after j = false).
      rewrite Hok, Hearly by lia. reflexivity.
    - unfold halt. change (has_nan (params_after (S k)) || early_after (S k) = true). rewrite Hbad. reflexivity. }
  rewrite Hres. unfold embed. cbn [ci clast hl ht htr].
  assert (Hl : r_last _ _ _ _ _ _ _ _ (ref (S k)) = params_after k).
  { apply (last_after_first_nan P Os D B Gr U LV LT T V C draw vg opt_update apply has_nan track validate call_every rar zC k r0);
      [reflexivity|exact Hok|exact Hbad]. }
  rewrite Hl. repeat split; try reflexivity.
  - apply Hok. lia.
  - apply (rrun_inv P Os D B Gr U LV LT T V C draw vg opt_update apply has_nan track validate call_every rar zC (S k) r0).
    apply r_init_inv. Qed.
End C18.
Print Assumptions C18_stops_after_first_nan.

(* non-vacuity: updates add 1, "NaN" means parameter >= 13: the third update (k = 2) fails *)
Example C18_witness :
  let res := solve nat nat nat nat nat nat nat nat nat nat nat G_solve (fun d => (d, S d)) (fun p b => ((p, b), p))
               (fun g o p => (1%nat, S o)) (fun p u => (p + u)%nat) (fun p => Nat.leb 13 p) (fun p => p)
               (fun v p => (v, false, p, false)) (fun _ => 1) (fun _ _ d => d) (fun d => d) 99%nat 99%nat 99%nat 99%nat 6 10%nat 0%nat 0%nat None in
  (ci _ _ _ _ _ _ _ _ res, clast _ _ _ _ _ _ _ _ res, hl _ _ _ _ _ _ _ _ res, htr _ _ _ _ _ _ _ _ res) = (3, 12%nat, [10;11;12;99;99;99]%nat, [11;12;13;99;99;99]%nat).
Proof. vm_compute. reflexivity. Qed.
