(* Inst/I_fwd.v -- structure of the forward-mode operators as regenerated from jinns/loss/_operators.py
   and jinns/utils/_utils.py *)
From Coq Require Import Bool.
From JV Require Import Gen.G_fwd.
Definition g_fwd_wiring : bool :=
  gen_div_fwd_is_sum_of_onehot_jvps && gen_laplacian_fwd_is_sum_of_second_onehot_jvps && gen_grid_is_ij_meshgrid_of_columns.
