(* Inst/I_cart.v -- the space-time batch model instantiated with the regenerated definitions *)
From Coq Require Import List Bool.
From JV Require Import Kit.GenTypes Gen.G_datagen Model.M_cart.
Definition g_inside {A} (cat : A -> A -> A) := inside_batch cat gen_cart_first gen_cart_second gen_cart_first_then_second.
Definition g_border {A} (cat : A -> A -> A) := border_batch cat gen_cart_first gen_cart_second gen_cart_first_then_second.
Definition g_nonstatio_wiring : bool :=
  gen_nonstatio_draw_order_ok && gen_nonstatio_inside_ok && gen_nonstatio_border_ok && gen_nonstatio_return_ok.
