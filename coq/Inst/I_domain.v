(* Inst/I_domain.v -- domain model instantiated with the regenerated facet table *)
From Coq Require Import List Bool.
From JV Require Import Gen.G_datagen Model.M_domain.
Definition g_facet_table := gen_facet_table.
Definition g_border_1d := gen_border_1d_is_max.
Definition g_domain_wiring : bool := gen_uniform_ranges_ok && gen_grid_formula_ok.
