(* Inst/I_rar.v -- the refinement machine instantiated with the regenerated definitions, one
   instance per generator kind (ODE: times only; stationary: space only; non-stationary: both) *)
From Coq Require Import ZArith List Bool.
From JV Require Import Gen.G_rar Model.M_datagen Model.M_rar.
Import ListNotations.
Definition dim_ode : dim_gen :=
  {| d_cap := gen_rar_capacity_ok_ode_t;
     d_offset := fun pt _ Jc => gen_rar_offset_ode (dstart pt) Jc (dsel pt);
     d_pprefix := fun pt _ => gen_rar_pprefix_ode (dstart pt);
     d_pslice := fun pt _ k => gen_rar_pslice_start_ode (dstart pt) k (dsel pt);
     d_lo := gen_rar_ploop_lo_ode; d_hi := gen_rar_ploop_hi_ode |}.
Definition dim_statio : dim_gen :=
  {| d_cap := gen_rar_capacity_ok_statio_x;
     d_offset := fun _ px Jc => gen_rar_offset_statio (dstart px) Jc (dsel px);
     d_pprefix := fun _ px => gen_rar_pprefix_statio (dstart px);
     d_pslice := fun _ px k => gen_rar_pslice_start_statio (dstart px) k (dsel px);
     d_lo := gen_rar_ploop_lo_statio; d_hi := gen_rar_ploop_hi_statio |}.
Definition dim_ns_t : dim_gen :=
  {| d_cap := gen_rar_capacity_ok_ns_t;
     d_offset := fun pt px Jc => gen_rar_offset_ns_t (dstart pt) (dstart px) Jc (dsel pt) (dsel px);
     d_pprefix := fun pt px => gen_rar_pprefix_ns_t (dstart pt) (dstart px);
     d_pslice := fun pt px k => gen_rar_pslice_start_ns_t (dstart pt) (dstart px) k (dsel pt) (dsel px);
     d_lo := gen_rar_ploop_lo_ns_t; d_hi := gen_rar_ploop_hi_ns_t |}.
Definition dim_ns_x : dim_gen :=
  {| d_cap := gen_rar_capacity_ok_ns_x;
     d_offset := fun pt px Jc => gen_rar_offset_ns_x (dstart pt) (dstart px) Jc (dsel pt) (dsel px);
     d_pprefix := fun pt px => gen_rar_pprefix_ns_x (dstart pt) (dstart px);
     d_pslice := fun pt px k => gen_rar_pslice_start_ns_x (dstart pt) (dstart px) k (dsel pt) (dsel px);
     d_lo := gen_rar_ploop_lo_ns_x; d_hi := gen_rar_ploop_hi_ns_x |}.
Definition mkG (t x : option dim_gen) (newJ : Z -> Z) (w : bool) : rar_gen :=
  {| r_burnin := gen_rar_burnin_ok; r_period := gen_rar_period_ok; r_incr := gen_rar_incr; r_count := gen_rar_count;
     r_init_counter := gen_rar_init_counter; r_ctor_step := gen_rar_ctor_step; r_ctor_active := gen_rar_ctor_active;
     r_newJ := newJ; r_step_counter := gen_rar_step_counter; r_t := t; r_x := x;
     r_wiring := gen_rar_trigger_wiring && gen_rar_init_touches_only_the_counter && w |}.
Definition G_rar_ode := mkG (Some dim_ode) None gen_rar_newJ_ode gen_rar_select_wiring_ode.
Definition G_rar_statio := mkG None (Some dim_statio) gen_rar_newJ_statio gen_rar_select_wiring_statio.
Definition G_rar_ns := mkG (Some dim_ns_t) (Some dim_ns_x) gen_rar_newJ_ns gen_rar_select_wiring_ns.
Definition all_rar := [G_rar_ode; G_rar_statio; G_rar_ns].
Definition rar_of (kind : nat) := nth kind all_rar G_rar_ode.
Definition sel_start_of (kind : nat) : Z -> Z -> Z :=
  match kind with O => gen_rar_select_start_ode | _ => gen_rar_select_start_statio end.
