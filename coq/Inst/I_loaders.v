(* Inst/I_loaders.v -- loaders instantiated with the regenerated definitions *)
From Coq Require Import List Bool.
From JV Require Import Kit.GenTypes Gen.G_datagen Model.M_datagen Inst.I_datagen Model.M_loaders.
Definition g_param_store := gen_param_store.
Definition g_loader_wiring : bool := gen_obs_gather_same_indices && gen_multi_obs_wiring.
