(* Inst/I_boundary.v -- boundary model instantiated with the regenerated tables *)
From Coq Require Import ZArith List Bool.
From JV Require Import Gen.G_boundary Kit.Field Model.M_boundary.
Import ListNotations.
Definition g_normal (F : fld) (statio : bool) (dim facet : nat) : list F :=
  if statio then normal F gen_normal_1d_statio gen_normal_2d_statio dim facet
  else normal F gen_normal_1d_nonstatio gen_normal_2d_nonstatio dim facet.
Definition g_boundary_wiring : bool :=
  gen_neumann_wiring_statio && gen_neumann_wiring_nonstatio && gen_boundary_apply_wiring && gen_dirichlet_wiring.
