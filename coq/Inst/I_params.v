(* Inst/I_params.v -- per-sample parameter model instantiated with the regenerated definitions *)
From Coq Require Import ZArith List Bool.
From JV Require Import Gen.G_params Model.M_params.
Definition g_params_of_sample {V} := @params_of_sample V gen_merge_takes_batch gen_axis_for_key.
Definition g_params_wiring : bool := gen_axes_wiring && gen_merge_wiring && gen_heterogeneity_wiring.
