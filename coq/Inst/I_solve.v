(* Inst/I_solve.v -- solve() and ValidationLoss instantiated with the regenerated definitions *)
From Coq Require Import ZArith List Bool.
From JV Require Import Kit.GenTypes Gen.G_solve Gen.G_validation Model.M_solve.
Definition G_solve : solve_gen :=
  {| s_val_due := gen_val_due; s_carry_idx := gen_carry_idx; s_crit_idx := gen_store_crit_idx;
     s_loss_idx := gen_store_loss_idx; s_terms_idx := gen_store_terms_idx; s_tracked_idx := gen_store_tracked_idx;
     s_next := gen_next_i; s_keep_last := @gen_keep_last_non_nan; s_continue := gen_continue;
     s_wiring := gen_iteration_wiring && gen_store_wiring && gen_gradient_wiring && gen_solve_frame_wiring |}.
Definition G_vl : vl_gen :=
  {| v_improves := gen_val_improves; v_reset := gen_val_counter_reset; v_incr := gen_val_counter_incr;
     v_stop := gen_val_stop; v_wiring := gen_validation_wiring |}.
