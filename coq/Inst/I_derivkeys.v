(* Inst/I_derivkeys.v -- derivative keys instantiated with the regenerated definitions *)
From Coq Require Import List Bool.
Import ListNotations.
From JV Require Import Gen.G_derivkeys Kit.Field Kit.Expr Model.M_derivkeys.
Definition g_keep : bool := gen_true_means_differentiate.
Definition g_mask_of_str (code : nat) : option mask :=
  match gen_mask_of_str code with Some (nn, eq) => Some (mask_of nn eq) | None => None end.
Definition g_defaults : list nat :=
  [gen_default_DerivativeKeysODE_dyn_loss; gen_default_DerivativeKeysODE_observations; gen_default_DerivativeKeysODE_initial_condition;
   gen_default_DerivativeKeysPDEStatio_dyn_loss; gen_default_DerivativeKeysPDEStatio_observations; gen_default_DerivativeKeysPDEStatio_boundary_loss;
   gen_default_DerivativeKeysPDEStatio_norm_loss; gen_default_DerivativeKeysPDENonStatio_initial_condition]%list.
Definition g_total (F : fld) := masked_total F g_keep.
Definition g_derivkeys_wiring : bool := gen_terms_use_their_own_mask && gen_system_terms_use_their_own_mask && gen_from_str_field_by_field.
