(* Inst/I_datagen.v -- the cursor machine instantiated with the regenerated definitions,
   one instance per generator kind. (InstP/ is the same text over JV.Pinned.) *)
From Coq Require Import ZArith Bool List.
From JV Require Import Gen.G_datagen Model.M_datagen.
Import ListNotations.
Definition mk (bend : Z -> Z -> Z) (init neff : Z -> Z) (w : bool) : cursor_gen :=
  {| g_done := gen_epoch_done; g_true_resets := gen_true_branch_resets; g_bend := bend;
     g_incr := gen_incr; g_reset := gen_reset_idx; g_init := init; g_neff := neff;
     g_wiring := w && gen_reshuffle_full_noreplace |}.
Definition G_ode_t := mk gen_bend_ode_t gen_init_idx_ode_t gen_neff_plain_ode_t gen_wiring_ok_ode_t.
Definition G_omega := mk gen_bend_omega gen_init_idx_omega gen_neff_plain_omega gen_wiring_ok_omega.
Definition G_border := mk gen_bend_border gen_init_idx_border gen_neff_plain_border gen_wiring_ok_border.
Definition G_pde_t := mk gen_bend_pde_t gen_init_idx_pde_t gen_neff_plain_pde_t gen_wiring_ok_pde_t.
Definition G_obs := mk gen_bend_obs gen_init_idx_obs gen_neff_plain_obs gen_wiring_ok_obs.
Definition G_param := mk gen_bend_param gen_init_idx_param gen_neff_plain_param gen_wiring_ok_param.
Definition all_cursors := [G_ode_t; G_omega; G_border; G_pde_t; G_obs; G_param].
Definition cursor_of (kind : nat) : cursor_gen := nth kind all_cursors G_ode_t.
