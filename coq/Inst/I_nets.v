(* Inst/I_nets.v -- wrapper pipelines as regenerated from jinns/utils/_pinn.py and _hyperpinn.py *)
From Coq Require Import Bool.
From JV Require Import Gen.G_nets.
Definition g_nets_wiring : bool :=
  gen_pinn_eval_pipeline && gen_pinn_call_conventions && gen_hyper_eval_pipeline && gen_hyper_split_in_leaf_order.
