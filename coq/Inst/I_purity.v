(* Inst/I_purity.v -- the effect table regenerated from the source *)
From Coq Require Import List.
From JV Require Import Gen.G_purity.
Definition g_argument_writes := gen_argument_writes.
Definition g_functions_analysed := gen_functions_analysed.
