(* Inst/I_reduce.v -- the reductions of the loss terms as regenerated from jinns/loss/_loss_utils.py,
   jinns/loss/_LossODE.py and jinns/loss/_LossPDE.py *)
From Coq Require Import List Bool.
From JV Require Import Gen.G_reduce Kit.Tx.
Definition g_dyn_reduce_pinn : tx := gen_dyn_reduce_pinn.
Definition g_dyn_reduce_spinn : tx := gen_dyn_reduce_spinn.
Definition g_dyn_params_last : bool := gen_dyn_params_last.
Definition g_obs_reduce : tx := gen_obs_reduce.
Definition g_obs_slices : bool := gen_obs_slice_solution_then_obs_slice.
Definition g_ic_reduce_pinn : tx := gen_ic_reduce_pinn.
Definition g_ic_reduce_spinn : tx := gen_ic_reduce_spinn.
Definition g_ode_ic_reduce : tx := gen_ode_ic_reduce.
Definition g_norm_reduce_statio : tx := gen_norm_reduce_statio.
Definition g_norm_reduce_nonstatio : tx := gen_norm_reduce_nonstatio.
Definition g_norm_statio_sliced : bool := gen_norm_statio_over_solution_slice.
Definition g_totals : bool :=
  gen_total_ode_is_sum_of_returned_terms && gen_total_statio_is_sum_of_returned_terms && gen_total_nonstatio_is_sum_of_returned_terms.
Definition g_facet_reduce_dict : tx := gen_facet_reduce_dict.
Definition g_facet_reduce_global : tx := gen_facet_reduce_global.
Definition g_facets_wiring : bool := gen_facet_none_is_skipped && gen_facets_are_summed.
Definition g_dirichlet_statio_reduce : tx := gen_dirichlet_statio_reduce.
Definition g_dirichlet_nonstatio_reduce : tx := gen_dirichlet_nonstatio_reduce.
