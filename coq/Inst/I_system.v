(* Inst/I_system.v -- system losses instantiated with the regenerated definitions *)
From Coq Require Import List Bool.
From JV Require Import Kit.GenTypes Gen.G_losses.
Definition g_sys_weights (pde : bool) := if pde then gen_sys_weights_pde else gen_sys_weights_ode.
Definition g_sys_wiring : bool := gen_sys_pde_time_first && gen_sys_param_batch_is_functional && gen_sys_evaluate_wiring && gen_sys_constraints_wiring && gen_sys_constraints_per_unknown.
