(* Kit/Tx.v -- a small tensor-expression language for the reductions of jinns/loss/_loss_utils.py
   (the translator emits terms of [tx] from the source; see tools/anchors.py, G_reduce).
   Tensors of rank 0..3 over a field; numpy broadcasting restricted to what those reductions use:
   a scalar against anything, equal ranks elementwise, a vector against the trailing axis of a
   matrix.  Anything else evaluates to None (the source would raise or broadcast differently, the
   obligations of Props then fail). *)
From Coq Require Import List Arith Bool ZArith.
From JV Require Import Kit.Field.
Import ListNotations.
Section Tx.
Variable F : fld.
Open Scope K_scope.
Inductive ten := T0 (x : F) | T1 (v : list F) | T2 (m : list (list F)) | T3 (c : list (list (list F))).
Inductive tx :=
| XIn (k : nat)                  (* k-th named input of the reduction *)
| XInt (z : Z)                   (* an integer literal *)
| XAdd (a b : tx) | XSub (a b : tx) | XMul (a b : tx)
| XSq (a : tx)                   (* a ** 2, and jnp.abs(a) ** 2 *)
| XSumLast (a : tx)              (* jnp.sum(a, axis=-1) *)
| XMeanAll (a : tx)              (* jnp.mean(a) *)
| XMeanLast2 (a : tx).           (* jnp.mean(a, axis=(-2, -1)) *)
Definition zipw {A} (f : A -> A -> A) (l l' : list A) : list A := map (fun p => f (fst p) (snd p)) (combine l l').
Definition bop (f : F -> F -> F) (a b : ten) : option ten :=
  match a, b with
  | T0 x, T0 y => Some (T0 (f x y))
  | T0 x, T1 v => Some (T1 (map (f x) v))
  | T0 x, T2 m => Some (T2 (map (map (f x)) m))
  | T0 x, T3 c => Some (T3 (map (map (map (f x))) c))
  | T1 v, T0 y => Some (T1 (map (fun x => f x y) v))
  | T2 m, T0 y => Some (T2 (map (map (fun x => f x y)) m))
  | T3 c, T0 y => Some (T3 (map (map (map (fun x => f x y))) c))
  | T1 v, T1 v' => Some (T1 (zipw f v v'))
  | T2 m, T2 m' => Some (T2 (zipw (zipw f) m m'))
  | T1 v, T2 m => Some (T2 (map (fun r => zipw f v r) m))          (* trailing-axis broadcast *)
  | T2 m, T1 v => Some (T2 (map (fun r => zipw f r v) m))
  | _, _ => None
  end.
Definition usq (a : ten) : ten :=
  match a with T0 x => T0 (sq x) | T1 v => T1 (map sq v) | T2 m => T2 (map (map sq) m) | T3 c => T3 (map (map (map sq)) c) end.
Definition sum_last (a : ten) : option ten :=
  match a with T0 _ => None | T1 v => Some (T0 (sumK v)) | T2 m => Some (T1 (map sumK m)) | T3 c => Some (T2 (map (map sumK) c)) end.
Definition mean_all_t (a : ten) : ten :=
  match a with T0 x => T0 x | T1 v => T0 (meanK v) | T2 m => T0 (meanK (concat m)) | T3 c => T0 (meanK (concat (concat c))) end.
Definition mean_last2 (a : ten) : option ten :=
  match a with T2 m => Some (T0 (meanK (concat m))) | T3 c => Some (T1 (map (fun m => meanK (concat m)) c)) | _ => None end.
Definition obind {A B} (o : option A) (f : A -> option B) : option B := match o with Some x => f x | None => None end.
Fixpoint tsem (env : list ten) (e : tx) : option ten :=
  match e with
  | XIn k => nth_error env k
  | XInt z => Some (T0 (of_Z z))
  | XAdd a b => obind (tsem env a) (fun x => obind (tsem env b) (fun y => bop kadd x y))
  | XSub a b => obind (tsem env a) (fun x => obind (tsem env b) (fun y => bop ksub x y))
  | XMul a b => obind (tsem env a) (fun x => obind (tsem env b) (fun y => bop kmul x y))
  | XSq a => obind (tsem env a) (fun x => Some (usq x))
  | XSumLast a => obind (tsem env a) sum_last
  | XMeanAll a => obind (tsem env a) (fun x => Some (mean_all_t x))
  | XMeanLast2 a => obind (tsem env a) mean_last2
  end.
End Tx.
Arguments T0 {F}. Arguments T1 {F}. Arguments T2 {F}. Arguments T3 {F}.
