(* Kit/Field.v -- an abstract field bundled as a record, so that every model and
   theorem is stated once for all fields; QcF is the executable instance used by
   the correspondence runs (canonical rationals, Leibniz equality). *)
From Coq Require Import List Arith ZArith QArith Qcanon Field Ring Lia.
Import ListNotations.

Record fld := {
  K :> Type; k0 : K; k1 : K;
  kadd : K -> K -> K; kmul : K -> K -> K; ksub : K -> K -> K; kopp : K -> K;
  kdiv : K -> K -> K; kinv : K -> K;
  Kfield : field_theory k0 k1 kadd kmul ksub kopp kdiv kinv eq }.
Arguments k0 {f}. Arguments k1 {f}. Arguments kadd {f}. Arguments kmul {f}.
Arguments ksub {f}. Arguments kopp {f}. Arguments kdiv {f}. Arguments kinv {f}.

Declare Scope K_scope. Delimit Scope K_scope with K.
Infix "+" := kadd : K_scope. Infix "*" := kmul : K_scope. Infix "-" := ksub : K_scope.
Infix "/" := kdiv : K_scope. Notation "- x" := (kopp x) : K_scope.

Section F.
Variable F : fld.
Add Field Ff : (Kfield F).
Open Scope K_scope.

Definition sumK (l : list F) : F := fold_right kadd k0 l.
Fixpoint of_nat (n : nat) : F := match n with O => k0 | S m => k1 + of_nat m end.
Definition sq (x : F) : F := x * x.
Definition meanK (l : list F) : F := sumK l / of_nat (length l).
(* characteristic zero, as a property of the field (holds for Qc, R, ...) *)
Definition char0 : Prop := forall n, of_nat (S n) <> k0.

Lemma sumK_app a b : sumK (a ++ b) = sumK a + sumK b.
Proof. unfold sumK. induction a as [|x a IH]; cbn [app fold_right]; [ring|rewrite IH; ring]. Qed.
Lemma sumK_map_add {A} (f g : A -> F) l :
  sumK (map (fun x => f x + g x) l) = sumK (map f l) + sumK (map g l).
Proof. unfold sumK. induction l as [|x l IH]; cbn [map fold_right]; [ring|rewrite IH; ring]. Qed.
Lemma sumK_map_scal {A} c (f : A -> F) l : sumK (map (fun x => c * f x) l) = c * sumK (map f l).
Proof. unfold sumK. induction l as [|x l IH]; cbn [map fold_right]; [ring|rewrite IH; ring]. Qed.
Lemma sumK_map_ext {A} (f g : A -> F) l : (forall x, In x l -> f x = g x) -> sumK (map f l) = sumK (map g l).
Proof. intro H. unfold sumK. induction l as [|x l IH]; cbn [map fold_right]; [reflexivity|].
  rewrite H by (left; reflexivity). rewrite IH; [reflexivity|]. intros y Hy. apply H. right. exact Hy. Qed.
Lemma sumK_zero {A} (l : list A) : sumK (map (fun _ => k0) l) = k0.
Proof. unfold sumK. induction l as [|x l IH]; cbn [map fold_right]; [reflexivity|rewrite IH; ring]. Qed.
Lemma of_nat_add a b : of_nat (a + b) = of_nat a + of_nat b.
Proof. induction a as [|a IH]; cbn [of_nat Nat.add]; [ring|rewrite IH; ring]. Qed.
End F.
Arguments sumK {F}. Arguments of_nat {F}. Arguments sq {F}. Arguments meanK {F}. Arguments char0 F : clear implicits.

From Coq Require Import Permutation.
Lemma sumK_perm (F : fld) (l l' : list F) : Permutation l l' -> sumK l = sumK l'.
Proof. pose proof (Kfield F) as Hf. unfold sumK.
  induction 1 as [|x l l' _ IH|x y l|l l' l'' _ IH1 _ IH2]; cbn [fold_right];
  [reflexivity|rewrite IH; reflexivity| |congruence].
  destruct Hf as [[_ Hc Ha _ _ _ _ _ _] _ _ _]. rewrite !Ha. f_equal. apply Hc. Qed.

(* ---- executable instance ---- *)
Definition QcF : fld := {| K := Qc; k0 := Q2Qc 0; k1 := Q2Qc 1; kadd := Qcplus; kmul := Qcmult;
  ksub := Qcminus; kopp := Qcopp; kdiv := Qcdiv; kinv := Qcinv; Kfield := Qcft |}.
Definition qz (z : Z) : QcF := Q2Qc (inject_Z z).
Definition qq (n : Z) (d : positive) : QcF := Q2Qc (n # d).
(* exact comparison and tolerance comparison |a-b| <= 2^-30 (1+|a|), on rationals *)
Definition qeqb (a b : QcF) : bool := Qeq_bool (this a) (this b).
Definition qabs (a : Q) : Q := if Qle_bool 0 a then a else Qopp a.
Definition qclose (a b : QcF) : bool :=
  Qle_bool (qabs (this a - this b)) ((1 # 1073741824) * (1 + qabs (this a))).
Definition qeqb_list (a b : list QcF) : bool :=
  Nat.eqb (length a) (length b) && forallb (fun p => qeqb (fst p) (snd p)) (combine a b).
Definition qclose_list (a b : list QcF) : bool :=
  Nat.eqb (length a) (length b) && forallb (fun p => qclose (fst p) (snd p)) (combine a b).

Lemma QcF_of_nat n : @of_nat QcF n = Q2Qc (inject_Z (Z.of_nat n)).
Proof. induction n as [|n IH]; [reflexivity|]. cbn [of_nat]. rewrite IH.
  change (@kadd QcF) with Qcplus. change (@k1 QcF) with (Q2Qc 1). unfold Qcplus.
  apply Q2Qc_eq_iff. cbn [this Q2Qc]. rewrite !Qred_correct.
  rewrite Nat2Z.inj_succ. unfold Z.succ. rewrite inject_Z_plus. ring. Qed.
Lemma QcF_char0 : char0 QcF.
Proof. intros n H. rewrite QcF_of_nat in H. change (@k0 QcF) with (Q2Qc 0) in H.
  apply Q2Qc_eq_iff in H. unfold Qeq, inject_Z in H. cbn [Qnum Qden] in H. lia. Qed.

(* integers in a field (for literal tables of the source) *)
Definition of_Z {F : fld} (z : Z) : F :=
  match z with Z0 => k0 | Zpos p => of_nat (Pos.to_nat p) | Zneg p => kopp (of_nat (Pos.to_nat p)) end.
