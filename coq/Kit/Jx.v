(* Kit/Jx.v -- the term language the symbolic evaluator (tools/symb.py) emits for the AD fragment
   of the operators and of the built-in dynamic losses *)
From Coq Require Import ZArith.
Inductive idx := IC (n : nat) | IV.           (* a constant component, or the bound scan variable *)
Inductive jx :=
| JC (num : Z) (den : positive)                (* rational literal *)
| JT                                           (* the time input *)
| JX (i : idx)                                 (* x[i] *)
| JU (net : nat) (c : idx)                     (* component c of network `net` at the ambient point *)
| JP (name : nat) (i : option nat)             (* params.eq_params[name], optionally [i] *)
| JTmax                                        (* self.Tmax *)
| JAdd (a b : jx) | JSub (a b : jx) | JMul (a b : jx) | JDiv (a b : jx) | JNeg (a : jx) | JLog (a : jx)
| JDt (a : jx) | JDx (i : idx) (a : jx)        (* grad w.r.t. t / w.r.t. x, component i *)
| JSumDim (body : jx).                         (* sum over the scan index IV = 0 .. dim - 1 *)
