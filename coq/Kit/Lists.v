(* Kit/Lists.v -- list lemmas missing from the 8.16 standard library *)
From Coq Require Import List Arith Lia.
Import ListNotations.
Lemma In_firstn {A} (x : A) n l : In x (firstn n l) -> In x l.
Proof. intro H. rewrite <- (firstn_skipn n l). apply in_or_app. left. exact H. Qed.
Lemma In_skipn {A} (x : A) n l : In x (skipn n l) -> In x l.
Proof. intro H. rewrite <- (firstn_skipn n l). apply in_or_app. right. exact H. Qed.
Definition upd {A} (i : nat) (v : A) (l : list A) : list A := firstn i l ++ v :: skipn (S i) l.
Lemma upd_length {A} i (v : A) l : i < length l -> length (upd i v l) = length l.
Proof. intro H. unfold upd. rewrite app_length, firstn_length. cbn [length]. rewrite skipn_length. lia. Qed.
Lemma upd_app {A} (xs zs : list A) v z : upd (length xs) v (xs ++ z :: zs) = (xs ++ [v]) ++ zs.
Proof. unfold upd. rewrite firstn_app, Nat.sub_diag, firstn_all. cbn [firstn]. rewrite app_nil_r.
  replace (S (length xs)) with (length (xs ++ [z])) by (rewrite app_length; cbn; lia).
  replace (xs ++ z :: zs) with ((xs ++ [z]) ++ zs) by (rewrite <- app_assoc; reflexivity).
  rewrite skipn_app, Nat.sub_diag, skipn_all. cbn. rewrite <- app_assoc. reflexivity. Qed.
Lemma NoDup_app_l {A} (l1 l2 : list A) : NoDup (l1 ++ l2) -> NoDup l1.
Proof. induction l1 as [|a l1 IH]; cbn; intro H; [constructor|]. inversion H as [|x l Hn Hd]; subst.
  constructor; [intro Hin; apply Hn; apply in_or_app; left; exact Hin|apply IH; exact Hd]. Qed.
Lemma NoDup_app_r {A} (l1 l2 : list A) : NoDup (l1 ++ l2) -> NoDup l2.
Proof. induction l1 as [|a l1 IH]; cbn; intro H; [exact H|]. inversion H; subst. apply IH; assumption. Qed.
Lemma nth_repeat_lt' {B} (x d : B) n j : j < n -> nth j (repeat x n) d = x.
Proof. revert j. induction n as [|n IH]; intros [|j] Hj; cbn; try lia; [reflexivity|apply IH; lia]. Qed.
Lemma nth_skipn {A} (l : list A) n i d : nth i (skipn n l) d = nth (n + i) l d.
Proof. revert l. induction n as [|n IH]; intro l; [reflexivity|]. destruct l as [|x l]; [destruct i; reflexivity|]. cbn. apply IH. Qed.
Lemma nth_firstn_lt {A} (l : list A) n i d : i < n -> nth i (firstn n l) d = nth i l d.
Proof. revert l i. induction n as [|n IH]; intros l i H; [lia|]. destruct l as [|x l]; [reflexivity|].
  destruct i as [|i]; [reflexivity|]. cbn. apply IH. lia. Qed.
Lemma skipn_add {A} (a b : nat) (l : list A) : skipn a (skipn b l) = skipn (b + a) l.
Proof. revert l. induction b as [|b IH]; intro l; [reflexivity|]. destruct l as [|x l]; [rewrite !skipn_nil; reflexivity|]. cbn. apply IH. Qed.
