(* Kit/NumRun.v -- helpers for running the numeric models on QcF in the correspondence *)
From Coq Require Import List Arith ZArith QArith Qcanon.
From JV Require Import Kit.Field Kit.Expr.
Import ListNotations.
Definition prim0 : nat -> QcF -> QcF := fun _ x => x.      (* no unary primitive occurs in polynomial networks *)
Definition dp0 : nat -> nat := fun p => p.
Definition evq (env : var -> QcF) (e : expr QcF) : QcF := ev prim0 env e.
Definition Dq (v : var) (e : expr QcF) : expr QcF := D dp0 v e.
(* environment: inputs (time first when present), network weights, equation parameters *)
Definition mkenv (ins ths nus : list QcF) : var -> QcF :=
  fix env v := match v with In k => nth k ins (qz 0) | Th k => nth k ths (qz 0) | Nu k => nth k nus (qz 0) | Fz w => env w end.
Definition in_vars (n : nat) : list var := map In (seq 0 n).
(* a polynomial of the inputs: list of (coefficient, exponents) *)
Definition poly := list (QcF * list nat).
Definition polyIn (nv : nat) (p : poly) : expr QcF := polyE (in_vars nv) p.
