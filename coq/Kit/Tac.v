(* Kit/Tac.v -- unfolding of regenerated definitions down to Z / bool arithmetic that lia
   (with ZifyBool and Euclidean division) decides *)
From Coq Require Export ZArith Bool Lia ZifyBool.
Ltac Zify.zify_post_hook ::= Z.to_euclidean_division_equations.
Ltac unfold_gen :=
  cbv beta iota zeta delta -[Z.add Z.sub Z.mul Z.opp Z.geb Z.leb Z.ltb Z.gtb Z.eqb Z.le Z.lt Z.ge Z.gt
                             Z.div Z.modulo Z.max Z.min Z.of_nat Z.to_nat negb andb orb xorb].
Ltac gen_lia := unfold_gen; repeat split; intros; lia.
