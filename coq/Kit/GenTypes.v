(* Kit/GenTypes.v -- small enumerations shared by the generated files and the models *)
Inductive expansion := ExpRepeat | ExpTile.
(* how set_loss_weights of a system loss expands one weight field *)
Inductive wexp := WUnset | WUseDict | WZerosEquations | WZerosUnknowns | WConstEquations | WConstUnknowns | WErr.
(* comparison used by the improvement test of ValidationLoss *)
Inductive cmpop := QLt | QLe | QGt | QGe.
(* where DataGeneratorParameter takes the samples of one key from *)
Inductive pstore := PUnset | PTable | PTableAsColumn | PRangeGrid | PRangeUniform | PErr.
