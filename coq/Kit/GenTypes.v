(* Kit/GenTypes.v -- small enumerations shared by the generated files and the models *)
Inductive expansion := ExpRepeat | ExpTile.
(* comparison used by the improvement test of ValidationLoss *)
Inductive cmpop := QLt | QLe | QGt | QGe.
(* where DataGeneratorParameter takes the samples of one key from *)
Inductive pstore := PUnset | PTable | PTableAsColumn | PRangeGrid | PRangeUniform | PErr.
