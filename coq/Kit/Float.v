(* Kit/Float.v -- the one place where a property depends on binary64 rounding: the number of
   points jnp.arange(a, b, (b - a) / k) produces is ceil((b - a) / step) computed in binary64,
   which exceeds k for some (a, b, k).  Bit-exact model with Coq's primitive floats. *)
From Coq Require Import PrimFloat Uint63 ZArith.
Open Scope float_scope.
(* true iff the binary64 quotient (b - a) / ((b - a) / k) is > k, i.e. arange yields >= k + 1 points *)
Definition arange_overshoots (a b k : float) : bool := PrimFloat.ltb k ((b - a) / ((b - a) / k)).
Lemma arange_count_refuted : exists a b k, arange_overshoots a b k = true.
Proof. exists 0, 1, 49. vm_compute. reflexivity. Qed.
