(* Kit/Expr.v -- fields (networks, residuals, loss terms) as expression trees over an
   arbitrary field, with structural differentiation (the rule set of JAX's AD),
   stop_gradient as freezing, and substitution. *)
From Coq Require Import List Arith Bool Lia.
From JV Require Import Kit.Field.
Import ListNotations.

Inductive var := In (k : nat) | Th (k : nat) | Nu (k : nat) | Fz (v : var).
Fixpoint var_eqb (a b : var) : bool :=
  match a, b with
  | In i, In j | Th i, Th j | Nu i, Nu j => Nat.eqb i j
  | Fz x, Fz y => var_eqb x y
  | _, _ => false end.
Lemma var_eqb_eq a b : var_eqb a b = true <-> a = b.
Proof. revert b; induction a as [i|i|i|x IH]; intros [j|j|j|y]; cbn [var_eqb];
  try (split; intro H; discriminate H).
  1-3: rewrite Nat.eqb_eq; split; [intros ->; reflexivity| intros [= ->]; reflexivity].
  rewrite IH. split; [intros ->; reflexivity|intros [= ->]; reflexivity]. Qed.
Lemma var_eqb_refl a : var_eqb a a = true. Proof. apply var_eqb_eq. reflexivity. Qed.
Lemma var_eqb_sym a b : var_eqb a b = var_eqb b a.
Proof. destruct (var_eqb a b) eqn:E; destruct (var_eqb b a) eqn:E'; try reflexivity.
  - apply var_eqb_eq in E. subst. rewrite var_eqb_refl in E'. discriminate.
  - apply var_eqb_eq in E'. subst. rewrite var_eqb_refl in E. discriminate. Qed.

Section E.
Variable F : fld.
Add Field Ff : (Kfield F).
Open Scope K_scope.

(* Un p a: the p-th unary primitive (tanh, exp, log, sin ...) applied to a;
   dp p is the index of its derivative primitive *)
Inductive expr := Var (v : var) | Cst (c : F) | Add (a b : expr) | Mul (a b : expr)
                | Opp (a : expr) | Inv (a : expr) | Un (p : nat) (a : expr).
Variable prim : nat -> F -> F.
Variable dp : nat -> nat.

Fixpoint ev (env : var -> F) (e : expr) : F :=
  match e with
  | Var v => env v | Cst c => c
  | Add a b => ev env a + ev env b | Mul a b => ev env a * ev env b
  | Opp a => - ev env a | Inv a => kinv (ev env a) | Un p a => prim p (ev env a) end.
Fixpoint D (v : var) (e : expr) : expr :=
  match e with
  | Var w => if var_eqb v w then Cst k1 else Cst k0
  | Cst _ => Cst k0
  | Add a b => Add (D v a) (D v b)
  | Mul a b => Add (Mul (D v a) b) (Mul a (D v b))
  | Opp a => Opp (D v a)
  | Inv a => Opp (Mul (D v a) (Mul (Inv a) (Inv a)))
  | Un p a => Mul (Un (dp p) a) (D v a) end.
Fixpoint free (v : var) (e : expr) : bool :=
  match e with
  | Var w => var_eqb v w | Cst _ => false
  | Add a b | Mul a b => free v a || free v b
  | Opp a | Inv a | Un _ a => free v a end.
(* stop_gradient on the group G: every variable of G is replaced by its frozen twin *)
Fixpoint freeze (G : var -> bool) (e : expr) : expr :=
  match e with
  | Var w => if G w then Var (Fz w) else Var w | Cst c => Cst c
  | Add a b => Add (freeze G a) (freeze G b) | Mul a b => Mul (freeze G a) (freeze G b)
  | Opp a => Opp (freeze G a) | Inv a => Inv (freeze G a) | Un p a => Un p (freeze G a) end.
Fixpoint subst (s : var -> expr) (e : expr) : expr :=
  match e with
  | Var w => s w | Cst c => Cst c
  | Add a b => Add (subst s a) (subst s b) | Mul a b => Mul (subst s a) (subst s b)
  | Opp a => Opp (subst s a) | Inv a => Inv (subst s a) | Un p a => Un p (subst s a) end.

Definition Sub (a b : expr) := Add a (Opp b).
Definition sumE (l : list expr) := fold_right Add (Cst k0) l.

Lemma ev_Sub env a b : ev env (Sub a b) = ev env a - ev env b.
Proof. unfold Sub. cbn [ev]. ring. Qed.
Lemma ev_sumE env l : ev env (sumE l) = sumK (map (ev env) l).
Proof. unfold sumE, sumK. induction l as [|a l IH]; cbn [fold_right map ev]; [reflexivity|rewrite IH; reflexivity]. Qed.
Lemma D_sumE v l : D v (sumE l) = sumE (map (D v) l).
Proof. unfold sumE. induction l as [|a l IH]; cbn [fold_right map D]; [reflexivity|rewrite IH; reflexivity]. Qed.

(* Schwarz: mixed second derivatives commute (for every expression-defined field) *)
Lemma D_comm v w e env : ev env (D v (D w e)) = ev env (D w (D v e)).
Proof. induction e as [x|c|a IHa b IHb|a IHa b IHb|a IHa|a IHa|p a IHa]; cbn [D ev].
  - destruct (var_eqb w x), (var_eqb v x); cbn [D ev]; reflexivity.
  - reflexivity.
  - rewrite IHa, IHb. reflexivity.
  - rewrite IHa, IHb. ring.
  - rewrite IHa. reflexivity.
  - rewrite IHa. ring.
  - rewrite IHa. ring.
Qed.

Lemma D_not_free v e env : free v e = false -> ev env (D v e) = k0.
Proof. induction e as [w|c|a IHa b IHb|a IHa b IHb|a IHa|a IHa|p a IHa]; cbn [free D ev]; intro H.
  - rewrite H. reflexivity.
  - reflexivity.
  - apply orb_false_iff in H as [Ha Hb]. rewrite IHa, IHb by assumption. ring.
  - apply orb_false_iff in H as [Ha Hb]. rewrite IHa, IHb by assumption. ring.
  - rewrite IHa by assumption. ring.
  - rewrite IHa by assumption. ring.
  - rewrite IHa by assumption. ring. Qed.

Lemma free_D v w e : free v e = false -> free v (D w e) = false.
Proof. induction e as [x|c|a IHa b IHb|a IHa b IHb|a IHa|a IHa|p a IHa]; cbn [free D]; intro H.
  - destruct (var_eqb w x); reflexivity.
  - reflexivity.
  - apply orb_false_iff in H as [Ha Hb]. rewrite IHa, IHb by assumption. reflexivity.
  - apply orb_false_iff in H as [Ha Hb]. rewrite IHa, IHb, Ha, Hb by assumption. reflexivity.
  - apply IHa; assumption.
  - rewrite IHa, H by assumption. reflexivity.
  - rewrite IHa, H by assumption. reflexivity. Qed.

(* the value depends only on the variables that occur *)
Lemma ev_ext env env' e : (forall v, free v e = true -> env v = env' v) -> ev env e = ev env' e.
Proof. induction e as [w|c|a IHa b IHb|a IHa b IHb|a IHa|a IHa|p a IHa]; cbn [free ev]; intro H.
  - apply H. apply var_eqb_refl.
  - reflexivity.
  - rewrite IHa, IHb; [reflexivity| |]; intros v Hv; apply H; rewrite Hv; [apply orb_true_r|reflexivity].
  - rewrite IHa, IHb; [reflexivity| |]; intros v Hv; apply H; rewrite Hv; [apply orb_true_r|reflexivity].
  - rewrite IHa by assumption. reflexivity.
  - rewrite IHa by assumption. reflexivity.
  - rewrite IHa by assumption. reflexivity. Qed.

Lemma freeze_value G e env : (forall v, env (Fz v) = env v) -> ev env (freeze G e) = ev env e.
Proof. intro Henv. induction e as [w|c|a IHa b IHb|a IHa b IHb|a IHa|a IHa|p a IHa]; cbn [freeze ev];
  try (rewrite ?IHa, ?IHb; reflexivity).
  destruct (G w); cbn [ev]; [apply Henv|reflexivity]. Qed.

Lemma freeze_not_free G g e : G g = true -> (forall x, g <> Fz x) -> free g (freeze G e) = false.
Proof. intros Hg Hnf. induction e as [w|c|a IHa b IHb|a IHa b IHb|a IHa|a IHa|p a IHa]; cbn [freeze free];
  try reflexivity; try assumption; try (rewrite IHa, IHb; reflexivity).
  destruct (G w) eqn:E; cbn [free].
  - destruct (var_eqb g (Fz w)) eqn:E2; [apply var_eqb_eq in E2; exfalso; eapply Hnf; eassumption|reflexivity].
  - destruct (var_eqb g w) eqn:E2; [apply var_eqb_eq in E2; subst; congruence|reflexivity]. Qed.

(* stop_gradient: the derivative w.r.t. a frozen group member is exactly zero *)
Theorem stopped_gradient_is_zero G g e env : G g = true -> (forall x, g <> Fz x) ->
  ev env (D g (freeze G e)) = k0.
Proof. intros. apply D_not_free. apply freeze_not_free; assumption. Qed.

(* ... and w.r.t. a variable outside the group it is the derivative of the unfrozen term *)
Lemma freeze_D_other G g e env : G g = false -> (forall x, g <> Fz x) -> (forall v, env (Fz v) = env v) ->
  ev env (D g (freeze G e)) = ev env (D g e).
Proof. intros Hg Hnf Henv. induction e as [w|c|a IHa b IHb|a IHa b IHb|a IHa|a IHa|p a IHa]; cbn [freeze D ev];
  try (rewrite ?IHa, ?IHb, ?freeze_value by assumption; reflexivity).
  destruct (G w) eqn:E; cbn [D].
  - destruct (var_eqb g (Fz w)) eqn:E2; [apply var_eqb_eq in E2; exfalso; eapply Hnf; eassumption|].
    destruct (var_eqb g w) eqn:E3; [apply var_eqb_eq in E3; subst; congruence|reflexivity].
  - reflexivity. Qed.

Lemma ev_subst env s e : ev env (subst s e) = ev (fun v => ev env (s v)) e.
Proof. induction e as [w|c|a IHa b IHb|a IHa b IHb|a IHa|a IHa|p a IHa]; cbn [subst ev];
  rewrite ?IHa, ?IHb; reflexivity. Qed.

(* chain rule for rescaling one variable: t := c * t *)
Definition rescale (t : var) (c : F) : var -> expr := fun v => if var_eqb t v then Mul (Cst c) (Var v) else Var v.
Definition env_rescale (t : var) (c : F) (env : var -> F) : var -> F :=
  fun v => if var_eqb t v then c * env v else env v.
Lemma ev_rescale t c env e : ev env (subst (rescale t c) e) = ev (env_rescale t c env) e.
Proof. rewrite ev_subst. apply ev_ext. intros v _. unfold rescale, env_rescale.
  destruct (var_eqb t v); cbn [ev]; reflexivity. Qed.
Lemma D_rescale_same t c env e :
  ev env (D t (subst (rescale t c) e)) = c * ev (env_rescale t c env) (D t e).
Proof. induction e as [w|k|a IHa b IHb|a IHa b IHb|a IHa|a IHa|p a IHa]; cbn [subst D ev];
  rewrite ?IHa, ?IHb, ?ev_rescale; try ring.
  unfold rescale. destruct (var_eqb t w) eqn:E; cbn [D ev]; rewrite ?E; cbn [ev]; ring. Qed.
Lemma D_rescale_other t c x env e : var_eqb x t = false ->
  ev env (D x (subst (rescale t c) e)) = ev (env_rescale t c env) (D x e).
Proof. intro Hx. induction e as [w|k|a IHa b IHb|a IHa b IHb|a IHa|a IHa|p a IHa]; cbn [subst D ev];
  rewrite ?IHa, ?IHb, ?ev_rescale; try ring.
  unfold rescale. destruct (var_eqb t w) eqn:E; cbn [D ev].
  - apply var_eqb_eq in E. subst w. rewrite Hx. cbn [ev]. ring.
  - destruct (var_eqb x w); reflexivity. Qed.
End E.

Arguments Var {F}. Arguments Cst {F}. Arguments Add {F}. Arguments Mul {F}. Arguments Opp {F}.
Arguments Inv {F}. Arguments Un {F}. Arguments Sub {F}. Arguments sumE {F}.
Arguments ev {F}. Arguments D {F}. Arguments free {F}. Arguments freeze {F}. Arguments subst {F}.

(* ---- polynomial fields, as the correspondence harness writes them ---- *)
Section P.
Variable F : fld.
Fixpoint powE (v : var) (e : nat) : expr F :=
  match e with O => Cst k1 | S e' => Mul (Var v) (powE v e') end.
(* a monomial over a list of variables with the given exponents *)
Fixpoint monoE (vs : list var) (es : list nat) : expr F :=
  match vs, es with v :: vs', e :: es' => Mul (powE v e) (monoE vs' es') | _, _ => Cst k1 end.
Definition polyE (vs : list var) (ms : list (F * list nat)) : expr F :=
  fold_right (fun m acc => Add (Mul (Cst (fst m)) (monoE vs (snd m))) acc) (Cst k0) ms.
End P.
Arguments polyE {F}. Arguments monoE {F}. Arguments powE {F}.
