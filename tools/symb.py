"""Symbolic evaluator for the AD fragment of jinns/loss/_operators.py and _DynamicLoss.py.

A function body (lambdas, grad / hessian / jacrev / scan, indexing, arithmetic, calls to the
operators and to methods such as drift / diffusion) is evaluated on SYMBOLIC arguments: the
ambient point (t, x), networks, parameter objects.  The result is a term of the Gallina type
`jx` (Kit/Jx.v), whose semantics `sem` (Model/M_jx.v) maps it to an expression tree over the
networks' expressions.  Anything outside the fragment raises Untranslatable (fail closed)."""
import ast, copy
from fractions import Fraction
from trcore import Untranslatable, parse, find_func, strip_doc


# ----------------------------------------------------------------------------- jx terms (as strings)
class Idx:
    """a component index: a constant or the bound scan variable"""
    def __init__(self, s):
        self.s = s

    def coq(self):
        return self.s


def IC(n):
    return Idx(f"(IC {int(n)})")


IV = Idx("IV")


class J:
    """a scalar jx term"""
    def __init__(self, s):
        self.s = s

    def coq(self):
        return self.s


def jbin(op, a, b):
    return J(f"({op} {a.coq()} {b.coq()})")


def jconst(v):
    fr = Fraction(v)
    return J(f"(JC ({fr.numerator}) {fr.denominator})")


class Vec:
    """a vector given by its component function idx -> value"""
    def __init__(self, fn, n=None):
        self.fn, self.n = fn, n

    def at(self, i):
        return self.fn(i)


class Mat:
    def __init__(self, fn):
        self.fn = fn


class Net:
    def __init__(self, nid):
        self.nid = nid


class ParamsObj:
    """params / params_dict (possibly after extract_params): eq_params[name] -> ParamVal"""
    def __init__(self, names):
        self.names = names


class EqParams:
    def __init__(self, names):
        self.names = names


class ParamVal:
    def __init__(self, code):
        self.code = code

    def scalar(self):
        return J(f"(JP {self.code} None)")

    def at(self, i):
        if not isinstance(i, int):
            raise Untranslatable("symbolic index into a parameter")
        return J(f"(JP {self.code} (Some {i}))")


class Closure:
    def __init__(self, params, body, env, ev, is_def=False):
        self.params, self.body, self.env, self.ev, self.is_def = params, body, env, ev, is_def


class GradF:
    def __init__(self, f, argnum):
        self.f, self.argnum = f, argnum


class GradV:
    """grad(f, a)(ambient): indexable"""
    def __init__(self, val, wrt):      # wrt: "t" or "x"
        self.val, self.wrt = val, wrt


class HessF:
    def __init__(self, f, argnum):
        self.f, self.argnum = f, argnum


class HessV:
    def __init__(self, val, wrt):
        self.val, self.wrt = val, wrt


class JacF:
    def __init__(self, f):
        self.f = f


class JacV:
    def __init__(self, vec):
        self.vec = vec


class Ambient:
    """the point: T (time, shape (1,)) or X (space vector) or None"""
    def __init__(self, kind):
        self.kind = kind


class SelfObj:
    def __init__(self, cls_node, mod, attrs):
        self.cls, self.mod, self.attrs = cls_node, mod, attrs


def scal(v):
    """coerce to a scalar jx"""
    if isinstance(v, J):
        return v
    if isinstance(v, (int, float)):
        return jconst(v)
    if isinstance(v, ParamVal):
        return v.scalar()
    if isinstance(v, Vec) and v.n == 1:
        return scal(v.at(0))
    if isinstance(v, Ambient) and v.kind == "T":
        return J("JT")
    if isinstance(v, GradV) and v.wrt == "t":
        return J(f"(JDt {scal(v.val).coq()})")
    raise Untranslatable(f"not a scalar: {type(v).__name__}")


def comp(v, i):
    """component i (int or Idx) of a vector-like value"""
    if isinstance(v, Vec):
        return v.at(i)
    if isinstance(v, Ambient) and v.kind == "X":
        return J(f"(JX {(IC(i) if isinstance(i, int) else i).coq()})")
    if isinstance(v, ParamVal):
        return v.at(i)
    if isinstance(v, GradV):
        ii = IC(i) if isinstance(i, int) else i
        if v.wrt == "t":
            return J(f"(JDt {scal(v.val).coq()})")
        return J(f"(JDx {ii.coq()} {scal(v.val).coq()})")
    if isinstance(v, (J, int, float)):
        return v           # broadcasting of a scalar
    raise Untranslatable(f"cannot index {type(v).__name__}")


def arith(op, a, b):
    ops = {"+": "JAdd", "-": "JSub", "*": "JMul", "/": "JDiv"}
    veclike = lambda v: isinstance(v, (Vec, GradV)) or (isinstance(v, Ambient) and v.kind == "X") or (isinstance(v, ParamVal) and False)
    if isinstance(a, Mat) or isinstance(b, Mat):
        if isinstance(a, Mat) and isinstance(b, Mat):
            return Mat(lambda i, j: arith(op, a.fn(i, j), b.fn(i, j)))
        m, s, left = (a, b, True) if isinstance(a, Mat) else (b, a, False)
        return Mat(lambda i, j: arith(op, m.fn(i, j), s) if left else arith(op, s, m.fn(i, j)))
    if veclike(a) or veclike(b):
        n = a.n if isinstance(a, Vec) else (b.n if isinstance(b, Vec) else None)
        return Vec(lambda i: arith(op, comp(a, i), comp(b, i)), n)
    return jbin(ops[op], scal(a), scal(b))


class Evaluator:
    def __init__(self, repo, has_t, dim2=True):
        self.repo, self.has_t, self.dim2 = repo, has_t, dim2
        self.dimval = None           # a concrete spatial dimension, or None for the symbolic one
        self.ops_mod = parse(repo, "jinns/loss/_operators.py")

    # -------------------------------------------------------------- functions
    def call_def(self, fn, args, kwargs, outer_env):
        env = dict(outer_env)
        names = [a.arg for a in fn.args.args]
        defaults = fn.args.defaults
        for k, nm in enumerate(names):
            if k < len(args):
                env[nm] = args[k]
            elif nm in kwargs:
                env[nm] = kwargs[nm]
            else:
                d = defaults[k - (len(names) - len(defaults))]
                env[nm] = self.ev(d, env)
        if fn.args.vararg:
            env[fn.args.vararg.arg] = list(args[len(names):])
        return self.run(strip_doc(fn.body), env)

    def run(self, stmts, env):
        for s in stmts:
            if isinstance(s, ast.Return):
                return self.ev(s.value, env)
            if isinstance(s, ast.Assign):
                v = self.ev(s.value, env)
                t = s.targets[0]
                if isinstance(t, ast.Name):
                    env[t.id] = v
                elif isinstance(t, ast.Tuple):
                    vs = v if isinstance(v, (tuple, list)) else None
                    if vs is None or len(vs) != len(t.elts):
                        raise Untranslatable("tuple assignment of a non-tuple")
                    for e, x in zip(t.elts, vs):
                        if isinstance(e, ast.Name):
                            env[e.id] = x
                else:
                    raise Untranslatable("assignment target " + ast.unparse(t))
            elif isinstance(s, ast.AugAssign) and isinstance(s.target, ast.Name):
                op = {ast.Add: "+", ast.Sub: "-", ast.Mult: "*"}.get(type(s.op))
                env[s.target.id] = arith(op, env[s.target.id], self.ev(s.value, env))
            elif isinstance(s, ast.If):
                c = self.ev(s.test, env)
                if not isinstance(c, bool):
                    raise Untranslatable("non-static test " + ast.unparse(s.test))
                r = self.run(s.body if c else s.orelse, env)
                if r is not None:
                    return r
            elif isinstance(s, ast.FunctionDef):
                env[s.name] = Closure([a.arg for a in s.args.args], s, dict(env), self, is_def=True)
            elif isinstance(s, ast.For):
                it = self.ev(s.iter, env)
                if not isinstance(it, list):
                    raise Untranslatable("loop over a non-static sequence")
                for item in it:
                    if isinstance(s.target, ast.Tuple):
                        for e, x in zip(s.target.elts, item):
                            env[e.id] = x
                    else:
                        env[s.target.id] = item
                    r = self.run(s.body, env)
                    if r is not None:
                        return r
            elif isinstance(s, (ast.Raise, ast.Pass)):
                if isinstance(s, ast.Raise):
                    raise Untranslatable("reached a raise statement")
            elif isinstance(s, ast.Expr):
                pass
            else:
                raise Untranslatable("statement " + type(s).__name__)
        return None

    def apply(self, f, args, kwargs=None):
        kwargs = kwargs or {}
        if isinstance(f, Closure):
            if f.is_def:
                return self.call_def(f.body, args, kwargs, f.env)
            env = dict(f.env)
            if len(args) != len(f.params):
                raise Untranslatable("arity mismatch in a lambda call")
            env.update(zip(f.params, args))
            return self.ev(f.body, env)
        if isinstance(f, Net):
            # u(t, x, params) / u(x, params) / u(t, params): must be called at the ambient point
            pts = [a for a in args if isinstance(a, Ambient)]
            if [p.kind for p in pts] not in (["T", "X"], ["X"], ["T"]):
                raise Untranslatable("network called away from the ambient point")
            return Vec(lambda i: J(f"(JU {f.nid} {(IC(i) if isinstance(i, int) else i).coq()})"))
        if isinstance(f, GradF):
            val = self.apply(f.f, args)
            wrt = args[f.argnum]
            if not isinstance(wrt, Ambient):
                raise Untranslatable("grad w.r.t. a non-ambient argument")
            return GradV(val, "t" if wrt.kind == "T" else "x")
        if isinstance(f, HessF):
            return HessV(self.apply(f.f, args), "x" if args[f.argnum].kind == "X" else "t")
        if isinstance(f, JacF):
            v = self.apply(f.f, args)
            return JacV(v)
        if callable(f):
            return f(*args, **kwargs)
        raise Untranslatable("call of " + type(f).__name__)

    # -------------------------------------------------------------- expressions
    def ev(self, e, env):
        if isinstance(e, ast.Constant):
            return e.value
        if isinstance(e, ast.Name):
            if e.id in env:
                return env[e.id]
            if e.id in ("PINN", "SPINN", "None", "jnp", "jax", "grad"):
                return e.id
            raise Untranslatable("unbound name " + e.id)
        if isinstance(e, ast.Lambda):
            return Closure([a.arg for a in e.args.args], e.body, dict(env), self)
        if isinstance(e, ast.Tuple) or isinstance(e, ast.List):
            return [self.ev(x, env) for x in e.elts]
        if isinstance(e, ast.BinOp):
            a, b = self.ev(e.left, env), self.ev(e.right, env)
            if isinstance(a, (int, float)) and isinstance(b, (int, float)):
                return {ast.Add: a + b, ast.Sub: a - b, ast.Mult: a * b}.get(type(e.op), None) if type(e.op) in (ast.Add, ast.Sub, ast.Mult) else a / b
            op = {ast.Add: "+", ast.Sub: "-", ast.Mult: "*", ast.Div: "/"}.get(type(e.op))
            if op is None:
                raise Untranslatable("operator " + ast.unparse(e))
            return arith(op, a, b)
        if isinstance(e, ast.UnaryOp) and isinstance(e.op, ast.USub):
            v = self.ev(e.operand, env)
            if isinstance(v, (int, float)):
                return -v
            if isinstance(v, (Vec, GradV)):
                return Vec(lambda i: J(f"(JNeg {scal(comp(v, i)).coq()})"), getattr(v, "n", None))
            return J(f"(JNeg {scal(v).coq()})")
        if isinstance(e, ast.Compare) and len(e.ops) == 1:
            l, r = self.ev(e.left, env), self.ev(e.comparators[0], env)
            if isinstance(e.ops[0], ast.Is):
                return (l is None and r is None) or (l == "None" and r == "None") or (l is None and r == "None") or (l == "None" and r is None)
            if isinstance(e.ops[0], ast.IsNot):
                return not ((l is None or l == "None") and (r is None or r == "None"))
            if isinstance(e.ops[0], ast.Eq) and isinstance(l, (int, str)) and isinstance(r, (int, str)):
                return l == r
            raise Untranslatable("comparison " + ast.unparse(e))
        if isinstance(e, ast.BoolOp):
            vals = [self.ev(v, env) for v in e.values]
            if not all(isinstance(v, bool) for v in vals):
                raise Untranslatable("non-static boolean operation")
            return any(vals) if isinstance(e.op, ast.Or) else all(vals)
        if isinstance(e, ast.IfExp):
            c = self.ev(e.test, env)
            if not isinstance(c, bool):
                raise Untranslatable("non-static conditional expression")
            return self.ev(e.body if c else e.orelse, env)
        if isinstance(e, ast.Attribute):
            return self.attr(e, env)
        if isinstance(e, ast.Subscript):
            return self.subscript(e, env)
        if isinstance(e, ast.Call):
            return self.call(e, env)
        if isinstance(e, ast.Dict) and not e.keys:
            return {}
        raise Untranslatable("expression " + ast.unparse(e)[:60])

    def attr(self, e, env):
        src = ast.unparse(e)
        if src in ("jnp.ndarray",):
            return src
        base = self.ev(e.value, env) if not (isinstance(e.value, ast.Name) and e.value.id in ("jnp", "jax")) else e.value.id
        if isinstance(base, SelfObj):
            if e.attr in base.attrs:
                return base.attrs[e.attr]
            m = [n for n in base.cls.body if isinstance(n, ast.FunctionDef) and n.name == e.attr]
            if m:
                return Closure([a.arg for a in m[0].args.args][1:], m[0], {"self": base}, self, is_def=False) if False else (lambda *a, **k: self.call_def(m[0], (base,) + a, k, {}))
            raise Untranslatable("attribute self." + e.attr)
        if isinstance(base, ParamsObj) and e.attr == "eq_params":
            return EqParams(base.names)
        if isinstance(base, ParamsObj) and e.attr == "extract_params":
            return lambda key: base
        if isinstance(base, Ambient) and e.attr == "shape":
            return "SHAPE_" + base.kind
        if isinstance(base, Net) and e.attr == "slice_solution":
            return "SLICE_SOLUTION"
        if base in ("jnp", "jax"):
            return src
        raise Untranslatable("attribute " + src)

    def subscript(self, e, env):
        base = self.ev(e.value, env)
        sl = e.slice
        if isinstance(base, str) and base.startswith("SHAPE_"):
            k = self.ev(sl, env)
            if base == "SHAPE_X" and k in (0, -1):
                return self.dimval if self.dimval is not None else "DIM"
            raise Untranslatable("shape query " + ast.unparse(e))
        if isinstance(base, dict) or isinstance(base, EqParams):
            k = self.ev(sl, env)
            if isinstance(base, EqParams):
                if k not in base.names:
                    raise Untranslatable(f"unknown equation parameter {k!r}")
                return ParamVal(base.names[k])
            return base[k]
        # [..., None] / [None] add axes: identity on our values
        def is_newaxis(s):
            return (isinstance(s, ast.Constant) and s.value is None) or isinstance(s, ast.Constant) and s.value is Ellipsis
        if isinstance(sl, ast.Tuple) and all(is_newaxis(x) for x in sl.elts):
            return base
        if is_newaxis(sl):
            return base
        if isinstance(sl, ast.Tuple):
            ix = [self.ev(x, env) for x in sl.elts if not is_newaxis(x)]
            if isinstance(base, Mat) and len(ix) == 2:
                return base.fn(ix[0], ix[1])
            if isinstance(base, JacV) and len(ix) == 2:
                return J(f"(JDx {IC(ix[1]).coq()} {scal(comp(base.vec, ix[0])).coq()})")
            if len(ix) == 1:
                return comp(base, ix[0])
            raise Untranslatable("indexing " + ast.unparse(e))
        if isinstance(sl, ast.Slice):
            lo = self.ev(sl.lower, env) if sl.lower else 0
            hi = self.ev(sl.upper, env) if sl.upper else None
            if isinstance(lo, int) and isinstance(hi, int) and hi == lo + 1:
                return comp(base, lo)
            raise Untranslatable("slice " + ast.unparse(e))
        k = self.ev(sl, env)
        if k == "SLICE_SOLUTION":
            return comp(base, 0)
        if isinstance(base, list):
            return base[k]
        return comp(base, k)

    def call(self, e, env):
        fsrc = ast.unparse(e.func)
        A = lambda: [self.ev(a, env) for a in e.args]
        KW = lambda: {k.arg: self.ev(k.value, env) for k in e.keywords}
        if fsrc == "isinstance":
            v, t = self.ev(e.args[0], env), ast.unparse(e.args[1])
            if isinstance(v, Net):
                return "PINN" in t and "SPINN" not in t or t == "PINN" or t == "(PINN, HYPERPINN)"
            raise Untranslatable("isinstance on " + type(v).__name__)
        if fsrc in ("grad", "jax.grad"):
            a = A()
            return GradF(a[0], a[1] if len(a) > 1 else 0)
        if fsrc == "jax.hessian":
            a = A(); kw = KW()
            return HessF(a[0], kw.get("argnums", a[1] if len(a) > 1 else 0))
        if fsrc == "jax.jacrev":
            a = A()
            return JacF(a[0])
        if fsrc == "jnp.trace":
            h = A()[0]
            if not isinstance(h, HessV):
                raise Untranslatable("trace of a non-Hessian")
            inner = scal(h.val)
            if h.wrt == "t":       # Hessian w.r.t. the (one-entry) time argument
                return J(f"(JDt (JDt {inner.coq()}))")
            return J(f"(JSumDim (JDx IV (JDx IV {inner.coq()})))")
        if fsrc in ("jnp.squeeze", "jnp.atleast_1d", "jnp.asarray"):
            return A()[0]
        if fsrc == "jnp.expand_dims":
            v = A()[0]
            return Vec(lambda i: scal(v), 1)
        if fsrc in ("jnp.array", "jnp.stack"):
            items = A()[0]
            return Vec(lambda i: items[i] if isinstance(i, int) else (_ for _ in ()).throw(Untranslatable("symbolic index into a literal array")), len(items))
        if fsrc == "jnp.log":
            return J(f"(JLog {scal(A()[0]).coq()})")
        if fsrc == "jnp.arange":
            v = A()[0]
            return ("ARANGE", v)
        if fsrc == "jax.lax.scan":
            a = A()
            f, rng = a[0], a[2]
            if not (isinstance(rng, tuple) and rng[0] == "ARANGE"):
                raise Untranslatable("scan over something else than arange")
            n = rng[1]
            body = lambda i: self.apply(f, [{}, i])[1]
            if n == "DIM":
                return [None, ("SCAN_DIM", body)]
            if isinstance(n, int):
                return [None, Vec(lambda i: body(i), n)]
            raise Untranslatable("scan length")
        if fsrc == "jnp.sum":
            v = A()[0]
            if isinstance(v, tuple) and v[0] == "SCAN_DIM":
                return J(f"(JSumDim {scal(v[1](IV)).coq()})")
            raise Untranslatable("sum of a non-scan")
        if fsrc == "jnp.diag":
            p = A()[0]
            return Mat(lambda i, j: comp(p, i) if i == j else 0)
        if fsrc == "jnp.transpose":
            m = A()[0]
            return Mat(lambda i, j: m.fn(j, i))
        if fsrc == "jnp.matmul":
            a, b = A()
            return Mat(lambda i, j: arith("+", arith("*", a.fn(i, 0), b.fn(0, j)), arith("*", a.fn(i, 1), b.fn(1, j))))
        if fsrc == "enumerate":
            return list(enumerate(A()[0]))
        if fsrc in ("_laplacian_rev", "_div_rev", "_vectorial_laplacian", "_u_dot_nabla_times_u_rev"):
            return self.call_def(find_func(self.ops_mod, fsrc), A(), KW(), {})
        f = self.ev(e.func, env)
        return self.apply(f, A(), KW())


def as_list(v, n):
    """a returned vector as n jx strings"""
    return [scal(comp(v, i)).coq() for i in range(n)]


def as_scalar(v):
    """a returned value of one component"""
    if isinstance(v, (Vec, GradV)) or (isinstance(v, Ambient) and v.kind == "X"):
        return scal(comp(v, 0)).coq()
    return scal(v).coq()
