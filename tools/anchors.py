"""Anchor table of the translator: which expressions of /repo/jinns are regenerated
into which Gallina definitions.  Every function returns Coq text or raises
Untranslatable (fail closed)."""
import ast, copy
from trcore import (anchor, header, parse, find_func, assigns, one, returns, zexpr, kexpr,
                    Untranslatable, strip_doc)

DG = "jinns/data/_DataGenerators.py"
RAR = "jinns/solver/_rar.py"
SOLVE = "jinns/solver/_solve.py"
VAL = "jinns/validation/_validation.py"

ZHDR = """From Coq Require Import ZArith Bool List.
From JV Require Import Kit.GenTypes.
Import ListNotations.
Open Scope Z_scope.
Definition int32_max : Z := 2147483647.
"""


def inline_locals(e, fn, depth=4):
    """replace local names that have exactly one plain assignment in fn by their value"""
    class T(ast.NodeTransformer):
        def visit_Name(self, n):
            if isinstance(n.ctx, ast.Load):
                vs = [v for v in assigns(fn, n.id) if not isinstance(v, ast.AugAssign)]
                if len(vs) == 1 and not any(isinstance(x, ast.AugAssign) for x in assigns(fn, n.id)):
                    return copy.deepcopy(vs[0])
            return n
    for _ in range(depth):
        e2 = T().visit(copy.deepcopy(e))
        if ast.dump(e2) == ast.dump(e):
            break
        e = e2
    return e


def kwarg(call, name):
    for k in call.keywords:
        if k.arg == name:
            return k.value
    raise Untranslatable(f"keyword {name} missing in {ast.unparse(call)[:60]}")


def calls_to(fn, fname):
    return [n for n in ast.walk(fn) if isinstance(n, ast.Call) and ast.unparse(n.func) == fname]


# =============================================================== G_datagen
header("G_datagen", ZHDR)


@anchor("G_datagen", "epoch_done")
def _(repo):
    f = find_func(parse(repo, DG), "_reset_or_increment")
    r = one(returns(f), "return of _reset_or_increment")
    if not (isinstance(r, ast.Call) and ast.unparse(r.func) == "jax.lax.cond" and len(r.args) == 4):
        raise Untranslatable("not a jax.lax.cond with 4 arguments")
    test, bt, bf, _ops = r.args
    names = (ast.unparse(bt), ast.unparse(bf))
    if names == ("_reset_batch_idx_and_permute", "_increment_batch_idx"):
        tr = "true"
    elif names == ("_increment_batch_idx", "_reset_batch_idx_and_permute"):
        tr = "false"
    else:
        raise Untranslatable(f"unknown branches {names}")
    return (f"Definition gen_epoch_done (bend n_eff : Z) : bool := {zexpr(test, {'bend': 'bend', 'n_eff': 'n_eff'})}.\n"
            f"Definition gen_true_branch_resets : bool := {tr}.")


@anchor("G_datagen", "incr")
def _(repo):
    f = find_func(parse(repo, DG), "_increment_batch_idx")
    a = one(assigns(f, "curr_idx"), "assignment to curr_idx")
    env = {"curr_idx": "curr_idx", "batch_size": "batch_size"}
    if isinstance(a, ast.AugAssign):
        e = ast.BinOp(left=ast.Name("curr_idx", ast.Load()), op=a.op, right=a.value)
    else:
        e = a
    r = one(returns(f), "return")
    if ast.unparse(r) != "(key, domain, curr_idx)":
        raise Untranslatable("unexpected return " + ast.unparse(r))
    return f"Definition gen_incr (curr_idx batch_size : Z) : Z := {zexpr(e, env)}."


@anchor("G_datagen", "reset")
def _(repo):
    f = find_func(parse(repo, DG), "_reset_batch_idx_and_permute")
    vals = [v for v in assigns(f, "curr_idx")]
    a = one(vals, "assignment to curr_idx")
    c = one(calls_to(f, "jax.random.choice"), "jax.random.choice call")
    dom = one(assigns(f, "domain"), "assignment to domain")
    ok = (dom is c and len(c.args) == 2 and ast.unparse(c.args[1]) == "domain"
          and ast.unparse(kwarg(c, "shape")) == "(domain.shape[0],)"
          and ast.unparse(kwarg(c, "replace")) == "False" and ast.unparse(kwarg(c, "p")) == "p")
    r = one(returns(f), "return")
    if ast.unparse(r) != "(key, domain, curr_idx)":
        raise Untranslatable("unexpected return " + ast.unparse(r))
    return (f"Definition gen_reset_idx : Z := {zexpr(a, {})}.\n"
            f"(* domain = jax.random.choice(subkey, domain, shape=(domain.shape[0],), replace=False, p=p) *)\n"
            f"Definition gen_reshuffle_full_noreplace : bool := {'true' if ok else 'false'}.")


# (kind, class, method, store attr, idx attr, batch-size attr, n attr, n_start attr, selected-size key)
CURSORS = [
    ("ode_t", "DataGeneratorODE", "temporal_batch", "times", "curr_time_idx", "temporal_batch_size", "nt", "nt_start", "selected_sample_size_times"),
    ("omega", "CubicMeshPDEStatio", "inside_batch", "omega", "curr_omega_idx", "omega_batch_size", "n", "n_start", "selected_sample_size_omega"),
    ("border", "CubicMeshPDEStatio", "border_batch", "omega_border", "curr_omega_border_idx", "omega_border_batch_size", "nb", None, None),
    ("pde_t", "CubicMeshPDENonStatio", "temporal_batch", "times", "curr_time_idx", "temporal_batch_size", "nt", "nt_start", "selected_sample_size_times"),
    ("obs", "DataGeneratorObservations", "obs_batch", "indices", "curr_idx", "obs_batch_size", "n", None, None),
]


def cursor_anchor(kind, cls, meth, store, idx, bs, n, nstart, selkey):
    def fn(repo):
        mod = parse(repo, DG)
        f = find_func(mod, meth, cls)
        c = one(calls_to(f, "_reset_or_increment"), "_reset_or_increment call")
        env = {f"self.{idx}": "idx", f"self.{bs}": "bs", f"self.{n}": "n"}
        if kind == "border":
            # the model's n is the number of stored rows; nb counts every facet (dim = 2)
            env = {f"self.{idx}": "idx", f"self.{bs}": "bs", "self.nb": "(4 * n)", "self.dim": "2"}
        if nstart:
            env.update({f"self.{nstart}": "n_start", "self.rar_iter_nb": "rar_iter_nb",
                        f"self.rar_parameters['{selkey}']": "sel",
                        f"self.rar_parameters['{selkey.replace('selected_', '')}']": "cand"})        # (the number of candidates drawn per step)
        bend = inline_locals(c.args[0], f)
        out = [f"Definition gen_bend_{kind} (idx bs : Z) : Z := {zexpr(bend, env)}."]
        neff = c.args[1]
        if isinstance(neff, ast.Name):
            vs = assigns(f, neff.id)
            if len(vs) == 2 and nstart:
                # if self.rar_parameters is not None: n_eff = RAR expr else: n_eff = plain
                iff = [s for s in ast.walk(f) if isinstance(s, ast.If) and ast.unparse(s.test) == "self.rar_parameters is not None"]
                i0 = one(iff, "if self.rar_parameters is not None")
                rar_v = one(assigns(ast.Module(body=i0.body, type_ignores=[]), neff.id), "RAR n_eff")
                plain_v = one(assigns(ast.Module(body=i0.orelse, type_ignores=[]), neff.id), "plain n_eff")
                out.append(f"Definition gen_neff_rar_{kind} (n_start rar_iter_nb sel cand : Z) : Z := {zexpr(rar_v, env)}.")
                out.append(f"Definition gen_neff_plain_{kind} (n : Z) : Z := {zexpr(plain_v, env)}.")
            else:
                raise Untranslatable("unexpected n_eff structure")
        else:
            out.append(f"Definition gen_neff_plain_{kind} (n : Z) : Z := {zexpr(neff, env)}.")
        # operands: (key, store, idx, bs, p)
        getter = [k for k in ast.walk(c.args[2]) if isinstance(k, ast.Call)]
        if getter:
            g = find_func(mod, getter[0].func.attr, cls)
            ops = one(returns(g), "operands")
        else:
            ops = c.args[2]
        ops_s = [ast.unparse(x) for x in ops.elts]
        ok_ops = ops_s[1:4] == [f"self.{store}", f"self.{idx}", f"self.{bs}"]
        # slice: taken from the UPDATED object at the UPDATED cursor
        sl = one(calls_to(f, "jax.lax.dynamic_slice"), "dynamic_slice")
        src = ast.unparse(sl.args[0])
        start = ast.unparse(kwarg(sl, "start_indices"))
        sizes = ast.unparse(kwarg(sl, "slice_sizes"))
        ok_slice = (src == f"new.{store}" and start.startswith(f"(new.{idx},") and sizes.startswith(f"(new.{bs},"))
        ta = [k for k in calls_to(f, "eqx.tree_at")]
        ok_ta = len(ta) == 1 and ast.unparse(ta[0].args[0]).replace(" ", "") == f"lambdam:(m.key,m.{store},m.{idx})" and ast.unparse(ta[0].args[1]) == "self"
        out.append(f"(* operands {ops_s}; slice of {src} at {start} sizes {sizes} *)")
        out.append(f"Definition gen_wiring_ok_{kind} : bool := {'true' if (ok_ops and ok_slice and ok_ta) else 'false'}.")
        # initial cursor
        pi = find_func(mod, "__post_init__", cls)
        iv = one([v for v in assigns(pi, f"self.{idx}") if not (isinstance(v, ast.Constant) and v.value is None)], "initial cursor")
        out.append(f"Definition gen_init_idx_{kind} (bs : Z) : Z := {zexpr(iv, {'jnp.iinfo(jnp.int32).max': 'int32_max', f'self.{bs}': 'bs'})}.")
        return "\n".join(out)
    return fn


for row in CURSORS:
    anchor("G_datagen", "cursor_" + row[0])(cursor_anchor(*row))


@anchor("G_datagen", "cursor_param")
def _(repo):
    mod = parse(repo, DG)
    f = find_func(mod, "param_batch", "DataGeneratorParameter")
    w = one([n for n in ast.walk(f) if isinstance(n, ast.FunctionDef) and n.name == "_reset_or_increment_wrapper"], "wrapper")
    if [a.arg for a in w.args.args] != ["param_k", "idx_k", "key_k"]:
        raise Untranslatable("wrapper arguments changed")
    c = one(calls_to(w, "_reset_or_increment"), "call")
    env = {"idx_k": "idx", "self.param_batch_size": "bs", "self.n": "n"}
    ops = [ast.unparse(x) for x in c.args[2].elts]
    tm = calls_to(f, "jax.tree_util.tree_map")
    first = [ast.unparse(x) for x in tm[0].args] if tm else []
    ok = ops[1:4] == ["param_k", "idx_k", "self.param_batch_size"] and first == ["_reset_or_increment_wrapper", "self.param_n_samples", "self.curr_param_idx", "self.keys"]
    sl = one(calls_to(f, "jax.lax.dynamic_slice"), "dynamic_slice")
    ok = ok and ast.unparse(sl.args[0]) == "p" and ast.unparse(kwarg(sl, "start_indices")) == "(q, 0)" and ast.unparse(kwarg(sl, "slice_sizes")) == "(new.param_batch_size, 1)"
    last = tm[-1]
    ok = ok and [ast.unparse(x) for x in last.args[1:]] == ["new.param_n_samples", "new.curr_param_idx"]
    pi = find_func(mod, "__post_init__", "DataGeneratorParameter")
    iv = one(assigns(pi, "self.curr_param_idx[k]"), "initial cursor")
    return "\n".join([
        f"Definition gen_bend_param (idx bs : Z) : Z := {zexpr(c.args[0], env)}.",
        f"Definition gen_neff_plain_param (n : Z) : Z := {zexpr(c.args[1], env)}.",
        f"Definition gen_wiring_ok_param : bool := {'true' if ok else 'false'}.",
        f"Definition gen_init_idx_param (bs : Z) : Z := {zexpr(iv, {'jnp.iinfo(jnp.int32).max': 'int32_max', 'self.param_batch_size': 'bs'})}.",
    ])


# ---------------------------------------------------------------- cartesian products (C14)
@anchor("G_datagen", "cartesian")
def _(repo):
    mod = parse(repo, DG)
    f = find_func(mod, "make_cartesian_product")
    if [a.arg for a in f.args.args] != ["b1", "b2"]:
        raise Untranslatable("arguments of make_cartesian_product changed")
    n1 = ast.unparse(one(assigns(f, "n1"), "n1")); n2 = ast.unparse(one(assigns(f, "n2"), "n2"))
    if (n1, n2) != ("b1.shape[0]", "b2.shape[0]"):
        raise Untranslatable("n1/n2 are not the leading sizes")
    v1 = ast.unparse(one(assigns(f, "b1"), "b1")); v2 = ast.unparse(one(assigns(f, "b2"), "b2"))
    # how each factor is expanded: "repeat by the other's size" / "tile by the other's size"
    def mode(v, me, other_n):
        if v == f"jnp.repeat({me}, {other_n}, axis=0)":
            return "ExpRepeat"
        if v.startswith(f"jnp.tile({me}, reps=({other_n},)"):
            return "ExpTile"
        raise Untranslatable("unknown expansion " + v)
    m1, m2 = mode(v1, "b1", "n2"), mode(v2, "b2", "n1")
    r = ast.unparse(one(returns(f), "return"))
    if r == "jnp.concatenate([b1, b2], axis=1)":
        order = "true"
    elif r == "jnp.concatenate([b2, b1], axis=1)":
        order = "false"
    else:
        raise Untranslatable("unknown return " + r)
    return (f"(* b1 = {v1}; b2 = {v2}; return {r} *)\n"
            f"Definition gen_cart_first : expansion := {m1}.\nDefinition gen_cart_second : expansion := {m2}.\n"
            f"Definition gen_cart_first_then_second : bool := {order}.")


@anchor("G_datagen", "nonstatio_get_batch")
def _(repo):
    mod = parse(repo, DG)
    f = find_func(mod, "get_batch", "CubicMeshPDENonStatio")
    body = strip_doc(f.body)
    draws = [ast.unparse(s.value) for s in body[:3] if isinstance(s, ast.Assign)]
    order_ok = draws == ["self.inside_batch()", "new.border_batch()", "new.temporal_batch()"]
    tgt = [ast.unparse(s.targets[0]) for s in body[:3] if isinstance(s, ast.Assign)]
    order_ok = order_ok and tgt == ["(new, x)", "(new, dx)", "(new, t)"]
    src = ast.unparse(f)
    inside_cart = "t_x = make_cartesian_product(t, x)" in src
    inside_pair = "t_x = jnp.concatenate([t, x], axis=1)" in src
    iff = [s for s in body if isinstance(s, ast.If) and ast.unparse(s.test) == "new.cartesian_product"]
    c0 = one(iff, "if new.cartesian_product")
    branch_ok = ast.unparse(c0.body[0]) == "t_x = make_cartesian_product(t, x)" and ast.unparse(c0.orelse[0]) == "t_x = jnp.concatenate([t, x], axis=1)"
    bo = [s for s in ast.walk(f) if isinstance(s, ast.If) and ast.unparse(s.test) == "new.cartesian_product or new.dim == 1"]
    b0 = one(bo, "border if")
    border_ok = (ast.unparse(b0.body[0]) == "t_dx = make_cartesian_product(t_, dx)" and ast.unparse(b0.orelse[0]) == "t_dx = jnp.concatenate([t_, dx], axis=1)"
                 and "t_ = jnp.repeat(t_, dx.shape[-1], axis=2)" in src and "t_ = t.reshape(new.temporal_batch_size, 1, 1)" in src)
    ret = ast.unparse(one(returns(f), "return")).replace(" ", "")
    ret_ok = ret == "(new,PDENonStatioBatch(times_x_inside_batch=t_x,times_x_border_batch=t_dx))"
    return (f"(* draws: {draws} *)\n"
            f"Definition gen_nonstatio_draw_order_ok : bool := {'true' if order_ok else 'false'}.\n"
            f"Definition gen_nonstatio_inside_ok : bool := {'true' if (inside_cart and inside_pair and branch_ok) else 'false'}.\n"
            f"Definition gen_nonstatio_border_ok : bool := {'true' if border_ok else 'false'}.\n"
            f"Definition gen_nonstatio_return_ok : bool := {'true' if ret_ok else 'false'}.")


# ---------------------------------------------------------------- loaders (C15)
def tr_block(stmts, cur, target, classify, test_env):
    """sequential semantics of a statement list w.r.t. one assigned target -> Coq term.
    Assignments to `target` update the current value, `raise` aborts with PErr, if/elif/else
    branch; everything else is skipped."""
    if not stmts:
        return cur
    s, rest = stmts[0], stmts[1:]
    if isinstance(s, ast.Assign) and len(s.targets) == 1 and ast.unparse(s.targets[0]) == target:
        return tr_block(rest, classify(s.value), target, classify, test_env)
    if isinstance(s, ast.Raise):
        return "PErr"
    if isinstance(s, ast.If):
        t = zexpr(s.test, test_env)
        return (f"(if {t} then {tr_block(list(s.body) + rest, cur, target, classify, test_env)} "
                f"else {tr_block(list(s.orelse) + rest, cur, target, classify, test_env)})")
    if isinstance(s, (ast.Assign, ast.Expr, ast.AugAssign)):
        return tr_block(rest, cur, target, classify, test_env)
    raise Untranslatable("statement outside the grammar: " + ast.unparse(s)[:60])


@anchor("G_datagen", "param_store")
def _(repo):
    mod = parse(repo, DG)
    f = find_func(mod, "generate_data", "DataGeneratorParameter")
    loop = one([s for s in f.body if isinstance(s, ast.For) and ast.unparse(s.target) == "k"], "for k in all_keys")
    if ast.unparse(loop.iter) != "all_keys" or ast.unparse(one(assigns(f, "all_keys"), "all_keys")) != "set().union(self.param_ranges, self.user_data)":
        raise Untranslatable("key set changed")

    def classify(v):
        u = ast.unparse(v)
        if u == "self.user_data[k]":
            return "PTable"
        if u == "self.user_data[k][:, None]":
            return "PTableAsColumn"
        if u.startswith("jax.random.uniform(") and "minval=xmin" in u and "maxval=xmax" in u:
            return "PRangeUniform"
        if "jnp.arange" in u and u.endswith("[:, None]"):
            return "PRangeGrid"
        raise Untranslatable("unknown store expression " + u)
    env = {"self.user_data and k in self.user_data.keys()": "has_table",
           "self.user_data[k].shape == (self.n, 1)": "shape_n1",
           "self.user_data[k].shape == (self.n,)": "shape_n",
           "self.method == 'grid'": "grid", "self.method == 'uniform'": "(negb grid && uniform)"}
    body = tr_block(list(loop.body), "PUnset", "param_n_samples[k]", classify, env)
    return ("Definition gen_param_store (has_table shape_n1 shape_n grid uniform : bool) : pstore :=\n  " + body + ".")


@anchor("G_datagen", "obs_gather")
def _(repo):
    mod = parse(repo, DG)
    f = find_func(mod, "obs_batch", "DataGeneratorObservations")
    sl = one(calls_to(f, "jax.lax.dynamic_slice"), "dynamic_slice")
    idxname = one([ast.unparse(n.targets[0]) for n in ast.walk(f) if isinstance(n, ast.Assign) and n.value is sl], "index variable")
    takes = calls_to(f, "jnp.take")
    srcs = sorted(ast.unparse(t.args[0]) for t in takes)
    same = all(ast.unparse(t.args[1]) == idxname and ast.unparse(kwarg(t, "axis")) == "0" for t in takes)
    d = one([n for n in ast.walk(f) if isinstance(n, ast.Dict)], "batch dict")
    keys = [k.value for k in d.keys]
    vals = [ast.unparse(v) for v in d.values]
    ok = (same and srcs == ["a", "new.observed_pinn_in", "new.observed_values"] and keys == ["pinn_in", "val", "eq_params"]
          and "new.observed_pinn_in" in vals[0] and "new.observed_values" in vals[1] and vals[2].startswith("jax.tree_util.tree_map(lambda a: jnp.take(a,") and vals[2].rstrip(")").endswith("new.observed_eq_params"))
    mp = find_func(mod, "obs_batch", "DataGeneratorObservationsMultiPINNs")
    msrc = ast.unparse(mp)
    mok = ("lambda a: a.get_batch() if a is not None else {}" in msrc and "lambda a: a[0]" in msrc and "lambda a: a[1]" in msrc
           and "eqx.tree_at(lambda m: m.data_gen_obs, self, new_attribute)" in msrc)
    # construction: one loader per network, its three tables matched BY KEY (tree_map over dictionaries with equal key sets)
    pi = find_func(mod, "__post_init__", "DataGeneratorObservationsMultiPINNs")
    built = one(assigns(pi, "self.data_gen_obs"), "self.data_gen_obs")
    bsrc = ast.unparse(built)
    mok = (mok and isinstance(built, ast.Call) and ast.unparse(built.func) == "jax.tree_util.tree_map"
           and [ast.unparse(a) for a in built.args[1:]] == ["keys", "self.observed_pinn_in_dict", "self.observed_values_dict", "self.observed_eq_params_dict"]
           and "DataGeneratorObservations(k, self.obs_batch_size, pinn_in, val, eq_params) if pinn_in is not None else None" in bsrc
           and ast.unparse(built.args[0].args).replace(" ", "") == "k,pinn_in,val,eq_params")
    return (f"(* index variable {idxname}; tables {srcs}; keys {keys} *)\n"
            f"Definition gen_obs_gather_same_indices : bool := {'true' if ok else 'false'}.\n"
            f"Definition gen_multi_obs_wiring : bool := {'true' if mok else 'false'}.")


# =============================================================== G_rar (C16, C17)
header("G_rar", ZHDR)
RENV = {"data.rar_parameters['start_iter']": "start", "data.rar_parameters['update_every']": "every",
        "rar_parameters['update_every']": "every",
        "data.rar_iter_from_last_sampling": "cnt", "data.rar_iter_nb": "J", "i": "i",
        "jnp.count_nonzero(data.p_times == 0)": "zeros", "jnp.count_nonzero(data.p_omega == 0)": "zeros",
        "data.rar_parameters['selected_sample_size_times']": "sel", "data.rar_parameters['selected_sample_size_omega']": "sel"}


def wrap(stmts):
    return ast.Module(body=list(stmts), type_ignores=[])


# the generator kinds, with the classes an instance of each kind is an instance of (non-stationary derives from stationary)
RAR_KINDS = {"ode": {"DataGeneratorODE"}, "statio": {"CubicMeshPDEStatio"}, "ns": {"CubicMeshPDENonStatio", "CubicMeshPDEStatio"}}
RAR_DIMS = {"ode": ["t"], "statio": ["x"], "ns": ["t", "x"]}


def _isinstance_holds(test, classes):
    if not (isinstance(test, ast.Call) and ast.unparse(test.func) == "isinstance" and len(test.args) == 2 and ast.unparse(test.args[0]) == "data"):
        raise Untranslatable("capacity block guarded by " + ast.unparse(test))
    names = [ast.unparse(e) for e in (test.args[1].elts if isinstance(test.args[1], ast.Tuple) else [test.args[1]])]
    return any(n in classes for n in names)


def _appended(stmts, classes):
    """expressions appended to check_list for a generator whose classes are `classes` (if / elif / else on isinstance)"""
    out = []
    for s in stmts:
        if isinstance(s, ast.If):
            out += _appended(s.body if _isinstance_holds(s.test, classes) else s.orelse, classes)
        elif isinstance(s, ast.Expr) and isinstance(s.value, ast.Call) and ast.unparse(s.value.func) == "check_list.append":
            out.append(s.value.args[0])
        elif isinstance(s, ast.Expr) and isinstance(s.value, ast.Constant):
            continue
        elif isinstance(s, (ast.Assign, ast.Return)):
            continue
        else:
            raise Untranslatable("statement outside the grammar in _proceed_to_rar: " + ast.unparse(s)[:60])
    return out


@anchor("G_rar", "proceed")
def _(repo):
    f = find_func(parse(repo, RAR), "_proceed_to_rar")
    cl = one(assigns(f, "check_list"), "check_list")
    if not isinstance(cl, ast.List) or len(cl.elts) != 2:
        raise Untranslatable("check_list is not a two-element list")
    out = [f"Definition gen_rar_burnin_ok (start i : Z) : bool := {zexpr(cl.elts[0], RENV)}.",
           f"Definition gen_rar_period_ok (every cnt : Z) : bool := {zexpr(cl.elts[1], RENV)}."]
    body = [s for s in f.body if not (isinstance(s, ast.Assign) and ast.unparse(s.targets[0]) == "check_list")]
    for kind, classes in RAR_KINDS.items():
        checks = _appended(body, classes)
        for d in RAR_DIMS[kind]:
            arr = {"t": "data.p_times", "x": "data.p_omega"}[d]
            mine = [c for c in checks if arr in ast.unparse(c)]
            term = " && ".join(f"({zexpr(c, RENV)})" for c in mine) or "true"      # no check at all: refinement is never stopped by this store
            out.append(f"Definition gen_rar_capacity_ok_{kind}_{d} (sel zeros : Z) : bool := {term}.")
        other = [c for c in checks if not any(a in ast.unparse(c) for a in ({"t": "data.p_times", "x": "data.p_omega"}[d] for d in RAR_DIMS[kind]))]
        if other:
            raise Untranslatable(f"{kind}: a capacity test on a store the generator does not have")
    pr = ast.unparse(one(assigns(f, "proceed"), "proceed"))
    if pr != "jnp.all(jnp.array(check_list))" or ast.unparse(one(returns(f), "return")) != "proceed":
        raise Untranslatable("proceed is not the conjunction of check_list")
    t = find_func(parse(repo, RAR), "trigger_rar")
    c = one(calls_to(t, "jax.lax.cond"), "cond in trigger_rar")
    ok = [ast.unparse(a) for a in c.args] == ["_proceed_to_rar(data, i)", "_rar_step_true", "_rar_step_false", "(loss, params, data, i)"]
    out.append(f"Definition gen_rar_trigger_wiring : bool := {'true' if ok else 'false'}.")
    return "\n".join(out)


@anchor("G_rar", "step_false")
def _(repo):
    f = find_func(parse(repo, RAR), "rar_step_false")
    c = one(calls_to(f, "jax.lax.cond"), "cond")
    if len(c.args) != 3 or not all(isinstance(a, ast.Lambda) for a in c.args[1:]):
        raise Untranslatable("increment is not cond(test, lambda: a, lambda: b)")
    inc = f"(if {zexpr(c.args[0], RENV)} then {zexpr(c.args[1].body, RENV)} else {zexpr(c.args[2].body, RENV)})"
    new = one(assigns(f, "new_rar_iter_from_last_sampling"), "new counter")
    e = zexpr(new, dict(RENV, increment="incr"))
    return (f"Definition gen_rar_incr (i start : Z) : Z := {inc}.\n"
            f"Definition gen_rar_count (cnt incr : Z) : Z := {e}.")


@anchor("G_rar", "init")
def _(repo):
    f = find_func(parse(repo, RAR), "init_rar")
    f = _LiveModuleBranch().visit(copy.deepcopy(f))
    # the counter reset must be kept: `data = eqx.tree_at(<counter>, data, ...)`, and `data` is what init_rar returns
    ta = [n.value for n in ast.walk(f) if isinstance(n, ast.Assign) and ast.unparse(n.targets[0]) == "data" and isinstance(n.value, ast.Call)
          and ast.unparse(n.value.func) == "eqx.tree_at" and "rar_iter_from_last_sampling" in ast.unparse(n.value.args[0])]
    c = one(ta, "data = tree_at on the counter")
    if ast.unparse(c.args[1]) != "data" or ast.unparse(one(returns(f), "return of init_rar")) != "(data, _rar_step_true, _rar_step_false)":
        raise Untranslatable("init_rar does not return the updated generator")
    g = find_func(parse(repo, DG), "_check_and_set_rar_parameters")
    i0 = one([s for s in g.body if isinstance(s, ast.If) and ast.unparse(s.test) == "rar_parameters is not None" and s.orelse], "rar block")
    cnt0 = one(assigns(wrap(i0.body), "rar_iter_from_last_sampling"), "ctor counter")
    j0 = one(assigns(wrap(i0.body), "rar_iter_nb"), "ctor step number")
    ps = [ast.unparse(v) for v in assigns(wrap(i0.body), "p")]
    if ps != ["jnp.zeros((n,))", "p.at[:n_start].set(1 / n_start)"]:
        raise Untranslatable("initial p built differently: " + str(ps))
    # init_rar may re-arm the period counter and nothing else: every functional update of the generator in it is listed
    upd = [ast.unparse(n.value.args[0]) for n in ast.walk(f) if isinstance(n, ast.Assign) and isinstance(n.value, ast.Call)
           and ast.unparse(n.value.func) == "eqx.tree_at" and ast.unparse(n.targets[0]) == "data"]
    stores = [ast.unparse(t) for n in ast.walk(f) if isinstance(n, (ast.Assign, ast.AugAssign)) for t in (n.targets if isinstance(n, ast.Assign) else [n.target])
              if isinstance(t, ast.Attribute) and ast.unparse(t).startswith("data.")]
    only_counter = upd == ["lambda m: m.rar_iter_from_last_sampling"] and not stores
    return (f"Definition gen_rar_init_touches_only_the_counter : bool := {'true' if only_counter else 'false'}.\n"
            f"Definition gen_rar_init_counter (every : Z) : Z := {zexpr(c.args[2], RENV)}.\n"
            f"Definition gen_rar_ctor_counter (every : Z) : Z := {zexpr(cnt0, RENV)}.\n"
            f"Definition gen_rar_ctor_step : Z := {zexpr(j0, RENV)}.\n"
            f"(* p = zeros(n).at[:n_start].set(1 / n_start) *)\nDefinition gen_rar_ctor_active (n_start : Z) : Z := n_start.")


class _LiveModuleBranch(ast.NodeTransformer):
    """`if isinstance(data, eqx.Module): A else: B` -> A (the generators are equinox modules; B is a legacy path)"""
    def visit_If(self, n):
        self.generic_visit(n)
        if ast.unparse(n.test) == "isinstance(data, eqx.Module)":
            return n.body
        return n


def _branch(fn, test_src):
    fn = _LiveModuleBranch().visit(copy.deepcopy(fn))
    for s in ast.walk(fn):
        if isinstance(s, ast.If):
            cur = s
            while True:
                if ast.unparse(cur.test) == test_src:
                    return cur.body
                if len(cur.orelse) == 1 and isinstance(cur.orelse[0], ast.If):
                    cur = cur.orelse[0]
                else:
                    break
    raise Untranslatable("branch not found: " + test_src)


def _dus(body, arr):
    """the dynamic_update_slice whose first argument is `arr`"""
    return one([c for c in calls_to(wrap(body), "jax.lax.dynamic_update_slice") if ast.unparse(c.args[0]) == arr], f"dynamic_update_slice on {arr}")


def _single_dim(kind, body, store, p, nstart):
    env = {f"data.{nstart}": "n_start", "data.rar_iter_nb": "J", "selected_sample_size": "sel", "i": "k",
           "mse_on_s.shape[0]": "ncand"}
    out = []
    u = _dus(body, f"data.{store}")
    out.append(f"Definition gen_rar_offset_{kind} (n_start J sel : Z) : Z := {zexpr(u.args[2].elts[0], env)}.")
    pre = [v for v in assigns(wrap(body), f"new_p_{'times' if p == 'p_times' else 'omega'}") if isinstance(v, ast.Call) and ".at[" in ast.unparse(v)]
    pv = one(pre, "prefix set of p")
    sl = pv.func.value.slice  # p.at[: n_start].set
    if not (isinstance(sl, ast.Slice) and sl.lower is None and ast.unparse(pv.func.value.value.value) == f"data.{p}"):
        raise Untranslatable("prefix update changed: " + ast.unparse(pv))
    out.append(f"Definition gen_rar_pprefix_{kind} (n_start : Z) : Z := {zexpr(sl.upper, env)}.")
    us = one([n for n in ast.walk(wrap(body)) if isinstance(n, ast.FunctionDef) and n.name == "update_slices"], "update_slices")
    d = one(calls_to(us, "jax.lax.dynamic_update_slice"), "slice update of p")
    if ast.unparse(d.args[0]) != "p" or "jnp.ones((selected_sample_size,))" not in ast.unparse(d.args[1]):
        raise Untranslatable("p slice update changed")
    out.append(f"Definition gen_rar_pslice_start_{kind} (n_start k sel : Z) : Z := {zexpr(d.args[2].elts[0], env)}.")
    fl = one(calls_to(wrap(body), "jax.lax.fori_loop"), "fori_loop")
    hi = inline_locals(fl.args[1], wrap(body))
    if ast.unparse(fl.args[2]) != "update_slices" or ast.unparse(fl.args[3]) != f"data.{p}":
        raise Untranslatable("fori_loop wiring changed")
    out.append(f"Definition gen_rar_ploop_lo_{kind} : Z := {zexpr(fl.args[0], env)}.")
    out.append(f"Definition gen_rar_ploop_hi_{kind} (J : Z) : Z := {zexpr(hi, env)}.")
    nj = one(assigns(wrap(body), "new_rar_iter_nb"), "new step number")
    out.append(f"Definition gen_rar_newJ_{kind} (J : Z) : Z := {zexpr(nj, env)}.")
    ds = one(calls_to(wrap(body), "jax.lax.dynamic_slice"), "selection slice")
    if ast.unparse(ds.args[0]) != "jnp.argsort(mse_on_s)" or ast.unparse(ds.args[2]) != "(selected_sample_size,)":
        raise Untranslatable("selection changed: " + ast.unparse(ds)[:80])
    out.append(f"Definition gen_rar_select_start_{kind} (ncand sel : Z) : Z := {zexpr(ds.args[1].elts[0], env)}.")
    hp = ast.unparse(one(assigns(wrap(body), "higher_residual_points"), "chosen points"))
    out.append(f"Definition gen_rar_select_wiring_{kind} : bool := {'true' if hp == 'new_omega_samples[higher_residual_idx]' and ast.unparse(u.args[1]) == 'higher_residual_points' else 'false'}.")
    return "\n".join(out)


@anchor("G_rar", "step_true_ode")
def _(repo):
    f = find_func(parse(repo, RAR), "rar_step_true")
    return _single_dim("ode", _branch(f, "isinstance(data, DataGeneratorODE)"), "times", "p_times", "nt_start")


@anchor("G_rar", "step_true_statio")
def _(repo):
    f = find_func(parse(repo, RAR), "rar_step_true")
    return _single_dim("statio", _branch(f, "isinstance(data, CubicMeshPDEStatio) and (not isinstance(data, CubicMeshPDENonStatio))"), "omega", "p_omega", "n_start")


@anchor("G_rar", "step_true_nonstatio")
def _(repo):
    f = find_func(parse(repo, RAR), "rar_step_true")
    body = _branch(f, "isinstance(data, CubicMeshPDENonStatio)")
    env = {"data.nt_start": "nt_start", "data.n_start": "n_start", "data.rar_iter_nb": "J",
           "selected_sample_size_times": "sel_t", "selected_sample_size_omega": "sel_x", "i": "k",
           "start": "start", "selected_sample_size": "sel"}
    out = []
    ut, ux = _dus(body, "data.times"), _dus(body, "data.omega")
    out.append(f"Definition gen_rar_offset_ns_t (nt_start n_start J sel_t sel_x : Z) : Z := {zexpr(ut.args[2].elts[0], env)}.")
    out.append(f"Definition gen_rar_offset_ns_x (nt_start n_start J sel_t sel_x : Z) : Z := {zexpr(ux.args[2].elts[0], env)}.")
    src = ast.unparse(wrap(body))
    pre_t = "data.p_times.at[:data.nt_start].set(new_p_times)" in src
    pre_x = "data.p_omega.at[:data.n_start].set(new_p_omega)" in src
    out.append(f"Definition gen_rar_pprefix_ns_t (nt_start n_start : Z) : Z := {'nt_start' if pre_t else 'n_start' if 'data.p_times.at[:data.n_start]' in src else '(-1)'}.")
    out.append(f"Definition gen_rar_pprefix_ns_x (nt_start n_start : Z) : Z := {'n_start' if pre_x else 'nt_start' if 'data.p_omega.at[:data.nt_start]' in src else '(-1)'}.")
    cus = one([n for n in ast.walk(wrap(body)) if isinstance(n, ast.FunctionDef) and n.name == "create_update_slices"], "create_update_slices")
    params = [a.arg for a in cus.args.args]
    d = one(calls_to(cus, "jax.lax.dynamic_update_slice"), "slice update of p")
    start_e = d.args[2].elts[0]
    mk = {}
    for nm, which in (("update_slices_times", "t"), ("update_slices_omega", "x")):
        c = one(assigns(wrap(body), nm), nm)
        if ast.unparse(c.func) != "create_update_slices" or len(c.args) != len(params):
            raise Untranslatable("create_update_slices call changed")
        sub = dict(zip(params, c.args))
        e2 = copy.deepcopy(start_e)

        class S(ast.NodeTransformer):
            def visit_Name(self, n):
                return copy.deepcopy(sub[n.id]) if n.id in sub else n
        e2 = S().visit(e2)
        out.append(f"Definition gen_rar_pslice_start_ns_{which} (nt_start n_start k sel_t sel_x : Z) : Z := {zexpr(e2, env)}.")
    for nm, which, p in (("update_slices_times", "t", "data.p_times"), ("update_slices_omega", "x", "data.p_omega")):
        fl = one([c for c in calls_to(wrap(body), "jax.lax.fori_loop") if ast.unparse(c.args[2]) == nm], "fori_loop " + nm)
        if ast.unparse(fl.args[3]) != p:
            raise Untranslatable("fori_loop initial value changed")
        hi = inline_locals(fl.args[1], wrap(body))
        out.append(f"Definition gen_rar_ploop_lo_ns_{which} : Z := {zexpr(fl.args[0], env)}.")
        out.append(f"Definition gen_rar_ploop_hi_ns_{which} (J : Z) : Z := {zexpr(hi, env)}.")
    nj = one(assigns(wrap(body), "new_rar_iter_nb"), "new step number")
    out.append(f"Definition gen_rar_newJ_ns (J : Z) : Z := {zexpr(nj, env)}.")
    tk = one(calls_to(wrap(body), "jax.lax.top_k"), "top_k")
    sel_ok = (ast.unparse(tk.args[0]) == "mse_on_s.flatten()" and ast.unparse(kwarg(tk, "k")) == "n_select"
              and ast.unparse(one(assigns(wrap(body), "n_select"), "n_select")) == "max(selected_sample_size_times, selected_sample_size_omega)"
              and ast.unparse(one(assigns(wrap(body), "arr_idx"), "arr_idx")) == "jnp.unravel_index(idx, mse_on_s.shape)"
              and ast.unparse(one(assigns(wrap(body), "times_idx"), "times_idx")) == "arr_idx[0][:selected_sample_size_times]"
              and ast.unparse(one(assigns(wrap(body), "omega_idx"), "omega_idx")) == "arr_idx[1][:selected_sample_size_omega]"
              and ast.unparse(one(assigns(wrap(body), "higher_residual_points_times"), "hrt")) == "new_times_samples[times_idx]"
              and ast.unparse(one(assigns(wrap(body), "higher_residual_points_omega"), "hro")) == "new_omega_samples[omega_idx]"
              and ast.unparse(ut.args[1]) == "higher_residual_points_times" and ast.unparse(ux.args[1]) == "higher_residual_points_omega")
    out.append(f"Definition gen_rar_select_wiring_ns : bool := {'true' if sel_ok else 'false'}.")
    # counter reset common to all branches
    tail = [c for c in calls_to(f, "eqx.tree_at") if "rar_iter_from_last_sampling" in ast.unparse(c.args[0])]
    c = one(tail, "counter reset")
    out.append(f"Definition gen_rar_step_counter : Z := {zexpr(c.args[2], env)}.")
    return "\n".join(out)


# =============================================================== G_solve (C07, C18, C19)
header("G_solve", ZHDR)


def _stmt_index(body, pred):
    for k, s in enumerate(body):
        if pred(s):
            return k
    raise Untranslatable("statement not found")


@anchor("G_solve", "one_iteration")
def _(repo):
    mod = parse(repo, SOLVE)
    f = find_func(mod, "_one_iteration")
    body = strip_doc(f.body)
    src = lambda s: ast.unparse(s)
    # phase order: draw -> gradient step -> validation -> RAR -> store -> increment
    k_draw = _stmt_index(body, lambda s: isinstance(s, ast.Assign) and src(s.value).startswith("get_batch(train_data.data, train_data.param_data, train_data.obs_data)"))
    k_grad = _stmt_index(body, lambda s: isinstance(s, ast.Assign) and src(s.value).startswith("_gradient_step("))
    k_val = _stmt_index(body, lambda s: isinstance(s, ast.If) and src(s.test) == "validation is not None")
    k_rar = _stmt_index(body, lambda s: isinstance(s, ast.Assign) and src(s.value).startswith("trigger_rar("))
    k_store = _stmt_index(body, lambda s: isinstance(s, ast.Assign) and src(s.value).startswith("_store_loss_and_params("))
    k_inc = _stmt_index(body, lambda s: isinstance(s, ast.AugAssign) and src(s.target) == "i")
    order_ok = k_draw < k_grad < k_val < k_rar < k_store < k_inc
    g = body[k_grad]
    grad_ok = (src(g.targets[0]).replace(" ", "") == "(loss,train_loss_value,loss_terms,params,opt_state,last_non_nan_params)"
               and [src(a) for a in g.value.args] == ["loss", "optimizer", "batch", "optimization.params", "optimization.opt_state", "optimization.last_non_nan_params"])
    d = body[k_draw]
    draw_ok = src(d.targets[0]).replace(" ", "") == "(batch,data,param_data,obs_data)"
    v = body[k_val]
    c = one([n for n in ast.walk(wrap(v.body)) if isinstance(n, ast.Call) and src(n.func) == "jax.lax.cond" and "call_every" in src(n.args[0])], "validation cond")
    env = {"i": "i", "validation.call_every": "call_every"}
    due = zexpr(c.args[0], env)
    call_ok = src(c.args[1]) == "lambda operands: operands[0](*operands[1:])" and src(c.args[3]).replace(" ", "") == "(validation,params)"
    skip = c.args[2]
    if not isinstance(skip, ast.Lambda) or not isinstance(skip.body, ast.Tuple) or len(skip.body.elts) != 4:
        raise Untranslatable("skip branch of the validation cond changed")
    e0, e1, e2, e3 = skip.body.elts
    if src(e0) != "operands[0]" or src(e1) != "False" or src(e3) != "False":
        raise Untranslatable("skip branch returns " + src(skip.body))
    if not (isinstance(e2, ast.Subscript) and src(e2.value) == "validation_crit_values"):
        raise Untranslatable("carried criterion is not read from validation_crit_values")
    carry = zexpr(e2.slice, env)
    tgt = one([s for s in v.body if isinstance(s, ast.Assign) and s.value is c], "cond target")
    tgt_ok = src(tgt.targets[0]).replace(" ", "") == "(validation,early_stopping,validation_criterion,update_best_params)"
    st = one([s for s in v.body if isinstance(s, ast.Assign) and src(s.targets[0]) == "validation_crit_values"], "criterion store")
    if not (isinstance(st.value, ast.Call) and src(st.value.func).startswith("validation_crit_values.at[") and src(st.value.func).endswith("].set") and src(st.value.args[0]) == "validation_criterion"):
        raise Untranslatable("criterion store changed")
    crit_idx = zexpr(st.value.func.value.slice, env)
    bc = one([s for s in v.body if isinstance(s, ast.Assign) and src(s.targets[0]) == "best_val_params"], "best params")
    best_ok = (src(bc.value.func) == "jax.lax.cond" and src(bc.value.args[0]) == "update_best_params" and src(bc.value.args[1]) == "lambda _: params"
               and src(bc.value.args[2]) == "lambda operands: operands[0].best_val_params" and src(bc.value.args[3]).replace(" ", "") == "(optimization_extra,)")
    else_ok = sorted(src(s) for s in v.orelse) == ["best_val_params = params", "early_stopping = False"]
    r = body[k_rar]
    rar_ok = src(r.targets[0]).replace(" ", "") == "(loss,params,data)" and [src(a) for a in r.value.args] == ["i", "loss", "params", "data", "_rar_step_true", "_rar_step_false"]
    s_ = body[k_store]
    store_ok = ([src(a) for a in s_.value.args] == ["i", "params", "stored_objects.stored_params", "loss_container.stored_loss_terms", "loss_container.train_loss_values", "train_loss_value", "loss_terms", "tracked_params"]
                and src(s_.targets[0]).replace(" ", "") == "(stored_params,stored_loss_terms,train_loss_values)")
    inc = body[k_inc]
    nxt = zexpr(ast.BinOp(left=ast.Name("i", ast.Load()), op=inc.op, right=inc.value), env)
    ret = src(one(returns(f), "return")).replace(" ", "").replace("\n", "")
    ret_ok = ret == ("(i,loss,OptimizationContainer(params,last_non_nan_params,opt_state),OptimizationExtraContainer(curr_seq,best_val_params,early_stopping),"
                     "DataGeneratorContainer(data,param_data,obs_data),validation,LossContainer(stored_loss_terms,train_loss_values),StoredObjectContainer(stored_params),validation_crit_values)")
    flags = dict(order_ok=order_ok, grad_ok=grad_ok, draw_ok=draw_ok, call_ok=call_ok, tgt_ok=tgt_ok, best_ok=best_ok, else_ok=else_ok, rar_ok=rar_ok, store_ok=store_ok, ret_ok=ret_ok)
    return (f"Definition gen_val_due (i call_every : Z) : bool := {due}.\n"
            f"Definition gen_carry_idx (i : Z) : Z := {carry}.\n"
            f"Definition gen_store_crit_idx (i : Z) : Z := {crit_idx}.\n"
            f"Definition gen_next_i (i : Z) : Z := {nxt}.\n"
            f"(* {flags} *)\n"
            f"Definition gen_iteration_wiring : bool := {'true' if all(flags.values()) else 'false'}.")


@anchor("G_solve", "store")
def _(repo):
    f = find_func(parse(repo, SOLVE), "_store_loss_and_params")
    src = ast.unparse(f)
    env = {"i": "i"}
    def at_idx(pattern_prefix, what):
        hits = [n for n in ast.walk(f) if isinstance(n, ast.Call) and isinstance(n.func, ast.Attribute) and n.func.attr == "set"
                and isinstance(n.func.value, ast.Subscript) and ast.unparse(n.func.value.value) == pattern_prefix + ".at"]
        h = one(hits, what)
        return zexpr(h.func.value.slice, env), ast.unparse(h.args[0])
    ip, vp = at_idx("ope[0]", "tracked store")
    it, vt = at_idx("stored_term", "term store")
    il, vl = at_idx("train_loss_values", "loss store")
    ok = (vp == "ope[1]" and vt == "loss_term" and vl == "train_loss_val"
          and "jax.lax.cond(tracked_param, lambda ope: ope[0].at[" in src and "lambda ope: ope[0], (stored_value, param))" in src
          and "None if stored_value is None else" in src
          and ast.unparse(one(returns(f), "return")).replace(" ", "") == "(stored_params,stored_loss_terms,train_loss_values)")
    return (f"Definition gen_store_tracked_idx (i : Z) : Z := {ip}.\nDefinition gen_store_terms_idx (i : Z) : Z := {it}.\n"
            f"Definition gen_store_loss_idx (i : Z) : Z := {il}.\nDefinition gen_store_wiring : bool := {'true' if ok else 'false'}.")


@anchor("G_solve", "gradient_step")
def _(repo):
    f = find_func(parse(repo, SOLVE), "_gradient_step")
    body = [ast.unparse(s) for s in strip_doc(f.body)]
    want = ["value_grad_loss = jax.value_and_grad(loss, has_aux=True)",
            "(loss_val, loss_terms), grads = value_grad_loss(params, batch)",
            "updates, opt_state = optimizer.update(grads, opt_state, params)",
            "params = optax.apply_updates(params, updates)"]
    order_ok = body[:4] == want
    c = one(calls_to(f, "jax.lax.cond"), "cond")
    test = ast.unparse(c.args[0])
    a1, a2 = ast.unparse(c.args[1]), ast.unparse(c.args[2])
    if test != "_check_nan_in_pytree(params)":
        raise Untranslatable("NaN test is on " + test)
    if (a1, a2) == ("lambda _: last_non_nan_params", "lambda _: params"):
        keep = "(if nan then last else new)"
    elif (a1, a2) == ("lambda _: params", "lambda _: last_non_nan_params"):
        keep = "(if nan then new else last)"
    else:
        raise Untranslatable("branches of the last_non_nan cond changed")
    tgt = one([s for s in f.body if isinstance(s, ast.Assign) and s.value is c], "cond target")
    ret = ast.unparse(one(returns(f), "return")).replace(" ", "")
    ok = order_ok and ast.unparse(tgt.targets[0]) == "last_non_nan_params" and ret == "(loss,loss_val,loss_terms,params,opt_state,last_non_nan_params)"
    return (f"Definition gen_keep_last_non_nan {{P : Type}} (nan : bool) (last new : P) : P := {keep}.\n"
            f"Definition gen_gradient_wiring : bool := {'true' if ok else 'false'}.")


@anchor("G_solve", "break_fun")
def _(repo):
    f = find_func(parse(repo, SOLVE), "break_fun")
    env = {"i": "i", "n_iter": "n_iter"}
    def cond_of(name):
        c = one(assigns(f, name), name)
        if ast.unparse(c.func) != "jax.lax.cond" or not ast.unparse(c.args[1]).startswith("lambda _: stop_while_loop(") or ast.unparse(c.args[2]) != "continue_while_loop":
            raise Untranslatable(name + " is not cond(test, stop, continue)")
        return c.args[0]
    t1 = zexpr(cond_of("bool_max_iter"), env)
    t2 = ast.unparse(cond_of("bool_nan_in_params"))
    t3 = ast.unparse(cond_of("bool_early_stopping"))
    if t2 != "_check_nan_in_pytree(optimization.params)" or t3 != "optimization_extra.early_stopping":
        raise Untranslatable(f"stop tests changed: {t2}; {t3}")
    sw = find_func(parse(repo, SOLVE), "stop_while_loop"); cw = find_func(parse(repo, SOLVE), "continue_while_loop")
    if ast.unparse(one(returns(sw), "r")) != "False" or ast.unparse(one(returns(cw), "r")) != "True":
        raise Untranslatable("stop/continue return values changed")
    r = ast.unparse(one(returns(f), "return")).replace(" ", "").replace("\n", "")
    if r != "jax.tree_util.tree_reduce(lambdax,y:jnp.logical_and(jnp.array(x),jnp.array(y)),(bool_max_iter,bool_nan_in_params,bool_early_stopping))":
        raise Untranslatable("the three conditions are not conjoined")
    un = ast.unparse(one([s for s in f.body if isinstance(s, ast.Assign) and "carry" == ast.unparse(s.value)], "carry unpacking").targets[0]).replace(" ", "")
    if un != "(i,_,optimization,optimization_extra,_,_,_,_,_)":
        raise Untranslatable("carry layout changed")
    return f"Definition gen_continue (i n_iter : Z) (nan early : bool) : bool := (negb {t1}) && (negb nan) && (negb early)."


@anchor("G_solve", "solve_frame")
def _(repo):
    f = find_func(parse(repo, SOLVE), "solve")
    src = ast.unparse(f)
    pieces = ["data, _rar_step_true, _rar_step_false = init_rar(data)",
              "batch_ini, data, param_data, obs_data = get_batch(data, param_data, obs_data)",
              "train_loss_values = jnp.zeros(n_iter)",
              "optimization = OptimizationContainer(params=init_params, last_non_nan_params=init_params, opt_state=opt_state)",
              "optimization_extra = OptimizationExtraContainer(curr_seq=curr_seq, best_val_params=init_params)",
              "iteration = 0",
              "carry = jax.lax.while_loop(break_fun, _one_iteration, carry)",
              "opt_state = optimizer.init(init_params)"]
    ok = all(p in src for p in pieces) and src.index(pieces[0]) < src.index(pieces[1])
    ret = ast.unparse(one([r for r in returns(f)], "return")).replace(" ", "").replace("\n", "")
    ret_ok = ret == ("(optimization.last_non_nan_params,loss_container.train_loss_values,loss_container.stored_loss_terms,train_data.data,loss,"
                     "optimization.opt_state,stored_objects.stored_params,validation_crit_valuesifvalidationisnotNoneelseNone,optimization_extra.best_val_paramsifvalidationisnotNoneelseNone)")
    gb = find_func(parse(repo, SOLVE), "get_batch")
    gsrc = [ast.unparse(s) for s in strip_doc(gb.body)]
    gb_ok = gsrc[0] == "data, batch = data.get_batch()" and "param_data.get_batch()" in gsrc[1] and "obs_data.get_batch()" in gsrc[2] and gsrc[3] == "return (batch, data, param_data, obs_data)"
    return f"Definition gen_solve_frame_wiring : bool := {'true' if (ok and ret_ok and gb_ok) else 'false'}."


# =============================================================== G_validation (C19)
header("G_validation", ZHDR)


@anchor("G_validation", "validation_loss")
def _(repo):
    f = find_func(parse(repo, VAL), "__call__", "ValidationLoss")
    conds = calls_to(f, "jax.lax.cond")
    if len(conds) != 2:
        raise Untranslatable("expected two conds")
    c1, c2 = conds
    imp = c1.args[0]
    if not (isinstance(imp, ast.Compare) and len(imp.ops) == 1 and ast.unparse(imp.left) == "validation_loss_value" and ast.unparse(imp.comparators[0]) == "self.best_val_loss"):
        raise Untranslatable("improvement test changed")
    op = {ast.Lt: "QLt", ast.LtE: "QLe", ast.Gt: "QGt", ast.GtE: "QGe"}.get(type(imp.ops[0]))
    if op is None:
        raise Untranslatable("improvement comparison")
    y, n = c1.args[1], c1.args[2]
    if ast.unparse(y) != "lambda _: (jnp.array(0.0), validation_loss_value, True)":
        raise Untranslatable("improvement branch changed: " + ast.unparse(y))
    if ast.unparse(n) != "lambda operands: (operands[0] + 1, operands[1], False)" or ast.unparse(c1.args[3]).replace(" ", "") != "(self.counter,self.best_val_loss)":
        raise Untranslatable("non-improvement branch changed")
    tgt = one([s for s in f.body if isinstance(s, ast.Assign) and s.value is c1], "target")
    if ast.unparse(tgt.targets[0]).replace(" ", "") != "(counter,best_val_loss,update_best_params)":
        raise Untranslatable("cond target changed")
    st = c2.args[0]
    if not (ast.unparse(st.func) == "jnp.logical_and" and len(st.args) == 2):
        raise Untranslatable("stop test changed")
    a, b = [x.args[0] if (isinstance(x, ast.Call) and ast.unparse(x.func) == "jnp.array") else x for x in st.args]
    env = {"self.counter": "old_counter", "counter": "new_counter", "self.patience": "patience"}
    stop_cmp = zexpr(a, env)
    if ast.unparse(b) != "self.early_stopping" or ast.unparse(c2.args[1]) != "lambda _: True" or ast.unparse(c2.args[2]) != "lambda _: False":
        raise Untranslatable("stop cond changed")
    src = ast.unparse(f)
    wiring = ("new = eqx.tree_at(lambda t: t.counter, new, counter)" in src and "new = eqx.tree_at(lambda t: t.best_val_loss, new, best_val_loss)" in src
              and "validation_loss_value, _ = self.loss(params, val_batch)" in src
              and ast.unparse(one(returns(f), "return")).replace(" ", "") == "(new,bool_early_stopping,validation_loss_value,update_best_params)"
              and "validation_data, val_batch = self.validation_data.get_batch()" in src
              and "new = eqx.tree_at(lambda t: t.validation_data, self, validation_data)" in src)
    cls = [n for n in ast.walk(parse(repo, VAL)) if isinstance(n, ast.ClassDef) and n.name == "ValidationLoss"][0]
    csrc = ast.unparse(cls)
    init_ok = "default_factory=lambda: jnp.array(jnp.inf)" in csrc and "default_factory=lambda: jnp.array(0.0)" in csrc
    return (f"Definition gen_val_improves : cmpop := {op}.\n"
            f"Definition gen_val_counter_reset : Z := 0.\nDefinition gen_val_counter_incr (c : Z) : Z := (c + 1).\n"
            f"Definition gen_val_stop (old_counter new_counter patience : Z) (early_stopping : bool) : bool := {stop_cmp} && early_stopping.\n"
            f"Definition gen_validation_wiring : bool := {'true' if (wiring and init_ok) else 'false'}.")


# =============================================================== G_boundary (C04)
BC = "jinns/loss/_boundary_conditions.py"
LU = "jinns/loss/_loss_utils.py"
header("G_boundary", ZHDR)


def _zlist(node):
    """literal (nested) list of integers -> Gallina list"""
    if isinstance(node, ast.List):
        return "[" + "; ".join(_zlist(e) for e in node.elts) + "]"
    return zexpr(node, {})


@anchor("G_boundary", "normals")
def _(repo):
    mod = parse(repo, BC)
    out = []
    for fn, arr in (("boundary_neumann_statio", "border_batch"), ("boundary_neumann_nonstatio", "omega_border_batch")):
        f = find_func(mod, fn)
        iff = one([s for s in f.body if isinstance(s, ast.If) and ast.unparse(s.test) == f"{arr}.shape[-1] == 1"], "dimension test in " + fn)
        n1 = one(assigns(wrap(iff.body), "n"), "1-D normals")
        n2 = one(assigns(wrap(iff.orelse), "n"), "2-D normals")
        if ast.unparse(n1.func) != "jnp.array" or ast.unparse(n2.func) != "jnp.array":
            raise Untranslatable("normals are not literal arrays")
        tag = "statio" if fn.endswith("_statio") else "nonstatio"
        out.append(f"Definition gen_normal_1d_{tag} : list Z := {_zlist(n1.args[0])}.")
        out.append(f"Definition gen_normal_2d_{tag} : list (list Z) := {_zlist(n2.args[0])}.")
        src = ast.unparse(f)
        argn = "grad(u_, 0)(dx, params)" if tag == "statio" else "grad(u_, 1)(t, dx, params)"
        ok = (f"jnp.dot({argn}, n[..., facet])" in src and "jnp.atleast_1d(" in src
              and ("border_batch = border_batch[..., facet]" in src if tag == "statio" else
                   "times_batch = batch.times_x_border_batch[:, 0:1, facet]" in src and "omega_border_batch = batch.times_x_border_batch[:, 1:, facet]" in src))
        # every branch (pointwise and separable) recognises the 1-D case by the size of the coordinate axis, never by the number of points
        dim_tests = [ast.unparse(n.test) for n in ast.walk(f) if isinstance(n, ast.If) and arr + ".shape[" in ast.unparse(n.test) and "== 1" in ast.unparse(n.test)]
        ok = ok and len(dim_tests) == 2 and all(t == f"{arr}.shape[-1] == 1" for t in dim_tests)
        out.append(f"Definition gen_neumann_wiring_{tag} : bool := {'true' if ok else 'false'}.")
    return "\n".join(out)


@anchor("G_boundary", "facets")
def _(repo):
    f = find_func(parse(repo, LU), "boundary_condition_apply")
    trees = [v for v in assigns(f, "facet_tree") if isinstance(v, ast.Dict)]
    if len(trees) != 2:
        raise Untranslatable("expected the 1-D and the 2-D facet_tree")
    out = []
    for tag, t in zip(("1d", "2d"), trees):
        keys = [k.value for k in t.keys]
        vals = [zexpr(v, {}) for v in t.values]
        out.append(f"(* {dict(zip(keys, vals))} *)")
        names = {"xmin": 0, "xmax": 1, "ymin": 2, "ymax": 3}
        if any(k not in names for k in keys):
            raise Untranslatable("unknown facet names")
        out.append(f"Definition gen_facet_tree_{tag} : list (Z * Z) := [" + "; ".join(f"({names[k]}, {v})" for k, v in zip(keys, vals)) + "].")
    src = ast.unparse(f)
    ok = ("None if c is None else jnp.mean(loss_weight * _compute_boundary_loss(c, f, batch, u, params, fa, d))" in src
          and "facet_tuple = tuple((f for f in range(batch.border_batch.shape[-1])))" in src
          and "jax.tree_util.tree_reduce(lambda x, y: x + y, jax.tree_util.tree_leaves(b_losses_by_facet))" in src)
    out.append(f"Definition gen_boundary_apply_wiring : bool := {'true' if ok else 'false'}.")
    d = find_func(parse(repo, BC), "boundary_dirichlet_statio")
    dn = find_func(parse(repo, BC), "boundary_dirichlet_nonstatio")
    ok2 = ("lambda dx, params: u(dx, params)[dim_to_apply] - f(dx)" in ast.unparse(d) and "border_batch = border_batch[..., facet]" in ast.unparse(d)
           and "lambda t, dx, params: u(t, dx, params)[dim_to_apply] - f(t, dx)" in ast.unparse(dn))
    out.append(f"Definition gen_dirichlet_wiring : bool := {'true' if ok2 else 'false'}.")
    return "\n".join(out)


# =============================================================== G_derivkeys (C06)
DK = "jinns/parameters/_derivative_keys.py"
header("G_derivkeys", ZHDR)


@anchor("G_derivkeys", "mask_of_str")
def _(repo):
    f = find_func(parse(repo, DK), "_get_masked_parameters")
    br = one([s for s in f.body if isinstance(s, ast.If) and ast.unparse(s.test) == "isinstance(params, Params)"], "Params branch")
    src0 = ast.unparse(one(assigns(wrap(br.body), "diff_params"), "diff_params"))
    if not src0.startswith("jax.tree.map(lambda x: True, params"):
        raise Untranslatable("initial mask is not all-True")
    table = {}
    for s in br.body:
        if isinstance(s, ast.If) and isinstance(s.test, ast.Compare) and ast.unparse(s.test.left) == "derivative_mask_str":
            key = s.test.comparators[0].value
            r = ast.unparse(one(returns(wrap(s.body)), "return"))
            if r == "diff_params":
                table[key] = ("true", "true")
            elif r == "eqx.tree_at(lambda p: p.nn_params, diff_params, False)":
                table[key] = ("false", "true")
            elif r == "eqx.tree_at(lambda p: p.eq_params, diff_params, jax.tree.map(lambda x: False, params.eq_params))":
                table[key] = ("true", "false")
            else:
                raise Untranslatable("unknown mask construction " + r)
    if not any(isinstance(s, ast.Raise) for s in br.body):
        raise Untranslatable("other strings are not rejected")
    code = {"both": 0, "eq_params": 1, "nn_params": 2}
    if set(table) != set(code):
        raise Untranslatable("recognised strings changed: " + str(sorted(table)))
    arms = " ".join(f"| {code[k]}%nat => Some ({table[k][0]}, {table[k][1]})" for k in sorted(table, key=lambda k: code[k]))
    sd = find_func(parse(repo, DK), "_set_derivatives_")
    ssrc = ast.unparse(sd)
    if "jax.lax.cond(d, lambda p: p, jax.lax.stop_gradient, p)" in ssrc:
        keep = "true"
    elif "jax.lax.cond(d, jax.lax.stop_gradient, lambda p: p, p)" in ssrc:
        keep = "false"
    else:
        raise Untranslatable("_set_derivatives_ changed")
    return ("(* string code: 0 = \"both\", 1 = \"eq_params\", 2 = \"nn_params\"; result = (mask of nn_params, mask of every eq_params key) *)\n"
            f"Definition gen_mask_of_str (code : nat) : option (bool * bool) := match code with {arms} | _ => None end.\n"
            f"(* _set_derivatives: a True mask entry keeps the leaf differentiable, False applies stop_gradient *)\n"
            f"Definition gen_true_means_differentiate : bool := {keep}.")


@anchor("G_derivkeys", "defaults")
def _(repo):
    mod = parse(repo, DK)
    out = []
    code = {"both": 0, "eq_params": 1, "nn_params": 2}
    for cls, terms in (("DerivativeKeysODE", ["dyn_loss", "observations", "initial_condition"]),
                       ("DerivativeKeysPDEStatio", ["dyn_loss", "observations", "boundary_loss", "norm_loss"]),
                       ("DerivativeKeysPDENonStatio", ["initial_condition"])):
        pi = find_func(mod, "__post_init__", cls)
        for t in terms:
            v = one(assigns(pi, f"self.{t}"), f"default of {cls}.{t}")
            if not (isinstance(v, ast.Call) and ast.unparse(v.func) == "_get_masked_parameters" and isinstance(v.args[0], ast.Constant) and ast.unparse(v.args[1]) == "params"):
                raise Untranslatable("default changed: " + ast.unparse(v))
            out.append(f"Definition gen_default_{cls}_{t} : nat := {code[v.args[0].value]}.")
    return "\n".join(out)


LODE_ = "jinns/loss/_LossODE.py"
LPDE_ = "jinns/loss/_LossPDE.py"


@anchor("G_derivkeys", "term_masks")
def _(repo):
    """which derivative_keys field each loss term is evaluated with"""
    out = []
    want = {"LossODE": {"dynamic_loss_apply": "dyn_loss", "observations_loss_apply": "observations"},
            "LossPDEStatio": {"dynamic_loss_apply": "dyn_loss", "normalization_loss_apply": "norm_loss", "boundary_condition_apply": "boundary_loss", "observations_loss_apply": "observations"},
            "LossPDENonStatio": {"initial_condition_apply": "initial_condition"}}
    files = {"LossODE": "jinns/loss/_LossODE.py", "LossPDEStatio": "jinns/loss/_LossPDE.py", "LossPDENonStatio": "jinns/loss/_LossPDE.py"}
    ok = True
    for cls, calls in want.items():
        f = find_func(parse(repo, files[cls]), "evaluate", cls)
        for fn, field in calls.items():
            c = one(calls_to(f, fn), f"{fn} in {cls}.evaluate")
            masks = [ast.unparse(a) for a in c.args if ast.unparse(a).startswith("_set_derivatives(")]
            if masks != [f"_set_derivatives(params, self.derivative_keys.{field})"]:
                ok = False
        if cls == "LossODE":
            src = ast.unparse(f)
            if "_set_derivatives(params, self.derivative_keys.initial_condition)" not in src:
                ok = False
    return f"Definition gen_terms_use_their_own_mask : bool := {'true' if ok else 'false'}."


@anchor("G_derivkeys", "from_str_fields")
def _(repo):
    """from_str: every field f of the returned object is `_get_masked_parameters(f, params) if isinstance(f, str) else f`"""
    mod = parse(repo, "jinns/parameters/_derivative_keys.py")
    ok = True
    want = {"DerivativeKeysODE": ["dyn_loss", "observations", "initial_condition"],
            "DerivativeKeysPDEStatio": ["dyn_loss", "observations", "boundary_loss", "norm_loss"],
            "DerivativeKeysPDENonStatio": ["dyn_loss", "observations", "boundary_loss", "norm_loss", "initial_condition"]}
    for cls, fields in want.items():
        f = find_func(mod, "from_str", cls)
        r = one(returns(f), f"return of {cls}.from_str")
        if not (isinstance(r, ast.Call) and ast.unparse(r.func) == cls and not r.args):
            ok = False; continue
        kws = {k.arg: ast.unparse(k.value) for k in r.keywords}
        if sorted(kws) != sorted(fields):
            ok = False
        for k, v in kws.items():
            if v != f"_get_masked_parameters({k}, params) if isinstance({k}, str) else {k}":
                ok = False
    return f"Definition gen_from_str_field_by_field : bool := {'true' if ok else 'false'}."


def _system_constraints_ok(repo):
    """system losses: the constraint loss of unknown i is built from entry i of every per-unknown
    dictionary (derivative keys included); the dynamic terms use the system's own dyn_loss keys"""
    ok = True
    for rel, cls in ((LODE_, "SystemLossODE"), (LPDE_, "SystemLossPDE")):
        f = find_func(parse(repo, rel), "__post_init__", cls)
        loops = [n for n in ast.walk(f) if isinstance(n, ast.For) and any(isinstance(t, ast.Assign) and ast.unparse(t.targets[0]).startswith("self.u_constraints_dict[") for t in ast.walk(n))]
        loop = one(loops, "loop building u_constraints_dict")
        var = ast.unparse(loop.target)
        if ast.unparse(loop.iter) != "self.u_dict.keys()":
            ok = False
        n_built = 0
        for t in ast.walk(loop):
            if isinstance(t, ast.Assign) and ast.unparse(t.targets[0]).startswith("self.u_constraints_dict["):
                if ast.unparse(t.targets[0]) != f"self.u_constraints_dict[{var}]" or not isinstance(t.value, ast.Call):
                    ok = False; continue
                n_built += 1
                kws = {k.arg: ast.unparse(k.value) for k in t.value.keywords}
                if kws.get("derivative_keys") != f"self.derivative_keys_dict[{var}]" or kws.get("u") != f"self.u_dict[{var}]":
                    ok = False
                for k, v in kws.items():
                    if v.startswith("self.") and "_dict[" in v and not v.endswith(f"_dict[{var}]"):
                        ok = False
        if n_built == 0:
            ok = False
        e = ast.unparse(find_func(parse(repo, rel), "evaluate", cls))
        if "_set_derivatives(params_dict, self.derivative_keys_dyn_loss.dyn_loss)" not in e:
            ok = False
    return ok


@anchor("G_derivkeys", "system_term_masks")
def _(repo):
    return f"Definition gen_system_terms_use_their_own_mask : bool := {'true' if _system_constraints_ok(repo) else 'false'}."


# =============================================================== G_params (C12)
PRM = "jinns/parameters/_params.py"
DLA = "jinns/loss/_DynamicLossAbstract.py"
header("G_params", ZHDR)


@anchor("G_params", "vmap_axes")
def _(repo):
    f = find_func(parse(repo, PRM), "_get_vmap_in_axes_params")
    first = f.body[0] if not isinstance(f.body[0], ast.Expr) else f.body[1]
    none_ok = isinstance(first, ast.If) and ast.unparse(first.test) == "eq_params_batch_dict is None" and ast.unparse(first.body[0]) == "return (None,)"
    comp = one([n for n in ast.walk(f) if isinstance(n, ast.DictComp)], "dict comprehension")
    if ast.unparse(comp.key) != "k" or ast.unparse(comp.generators[0].iter) != "params.eq_params.keys()":
        raise Untranslatable("comprehension iterates differently")
    v = comp.value
    if not isinstance(v, ast.IfExp) or ast.unparse(v.test) not in ("k in eq_params_batch_dict.keys()", "k in eq_params_batch_dict"):
        raise Untranslatable("axis expression changed: " + ast.unparse(v))
    ax = lambda e: "None" if ast.unparse(e) == "None" else f"(Some {zexpr(e, {})})"
    ctor = one([c for c in ast.walk(f) if isinstance(c, ast.Call) and ast.unparse(c.func) == "type(params)"], "type(params)(...)")
    nn = [k for k in ctor.keywords if k.arg == "nn_params"]
    nn_ok = len(nn) == 1 and ast.unparse(nn[0].value) == "None"
    return (f"Definition gen_axis_for_key (in_batch : bool) : option Z := if in_batch then {ax(v.body)} else {ax(v.orelse)}.\n"
            f"Definition gen_axes_wiring : bool := {'true' if (none_ok and nn_ok) else 'false'}.")


@anchor("G_params", "merge")
def _(repo):
    f = find_func(parse(repo, PRM), "_update_eq_params_dict")
    lam = one([n for n in ast.walk(f) if isinstance(n, ast.Lambda) and [a.arg for a in n.args.args] == ["p", "q"]], "merge lambda")
    b = ast.unparse(lam.body)
    if b == "q if q is not None else p":
        take = "true"
    elif b in ("p", "p if q is not None else p"):
        take = "false"
    else:
        raise Untranslatable("merge lambda changed: " + b)
    src = ast.unparse(f)
    ok = ("param_batch_dict | {k: None for k in set(params.eq_params.keys()) - set(param_batch_dict.keys())}" in src
          and "eqx.tree_at(lambda p: p.eq_params, params, jax.tree_util.tree_map(" in src and "params.eq_params, param_batch_dict_)" in src
          and ast.unparse(one(returns(f), "return")) == "params")
    return (f"Definition gen_merge_takes_batch (present : bool) : bool := present && {take}.\n"
            f"Definition gen_merge_wiring : bool := {'true' if ok else 'false'}.")


@anchor("G_params", "heterogeneity")
def _(repo):
    mod = parse(repo, DLA)
    f = find_func(mod, "_eval_heterogeneous_parameters")
    src = ast.unparse(f)
    fresh = [ast.unparse(v) for v in assigns(f, "eq_params_")] == ["{}"]        # results go into a new dictionary, never into the caller's
    ok = (fresh and "if eq_params_heterogeneity is None:\n        return params.eq_params" in src
          and "for k, p in params.eq_params.items():" in src
          and "if eq_params_heterogeneity[k] is None:\n                eq_params_[k] = p" in src
          and "eq_params_[k] = eq_params_heterogeneity[k](t, u, params)" in src
          and "eq_params_[k] = eq_params_heterogeneity[k](x, u, params)" in src
          and "eq_params_[k] = eq_params_heterogeneity[k](t, x, u, params)" in src
          and "except KeyError:\n            eq_params_[k] = p" in src
          and ast.unparse(one(returns(f)[-1:], "r")) == "eq_params_")
    d = find_func(mod, "_decorator_heteregeneous_params")
    dsrc = ast.unparse(d)
    ok2 = all(s in dsrc for s in ["_params = eqx.tree_at(lambda p: p.eq_params, params, self._eval_heterogeneous_parameters(t, None, u, params, self.eq_params_heterogeneity))",
                                  "self._eval_heterogeneous_parameters(None, x, u, params, self.eq_params_heterogeneity)",
                                  "self._eval_heterogeneous_parameters(t, x, u, params, self.eq_params_heterogeneity)",
                                  "new_args = args[:-1] + (_params,)", "res = evaluate(*new_args)"])
    return f"Definition gen_heterogeneity_wiring : bool := {'true' if (ok and ok2) else 'false'}."


# =============================================================== G_losses (C13)
LODE = "jinns/loss/_LossODE.py"
LPDE = "jinns/loss/_LossPDE.py"
header("G_losses", ZHDR)


def tr_block2(stmts, cur, target, classify, test_env):
    """tr_block extended with `for x in ...: if bad(x): raise` loops (one boolean atom per loop)"""
    if not stmts:
        return cur
    s, rest = stmts[0], stmts[1:]
    if isinstance(s, ast.For):
        inner = [b for b in s.body if not (isinstance(b, ast.Expr) and isinstance(b.value, ast.Constant))]
        if len(inner) == 1 and isinstance(inner[0], ast.If) and any(isinstance(x, ast.Raise) for x in inner[0].body) and not inner[0].orelse:
            key = "for " + ast.unparse(s.target) + " in " + ast.unparse(s.iter) + ": " + ast.unparse(inner[0].test)
            if key not in test_env:
                raise Untranslatable("unknown validation loop: " + key[:80])
            return f"(if {test_env[key]} then WErr else {tr_block2(rest, cur, target, classify, test_env)})"
        raise Untranslatable("loop outside the grammar")
    if isinstance(s, ast.Assign) and len(s.targets) == 1 and ast.unparse(s.targets[0]) == target:
        return tr_block2(rest, classify(s.value), target, classify, test_env)
    if isinstance(s, ast.Raise):
        return "WErr"
    if isinstance(s, ast.If):
        t = zexpr(s.test, test_env)
        return (f"(if {t} then {tr_block2(list(s.body) + rest, cur, target, classify, test_env)} "
                f"else {tr_block2(list(s.orelse) + rest, cur, target, classify, test_env)})")
    if isinstance(s, (ast.Assign, ast.Expr, ast.AugAssign)):
        return tr_block2(rest, cur, target, classify, test_env)
    raise Untranslatable("statement outside the grammar: " + ast.unparse(s)[:60])


def _set_loss_weights(repo, rel, cls, tag):
    f = find_func(parse(repo, rel), "set_loss_weights", cls)
    loop = one([s for s in f.body if isinstance(s, ast.For) and ast.unparse(s.target) == "k"], "for k in fields(...)")
    if ast.unparse(loop.iter) != "fields(loss_weights_init)":
        raise Untranslatable("iteration changed")

    def classify(v):
        u = ast.unparse(v)
        table = {"v": "WUseDict", "{kk: 0 for kk in self.dynamic_loss_dict.keys()}": "WZerosEquations", "{kk: 0 for kk in self.u_dict.keys()}": "WZerosUnknowns",
                 "{kk: v for kk in self.dynamic_loss_dict.keys()}": "WConstEquations", "{kk: v for kk in self.u_dict.keys()}": "WConstUnknowns"}
        if u not in table:
            raise Untranslatable("unknown weight expansion " + u)
        return table[u]
    scalar = "not isinstance({0}, (int, float)) and (not (isinstance({0}, Array) and ({0}.shape == (1,) or len({0}.shape) == 0)))"
    env = {"isinstance(v, dict)": "is_dict", "v is None": "is_none", "k.name == 'dyn_loss'": "is_dyn",
           "v.keys() == self.dynamic_loss_dict.keys()": "keys_are_equations", "v.keys() == self.u_dict.keys()": "keys_are_unknowns",
           scalar.format("v"): "(negb scalar_ok)",
           "for vv in v.values(): " + scalar.format("vv"): "(negb values_ok)"}
    body = [s for s in loop.body if not (isinstance(s, ast.Assign) and ast.unparse(s.targets[0]) == "v")]
    term = tr_block2(body, "WUnset", "_loss_weights[k.name]", classify, env)
    return (f"Definition gen_sys_weights_{tag} (is_dict is_none is_dyn keys_are_equations keys_are_unknowns scalar_ok values_ok : bool) : wexp :=\n  {term}.")


@anchor("G_losses", "sys_weights_ode")
def _(repo):
    return _set_loss_weights(repo, LODE, "SystemLossODE", "ode")


@anchor("G_losses", "sys_weights_pde")
def _(repo):
    return _set_loss_weights(repo, LPDE, "SystemLossPDE", "pde")


@anchor("G_losses", "sys_evaluate")
def _(repo):
    out = []
    f = find_func(parse(repo, LPDE), "evaluate", "SystemLossPDE")
    bs = [ast.unparse(v) for v in assigns(f, "batches")]
    tb = ast.unparse(one(assigns(f, "times_batch"), "times_batch")); ob = [ast.unparse(v) for v in assigns(f, "omega_batch")]
    order = {"(times_batch, omega_batch)": "true", "(omega_batch, times_batch)": "false"}
    if len(bs) != 2 or bs[0] != "(omega_batch,)" or bs[1] not in order or tb != "batch.times_x_inside_batch[:, 0:1]" or "batch.times_x_inside_batch[:, 1:]" not in ob:
        raise Untranslatable("batches tuples changed: " + str(bs))
    out.append(f"Definition gen_sys_pde_time_first : bool := {order[bs[1]]}.")
    src = ast.unparse(f)
    pure = "params_dict = _update_eq_params_dict(params_dict, batch.param_batch_dict)" in src and "params_dict.eq_params[k] =" not in src
    ok = ("dynamic_loss_apply(dyn_loss.evaluate, self.u_dict, batches, _set_derivatives(params_dict, self.derivative_keys_dyn_loss.dyn_loss), vmap_in_axes_x_or_x_t + vmap_in_axes_params, loss_weight" in src
          and "jax.tree_util.tree_map(dyn_loss_for_one_key, self.dynamic_loss_dict, self._loss_weights['dyn_loss']" in src
          and "jax.tree_util.tree_reduce(lambda x, y: x + y, jax.tree_util.tree_leaves(dyn_loss_mse_dict))" in src
          and "total_loss += mse_dyn_loss" in src and "res_dict['dyn_loss'] += mse_dyn_loss" in src)
    g = find_func(parse(repo, LODE), "evaluate", "SystemLossODE")
    gsrc = ast.unparse(g)
    pure_o = "params_dict = _update_eq_params_dict(params_dict, batch.param_batch_dict)" in gsrc
    ok_o = ("dynamic_loss_apply(dyn_loss.evaluate, self.u_dict, (temporal_batch,), _set_derivatives(params_dict, self.derivative_keys_dyn_loss.dyn_loss), vmap_in_axes_t + vmap_in_axes_params, loss_weight" in gsrc
            and "total_loss += mse_dyn_loss" in gsrc and "res_dict['dyn_loss'] += mse_dyn_loss" in gsrc)
    out.append(f"Definition gen_sys_param_batch_is_functional : bool := {'true' if (pure and pure_o) else 'false'}.")
    out.append(f"Definition gen_sys_evaluate_wiring : bool := {'true' if (ok and ok_o) else 'false'}.")
    c = find_func(parse(repo, LU), "constraints_system_loss_apply")
    csrc = ast.unparse(c)
    ok_c = ("loss_weights = loss_weights | {'dyn_loss': {k: 0.0 for k in u_constraints_dict.keys()}}" in csrc
            and "jax.tree_util.tree_map(lambda w, l: w * l, res_dict_for_u, loss_weights_for_u)" in csrc
            and "lambda mse: jax.tree_util.tree_reduce(lambda x, y: x + y, jax.tree_util.tree_leaves(mse))" in csrc)
    out.append(f"Definition gen_sys_constraints_wiring : bool := {'true' if ok_c else 'false'}.")
    return "\n".join(out)


@anchor("G_losses", "sys_constraints_per_unknown")
def _(repo):
    """the constraint loss of unknown i is built from entry i of every per-unknown dictionary"""
    return f"Definition gen_sys_constraints_per_unknown : bool := {'true' if _system_constraints_ok(repo) else 'false'}."


# =============================================================== G_purity (C20)
header("G_purity", ZHDR)
PURITY_FILES = ["jinns/loss/_LossODE.py", "jinns/loss/_LossPDE.py", "jinns/loss/_loss_utils.py", "jinns/loss/_boundary_conditions.py",
                "jinns/loss/_DynamicLossAbstract.py", "jinns/loss/_DynamicLoss.py", "jinns/loss/_operators.py",
                "jinns/parameters/_params.py", "jinns/parameters/_derivative_keys.py", "jinns/data/_DataGenerators.py"]
CTOR_TIME = {"__post_init__", "__init__", "generate_data", "generate_time_data", "set_loss_weights", "_check_and_set_rar_parameters"}
MUTATORS = {"append", "extend", "insert", "pop", "popitem", "clear", "update", "setdefault", "remove", "sort", "reverse", "__setitem__", "__delitem__"}


def _root(e):
    while isinstance(e, (ast.Attribute, ast.Subscript)):
        e = e.value
    return e.id if isinstance(e, ast.Name) else None


def _alias_sources(v):
    """expressions whose value may be the very object of an argument-rooted location: the location
    itself, `a or b`, `a if c else b` (no calls: a call returns a new object as far as this table goes)"""
    if isinstance(v, (ast.Name, ast.Attribute, ast.Subscript)):
        return [v]
    if isinstance(v, ast.BoolOp):
        return [x for o in v.values for x in _alias_sources(o)]
    if isinstance(v, ast.IfExp):
        return _alias_sources(v.body) + _alias_sources(v.orelse)
    return []


def _effects(fn, module_names=()):
    """writes rooted at an argument (or at an alias of an argument-rooted location), and writes into
    module-level objects (hidden state that would make a repeated call differ)"""
    params = {a.arg for a in fn.args.args + fn.args.kwonlyargs} | ({fn.args.vararg.arg} if fn.args.vararg else set())
    tainted = set(params)
    fresh = set()
    out = []
    body_nodes = []

    def collect(n, top):
        if not top and isinstance(n, (ast.FunctionDef, ast.Lambda, ast.ClassDef)):
            return
        body_nodes.append(n)
        for c in ast.iter_child_nodes(n):
            collect(c, False)
    collect(fn, True)
    # aliases: local = <argument-rooted name / attribute / subscript chain> (no call)
    changed = True
    while changed:
        changed = False
        for n in body_nodes:
            if isinstance(n, ast.Assign) and len(n.targets) == 1 and isinstance(n.targets[0], ast.Name):
                if any(_root(v) in tainted for v in _alias_sources(n.value)) and n.targets[0].id not in tainted:
                    tainted.add(n.targets[0].id); changed = True
            if isinstance(n, ast.Assign) and isinstance(n.targets[0], (ast.Tuple, ast.List)) and isinstance(n.value, (ast.Name, ast.Attribute, ast.Subscript)) and _root(n.value) in tainted:
                for t in n.targets[0].elts:
                    if isinstance(t, ast.Name) and t.id not in tainted:
                        tainted.add(t.id); changed = True
    for n in body_nodes:
        tgts = []
        if isinstance(n, ast.Assign):
            for t in n.targets:
                tgts += list(t.elts) if isinstance(t, (ast.Tuple, ast.List)) else [t]
        elif isinstance(n, (ast.AugAssign, ast.AnnAssign)):
            tgts = [n.target]
        elif isinstance(n, ast.Delete):
            tgts = n.targets
        for t in tgts:
            if isinstance(t, (ast.Attribute, ast.Subscript)) and _root(t) in tainted:
                out.append((n.lineno, "store " + ast.unparse(t)))
            # `d |= other` updates a dictionary / set in place when d names (an alias of) an argument-rooted container
            if isinstance(n, ast.AugAssign) and isinstance(n.op, ast.BitOr) and isinstance(t, ast.Name) and t.id in tainted:
                out.append((n.lineno, "update " + ast.unparse(t) + " |="))
        if isinstance(n, ast.Call) and isinstance(n.func, ast.Attribute) and n.func.attr in MUTATORS and _root(n.func.value) in tainted:
            out.append((n.lineno, "call " + ast.unparse(n.func)))
        if isinstance(n, (ast.Global, ast.Nonlocal)):
            out.append((n.lineno, "global " + ",".join(n.names)))
    # module-level state: a store / mutating call whose root is a module-level variable that the function does not rebind
    local = set(params)
    for n in body_nodes:
        if isinstance(n, ast.Name) and isinstance(n.ctx, ast.Store):
            local.add(n.id)
    for n in body_nodes:
        tgts = []
        if isinstance(n, ast.Assign):
            for t in n.targets:
                tgts += list(t.elts) if isinstance(t, (ast.Tuple, ast.List)) else [t]
        elif isinstance(n, (ast.AugAssign, ast.AnnAssign)):
            tgts = [n.target]
        elif isinstance(n, ast.Delete):
            tgts = n.targets
        for t in tgts:
            if isinstance(t, (ast.Attribute, ast.Subscript)) and _root(t) in module_names and _root(t) not in local:
                out.append((n.lineno, "module-state store " + ast.unparse(t)))
        if isinstance(n, ast.Call) and isinstance(n.func, ast.Attribute) and n.func.attr in MUTATORS and _root(n.func.value) in module_names and _root(n.func.value) not in local:
            out.append((n.lineno, "module-state call " + ast.unparse(n.func)))
    return out


@anchor("G_purity", "effect_table")
def _(repo):
    rows = []
    nfun = 0
    for rel in PURITY_FILES:
        mod = parse(repo, rel)
        module_names = {t.id for n in mod.body if isinstance(n, (ast.Assign, ast.AnnAssign)) for t in (n.targets if isinstance(n, ast.Assign) else [n.target]) if isinstance(t, ast.Name)}
        for n in ast.walk(mod):
            if isinstance(n, ast.FunctionDef) and n.name not in CTOR_TIME:
                nfun += 1
                for line, what in _effects(n, module_names):
                    rows.append((rel, n.name, line, what))
        # module-level mutable state written from functions is reported by `global`; module-level caches:
        for n in mod.body:
            if isinstance(n, ast.Assign) and isinstance(n.value, (ast.Dict, ast.List, ast.Set)) and not all(isinstance(t, ast.Name) and t.id.isupper() or (isinstance(t, ast.Name) and t.id.startswith("_IMPLEMENTED")) for t in n.targets):
                if rel.endswith("_rar.py"):
                    continue
                rows.append((rel, "<module>", n.lineno, "mutable module-level container " + ast.unparse(n.targets[0])))
    body = "; ".join(f"({i}%nat, {r[2]}%nat)" for i, r in enumerate(rows))
    comments = "\n".join(f"(* write {i}: {r[0]}:{r[2]} in {r[1]}: {r[3]} *)" for i, r in enumerate(rows))
    return (f"(* functions analysed: {nfun} (every function of {len(PURITY_FILES)} modules except constructor-time helpers {sorted(CTOR_TIME)}) *)\n"
            f"{comments}\nDefinition gen_functions_analysed : nat := {nfun}.\n"
            f"(* (index, line) of every store / mutating call / global declaration rooted at an argument *)\n"
            f"Definition gen_argument_writes : list (nat * nat) := [{body}].")


# ---------------------------------------------------------------- border facets, sampling calls (C08)
@anchor("G_datagen", "facet_table")
def _(repo):
    f = find_func(parse(repo, DG), "sample_in_omega_border_domain", "CubicMeshPDEStatio")
    b1 = _branch(f, "self.dim == 1")
    r1 = ast.unparse(one(returns(wrap(b1)), "1-D return"))
    x0 = ast.unparse(one(assigns(wrap(b1), "xmin"), "xmin")); x1 = ast.unparse(one(assigns(wrap(b1), "xmax"), "xmax"))
    if r1 != "jnp.array([xmin, xmax]).astype(float)" or (x0, x1) != ("self.min_pts[0]", "self.max_pts[0]"):
        raise Untranslatable("1-D border changed")
    b2 = _branch(f, "self.dim == 2")
    ret = one(returns(wrap(b2)), "2-D return")
    if not (ast.unparse(ret.func) == "jnp.stack" and ast.unparse(kwarg(ret, "axis")) == "-1"):
        raise Untranslatable("facets are not stacked on the last axis")
    rows = []
    for nm in [ast.unparse(e) for e in ret.args[0].elts]:
        v = one(assigns(wrap(b2), nm), nm)
        if ast.unparse(v.func) != "jnp.hstack" or len(v.args[0].elts) != 2:
            raise Untranslatable(nm + " is not an hstack of two columns")
        desc = []
        for col, e in enumerate(v.args[0].elts):
            u = ast.unparse(e)
            import re as _re
            m = _re.fullmatch(r"self\.(min|max)_pts\[(\d)\] \* jnp\.ones\(\(facet_n, 1\)\)", u)
            m2 = _re.fullmatch(r"jax\.random\.uniform\(keys\[\d\], \(facet_n, 1\), minval=self\.min_pts\[(\d)\], maxval=self\.max_pts\[(\d)\]\)", u)
            if m:
                desc.append(("pin", col, m.group(1) == "max", int(m.group(2))))
            elif m2 and m2.group(1) == m2.group(2):
                desc.append(("free", col, int(m2.group(1))))
            else:
                raise Untranslatable("unknown facet column " + u)
        pin = one([d for d in desc if d[0] == "pin"], "pinned column"); free = one([d for d in desc if d[0] == "free"], "free column")
        # (pinned column, pinned to the max bound?, dimension whose bound is used, free column, dimension of its range)
        rows.append(f"({pin[1]}%nat, {'true' if pin[2] else 'false'}, {pin[3]}%nat, {free[1]}%nat, {free[2]}%nat)")
    return ("(* 1-D border: [min_pts[0], max_pts[0]] *)\nDefinition gen_border_1d_is_max : list bool := [false; true].\n"
            "(* per facet, in stacking order: (pinned column, pinned to max?, bound's dimension, free column, dimension of the free range) *)\n"
            f"Definition gen_facet_table : list (nat * bool * nat * nat * nat) := [{'; '.join(rows)}].")


@anchor("G_datagen", "sampling_calls")
def _(repo):
    mod = parse(repo, DG)
    ok = True
    notes = []
    for cls, fn in (("DataGeneratorODE", "sample_in_time_domain"), ("CubicMeshPDENonStatio", "sample_in_time_domain")):
        f = find_func(mod, fn, cls)
        c = one(calls_to(f, "jax.random.uniform"), "uniform")
        good = ast.unparse(kwarg(c, "minval")) == "self.tmin" and ast.unparse(kwarg(c, "maxval")) == "self.tmax"
        ok = ok and good; notes.append(f"{cls}.{fn}:{good}")
    f = find_func(mod, "sample_in_omega_domain", "CubicMeshPDEStatio")
    cs = calls_to(f, "jax.random.uniform")
    good = (len(cs) == 2 and ast.unparse(kwarg(cs[0], "minval")) == "xmin" and ast.unparse(kwarg(cs[0], "maxval")) == "xmax"
            and ast.unparse(kwarg(cs[1], "minval")) == "self.min_pts[i]" and ast.unparse(kwarg(cs[1], "maxval")) == "self.max_pts[i]")
    ok = ok and good; notes.append(f"omega:{good}")
    # grids: a + step * arange(count), step = (b - a) / count
    grids = []
    for cls, fn in (("DataGeneratorODE", "generate_time_data"), ("CubicMeshPDENonStatio", "generate_time_data")):
        src = ast.unparse(find_func(mod, fn, cls))
        grids.append("partial_times = (self.tmax - self.tmin) / self.nt" in src and "self.tmin + partial_times * jnp.arange(self.nt)" in src)
    src = ast.unparse(find_func(mod, "generate_data", "CubicMeshPDEStatio"))
    grids.append("partial = (xmax - xmin) / self.n" in src and "(xmin + partial * jnp.arange(self.n))[:, None]" in src)
    grids.append("n_side = int(round(self.n ** (1 / self.dim)))" in src and "(self.max_pts[i] - self.min_pts[i]) / n_side" in src and "self.min_pts[i] + partials[i] * jnp.arange(n_side)" in src)
    return (f"(* {notes}; grids {grids} *)\nDefinition gen_uniform_ranges_ok : bool := {'true' if ok else 'false'}.\n"
            f"Definition gen_grid_formula_ok : bool := {'true' if all(grids) else 'false'}.")


# =============================================================== G_numeric (C01, C02): symbolic evaluation
import symb
OPS_FILE = "jinns/loss/_operators.py"
DYN_FILE = "jinns/loss/_DynamicLoss.py"
header("G_numeric", """From Coq Require Import ZArith List.
From JV Require Import Kit.Jx.
Import ListNotations.
""")


def _ambient(has_t):
    return (symb.Ambient("T") if has_t else None), symb.Ambient("X")


def _op_anchor(name, fname, has_t, n_out=None, dim=None, kw=None):
    def fn(repo):
        ev = symb.Evaluator(repo, has_t)
        ev.dimval = dim
        t, x = _ambient(has_t)
        f = find_func(ev.ops_mod, fname)
        v = ev.call_def(f, [t, x, symb.Net(0), symb.ParamsObj({})], kw or {}, {})
        if n_out is None:
            return f"Definition gen_jx_{name} : jx := {symb.scal(v).coq()}."
        return f"Definition gen_jx_{name} : list jx := [{'; '.join(symb.as_list(v, n_out))}]."
    return fn


for _ht in (False, True):
    _s = "t" if _ht else "x"
    anchor("G_numeric", f"laplacian_rev_{_s}")(_op_anchor(f"laplacian_rev_{_s}", "_laplacian_rev", _ht))
    anchor("G_numeric", f"div_rev_{_s}")(_op_anchor(f"div_rev_{_s}", "_div_rev", _ht))
    anchor("G_numeric", f"veclap_{_s}")(_op_anchor(f"veclap_{_s}", "_vectorial_laplacian", _ht, n_out=2, kw={"u_vec_ndim": 2}))
    anchor("G_numeric", f"veclap_default_{_s}")(_op_anchor(f"veclap_default_{_s}", "_vectorial_laplacian", _ht, n_out=2, dim=2))
    anchor("G_numeric", f"advection_{_s}")(_op_anchor(f"advection_{_s}", "_u_dot_nabla_times_u_rev", _ht, n_out=2, dim=2))


def _class_node(mod, name):
    return one([n for n in ast.walk(mod) if isinstance(n, ast.ClassDef) and n.name == name], "class " + name)


def _dyn_anchor(name, cls, has_t, params, nets, n_out, attrs=None, dim=None, dict_style=False):
    def fn(repo):
        mod = parse(repo, DYN_FILE)
        ev = symb.Evaluator(repo, has_t)
        ev.dimval = dim
        c = _class_node(mod, cls)
        bases = [c]
        for b in c.bases:
            bn = ast.unparse(b)
            try:
                bases.append(_class_node(mod, bn))
            except Untranslatable:
                pass
        merged = ast.ClassDef(name=cls, bases=[], keywords=[], body=[n for k in reversed(bases) for n in k.body], decorator_list=[])
        # later definitions win: keep the most derived method of each name
        seen, body = set(), []
        for k in bases:
            for n in k.body:
                if isinstance(n, ast.FunctionDef) and n.name not in seen:
                    seen.add(n.name); body.append(n)
        merged.body = body
        selfobj = symb.SelfObj(merged, mod, dict({"Tmax": symb.J("JTmax")}, **(attrs or {})))
        eqf = one([n for n in body if n.name == "equation"], "equation")
        t, x = _ambient(has_t)
        P = symb.ParamsObj(params)
        U = {k: symb.Net(i) for k, i in nets.items()} if dict_style else symb.Net(0)
        args = [selfobj] + ([t] if has_t or cls == "GeneralizedLotkaVolterra" else []) + ([x] if cls != "GeneralizedLotkaVolterra" else []) + [U, P]
        if cls == "GeneralizedLotkaVolterra":
            args = [selfobj, symb.Ambient("T"), U, P]
        v = ev.call_def(eqf, args, {}, {})
        if n_out == 1:
            return f"Definition gen_jx_{name} : jx := {symb.as_scalar(v)}."
        return f"Definition gen_jx_{name} : list jx := [{'; '.join(symb.as_list(v, n_out))}]."
    return fn


anchor("G_numeric", "burgers")(_dyn_anchor("burgers", "BurgerEquation", True, {"nu": 0}, {}, 1))
anchor("G_numeric", "fisher")(_dyn_anchor("fisher", "FisherKPP", True, {"D": 0, "r": 1, "g": 2}, {}, 1))
anchor("G_numeric", "ou")(_dyn_anchor("ou", "OU_FPENonStatioLoss2D", True, {"alpha": 0, "mu": 1, "sigma": 2}, {}, 1))
anchor("G_numeric", "mass")(_dyn_anchor("mass", "MassConservation2DStatio", False, {}, {"u": 0}, 1, attrs={"nn_key": "u"}, dict_style=True))
anchor("G_numeric", "navier_stokes")(_dyn_anchor("navier_stokes", "NavierStokes2DStatio", False, {"rho": 0, "nu": 1}, {"u": 0, "p": 1}, 2,
                                                  attrs={"u_key": "u", "p_key": "p"}, dim=2, dict_style=True))
anchor("G_numeric", "glv2")(_dyn_anchor("glv2", "GeneralizedLotkaVolterra", True, {"growth_rate": 0, "carrying_capacity": 1, "interactions": 2},
                                         {"m": 0, "k1": 1, "k2": 2}, 1, attrs={"key_main": "m", "keys_other": ["k1", "k2"]}, dict_style=True))

import anchors_reduce  # noqa: E402,F401  (registers G_reduce)
