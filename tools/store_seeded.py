#!/usr/bin/env python3
"""Store an already confirmed seeded change (confirm.json written by run_seeded.py) under /verif/seeded/<name>/."""
import json, os, re, shutil, sys
ROOT = os.path.dirname(os.path.dirname(os.path.abspath(__file__)))
src = sys.argv[1]
out = json.load(open(os.path.join(src, "confirm.json")))
meta = json.load(open(os.path.join(src, "meta.json")))
name = out["name"]
tt = out.get("tests_tail", "")
out["tests_51_pass"] = bool(re.match(r"^51 passed", tt)) and "failed" not in tt and "error" not in tt
ok = out.get("patch_applies") and out.get("demo_unchanged_exit") == 0 and out.get("demo_patched_exit") not in (0, None) and out["tests_51_pass"]
out["kept"] = bool(ok)
if ok:
    dst = os.path.join(ROOT, "seeded", name)
    os.makedirs(dst, exist_ok=True)
    for f in ("patch.diff", "demo.py"):
        shutil.copy(os.path.join(src, f), os.path.join(dst, f))
    meta.update({"confirmation": {k: out[k] for k in ("demo_unchanged_exit", "demo_patched_exit", "tests_tail", "confirmed_at")},
                 "what_was_run": ["git worktree of /repo HEAD; demo.py before the patch (exit 0)", "git apply patch.diff; demo.py again (exit non-zero)", "the 51 pinned baseline tests with the patch applied", f"VERIF_REPO=<worktree> ./check {out['property']} --tier quick"],
                 "detection": {"detected": out["detected"], "check_output": out["check_output"], "wall_s": out["check_wall_s"]}})
    json.dump(meta, open(os.path.join(dst, "meta.json"), "w"), indent=1)
json.dump(out, open(os.path.join(src, "confirm.json"), "w"), indent=1)
print(name, "kept" if ok else "NOT kept", "detected" if out.get("detected") else "MISSED")
