#!/bin/sh
# usage: tools/mut.sh <patchfile|-> <ID>...   applies a patch to a scratch worktree of /repo and runs the checks there
# (on a private copy of coq/, so it can run next to other checks)
P="$1"; shift
WT=/tmp/wt_mut_$$
CQ=/tmp/coq_mut_$$
git -C /repo worktree add -q "$WT" HEAD || exit 2
if [ "$P" != "-" ]; then git -C "$WT" apply "$P" || { echo "patch does not apply"; git -C /repo worktree remove --force "$WT"; exit 2; }; fi
[ -n "$MUT_SED" ] && sed -i "$MUT_SED" "$WT/$MUT_FILE"
git -C "$WT" diff --stat | tail -1
cp -r /verif/coq "$CQ"
for id in "$@"; do VERIF_REPO="$WT" VERIF_COQ="$CQ" VERIF_EVIDENCE_DIR=/tmp/ev_mut /verif/check "$id" $MUT_ARGS | grep -v '^validation loss' | tail -${MUT_TAIL:-2}; done
rm -rf "$CQ"
git -C /repo worktree remove --force "$WT"
