#!/bin/sh
# usage: tools/mut.sh <patchfile|-> <ID>...   applies a patch to a scratch worktree of /repo and runs the checks there
P="$1"; shift
WT=/tmp/wt_mut_$$
git -C /repo worktree add -q "$WT" HEAD || exit 2
if [ "$P" != "-" ]; then git -C "$WT" apply "$P" || { echo "patch does not apply"; git -C /repo worktree remove --force "$WT"; exit 2; }; fi
[ -n "$MUT_SED" ] && sed -i "$MUT_SED" "$WT/$MUT_FILE"
git -C "$WT" diff --stat | tail -1
for id in "$@"; do VERIF_REPO="$WT" VERIF_EVIDENCE_DIR=/tmp/ev_mut /verif/check "$id" | tail -2; done
git -C /repo worktree remove --force "$WT"
