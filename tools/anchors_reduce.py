"""G_reduce: the reductions of jinns/loss/_loss_utils.py and of the single losses' evaluate methods,
regenerated as terms of Kit/Tx.v (C03, C05).  Grammar: + - *, ** 2 (jnp.abs under a square is
dropped: |a|^2 = a^2), jnp.sum(., axis=-1), jnp.mean(.), jnp.mean(., axis=(-2, -1)), integer
literals, and a closed list of named inputs per anchor; _check_user_func_return(a, shape) is a
reshape and is read as a.  Commutative operands are put in a canonical order, so `w * r**2` and
`r**2 * w` regenerate the same term.  Anything else: Untranslatable (fail closed)."""
import ast
from trcore import anchor, header, parse, find_func, assigns, one, returns, Untranslatable

LU = "jinns/loss/_loss_utils.py"
LODE = "jinns/loss/_LossODE.py"
LPDE = "jinns/loss/_LossPDE.py"

header("G_reduce", """From Coq Require Import ZArith Bool List.
From JV Require Import Kit.Field Kit.Tx.
Import ListNotations.
""")


def tx(e, env):
    s = ast.unparse(e)
    if s in env:
        return f"(XIn {env[s]})"
    if isinstance(e, ast.Constant) and isinstance(e.value, int) and not isinstance(e.value, bool):
        return f"(XInt {e.value})"
    if isinstance(e, ast.BinOp):
        if isinstance(e.op, ast.Pow):
            if not (isinstance(e.right, ast.Constant) and e.right.value == 2):
                raise Untranslatable("power other than 2: " + s[:60])
            base = e.left
            if isinstance(base, ast.Call) and ast.unparse(base.func) == "jnp.abs" and len(base.args) == 1 and not base.keywords:
                base = base.args[0]
            return f"(XSq {tx(base, env)})"
        a, b = tx(e.left, env), tx(e.right, env)
        if isinstance(e.op, ast.Add):
            a, b = sorted([a, b]); return f"(XAdd {a} {b})"
        if isinstance(e.op, ast.Mult):
            a, b = sorted([a, b]); return f"(XMul {a} {b})"
        if isinstance(e.op, ast.Sub):
            return f"(XSub {a} {b})"
        raise Untranslatable("operator outside the grammar: " + s[:60])
    if isinstance(e, ast.Call):
        fn = ast.unparse(e.func)
        kws = {k.arg: ast.unparse(k.value) for k in e.keywords}
        if fn == "_check_user_func_return" and len(e.args) == 2 and not kws:
            return tx(e.args[0], env)
        if fn == "jnp.sum" and len(e.args) == 1 and kws == {"axis": "-1"}:
            return f"(XSumLast {tx(e.args[0], env)})"
        if fn == "jnp.mean" and len(e.args) == 1 and not kws:
            return f"(XMeanAll {tx(e.args[0], env)})"
        if fn == "jnp.mean" and len(e.args) == 1 and kws == {"axis": "(-2, -1)"}:
            return f"(XMeanLast2 {tx(e.args[0], env)})"
    raise Untranslatable("expression outside the reduction grammar: " + s[:80])


def branch_assigns(fn, name):
    """plain assignments to `name` in source order"""
    vs = [n for n in ast.walk(fn) if isinstance(n, ast.Assign) and len(n.targets) == 1 and ast.unparse(n.targets[0]) == name]
    return [n.value for n in sorted(vs, key=lambda n: n.lineno)]


def lambdas(fn):
    return [n for n in ast.walk(fn) if isinstance(n, ast.Lambda)]


@anchor("G_reduce", "dyn_reduce")
def _(repo):
    f = find_func(parse(repo, LU), "dynamic_loss_apply")
    vs = branch_assigns(f, "mse_dyn_loss")
    if len(vs) != 2:
        raise Untranslatable("expected the PINN and the SPINN assignment of mse_dyn_loss")
    env = {"residuals": 0, "loss_weight": 1}
    rs = [ast.unparse(v) for v in branch_assigns(f, "residuals")]
    placed = rs == ["v_dyn_loss(*batches, params)", "dyn_loss(*batches, u, params)"] and any(
        ast.unparse(l.body) == "dyn_loss(*args[:-1], u, args[-1])" and ast.unparse(l.args) == "*args" for l in lambdas(f))
    return (f"(* inputs: 0 = residuals (batch x components), 1 = loss_weight *)\n"
            f"Definition gen_dyn_reduce_pinn : tx := {tx(vs[0], env)}.\n"
            f"Definition gen_dyn_reduce_spinn : tx := {tx(vs[1], env)}.\n"
            f"Definition gen_dyn_params_last : bool := {'true' if placed else 'false'}.")


@anchor("G_reduce", "obs_reduce")
def _(repo):
    f = find_func(parse(repo, LU), "observations_loss_apply")
    v = one(branch_assigns(f, "mse_observation_loss"), "mse_observation_loss")
    env = {"val": 0, "observed_values": 1, "loss_weight": 2}
    val = [ast.unparse(x) for x in branch_assigns(f, "val")]
    sliced = val == ["v_u(*batches, params)[:, obs_slice]"] and any(ast.unparse(l.body) == "u(*args)[u.slice_solution]" for l in lambdas(f))
    return (f"(* inputs: 0 = predictions (rows x selected components), 1 = observed values, 2 = loss_weight *)\n"
            f"Definition gen_obs_reduce : tx := {tx(v, env)}.\n"
            f"Definition gen_obs_slice_solution_then_obs_slice : bool := {'true' if sliced else 'false'}.")


@anchor("G_reduce", "ic_reduce")
def _(repo):
    f = find_func(parse(repo, LU), "initial_condition_apply")
    vs = branch_assigns(f, "mse_initial_condition")
    if len(vs) != 2:
        raise Untranslatable("expected the PINN and the SPINN assignment of mse_initial_condition")
    res = [ast.unparse(x) for x in branch_assigns(f, "res")]
    if res != ["v_u_t0(omega_batch, params)", "ini - v_ini"]:
        raise Untranslatable("res assigned differently: " + str(res))
    lam = one([l for l in lambdas(f) if ast.unparse(l.args) == "x, params"], "the vmapped mismatch")
    mism = tx(lam.body, {"initial_condition_fun(x)": 0, "u(jnp.zeros((1,)), x, params)": 1})
    mism_s = tx(branch_assigns(f, "res")[1], {"ini": 0, "v_ini": 1})
    out = []
    for tag, v, m in (("pinn", vs[0], mism), ("spinn", vs[1], mism_s)):
        t = tx(v, {"res": 9, "loss_weight": 2}).replace("(XIn 9)", m)
        out.append(f"Definition gen_ic_reduce_{tag} : tx := {t}.")
    return "(* inputs: 0 = u0(x_i) rows, 1 = u(0, x_i) rows, 2 = loss_weight *)\n" + "\n".join(out)


@anchor("G_reduce", "ode_ic_reduce")
def _(repo):
    f = find_func(parse(repo, LODE), "evaluate", "LossODE")
    vs = branch_assigns(f, "mse_initial_condition")
    if len(vs) != 2 or ast.unparse(vs[1]) != "jnp.array(0.0)":
        raise Untranslatable("LossODE initial-condition block changed")
    env = {"v_u(t0, _set_derivatives(params, self.derivative_keys.initial_condition))": 0, "u0": 1, "self.loss_weights.initial_condition": 2}
    return ("(* inputs: 0 = u(t0) rows (one per parameter sample), 1 = u0, 2 = loss_weight *)\n"
            f"Definition gen_ode_ic_reduce : tx := {tx(vs[0], env)}.")


@anchor("G_reduce", "norm_reduce")
def _(repo):
    f = find_func(parse(repo, LU), "normalization_loss_apply")
    vs = branch_assigns(f, "mse_norm_loss")
    if len(vs) != 4:
        raise Untranslatable("expected four assignments of mse_norm_loss (PINN / SPINN x stationary / not)")
    e1 = {"v_u(*batches, params)": 0, "int_length": 1, "loss_weight": 2}
    e2 = {"res": 0, "int_length": 1, "loss_weight": 2}
    # the stationary integral is over the solution components: v_u = vmap(lambda *args: u(*args)[u.slice_solution], ...)
    vus = [v for v in branch_assigns(f, "v_u")]
    sliced = bool(vus) and isinstance(vus[0], ast.Call) and ast.unparse(vus[0].func) == "vmap" and ast.unparse(vus[0].args[0]) == "lambda *args: u(*args)[u.slice_solution]"
    return ("(* inputs: 0 = u on the samples (samples x components; one such matrix per batch time when u depends on time), 1 = int_length, 2 = loss_weight *)\n"
            f"Definition gen_norm_reduce_statio : tx := {tx(vs[0], e1)}.\n"
            f"Definition gen_norm_reduce_nonstatio : tx := {tx(vs[1], e2)}.\n"
            f"Definition gen_norm_statio_over_solution_slice : bool := {'true' if sliced else 'false'}.")


def _total(f, what):
    """(summands, returned dict as key -> expr) of an evaluate method"""
    tl = one(branch_assigns(f, "total_loss"), "total_loss of " + what)
    parts = []

    def flat(e):
        if isinstance(e, ast.BinOp) and isinstance(e.op, ast.Add):
            flat(e.left); flat(e.right)
        else:
            parts.append(ast.unparse(e))
    flat(tl)
    r = one(returns(f), "return of " + what)
    if not (isinstance(r, ast.Tuple) and len(r.elts) == 2 and ast.unparse(r.elts[0]) == "total_loss" and isinstance(r.elts[1], ast.Dict)):
        raise Untranslatable("return of " + what + " is not (total_loss, {...})")
    d = {}
    star = []
    for k, v in zip(r.elts[1].keys, r.elts[1].values):
        if k is None:
            star.append(ast.unparse(v))
        else:
            d[k.value] = ast.unparse(v)
    return parts, d, star


def _defaults_zero(f, names):
    ok = True
    for nm in names:
        vs = [ast.unparse(v) for v in branch_assigns(f, nm)]
        if len(vs) != 2 or vs[1] != "jnp.array(0.0)":
            ok = False
    return ok


@anchor("G_reduce", "totals")
def _(repo):
    out = []
    fo = find_func(parse(repo, LODE), "evaluate", "LossODE")
    p, d, star = _total(fo, "LossODE.evaluate")
    ok_o = (not star and sorted(p) == sorted(d.values()) and len(set(p)) == len(p) and list(d) == ["dyn_loss", "initial_condition", "observations"]
            and d == {"dyn_loss": "mse_dyn_loss", "initial_condition": "mse_initial_condition", "observations": "mse_observation_loss"}
            and _defaults_zero(fo, ["mse_dyn_loss", "mse_initial_condition", "mse_observation_loss"]))
    fs = find_func(parse(repo, LPDE), "evaluate", "LossPDEStatio")
    p, d, star = _total(fs, "LossPDEStatio.evaluate")
    zero_keys = [k for k, v in d.items() if v == "jnp.array(0.0)"]
    live = {k: v for k, v in d.items() if v != "jnp.array(0.0)"}
    ok_s = (not star and sorted(p) == sorted(live.values()) and len(set(p)) == len(p) and zero_keys == ["initial_condition"]
            and live == {"dyn_loss": "mse_dyn_loss", "norm_loss": "mse_norm_loss", "boundary_loss": "mse_boundary_loss", "observations": "mse_observation_loss"}
            and _defaults_zero(fs, ["mse_dyn_loss", "mse_norm_loss", "mse_boundary_loss", "mse_observation_loss"]))
    fn = find_func(parse(repo, LPDE), "evaluate", "LossPDENonStatio")
    p, d, star = _total(fn, "LossPDENonStatio.evaluate")
    sup = [ast.unparse(t) for t in [n.targets[0] for n in ast.walk(fn) if isinstance(n, ast.Assign) and ast.unparse(n.value) == "super().evaluate(params, batch)"]]
    ok_n = (sup == ["(partial_mse, partial_mse_terms)"] and star == ["partial_mse_terms"] and sorted(p) == ["mse_initial_condition", "partial_mse"]
            and d == {"initial_condition": "mse_initial_condition"} and _defaults_zero(fn, ["mse_initial_condition"]))
    out.append(f"Definition gen_total_ode_is_sum_of_returned_terms : bool := {'true' if ok_o else 'false'}.")
    out.append(f"Definition gen_total_statio_is_sum_of_returned_terms : bool := {'true' if ok_s else 'false'}.")
    out.append(f"Definition gen_total_nonstatio_is_sum_of_returned_terms : bool := {'true' if ok_n else 'false'}.")
    return "\n".join(out)


# =============================================================== G_nets (C10)
PINN_F = "jinns/utils/_pinn.py"
HYPER_F = "jinns/utils/_hyperpinn.py"
SPINN_F = "jinns/utils/_spinn.py"
header("G_nets", """From Coq Require Import Bool.
""")


def _eval_pipeline(f, net_name):
    """eval_nn: res = output_transform(inputs, net(input_transform(inputs, params)).squeeze(), params);
    slice iff output_slice is not None; 0-d results get a trailing axis; `inputs` is never rebound"""
    src = ast.unparse(f)
    res = [ast.unparse(v) for v in branch_assigns(f, "res")]
    rebound = [n for n in ast.walk(f) if isinstance(n, (ast.Assign, ast.AugAssign, ast.AnnAssign))
               and any(isinstance(t, ast.Name) and t.id in ("inputs", "params") for t in (n.targets if isinstance(n, ast.Assign) else [n.target]))]
    ifs = [n for n in ast.walk(f) if isinstance(n, ast.If)]
    tests = [ast.unparse(i.test) for i in ifs]
    rets = [ast.unparse(r) for r in returns(f)]
    return (res == [f"self.output_transform(inputs, {net_name}(self.input_transform(inputs, params)).squeeze(), params)", "res[self.output_slice]"]
            and not rebound and tests == ["self.output_slice is not None", "not res.shape"]
            and rets == ["jnp.expand_dims(res, axis=-1)", "res"])


@anchor("G_nets", "pinn_eval")
def _(repo):
    f = find_func(parse(repo, PINN_F), "eval_nn", "PINN")
    ok = _eval_pipeline(f, "model")
    c = find_func(parse(repo, PINN_F), "__call__", "PINN")
    csrc = ast.unparse(c)
    okc = ("len(t.shape) == 0" in csrc and "t = t[..., None]" in csrc and "t_x = jnp.concatenate([t, x], axis=-1)" in csrc
           and "return self.eval_nn(t_x, params)" in csrc and "return self.eval_nn(x, params)" in csrc and "return self.eval_nn(t, params)" in csrc)
    return (f"Definition gen_pinn_eval_pipeline : bool := {'true' if ok else 'false'}.\n"
            f"Definition gen_pinn_call_conventions : bool := {'true' if okc else 'false'}.")


@anchor("G_nets", "hyper_eval")
def _(repo):
    mod = parse(repo, HYPER_F)
    f = find_func(mod, "eval_nn", "HYPERPINN")
    ok = _eval_pipeline(f, "pinn")
    src = ast.unparse(f)
    ok = ok and "eq_params_batch = jnp.concatenate([params.eq_params[k].flatten() for k in self.hyperparams], axis=0)" in src \
        and "hyper_output = hyper(eq_params_batch)" in src and "pinn_params = self._hyper_to_pinn(hyper_output)" in src and "pinn = eqx.combine(pinn_params, self.static)" in src
    h = ast.unparse(find_func(mod, "_hyper_to_pinn", "HYPERPINN"))
    okh = ("jnp.split(hyper_output, self.pinn_params_cumsum[:-1])" in h and "lambda p: tree_leaves(p, is_leaf=eqx.is_array)" in h and "lambda a, b: a.reshape(b.shape)" in h)
    return (f"Definition gen_hyper_eval_pipeline : bool := {'true' if ok else 'false'}.\n"
            f"Definition gen_hyper_split_in_leaf_order : bool := {'true' if okh else 'false'}.")


# =============================================================== boundary term (C04), in G_reduce
BC = "jinns/loss/_boundary_conditions.py"


@anchor("G_reduce", "facet_reduce")
def _(repo):
    """boundary_condition_apply: each facet contributes jnp.mean(loss_weight * <per-point squared mismatch>),
    a facet whose condition is None is skipped, the facets are summed"""
    f = find_func(parse(repo, LU), "boundary_condition_apply")
    lams = [l for l in lambdas(f) if "_compute_boundary_loss" in ast.unparse(l.body)]
    if len(lams) != 2:
        raise Untranslatable("expected the per-facet-dictionary and the global lambda")
    out = []
    skipped = False
    for l in sorted(lams, key=lambda l: l.lineno):
        body = l.body
        if isinstance(body, ast.IfExp):
            skipped = ast.unparse(body.test) == "c is None" and ast.unparse(body.body) == "None"
            body = body.orelse
        call = one([n for n in ast.walk(body) if isinstance(n, ast.Call) and ast.unparse(n.func) == "_compute_boundary_loss"], "_compute_boundary_loss call")
        out.append(tx(body, {ast.unparse(call): 0, "loss_weight": 1}))
    src = ast.unparse(f)
    summed = "jax.tree_util.tree_reduce(lambda x, y: x + y, jax.tree_util.tree_leaves(b_losses_by_facet))" in src and ast.unparse(one(returns(f), "return")) == "mse_boundary_loss"
    return ("(* inputs: 0 = per-point squared mismatch on the facet, 1 = loss_weight *)\n"
            f"Definition gen_facet_reduce_dict : tx := {out[0]}.\n"
            f"Definition gen_facet_reduce_global : tx := {out[1]}.\n"
            f"Definition gen_facet_none_is_skipped : bool := {'true' if skipped else 'false'}.\n"
            f"Definition gen_facets_are_summed : bool := {'true' if summed else 'false'}.")


@anchor("G_reduce", "dirichlet_reduce")
def _(repo):
    """pointwise networks: per border point, the sum over the selected components of (u - f)^2"""
    out = []
    for fn, ucall, fcall in (("boundary_dirichlet_statio", "u(dx, params)[dim_to_apply]", "f(dx)"),
                             ("boundary_dirichlet_nonstatio", "u(t, dx, params)[dim_to_apply]", "f(t, dx)")):
        f = find_func(parse(repo, BC), fn)
        vs = branch_assigns(f, "mse_u_boundary")
        lam = one([l for l in lambdas(f) if ucall in ast.unparse(l.body)], "mismatch lambda of " + fn)
        mism = tx(lam.body, {ucall: 0, fcall: 1})
        expr = vs[0]
        env9 = {}
        calls = [ast.unparse(n) for n in ast.walk(expr) if isinstance(n, ast.Call) and ast.unparse(n.func) == "v_u_boundary"]
        if len(set(calls)) == 1:
            env9 = {calls[0]: 9}
        else:
            rs = [ast.unparse(v) for v in branch_assigns(f, "res")]
            if not rs or not rs[0].startswith("v_u_boundary("):
                raise Untranslatable("mismatch rows not found in " + fn)
            env9 = {"res": 9}
        out.append(f"Definition gen_{fn[9:]}_reduce : tx := {tx(expr, env9).replace('(XIn 9)', mism)}.")
    return "(* inputs: 0 = u at the border points restricted to the selected components, 1 = f at the border points *)\n" + "\n".join(out)


# =============================================================== G_fwd (C11)
OPS = "jinns/loss/_operators.py"
UTILS = "jinns/utils/_utils.py"
header("G_fwd", """From Coq Require Import Bool.
""")


def _scan_fwd(f, what):
    """forward-mode operator: a scan over the d space axes, each step a jvp along the one-hot tangent of axis i
    (repeated over the batch rows); the per-axis results are summed"""
    scans = [n for n in ast.walk(f) if isinstance(n, ast.Call) and ast.unparse(n.func) == "jax.lax.scan"]
    sc = one(scans, "scan of " + what)
    over_axes = len(sc.args) == 3 and ast.unparse(sc.args[2]) in ("jnp.arange(x.shape[1])", "jnp.arange(x.shape[-1])")
    tv = [ast.unparse(v) for v in branch_assigns(f, "tangent_vec")]
    one_hot = tv == ["jnp.repeat(jax.nn.one_hot(i, x.shape[-1])[None], x.shape[0], axis=0)"]
    r = ast.unparse(returns(f)[-1])
    return over_axes, one_hot, r


@anchor("G_fwd", "div_fwd")
def _(repo):
    f = find_func(parse(repo, OPS), "_div_fwd")
    over_axes, one_hot, r = _scan_fwd(f, "_div_fwd")
    jv = [ast.unparse(n) for n in ast.walk(f) if isinstance(n, ast.Call) and ast.unparse(n.func) == "jax.jvp"]
    comp = sorted(jv) == sorted(["jax.jvp(lambda x: u(x, params)[..., i], (x,), (tangent_vec,))", "jax.jvp(lambda x: u(t, x, params)[..., i], (x,), (tangent_vec,))"])
    ok = over_axes and one_hot and comp and r == "jnp.sum(accu, axis=0)" and "__, du_dxi = jax.jvp" in ast.unparse(f)
    return f"Definition gen_div_fwd_is_sum_of_onehot_jvps : bool := {'true' if ok else 'false'}."


@anchor("G_fwd", "laplacian_fwd")
def _(repo):
    f = find_func(parse(repo, OPS), "_laplacian_fwd")
    over_axes, one_hot, r = _scan_fwd(f, "_laplacian_fwd")
    src = ast.unparse(f)
    inner = ("jax.jvp(lambda x: u(x, params)[..., 0], (x,), (tangent_vec,))[1]" in src and "jax.jvp(lambda x: u(t, x, params)[..., 0], (x,), (tangent_vec,))[1]" in src)
    outer = src.count("__, d2u_dxi2 = jax.jvp(du_dxi_fun, (x,), (tangent_vec,))") == 2
    ok = over_axes and one_hot and inner and outer and r == "jnp.sum(trace_hessian, axis=0)"
    return f"Definition gen_laplacian_fwd_is_sum_of_second_onehot_jvps : bool := {'true' if ok else 'false'}."


@anchor("G_fwd", "grid")
def _(repo):
    f = find_func(parse(repo, UTILS), "_get_grid")
    src = ast.unparse(f)
    ok = "jnp.stack(jnp.meshgrid(*(in_array[..., d] for d in range(in_array.shape[-1])), indexing='ij'), axis=-1)" in src
    return f"Definition gen_grid_is_ij_meshgrid_of_columns : bool := {'true' if ok else 'false'}."
