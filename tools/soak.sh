#!/bin/sh
# usage: tools/soak.sh "<seeds>" [tier] [ids...]   -- unregistered soak: every check on the unchanged tree for several seeds
# (private copy of coq/, evidence to /tmp/ev_soak; prints one line per run; any FAIL here is a false alarm or a defect to look at)
SEEDS="$1"; TIER="${2:-quick}"; shift; shift
IDS="${*:-C01 C02 C03 C04 C05 C06 C07 C08 C09 C10 C11 C12 C13 C14 C15 C16 C17 C18 C19 C20}"
CQ=/tmp/coq_soak_$$; cp -r /verif/coq "$CQ"
for s in $SEEDS; do for id in $IDS; do
  VERIF_SEED=$s VERIF_COQ="$CQ" VERIF_EVIDENCE_DIR=/tmp/ev_soak /verif/check "$id" --tier "$TIER" 2>&1 | grep -v '^validation loss' | grep -E '^\[|VIOLATION|Error|error' | tail -2 | sed "s/^/seed=$s /"
done; done
rm -rf "$CQ"
