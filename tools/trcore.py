#!/usr/bin/env python3
"""Core of the fail-closed Python-`ast` -> Gallina translator (tie (a) of DESIGN.md sec. 2.2).

For every *anchor* (a function of /repo/jinns + a statement pattern inside it) the
decisive expression found in the CURRENT source is translated into a Gallina
definition.  The definitions of one Gen file are written to coq/Gen/<file>.v.  When
an anchor cannot be located or its expression is outside the grammar, that anchor's
definition is copied from coq/Pinned/<file>.v (the translator's output on the
reference tree) and the anchor is reported as missing: the verdict for the
properties that use it then rests on the correspondence runs only.

usage: translate.py [--repo /repo] [--out coq/Gen] [--pinned coq/Pinned] [--pin]
prints a JSON report {file: {anchor: "ok" | "missing: <why>"}} on stdout.
"""
import ast, json, os, re, sys, argparse
from fractions import Fraction


class Untranslatable(Exception):
    pass


# --------------------------------------------------------------------------- utils
def parse(repo, rel):
    import warnings
    with open(os.path.join(repo, rel)) as f, warnings.catch_warnings():
        warnings.simplefilter("ignore")          # e.g. invalid escape sequences in docstrings of the source
        return ast.parse(f.read())


def find_func(mod, name, cls=None):
    hits = []
    for n in ast.walk(mod):
        if cls is not None:
            if isinstance(n, ast.ClassDef) and n.name == cls:
                for m in n.body:
                    if isinstance(m, ast.FunctionDef) and m.name == name:
                        hits.append(m)
        elif isinstance(n, ast.FunctionDef) and n.name == name:
            hits.append(n)
    if len(hits) != 1:
        raise Untranslatable(f"function {cls+'.' if cls else ''}{name}: {len(hits)} definitions")
    return hits[0]


def assigns(fn, target):
    """all `target = value` statements (by unparsed target) anywhere inside fn"""
    out = []
    for n in ast.walk(fn):
        if isinstance(n, ast.Assign) and len(n.targets) == 1 and ast.unparse(n.targets[0]) == target:
            out.append(n.value)
        if isinstance(n, ast.AugAssign) and ast.unparse(n.target) == target:
            out.append(n)
    return out


def one(xs, what):
    if len(xs) != 1:
        raise Untranslatable(f"{what}: expected exactly one, found {len(xs)}")
    return xs[0]


def returns(fn):
    """return expressions of fn itself (nested function definitions and lambdas excluded)"""
    out = []

    def walk(n, top):
        if not top and isinstance(n, (ast.FunctionDef, ast.AsyncFunctionDef, ast.Lambda)):
            return
        if isinstance(n, ast.Return) and n.value is not None:
            out.append(n.value)
        for c in ast.iter_child_nodes(n):
            walk(c, False)
    walk(fn, True)
    return out


def strip_doc(body):
    if body and isinstance(body[0], ast.Expr) and isinstance(body[0].value, ast.Constant) and isinstance(body[0].value.value, str):
        return body[1:]
    return body


# ------------------------------------------------------------- integer/boolean back-end
CMP = {ast.Gt: ">?", ast.GtE: ">=?", ast.Lt: "<?", ast.LtE: "<=?", ast.Eq: "=?"}
ZBIN = {ast.Add: "+", ast.Sub: "-", ast.Mult: "*", ast.FloorDiv: "/", ast.Mod: "mod"}


def zexpr(e, env):
    """int/bool expression -> Gallina over Z/bool.  env maps unparsed source
    sub-expressions (names, attributes, subscripts) to Gallina identifiers."""
    key = ast.unparse(e)
    if key in env:
        return env[key]
    if isinstance(e, ast.Compare) and len(e.ops) == 1 and type(e.ops[0]) in CMP:
        return f"({zexpr(e.left, env)} {CMP[type(e.ops[0])]} {zexpr(e.comparators[0], env)})"
    if isinstance(e, ast.Compare) and len(e.ops) == 1 and isinstance(e.ops[0], ast.NotEq):
        return f"(negb ({zexpr(e.left, env)} =? {zexpr(e.comparators[0], env)}))"
    if isinstance(e, ast.BinOp) and type(e.op) in ZBIN:
        return f"({zexpr(e.left, env)} {ZBIN[type(e.op)]} {zexpr(e.right, env)})"
    if isinstance(e, ast.BoolOp):
        op = "&&" if isinstance(e.op, ast.And) else "||"
        return "(" + f" {op} ".join(zexpr(v, env) for v in e.values) + ")"
    if isinstance(e, ast.UnaryOp) and isinstance(e.op, ast.Not):
        return f"(negb {zexpr(e.operand, env)})"
    if isinstance(e, ast.UnaryOp) and isinstance(e.op, ast.USub):
        return f"(- {zexpr(e.operand, env)})"
    if isinstance(e, ast.Constant) and isinstance(e.value, bool):
        return "true" if e.value else "false"
    if isinstance(e, ast.Constant) and isinstance(e.value, int):
        return f"({e.value})" if e.value < 0 else f"{e.value}"
    if isinstance(e, ast.IfExp):
        return f"(if {zexpr(e.test, env)} then {zexpr(e.body, env)} else {zexpr(e.orelse, env)})"
    raise Untranslatable("outside the integer grammar: " + key)


# ------------------------------------------------------------------- field back-end
def kexpr(e, env):
    """arithmetic expression over named atoms -> Gallina term in scope %K."""
    key = ast.unparse(e)
    if key in env:
        return env[key]
    if isinstance(e, ast.BinOp):
        if isinstance(e.op, ast.Pow):
            if isinstance(e.right, ast.Constant) and e.right.value == 2:
                a = kexpr(e.left, env)
                return f"({a} * {a})"
            raise Untranslatable("power other than 2: " + key)
        ops = {ast.Add: "+", ast.Sub: "-", ast.Mult: "*", ast.Div: "/"}
        if type(e.op) in ops:
            return f"({kexpr(e.left, env)} {ops[type(e.op)]} {kexpr(e.right, env)})"
    if isinstance(e, ast.UnaryOp) and isinstance(e.op, ast.USub):
        return f"(- {kexpr(e.operand, env)})"
    if isinstance(e, ast.UnaryOp) and isinstance(e.op, ast.UAdd):
        return kexpr(e.operand, env)
    if isinstance(e, ast.Constant) and isinstance(e.value, (int, float)) and not isinstance(e.value, bool):
        fr = Fraction(e.value)
        if fr.denominator == 1:
            return f"(kz {fr.numerator})" if fr.numerator >= 0 else f"(kz ({fr.numerator}))"
        return f"(kz {fr.numerator} / kz {fr.denominator})" if fr.numerator >= 0 else f"(kz ({fr.numerator}) / kz {fr.denominator})"
    raise Untranslatable("outside the field grammar: " + key)


# ------------------------------------------------------------------------ registry
REGISTRY = {}  # gen file -> list of (anchor name, function(repo) -> coq text)


def anchor(genfile, name):
    def deco(f):
        REGISTRY.setdefault(genfile, []).append((name, f))
        return f
    return deco


HEADERS = {}


def header(genfile, text):
    HEADERS[genfile] = text


