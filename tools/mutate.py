#!/usr/bin/env python3
"""Unregistered development tool: small syntactic mutants of /repo/jinns (comparison / arithmetic operators,
small integer constants, None tests, booleans) are applied one at a time in scratch worktrees and the
registered quick checks of the properties anchored in the mutated file are run against each.  Survivors
(no VIOLATION) are then run through the 51 pinned tests.  Output: one JSON line per mutant.

usage: mutate.py <out.jsonl> <per_file> <workers> [file ...]      (everything under /tmp, nothing kept)"""
import ast, json, os, random, re, subprocess, sys, time
from concurrent.futures import ThreadPoolExecutor

ROOT = os.path.dirname(os.path.dirname(os.path.abspath(__file__)))
FILES = {
    "jinns/loss/_operators.py": ["C01", "C11"],
    "jinns/loss/_DynamicLoss.py": ["C02"],
    "jinns/loss/_DynamicLossAbstract.py": ["C02", "C12"],
    "jinns/loss/_loss_utils.py": ["C03", "C04", "C05", "C13"],
    "jinns/loss/_boundary_conditions.py": ["C04"],
    "jinns/loss/_LossODE.py": ["C03", "C05", "C13"],
    "jinns/loss/_LossPDE.py": ["C03", "C05", "C04", "C13"],
    "jinns/parameters/_derivative_keys.py": ["C06"],
    "jinns/parameters/_params.py": ["C12"],
    "jinns/data/_DataGenerators.py": ["C08", "C09", "C14", "C15"],
    "jinns/data/_Batchs.py": ["C14", "C12"],
    "jinns/solver/_rar.py": ["C16", "C17"],
    "jinns/solver/_solve.py": ["C07", "C19", "C18"],
    "jinns/validation/_validation.py": ["C19"],
    "jinns/utils/_pinn.py": ["C10"],
    "jinns/utils/_spinn.py": ["C10"],
    "jinns/utils/_hyperpinn.py": ["C10"],
    "jinns/utils/_utils.py": ["C18", "C05"],
}
TESTS = ("tests/dataGenerator_tests tests/parameters_tests tests/utils_tests tests/solver_tests/test_nan_params_catch.py tests/solver_tests/test_parameter_tracker.py "
         "tests/solver_tests/test_rar_algorithm.py tests/solver_tests/test_NSPipeFlow_x32_eqx.py tests/solver_tests_spinn/test_NSPipeFlow_x32_spinn_eqx.py")
CMP = {ast.Lt: "<=", ast.LtE: "<", ast.Gt: ">=", ast.GtE: ">", ast.Eq: "!=", ast.NotEq: "==", ast.Is: "is not", ast.IsNot: "is"}
BIN = {ast.Add: "-", ast.Sub: "+", ast.Mult: "+", ast.FloorDiv: "*"}


def covered_lines():
    try:
        import coverage
        d = coverage.CoverageData("/tmp/cov/all"); d.read()
        return {f: set(d.lines(f) or []) for f in d.measured_files()}
    except Exception:
        return {}


def sh(cmd, **kw):
    p = subprocess.run(cmd, shell=True, stdout=subprocess.PIPE, stderr=subprocess.STDOUT, text=True, **kw)
    return p.returncode, p.stdout


def offsets(src):
    starts, tot = [], 0
    for l in src.splitlines(keepends=True):
        starts.append(tot); tot += len(l)
    return lambda line, col: starts[line - 1] + len(src.splitlines(keepends=True)[line - 1].encode()[:col].decode())


def mutants_of(path, src, cov):
    tree = ast.parse(src)
    off = offsets(src)
    out = []
    doc = set()
    for n in ast.walk(tree):
        if isinstance(n, (ast.FunctionDef, ast.ClassDef, ast.Module)) and n.body and isinstance(n.body[0], ast.Expr) and isinstance(getattr(n.body[0], "value", None), ast.Constant) and isinstance(n.body[0].value.value, str):
            doc.add(id(n.body[0].value))
    infun = set()
    for f in ast.walk(tree):
        if isinstance(f, ast.FunctionDef):
            for n in ast.walk(f):
                infun.add(id(n))
    ann = set()
    for n in ast.walk(tree):
        for fld in ("annotation", "returns"):
            a = getattr(n, fld, None)
            if a is not None:
                for m in ast.walk(a):
                    ann.add(id(m))
    for n in ast.walk(tree):
        if id(n) not in infun or id(n) in ann or not hasattr(n, "lineno") or (cov is not None and n.lineno not in cov):
            continue
        if isinstance(n, ast.Compare) and len(n.ops) == 1 and type(n.ops[0]) in CMP:
            a, b = off(n.left.end_lineno, n.left.end_col_offset), off(n.comparators[0].lineno, n.comparators[0].col_offset)
            seg = src[a:b]
            if "\n" in seg or "(" in seg or ")" in seg:
                continue
            out.append((n.lineno, a, b, " " + CMP[type(n.ops[0])] + " ", f"compare {seg.strip()} -> {CMP[type(n.ops[0])]}"))
        elif isinstance(n, ast.BinOp) and type(n.op) in BIN:
            a, b = off(n.left.end_lineno, n.left.end_col_offset), off(n.right.lineno, n.right.col_offset)
            seg = src[a:b]
            if "\n" in seg or "(" in seg or ")" in seg:
                continue
            out.append((n.lineno, a, b, " " + BIN[type(n.op)] + " ", f"binop {seg.strip()} -> {BIN[type(n.op)]}"))
        elif isinstance(n, ast.Constant) and id(n) not in doc and type(n.value) is int and -3 <= n.value <= 3:
            a, b = off(n.lineno, n.col_offset), off(n.end_lineno, n.end_col_offset)
            new = {0: "1", 1: "0", 2: "1", 3: "2"}.get(n.value)
            if new and src[a:b] == str(n.value):
                out.append((n.lineno, a, b, new, f"int {n.value} -> {new}"))
        elif isinstance(n, ast.Constant) and type(n.value) is bool:
            a, b = off(n.lineno, n.col_offset), off(n.end_lineno, n.end_col_offset)
            out.append((n.lineno, a, b, str(not n.value), f"bool {n.value} -> {not n.value}"))
        elif isinstance(n, ast.UnaryOp) and isinstance(n.op, ast.USub) and isinstance(n.operand, ast.Constant) and n.operand.value == 1:
            a, b = off(n.lineno, n.col_offset), off(n.end_lineno, n.end_col_offset)
            out.append((n.lineno, a, b, "0", "int -1 -> 0"))
    return out


def run_one(job):
    k, path, (line, a, b, new, desc), ids = job
    wt, cq = f"/tmp/wt_mu_{os.getpid()}_{k}", f"/tmp/coq_mu_{os.getpid()}_{k}"
    rec = dict(k=k, file=path, line=line, mutation=desc, checks={}, detected_by=[])
    sh(f"git -C /repo worktree add -q {wt} HEAD")
    try:
        src = open(os.path.join(wt, path)).read()
        open(os.path.join(wt, path), "w").write(src[:a] + new + src[b:])
        rec["text"] = (src[:a] + new + src[b:]).splitlines()[line - 1].strip()[:160]
        rc, o = sh(f"cd {wt} && JAX_PLATFORMS=cpu PYTHONPATH={wt} timeout 120 /venv/bin/python -W ignore -c 'import jinns, jinns.validation'")
        if rc != 0:
            rec["import_fails"] = True
            return rec
        sh(f"cp -r {ROOT}/coq {cq}")
        for i in ids:
            t0 = time.time()
            rc, o = sh(f"cd {ROOT} && VERIF_REPO={wt} VERIF_COQ={cq} VERIF_EVIDENCE_DIR=/tmp/ev_mu_{k} timeout 1500 ./check {i} --tier quick 2>&1 | grep -E '^\\[|^VIOLATION|^KNOWN' | tail -3")
            det = any(l.startswith("VIOLATION") for l in o.splitlines())
            rec["checks"][i] = dict(detected=det, line=(o.strip().splitlines() or [""])[-1][:200], wall=round(time.time() - t0))
            if det:
                rec["detected_by"].append(i)
                break
        if not rec["detected_by"]:
            rc, o = sh(f"cd {wt} && JAX_PLATFORMS=cpu timeout 900 /venv/bin/python -m pytest -q -x -p no:cacheprovider --timeout=900 --continue-on-collection-errors {TESTS} 2>&1 | tail -1")
            rec["tests_tail"] = o.strip()[-120:]
            rec["tests_pass"] = bool(re.match(r"^51 passed", o.strip().splitlines()[-1] if o.strip() else ""))
    finally:
        sh(f"rm -rf {cq} /tmp/ev_mu_{k}; git -C /repo worktree remove --force {wt}")
    return rec


def main():
    outp, per_file, workers = sys.argv[1], int(sys.argv[2]), int(sys.argv[3])
    files = sys.argv[4:] or list(FILES)
    cov = covered_lines()
    rng = random.Random(int(os.environ.get("MUT_SEED", "0")))
    jobs = []
    for path in files:
        src = open(os.path.join("/repo", path)).read()
        ms = mutants_of(path, src, cov.get(os.path.join("/repo", path)))
        rng.shuffle(ms)
        for m in ms[:per_file]:
            jobs.append((len(jobs), path, m, FILES[path]))
    print(len(jobs), "mutants", flush=True)
    with open(outp, "a") as fh, ThreadPoolExecutor(workers) as ex:
        for rec in ex.map(run_one, jobs):
            fh.write(json.dumps(rec) + "\n"); fh.flush()
            print(rec["k"], rec["file"], rec["line"], rec["mutation"], "->", "IMPORT-FAILS" if rec.get("import_fails") else (rec["detected_by"] or ("SURVIVED tests_pass=%s" % rec.get("tests_pass"))), flush=True)


if __name__ == "__main__":
    main()
