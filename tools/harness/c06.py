"""C06 harness: jax.grad of the total loss (and values) of the three single losses under every
assignment of {selected, not selected} to (term, parameter group) pairs, against the symbolic
masked total of Model/M_derivkeys.v.  Network U(p) = theta * P(p) + b; dynamic residual
a * U(p) + q(p); theta = network scale, a and b = equation parameters."""
import itertools, random
from common import jx, cq, cnat, cbool, clist, write_cases, default_matches_known
from lossbuild import dy, poly_jax, nvars
from poly import mk, prand, peval
matches_known = default_matches_known
TERMS = {"ode": ["dyn_loss", "initial_condition", "observations"],
         "statio": ["dyn_loss", "norm_loss", "boundary_loss", "observations"],
         "nonstatio": ["dyn_loss", "norm_loss", "boundary_loss", "observations", "initial_condition"]}


def problem(rng, kind):
    dim = 1
    nv = nvars(kind, dim)
    cfg = dict(kind=kind, dim=dim, P=prand(rng, nv, 2, 3) or {(0,) * nv: 1}, q=prand(rng, nv, 2, 2) or {(0,) * nv: 1},
               theta=dy(rng, 1, 3), a=dy(rng, 1, 3), b=dy(rng, -2, 2),
               batch=[[dy(rng) for _ in range(nv)] for _ in range(rng.randint(1, 3))],
               w={t: rng.randint(1, 4) / 2 for t in TERMS[kind]}, rev_keys=rng.random() < 0.5, rev_params=rng.random() < 0.3, nested=False)   # (a nested single-loss layout cannot carry an observation part: _update_eq_params_dict pairs top-level keys; not generated)
    n = len(cfg["batch"])
    cfg["obs"] = dict(inputs=[[dy(rng) for _ in range(nv)] for _ in range(n)], vals=[[float(rng.randint(-2, 2))] for _ in range(n)])
    cfg["obs_arows"] = [dy(rng, 1, 4) for _ in range(n)]        # used by every second PDE specification (see generate)
    if kind == "ode":
        cfg["ic"] = dict(t0=dy(rng), u0=[float(rng.randint(-2, 2))])
        cfg["a_batch_rows"] = [dy(rng, 1, 3) for _ in range(n)]       # used by every second specification (see generate)
    else:
        cfg["norm"] = dict(samples=[[dy(rng)] for _ in range(rng.randint(1, 3))], L=rng.choice([1.0, 2.0]))
        cfg["fb"] = prand(rng, nv, 1, 2) or {(0,) * nv: 1}
        ts = sorted({r[0] for r in cfg["batch"]}) if kind == "nonstatio" else [None]
        cfg["border"] = [[([t] if t is not None else []) + [x] for t in ts] for x in (-1.0, 2.0)]     # per facet: points
        if kind == "nonstatio":
            cfg["icp"] = prand(rng, dim, 2, 2) or {(0,): 1}
    return cfg


def as_string(bits):
    """the string form of a mask over (nn_params, a, b) when it has one"""
    return {(True, True, True): "both", (False, True, True): "eq_params", (True, False, False): "nn_params"}.get(tuple(bool(x) for x in bits))


def build(cfg, masks):
    jax, jnp, np, eqx, jinns = jx()
    from jinns.parameters import Params
    from jinns.data._Batchs import ODEBatch, PDEStatioBatch, PDENonStatioBatch
    kind = cfg["kind"]
    eq_type = {"ode": "ODE", "statio": "statio_PDE", "nonstatio": "nonstatio_PDE"}[kind]
    nested = bool(cfg.get("nested"))        # equation parameters may be grouped in nested dictionaries: b lives in eq_params["g"]["b"]
    getb = (lambda p: p.eq_params["g"]["b"]) if nested else (lambda p: p.eq_params["b"])
    u = mk([cfg["P"]], eq_type, output_transform=lambda i, o, p: o + getb(p))
    nn = eqx.tree_at(lambda m: m.scale, u.init_params(), jnp.array(cfg["theta"]))
    od = (lambda d: dict(reversed(list(d.items())))) if cfg.get("rev_keys") else (lambda d: d)      # dictionaries written in either key order
    shape_eq = (lambda a, b: {"a": a, "g": {"b": b}}) if nested else (lambda a, b: {"a": a, "b": b})
    P = Params(nn_params=nn, eq_params=(od if cfg.get("rev_params") else (lambda d: d))(shape_eq(jnp.array(cfg["a"]), jnp.array(cfg["b"]))))
    q = cfg["q"]
    Mtree = lambda t: Params(nn_params=bool(masks[t][0]), eq_params=od(shape_eq(bool(masks[t][1]), bool(masks[t][2]))))
    use_str = all(as_string(masks[t]) for t in masks)           # every mask has a string form: go through from_str (strings and trees may be mixed)
    M = (lambda t: as_string(masks[t])) if use_str else Mtree
    # boolean-tree form with a partial specification: a term whose mask is the documented default (network parameters only)
    # is left out and `params` is passed instead; every other term keeps the mask it was given
    is_default = lambda t: tuple(bool(x) for x in masks[t]) == (True, False, False)

    def tree_keys(cls, **kw):
        given = {t: m for t, m in kw.items() if not is_default(t)}
        return cls(**given, params=P) if len(given) < len(kw) else cls(**kw)
    # the observations may carry observed rows of the equation's parameter `a` (the network does not read it): the
    # observation term keeps its value and its own mask
    oeq = {"a": jnp.array(cfg["obs"]["arows"])[:, None]} if cfg["obs"].get("arows") else {}
    obs = {"pinn_in": jnp.array(cfg["obs"]["inputs"]), "val": jnp.array(cfg["obs"]["vals"]), "eq_params": oeq}
    w = cfg["w"]
    if kind == "ode":
        class Eq(jinns.loss.ODE):
            def equation(self, t, u, params):
                return params.eq_params["a"] * u(t, params) + poly_jax(q, jnp.atleast_1d(t))
        dk = (lambda **kw: jinns.parameters.DerivativeKeysODE.from_str(P, **kw) if use_str else tree_keys(jinns.parameters.DerivativeKeysODE, **kw))(dyn_loss=M("dyn_loss"), observations=M("observations"), initial_condition=M("initial_condition"))
        lw = jinns.loss.LossWeightsODE(dyn_loss=w["dyn_loss"], initial_condition=w["initial_condition"], observations=w["observations"])
        L = jinns.loss.LossODE(u=u, dynamic_loss=Eq(), derivative_keys=dk, loss_weights=lw, initial_condition=(cfg["ic"]["t0"], jnp.array(cfg["ic"]["u0"])))
        pb = {"a": jnp.array(cfg["a_batch"])[:, None]} if cfg.get("a_batch") else None
        batch = ODEBatch(temporal_batch=jnp.array(cfg["batch"])[:, 0], param_batch_dict=pb, obs_batch_dict=obs)
        return P, L, batch
    fb = cfg["fb"]
    pts = cfg["border"]
    arr = jnp.array([[[pts[fa][r][c] for fa in range(2)] for c in range(len(pts[0][0]))] for r in range(len(pts[0]))])
    common = dict(norm_samples=jnp.array(cfg["norm"]["samples"]), norm_int_length=cfg["norm"]["L"], omega_boundary_condition="dirichlet")
    if kind == "statio":
        class Eq(jinns.loss.PDEStatio):
            def equation(self, x, u, params):
                return params.eq_params["a"] * u(x, params) + poly_jax(q, x)
        dk = (lambda **kw: jinns.parameters.DerivativeKeysPDEStatio.from_str(P, **kw) if use_str else tree_keys(jinns.parameters.DerivativeKeysPDEStatio, **kw))(dyn_loss=M("dyn_loss"), observations=M("observations"), boundary_loss=M("boundary_loss"), norm_loss=M("norm_loss"))
        lw = jinns.loss.LossWeightsPDEStatio(dyn_loss=w["dyn_loss"], norm_loss=w["norm_loss"], boundary_loss=w["boundary_loss"], observations=w["observations"])
        L = jinns.loss.LossPDEStatio(u=u, dynamic_loss=Eq(), derivative_keys=dk, loss_weights=lw, omega_boundary_fun=lambda x: poly_jax(fb, x), **common)
        return P, L, PDEStatioBatch(inside_batch=jnp.array(cfg["batch"]), border_batch=arr, obs_batch_dict=obs)

    class Eq(jinns.loss.PDENonStatio):
        def equation(self, t, x, u, params):
            return params.eq_params["a"] * u(t, x, params) + poly_jax(q, jnp.concatenate([t, x]))
    dk = (lambda **kw: jinns.parameters.DerivativeKeysPDENonStatio.from_str(P, **kw) if use_str else tree_keys(jinns.parameters.DerivativeKeysPDENonStatio, **kw))(dyn_loss=M("dyn_loss"), observations=M("observations"), boundary_loss=M("boundary_loss"),
                                                     norm_loss=M("norm_loss"), initial_condition=M("initial_condition"))
    lw = jinns.loss.LossWeightsPDENonStatio(dyn_loss=w["dyn_loss"], norm_loss=w["norm_loss"], boundary_loss=w["boundary_loss"], observations=w["observations"],
                                            initial_condition=w["initial_condition"])
    icp = cfg["icp"]
    L = jinns.loss.LossPDENonStatio(u=u, dynamic_loss=Eq(), derivative_keys=dk, loss_weights=lw,
                                    omega_boundary_fun=lambda t, x: poly_jax(fb, jnp.concatenate([t, x])), initial_condition_fun=lambda x: poly_jax(icp, x), **common)
    return P, L, PDENonStatioBatch(times_x_inside_batch=jnp.array(cfg["batch"]), times_x_border_batch=arr, obs_batch_dict=obs)


def evaluate(cfg, masks):
    jax, jnp, np, eqx, jinns = jx()
    P, L, batch = build(cfg, masks)
    (v, terms), g = jax.value_and_grad(lambda p: L(p, batch), has_aux=True)(P)
    gb = g.eq_params["g"]["b"] if cfg.get("nested") else g.eq_params["b"]
    return float(v), [float(g.nn_params.scale), float(g.eq_params["a"]), float(gb)], {k: float(x) for k, x in terms.items()}


def descs(cfg, term):
    """term description(s) in the vocabulary of Run/R_C06.v"""
    P = lambda pt: peval(cfg["P"], pt)
    row = lambda al, be, ga, p: f"(mkrow {cq(al)} {cq(be)} {cq(ga)} {cq(p)})"
    w = cfg["w"][term]
    kind = cfg["kind"]
    if term == "dyn_loss":
        if cfg.get("a_batch"):       # sample i uses row i of the batch in place of the caller's a: a constant coefficient of U
            return [f"(TMeanSq {cq(w)} {clist([row(0, ai, peval(cfg['q'], p), P(p)) for p, ai in zip(cfg['batch'], cfg['a_batch'])], str)})"]
        return [f"(TMeanSq {cq(w)} {clist([row(1, 0, peval(cfg['q'], p), P(p)) for p in cfg['batch']], str)})"]
    if term == "observations":
        return [f"(TMeanSq {cq(w)} {clist([row(0, 1, -v[0], P(i)) for i, v in zip(cfg['obs']['inputs'], cfg['obs']['vals'])], str)})"]
    if term == "initial_condition" and kind == "ode":
        return [f"(TMeanSq {cq(w)} {clist([row(0, 1, -cfg['ic']['u0'][0], P([cfg['ic']['t0']]))], str)})"]
    if term == "initial_condition":
        xs = [r[1:] for r in cfg["batch"]]
        return [f"(TMeanSq {cq(w)} {clist([row(0, -1, peval(cfg['icp'], x), P([0.0] + x)) for x in xs], str)})"]
    if term == "boundary_loss":
        return [f"(TMeanSq {cq(w)} {clist([row(0, 1, -peval(cfg['fb'], p), P(p)) for p in facet], str)})" for facet in cfg["border"]]
    # normalisation
    S = cfg["norm"]["samples"]
    if kind == "statio":
        groups = [[P(s) for s in S]]
    else:
        groups = [[P([r[0]] + s) for s in S] for r in cfg["batch"]]
    return [f"(TNorm {cq(w)} {cq(cfg['norm']['L'])} {clist(groups, lambda g: clist(g, cq))})"]


def case_term(cid, cfg, masks, val, grad):
    ts = clist(TERMS[cfg["kind"]], lambda t: f"(mkt {cbool(masks[t][0])} {cbool(masks[t][1])} {cbool(masks[t][2])} {clist(descs(cfg, t), str)})")
    return f"mkcase {cnat(cid)} {cq(cfg['theta'])} {cq(cfg['a'])} {cq(cfg['b'])} {ts} {cq(val)} {clist(grad, cq)}"


def jsonable(cfg, masks):
    pj = lambda p: [[list(k), v] for k, v in sorted(p.items())]
    out = dict(cfg, P=pj(cfg["P"]), q=pj(cfg["q"]), masks=masks)
    for k in ("fb", "icp"):
        if k in cfg:
            out[k] = pj(cfg[k])
    return out


def unjson(c):
    pu = lambda p: {tuple(k): v for k, v in p}
    out = dict(c, P=pu(c["P"]), q=pu(c["q"]))
    for k in ("fb", "icp"):
        if k in c:
            out[k] = pu(c[k])
    return out, {t: list(v) for t, v in c["masks"].items()}


def direct_oracle(cfg, masks, grad, val):
    """gradient of the total = sum over the terms selected for the group of the term's own
    gradient (obtained with every other term's weight set to 0 and everything selected)"""
    fails = []
    full = {t: [True, True, True] for t in masks}
    exp = [0.0, 0.0, 0.0]
    v_all, _, _ = evaluate(cfg, full)
    if abs(v_all - val) > 1e-12 * (1 + abs(val)):
        fails.append(f"the loss value depends on the derivative specification ({val} vs {v_all})")
    for t in masks:
        c1 = dict(cfg, w={k: (cfg["w"][k] if k == t else 0.0) for k in cfg["w"]})
        _, g_t, _ = evaluate(c1, full)
        for gi in range(3):
            if masks[t][gi]:
                exp[gi] += g_t[gi]
    for gi, nm in enumerate(["nn_params", "eq_params[a]", "eq_params[b]"]):
        if abs(exp[gi] - grad[gi]) > 1e-9 * (1 + abs(exp[gi])):
            fails.append(f"gradient w.r.t. {nm} is {grad[gi]}, the sum of the selected terms' gradients is {exp[gi]}")
    return fails


def string_forms_oracle(rng):
    """string specifications against the boolean trees (field by field and all fields at once with
    different strings), defaults, rejected strings"""
    jax, jnp, np, eqx, jinns = jx()
    from jinns.parameters import Params
    fails = []
    P = Params(nn_params={"w": jnp.ones(2)}, eq_params={"a": jnp.array(1.0), "b": jnp.array(2.0)})
    want = {"both": (True, True), "eq_params": (False, True), "nn_params": (True, False)}
    FIELDS = ("dyn_loss", "observations", "initial_condition", "boundary_loss", "norm_loss")

    def is_mask(m, nn, eq):
        return set(jax.tree_util.tree_leaves(m.nn_params)) == {nn} and m.eq_params == {"a": eq, "b": eq}
    for cls in (jinns.parameters.DerivativeKeysODE, jinns.parameters.DerivativeKeysPDEStatio, jinns.parameters.DerivativeKeysPDENonStatio):
        fields = [x for x in FIELDS if hasattr(cls(params=P), x)]
        specs = [{f: s} for f in fields for s in want]                                   # one field at a time
        specs += [{f: rng.choice(list(want)) for f in fields} for _ in range(6)]          # all fields, independent strings
        for spec in specs:
            dk = cls.from_str(P, **spec)
            for f in fields:
                nn, eq = want[spec.get(f, "nn_params")]
                if not is_mask(getattr(dk, f), nn, eq):
                    fails.append({"detail": f"{cls.__name__}.from_str({spec}) gives {f} = {getattr(dk, f)}", "case": {"what": "strings"}})
        d = cls(params=P)
        for f in fields:
            if not is_mask(getattr(d, f), True, False):
                fails.append({"detail": f"default of {cls.__name__}.{f} is {getattr(d, f)}", "case": {"what": "strings"}})
        # partial specification in the constructor form: one term is given a mask of its own, every other term gets the default
        for f in fields:
            for nn, eq in ((False, True), (False, False), (True, True)):
                d = cls(**{f: Params(nn_params=nn, eq_params={"a": eq, "b": eq})}, params=P)
                for g in fields:
                    ok = is_mask(getattr(d, g), nn, eq) if g == f else is_mask(getattr(d, g), True, False)
                    if not ok:
                        fails.append({"detail": f"{cls.__name__}({f}=(network {nn}, equation parameters {eq}), params=...) gives {g} = {getattr(d, g)}", "case": {"what": "strings"}})
        # the same strings on the parameters of a system (ParamsDict): network parameters as a whole, every equation parameter
        from jinns.parameters import ParamsDict
        PD = ParamsDict(nn_params={"u": {"w": jnp.ones(2)}, "v": {"w": jnp.ones(3)}}, eq_params={"a": jnp.array(1.0), "b": jnp.array(2.0)})
        for f in fields:
            for sname, (nn, eq) in want.items():
                dk = cls.from_str(PD, **{f: sname})
                for g in fields:
                    wnn, weq = (nn, eq) if g == f else (True, False)
                    m = getattr(dk, g)
                    if set(jax.tree_util.tree_leaves(m.nn_params)) != {wnn} or m.eq_params != {"a": weq, "b": weq}:
                        fails.append({"detail": f"{cls.__name__}.from_str(<system parameters>, {f}={sname!r}) gives {g} = {m}", "case": {"what": "strings"}})
        try:
            cls.from_str(P, dyn_loss="everything")
            fails.append({"detail": f"{cls.__name__}.from_str accepts an unknown string", "case": {"what": "strings"}})
        except ValueError:
            pass
    return fails


def hyper_gradient_oracle(rng, n):
    """a hyper-network-driven network (HYPERPINN): an equation parameter that feeds the hyper-network and is selected by a
    term's derivative keys receives that term's derivative (compared with central finite differences of the value, float64);
    selected by no term it receives exactly zero"""
    jax, jnp, np, eqx, jinns = jx()
    from jinns.parameters import Params
    from jinns.data._Batchs import ODEBatch
    fails = []
    for trial in range(n):
        key = jax.random.PRNGKey(rng.randrange(1 << 30))
        eqx_list = ((eqx.nn.Linear, 1, 3), (jax.nn.tanh,), (eqx.nn.Linear, 3, 1))
        eqx_list_hyper = ((eqx.nn.Linear, 2, 4), (jax.nn.tanh,), (eqx.nn.Linear, 4, 1))
        u = jinns.utils.create_HYPERPINN(key, eqx_list, "ODE", hyperparams=["a", "b"], hypernet_input_size=2, dim_x=0, eqx_list_hyper=eqx_list_hyper)
        P = Params(nn_params=u.init_params(), eq_params={"a": jnp.array(0.5 + rng.random()), "b": jnp.array(rng.random() - 0.5)})

        class Eq(jinns.loss.ODE):
            def equation(self, t, u, params):
                return jax.grad(lambda tt: u(tt, params)[0])(t) + params.eq_params["a"] * u(t, params)
        sel = {"dyn_loss": rng.random() < 0.5, "initial_condition": rng.random() < 0.7, "observations": rng.random() < 0.5}
        if trial == 0:
            sel = {"dyn_loss": False, "initial_condition": True, "observations": False}
        mask = lambda on: Params(nn_params=True, eq_params={"a": bool(on), "b": bool(on)})
        dk = jinns.parameters.DerivativeKeysODE(dyn_loss=mask(sel["dyn_loss"]), initial_condition=mask(sel["initial_condition"]), observations=mask(sel["observations"]))
        ts = jnp.array([0.1, 0.4, 0.7])
        obs = {"pinn_in": jnp.array([[0.2], [0.6]]), "val": jnp.array([[0.3], [-0.2]]), "eq_params": {}}
        batch = ODEBatch(temporal_batch=ts, obs_batch_dict=obs)

        def build(keys):
            return jinns.loss.LossODE(u=u, dynamic_loss=Eq(), derivative_keys=keys, initial_condition=(0.0, 1.0), params=P)
        L = build(dk)
        try:
            g = jax.grad(lambda p: L(p, batch)[0])(P)
            # the value of each term as a function of a (derivative keys do not change values)
            def term_values(a):
                return L(Params(nn_params=P.nn_params, eq_params={"a": a, "b": P.eq_params["b"]}), batch)[1]
            h = 1e-6
            a0 = P.eq_params["a"]
            up, dn = term_values(a0 + h), term_values(a0 - h)
            want = sum(float(up[t] - dn[t]) / (2 * h) for t in sel if sel[t])
            got = float(g.eq_params["a"])
            if abs(got - want) > 1e-5 * (1.0 + abs(want)):
                fails.append({"detail": f"hyper-network-driven network, terms selecting the designated parameter a: {[t for t in sel if sel[t]]}: d total / d a = {got}, finite differences of those terms give {want}", "case": {"what": "hyper_gradient", "sel": sel}})
        except Exception as ex:
            fails.append({"detail": f"hyper-network-driven loss raised {type(ex).__name__}: {str(ex)[:200]}", "case": {"what": "hyper_gradient"}})
    return fails


# ------------------------------------------------------------------ system losses (two unknowns, per-unknown derivative keys)
SYS_TERMS = ["initial_condition", "observations"]


def sys_problem(rng, kind):
    nv = 1 if kind == "sys_ode" else 2
    n = rng.randint(1, 3)
    cfg = dict(kind=kind, P={k: prand(rng, nv, 2, 3) or {(0,) * nv: 1} for k in "uv"}, theta={k: dy(rng, 1, 3) for k in "uv"}, a=dy(rng, 1, 3), b=dy(rng, -2, 2),
               q=prand(rng, nv, 2, 2) or {(0,) * nv: 1}, batch=[[dy(rng) for _ in range(nv)] for _ in range(n)],
               obs={k: dict(inputs=[[dy(rng) for _ in range(nv)] for _ in range(n)], vals=[float(rng.randint(-2, 2)) for _ in range(n)]) for k in "uv"},
               w=dict(dyn_loss=rng.randint(1, 4) / 2, initial_condition={k: rng.randint(1, 4) / 2 for k in "uv"}, observations={k: rng.randint(1, 4) / 2 for k in "uv"}))
    cfg["per_unknown"] = rng.random() < 0.5
    if kind == "sys_ode":
        cfg["ic"] = {k: [dy(rng), float(rng.randint(-2, 2))] for k in "uv"}
    else:
        cfg["icp"] = {k: prand(rng, 1, 2, 2) or {(0,): 1} for k in "uv"}
    return cfg


def sys_build(cfg, masks):
    jax, jnp, np, eqx, jinns = jx()
    from jinns.parameters import Params, ParamsDict
    from jinns.data._Batchs import ODEBatch, PDENonStatioBatch
    ode = cfg["kind"] == "sys_ode"
    us, nn = {}, {}
    for k in "uv":
        us[k] = mk([cfg["P"][k]], "ODE" if ode else "nonstatio_PDE", output_transform=lambda i, o, p: o + p.eq_params["b"])
        nn[k] = eqx.tree_at(lambda m: m.scale, us[k].init_params(), jnp.array(cfg["theta"][k]))
    # the equation parameters may be shared (one flat dictionary) or given per unknown (eq_params[k] = {...}, the layout
    # extract_params looks for first); in the second layout both unknowns hold the same values, the equation reads u's a
    per_unknown = bool(cfg.get("per_unknown"))
    flat = {"a": jnp.array(cfg["a"]), "b": jnp.array(cfg["b"])}
    PD = ParamsDict(nn_params=nn, eq_params=({k: dict(flat) for k in "uv"} if per_unknown else flat))
    geta = (lambda pd: pd.eq_params["u"]["a"]) if per_unknown else (lambda pd: pd.eq_params["a"])
    q = cfg["q"]
    M = lambda bits: Params(nn_params=bool(bits[0]), eq_params={"a": bool(bits[1]), "b": bool(bits[2])})
    dflt = [True, False, False]
    obs = {k: {"pinn_in": jnp.array(o["inputs"]), "val": jnp.array(o["vals"])[:, None], "eq_params": {}} for k, o in cfg["obs"].items()}
    w = cfg["w"]
    if ode:
        class Eq(jinns.loss.ODE):
            def equation(self, t, u_dict, params_dict):
                return (geta(params_dict) * u_dict["u"](t, params_dict.extract_params("u")) + u_dict["v"](t, params_dict.extract_params("v"))
                        + poly_jax(q, jnp.atleast_1d(t)))
        dk = {k: jinns.parameters.DerivativeKeysODE(dyn_loss=M(dflt), initial_condition=M(masks[k]["initial_condition"]), observations=M(masks[k]["observations"])) for k in "uv"}
        lw = jinns.loss.LossWeightsODEDict(dyn_loss=w["dyn_loss"], initial_condition=dict(w["initial_condition"]), observations=dict(w["observations"]))
        L = jinns.loss.SystemLossODE(u_dict=us, dynamic_loss_dict={"e": Eq()}, derivative_keys_dict=dk, loss_weights=lw,
                                     initial_condition_dict={k: (t0, jnp.array([u0])) for k, (t0, u0) in cfg["ic"].items()}, params_dict=PD)
        return PD, L, ODEBatch(temporal_batch=jnp.array(cfg["batch"])[:, 0], obs_batch_dict=obs)

    class Eq(jinns.loss.PDENonStatio):
        def equation(self, t, x, u_dict, params_dict):
            return (geta(params_dict) * u_dict["u"](t, x, params_dict.extract_params("u")) + u_dict["v"](t, x, params_dict.extract_params("v"))
                    + poly_jax(q, jnp.concatenate([t, x])))
    dk = {k: jinns.parameters.DerivativeKeysPDENonStatio(dyn_loss=M(dflt), boundary_loss=M(dflt), norm_loss=M(dflt),
                                                         initial_condition=M(masks[k]["initial_condition"]), observations=M(masks[k]["observations"])) for k in "uv"}
    lw = jinns.loss.LossWeightsPDEDict(dyn_loss=w["dyn_loss"], initial_condition=dict(w["initial_condition"]), observations=dict(w["observations"]))
    icf = {k: (lambda p: (lambda x: poly_jax(p, x)))(cfg["icp"][k]) for k in "uv"}
    L = jinns.loss.SystemLossPDE(u_dict=us, dynamic_loss_dict={"e": Eq()}, derivative_keys_dict=dk, loss_weights=lw, initial_condition_fun_dict=icf, params_dict=PD)
    return PD, L, PDENonStatioBatch(times_x_inside_batch=jnp.array(cfg["batch"]), times_x_border_batch=None, obs_batch_dict=obs)


def sys_evaluate(cfg, masks):
    jax, jnp, np, eqx, jinns = jx()
    PD, L, batch = sys_build(cfg, masks)
    (v, terms), g = jax.value_and_grad(lambda p: L.evaluate(p, batch), has_aux=True)(PD)
    if cfg.get("per_unknown"):      # both unknowns hold the same value of a and of b: the derivative with respect to that value is the sum
        ga, gb = (float(g.eq_params["u"][k]) + float(g.eq_params["v"][k]) for k in "ab")
    else:
        ga, gb = float(g.eq_params["a"]), float(g.eq_params["b"])
    return float(v), [float(g.nn_params["u"].scale), float(g.nn_params["v"].scale), ga, gb]


def sys_case_term(cid, cfg, masks, val, grad):
    ode = cfg["kind"] == "sys_ode"
    Pk = lambda k, pt: peval(cfg["P"][k], pt)
    idx = {"u": 0, "v": 1}
    row = lambda n1, p1, n2, p2, al, be, ga: f"(mkrow2 {cnat(n1)} {cq(p1)} {cnat(n2)} {cq(p2)} {cq(al)} {cq(be)} {cq(ga)})"
    spec = lambda bits, w, rows: f"(mks {cbool(bits[0])} {cbool(bits[1])} {cbool(bits[2])} {cq(w)} {clist(rows, str)})"
    terms = [spec([True, False, False], cfg["w"]["dyn_loss"], [row(0, Pk("u", p), 1, Pk("v", p), 1, 1, peval(cfg["q"], p)) for p in cfg["batch"]])]
    for k in "uv":
        if ode:
            t0, u0 = cfg["ic"][k]
            rows = [row(0, 0, idx[k], Pk(k, [t0]), 0, 1, -u0)]
        else:
            rows = [row(0, 0, idx[k], Pk(k, [0.0] + r[1:]), 0, -1, peval(cfg["icp"][k], r[1:])) for r in cfg["batch"]]
        terms.append(spec(masks[k]["initial_condition"], cfg["w"]["initial_condition"][k], rows))
        o = cfg["obs"][k]
        terms.append(spec(masks[k]["observations"], cfg["w"]["observations"][k], [row(0, 0, idx[k], Pk(k, i), 0, 1, -v) for i, v in zip(o["inputs"], o["vals"])]))
    return f"mkscase {cnat(cid)} {clist([cfg['theta']['u'], cfg['theta']['v']], cq)} {cq(cfg['a'])} {cq(cfg['b'])} {clist(terms, str)} {cq(val)} {clist(grad, cq)}"


def sys_jsonable(cfg, masks):
    pj = lambda p: [[list(k), v] for k, v in sorted(p.items())]
    out = dict(cfg, P={k: pj(p) for k, p in cfg["P"].items()}, q=pj(cfg["q"]), masks=masks, what="system")
    if "icp" in cfg:
        out["icp"] = {k: pj(p) for k, p in cfg["icp"].items()}
    return out


def sys_unjson(c):
    pu = lambda p: {tuple(k): v for k, v in p}
    out = dict(c, P={k: pu(p) for k, p in c["P"].items()}, q=pu(c["q"]))
    if "icp" in c:
        out["icp"] = {k: pu(p) for k, p in c["icp"].items()}
    return out, c["masks"]


def sys_oracle(cfg, masks, grad, val):
    """per (unknown, term): the term alone (other weights 0) is differentiated with everything selected;
    the gradient of the total must be the sum over the selected (term, group) pairs"""
    fails = []
    full = {k: {t: [True, True, True] for t in SYS_TERMS} for k in "uv"}
    zero = lambda: dict(dyn_loss=0.0, initial_condition={k: 0.0 for k in "uv"}, observations={k: 0.0 for k in "uv"})
    exp = [0.0] * 4
    v_all, _ = sys_evaluate(cfg, full)
    if abs(v_all - val) > 1e-12 * (1 + abs(val)):
        fails.append(f"the system loss value depends on the derivative specification ({val} vs {v_all})")
    w1 = zero(); w1["dyn_loss"] = cfg["w"]["dyn_loss"]
    _, gd = sys_evaluate(dict(cfg, w=w1), full)
    exp[0] += gd[0]; exp[1] += gd[1]                     # the dynamic terms use the default keys: network parameters only
    for k in "uv":
        for t in SYS_TERMS:
            w1 = zero(); w1[t][k] = cfg["w"][t][k]
            _, gt = sys_evaluate(dict(cfg, w=w1), full)
            sel = masks[k][t]
            for gi, on in enumerate([sel[0], sel[0], sel[1], sel[2]]):
                if on:
                    exp[gi] += gt[gi]
    for gi, nm in enumerate(["nn_params[u]", "nn_params[v]", "eq_params[a]", "eq_params[b]"]):
        if abs(exp[gi] - grad[gi]) > 1e-9 * (1 + abs(exp[gi])):
            fails.append(f"system loss: gradient w.r.t. {nm} is {grad[gi]}, the sum of the selected terms' gradients is {exp[gi]}")
    return fails


def sys_generate(tier, rng, casedir, variant, viol, dist, samples):
    cases, meta = [], {}
    cid = 0
    for kind in ("sys_ode", "sys_nonstatio"):
        N = 10 if tier == "quick" else 80
        cfg = sys_problem(rng, kind)
        for j in range(N):
            if j % 5 == 4:
                cfg = sys_problem(rng, kind)
            masks = {k: {t: [rng.random() < 0.5 for _ in range(3)] for t in SYS_TERMS} for k in "uv"}
            if j == 0:
                masks = {"u": {t: [True, True, False] for t in SYS_TERMS}, "v": {t: [False, False, True] for t in SYS_TERMS}}      # the two unknowns differ in every entry
            try:
                val, grad = sys_evaluate(cfg, masks)
            except Exception as ex:
                viol.append({"detail": f"system evaluate raised {type(ex).__name__}: {str(ex)[:200]}", "case": sys_jsonable(cfg, masks)}); continue
            cases.append(sys_case_term(cid, cfg, masks, val, grad)); meta[f"s{cid}"] = sys_jsonable(cfg, masks)
            if j % 5 == 0:
                for f in sys_oracle(cfg, masks, grad, val):
                    viol.append({"detail": f, "case": sys_jsonable(cfg, masks)})
            dist[kind] = dist.get(kind, 0) + 1
            if len(samples) < 3 and j == 0 and kind == "sys_ode":
                samples.append(dict(kind=kind, masks=masks, value=val, grad=grad))
            cid += 1
    return cases, meta


def generate(tier, seed, casedir, variant):
    rng = random.Random(seed)
    cases, meta, viol, samples, dist = [], {}, [], [], {}
    nontrivial = set()
    cid = 0
    for kind in TERMS:
        cfg = problem(rng, kind)
        nbits = 3 * len(TERMS[kind])
        if tier == "thorough" and kind == "ode":
            assigns = list(itertools.product([False, True], repeat=nbits))
        else:
            n = {"quick": 14, "thorough": 150}[tier]
            assigns = [tuple(rng.random() < 0.5 for _ in range(nbits)) for _ in range(n)]
            assigns[0] = tuple([True, False, False] * len(TERMS[kind]))       # the default
            STR = [(True, True, True), (False, True, True), (True, False, False)]
            for j in range(1, 6):                                               # string-form specifications, a different string per term
                assigns[j] = tuple(b for _ in TERMS[kind] for b in rng.choice(STR))
        for j, bits in enumerate(assigns):
            masks = {t: list(bits[3 * i:3 * i + 3]) for i, t in enumerate(TERMS[kind])}
            if j % 25 == 24:
                cfg = problem(rng, kind)
            if kind != "ode":     # every second specification with observed rows of `a` attached to the observations
                cfg = dict(cfg, obs=dict(cfg["obs"], arows=cfg["obs_arows"] if j % 2 == 1 else None))
            if kind == "ode":      # every second specification with a parameter batch on `a` (read by the equation only): each term keeps its own mask
                cfg = dict(cfg, a_batch=cfg["a_batch_rows"] if j % 2 == 1 else None)
            try:
                val, grad, terms = evaluate(cfg, masks)
            except Exception as ex:
                viol.append({"detail": f"evaluate raised {type(ex).__name__}: {str(ex)[:200]}", "case": jsonable(cfg, masks)})
                continue
            cases.append(case_term(cid, cfg, masks, val, grad)); meta[cid] = jsonable(cfg, masks)
            if j % 7 == 0:
                for f in direct_oracle(cfg, masks, grad, val):
                    viol.append({"detail": f, "case": jsonable(cfg, masks)})
            dist[kind] = dist.get(kind, 0) + 1
            if any(g != 0.0 for g in grad):
                nontrivial.add((kind, bits))
            if len(samples) < 2 and j == 1:
                samples.append(dict(kind=kind, masks=masks, value=val, grad=grad))
            cid += 1
    viol += string_forms_oracle(rng)
    viol += hyper_gradient_oracle(rng, 3 if tier == "quick" else 12)
    write_cases(casedir, "C06", "R_C06", variant, cases, chunk=150)
    scases, smeta = sys_generate(tier, rng, casedir, variant, viol, dist, samples)
    write_cases(casedir, "C06sys", "R_C06", variant, scases, chunk=150, ctype="scase", summary="ssummary")
    # ids of the system files are local to them: the driver looks them up as "s<id>" when the file name says so
    meta.update(smeta); cases = cases + scases
    return dict(meta=meta, oracle_violations=viol, evaluations=len(cases), distinct_nontrivial=len(nontrivial), samples=samples, distribution=dist,
                rule="assignments of {selected, not selected} to every (loss term, parameter group) pair, groups = network parameters, eq_params[a], eq_params[b] (all 512 for the ODE loss in the thorough tier, random ones otherwise, the default and five string-form specifications (built with from_str) always included), on random polynomial problems (half of the ODE ones with a parameter batch on the equation's parameter); jax.grad of the total and the value compared with the symbolic masked total; non-trivial = non-zero gradient; distinct by (loss kind, assignment); plus string / default / rejection checks; plus gradients through a hyper-network-driven network against finite differences (oracle only); plus two-unknown system losses (ODE and non-stationary PDE) whose per-unknown derivative keys differ, groups = nn_params[u], nn_params[v], eq_params[a], eq_params[b], the equation parameters shared or given per unknown",
                oracle_checks=len(cases) // 7 + 1, exhaustive=False)


def replay(rep, casedir, variant):
    c = rep["case"]
    if c.get("what") == "hyper_gradient":
        return dict(meta={}, oracle_violations=hyper_gradient_oracle(random.Random(rep.get("seed", 0)), 12), evaluations=12, distinct_nontrivial=12, rule="replay", samples=[c])
    if c.get("what") == "strings":
        return dict(meta={}, oracle_violations=string_forms_oracle(random.Random(0)), evaluations=1, distinct_nontrivial=1, rule="replay", samples=[c])
    if c.get("what") == "system":
        cfg, masks = sys_unjson(c)
        val, grad = sys_evaluate(cfg, masks)
        write_cases(casedir, "C06sys", "R_C06", variant, [sys_case_term(0, cfg, masks, val, grad)], ctype="scase", summary="ssummary")
        return dict(meta={"s0": c}, oracle_violations=[{"detail": f, "case": c} for f in sys_oracle(cfg, masks, grad, val)], evaluations=1,
                    distinct_nontrivial=1, rule="replay", samples=[c])
    cfg, masks = unjson(c)
    val, grad, terms = evaluate(cfg, masks)
    write_cases(casedir, "C06", "R_C06", variant, [case_term(0, cfg, masks, val, grad)])
    return dict(meta={0: c}, oracle_violations=[{"detail": f, "case": c} for f in direct_oracle(cfg, masks, grad, val)], evaluations=1,
                distinct_nontrivial=1, rule="replay", samples=[c])
