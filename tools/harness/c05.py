"""C05 harness: initial-condition, normalisation and observation terms of the three single
losses on polynomial networks whose output depends on an equation parameter (so that the
row alignment of observed parameters is visible), against Model/M_lossterms.v."""
import random
from common import jx, cq, cnat, clist, write_cases, default_matches_known
from lossbuild import KINDS, dy, nvars, poly_jax, cpoly, cweight, rand_dk, make_dk
from poly import mk, prand
matches_known = default_matches_known


def build(cfg):
    jax, jnp, np, eqx, jinns = jx()
    from jinns.parameters import Params
    kind, dim = cfg["kind"], cfg["dim"]
    eq_type = {"ode": "ODE", "statio": "statio_PDE", "nonstatio": "nonstatio_PDE"}[kind]
    sol = cfg.get("sol")
    u = mk(cfg["upolys"], eq_type, output_transform=lambda i, o, p: o + p.eq_params["a"],
           slice_solution=(jnp.s_[sol[0]:sol[1]] if sol else jnp.s_[:]))
    P = Params(nn_params=u.init_params(), eq_params={"a": jnp.array(cfg["a"]), "junk": jnp.array(0.5)})
    W = lambda w: (jnp.array(w) if isinstance(w, list) else float(w))
    osl = cfg.get("osl")
    kw = dict(obs_slice=jnp.s_[osl[0]:osl[1]]) if osl else {}
    if cfg.get("dk"):           # derivative keys never change the value of a term
        kw["derivative_keys"] = make_dk(kind, P, cfg["dk"])
    if kind == "ode":
        lw = jinns.loss.LossWeightsODE(initial_condition=W(cfg.get("w", 1.0)), observations=W(cfg.get("w", 1.0)))
        if cfg["what"] == "ic":
            kw["initial_condition"] = (cfg["t0"], jnp.array(cfg["u0"]))
        L = jinns.loss.LossODE(u=u, dynamic_loss=None, params=P, loss_weights=lw, **kw)
    else:
        if cfg["what"] == "norm":
            kw["norm_samples"] = jnp.array(cfg["samples"]); kw["norm_int_length"] = cfg["L"]
        if kind == "statio":
            lw = jinns.loss.LossWeightsPDEStatio(norm_loss=W(cfg.get("w", 1.0)), observations=W(cfg.get("w", 1.0)))
            L = jinns.loss.LossPDEStatio(u=u, dynamic_loss=None, params=P, loss_weights=lw, **kw)
        else:
            lw = jinns.loss.LossWeightsPDENonStatio(norm_loss=W(cfg.get("w", 1.0)), observations=W(cfg.get("w", 1.0)), initial_condition=W(cfg.get("w", 1.0)))
            if cfg["what"] == "ic":
                icp = cfg["icpolys"]
                ret = cfg.get("ic_return", "array")
                kw["initial_condition_fun"] = (lambda x: jnp.stack([poly_jax(p, x) for p in icp])) if ret == "array" else (lambda x: poly_jax(icp[0], x))
            L = jinns.loss.LossPDENonStatio(u=u, dynamic_loss=None, params=P, loss_weights=lw, **kw)
    return u, P, L


def batch_of(cfg):
    jax, jnp, np, eqx, jinns = jx()
    from jinns.data._Batchs import ODEBatch, PDEStatioBatch, PDENonStatioBatch
    obs = None
    xo = cfg.get("extra_obs")
    if xo:      # an observation part next to the term under test: its observed parameter rows must stay inside the observation term
        obs = {"pinn_in": jnp.array(xo["inputs"]), "val": jnp.array(xo["vals"]), "eq_params": {"a": jnp.array(xo["arows"])[:, None]}}
    if cfg["what"] == "obs":
        eqp = {"a": jnp.array(cfg["arows"])[:, None]} if cfg.get("arows") else {}
        vals = jnp.array(cfg["vals"])
        if cfg.get("flat_vals") and vals.shape[1] == 1:
            vals = vals[:, 0]              # one observed component given as a 1-D table of n values
        obs = {"pinn_in": jnp.array(cfg["inputs"]), "val": vals, "eq_params": eqp}
    pts = jnp.array(cfg["batch"])
    # a generated parameter batch on the very key the observations carry rows for (as many rows): inside the observation
    # term the OBSERVED rows win
    apb = {"a": jnp.array(cfg["a_pbatch"])[:, None]} if cfg.get("a_pbatch") else None
    if cfg["kind"] == "ode":
        nj = len(xo["inputs"]) if xo else len(cfg["batch"])          # (a parameter batch has one row per observation when both are present)
        pb = {"junk": jnp.arange(nj, dtype=float)[:, None]} if cfg.get("junk_batch") else apb
        return ODEBatch(temporal_batch=pts[:, 0], param_batch_dict=pb, obs_batch_dict=obs)
    if cfg["kind"] == "statio":
        return PDEStatioBatch(inside_batch=pts, border_batch=None, param_batch_dict=apb, obs_batch_dict=obs)
    return PDENonStatioBatch(times_x_inside_batch=pts, times_x_border_batch=None, param_batch_dict=apb, obs_batch_dict=obs)


def gen(rng, what, kind):
    dim = 1 if kind == "ode" else rng.choice([1, 2])
    nv = nvars(kind, dim)
    nout = rng.randint(1, 3)
    cfg = dict(what=what, kind=kind, dim=dim, a=dy(rng), upolys=[prand(rng, nv, 2, 3) or {(0,) * nv: 1} for _ in range(nout)],
               batch=[[dy(rng) for _ in range(nv)] for _ in range(rng.randint(1, 5))])
    cfg["w"] = [rng.randint(0, 4) / 2 for _ in range(nout)] if (rng.random() < 0.5 and what != "norm") else rng.randint(1, 6) / 2
    if what == "ic" and kind == "ode":
        cfg.update(t0=dy(rng), u0=[float(rng.randint(-2, 2)) for _ in range(nout)])
        cfg["junk_batch"] = rng.random() < 0.5      # a parameter batch on a key nothing reads: the term is the MEAN over the (identical) rows
    elif what == "ic":
        cfg["icpolys"] = [prand(rng, dim, 2, 2) or {(0,) * dim: 1} for _ in range(nout)]
        if rng.random() < 0.5:          # the user's initial state may return a bare number per point (no trailing (1,) axis)
            cfg["upolys"] = cfg["upolys"][:1]; cfg["icpolys"] = cfg["icpolys"][:1]; nout = 1
            cfg["ic_return"] = "scalar"; cfg["w"] = rng.randint(1, 6) / 2
            while len(cfg["batch"]) < 2:
                cfg["batch"].append([dy(rng) for _ in range(nv)])
    elif what == "norm":
        if kind == "statio" and rng.random() < 0.6:        # the integral is taken over the solution components only (a proper sub-slice)
            while len(cfg["upolys"]) < 2:
                cfg["upolys"].append(prand(rng, nv, 2, 3) or {(0,) * nv: 1})
            nout = len(cfg["upolys"])
            lo, hi = rng.choice([(a, b) for a in range(nout) for b in range(a + 1, nout + 1) if b - a < nout])
            cfg["sol"] = [lo, hi]
        cfg.update(samples=[[dy(rng) for _ in range(dim)] for _ in range(rng.randint(1, 5))], L=rng.choice([1.0, 2.0, 0.5, 3.0]))
    else:
        n = rng.randint(1, 5)
        lo = rng.randint(0, nout - 1); hi = rng.randint(lo + 1, nout)
        cfg["sol"] = [lo, hi] if rng.random() < 0.5 else None
        ncols = (hi - lo) if cfg["sol"] else nout
        lo2 = rng.randint(0, ncols - 1); hi2 = rng.randint(lo2 + 1, ncols)
        cfg["osl"] = [lo2, hi2] if rng.random() < 0.5 else None
        nobs = (hi2 - lo2) if cfg["osl"] else ncols
        cfg.update(inputs=[[dy(rng) for _ in range(nv)] for _ in range(n)], vals=[[float(rng.randint(-2, 2)) for _ in range(nobs)] for _ in range(n)],
                   arows=[dy(rng) for _ in range(n)] if rng.random() < 0.6 else None)
        cfg["w"] = [rng.randint(0, 4) / 2 for _ in range(nobs)] if rng.random() < 0.5 else rng.randint(1, 6) / 2
        cfg["flat_vals"] = nobs == 1 and n >= 2 and rng.random() < 0.6
        if cfg["arows"] and rng.random() < 0.5:
            cfg["a_pbatch"] = [dy(rng, 5, 9) for _ in range(n)]
            cfg["batch"] = [[dy(rng) for _ in range(nv)] for _ in range(n)]       # as many interior points as rows
    if what != "obs" and rng.random() < 0.5:
        n = rng.randint(1, 4)
        ncol = (cfg["sol"][1] - cfg["sol"][0]) if cfg.get("sol") else len(cfg["upolys"])
        cfg["extra_obs"] = dict(inputs=[[dy(rng) for _ in range(nv)] for _ in range(n)], vals=[[float(rng.randint(-2, 2)) for _ in range(ncol)] for _ in range(n)],
                                arows=[dy(rng, 4, 9) for _ in range(n)])
    if rng.random() < 0.25:
        cfg["dk"] = rand_dk(rng, kind)
        if rng.random() < 0.5:
            cfg["dk"][term_name(cfg)] = [False, False]      # nothing is differentiated through the term under test
    return cfg


def term_name(cfg):
    return {"ic": "initial_condition", "norm": "norm_loss", "obs": "observations"}[cfg["what"]]


def evaluate(cfg, both=False):
    """the term, evaluated twice on the same objects (the second value is the one compared with the model)"""
    u, P, L = build(cfg)
    b = batch_of(cfg)
    tot, terms = L.evaluate(P, b)
    tot2, terms2 = L.evaluate(P, b)
    v1, v2 = float(terms[term_name(cfg)]), float(terms2[term_name(cfg)])
    return (v1, v2) if both else v2


def case_term(cid, cfg, obs):
    R = lambda m: clist(m, lambda r: clist(r, cq))
    up = clist(cfg["upolys"], cpoly)
    what, kind = cfg["what"], cfg["kind"]
    if what == "ic" and kind == "ode":
        return f"IcOde {cnat(cid)} {cweight(cfg['w'])} {up} {cq(cfg['a'])} {cq(cfg['t0'])} {clist(cfg['u0'], cq)} {cq(obs)}"
    if what == "ic":
        xs = [r[1:] for r in cfg["batch"]]
        return f"IcPde {cnat(cid)} {cweight(cfg['w'])} {cnat(cfg['dim'])} {up} {clist(cfg['icpolys'], cpoly)} {cq(cfg['a'])} {R(xs)} {cq(obs)}"
    if what == "norm" and kind == "statio":
        if cfg.get("sol"):
            up = clist(cfg["upolys"][cfg["sol"][0]:cfg["sol"][1]], cpoly)
        return f"NormStatio {cnat(cid)} {cq(cfg['w'])} {cq(cfg['L'])} {cnat(cfg['dim'])} {up} {cq(cfg['a'])} {R(cfg['samples'])} {cq(obs)}"
    if what == "norm":
        return f"NormNonStatio {cnat(cid)} {cq(cfg['w'])} {cq(cfg['L'])} {cnat(cfg['dim'])} {up} {cq(cfg['a'])} {clist([r[0] for r in cfg['batch']], cq)} {R(cfg['samples'])} {cq(obs)}"
    nout = len(cfg["upolys"])
    sol = cfg["sol"] or [0, nout]
    osl = cfg["osl"] or [0, sol[1] - sol[0]]
    sl = lambda s: f"({cnat(s[0])}, {cnat(s[1])})"
    return (f"Obs {cnat(cid)} {cweight(cfg['w'])} {cnat(nvars(kind, cfg['dim']))} {up} {sl(sol)} {sl(osl)} {cq(cfg['a'])} {clist(cfg['arows'] or [], cq)} "
            f"{R(cfg['inputs'])} {R(cfg['vals'])} {cq(obs)}")


def jsonable(c):
    pj = lambda p: [[list(k), v] for k, v in sorted(p.items())]
    out = dict(c, upolys=[pj(p) for p in c["upolys"]])
    if "icpolys" in c:
        out["icpolys"] = [pj(p) for p in c["icpolys"]]
    return out


def unjson(c):
    pu = lambda p: {tuple(k): v for k, v in p}
    out = dict(c, upolys=[pu(p) for p in c["upolys"]])
    if "icpolys" in c:
        out["icpolys"] = [pu(p) for p in c["icpolys"]]
    return out


def norm_param_batch_oracle(rng, n):
    """non-stationary normalisation term under a parameter batch: batch time i goes with parameter row i, so the term is
    mean_i ( L * mean_j u(t_i, s_j; a_i) - 1 )^2 (the network's output adds the batched parameter a)"""
    jax, jnp, np, eqx, jinns = jx()
    from jinns.parameters import Params
    from jinns.data._Batchs import PDENonStatioBatch
    from poly import peval
    fails = []
    for _ in range(n):
        dim = rng.choice([1, 2])
        up = prand(rng, dim + 1, 2, 3) or {(0,) * (dim + 1): 1}
        nt, N = rng.randint(1, 4), rng.randint(1, 4)
        if rng.random() < 0.4:
            nt = N = rng.randint(2, 4)          # as many samples as times / rows: pairing a row with a SAMPLE instead of a time gives another number
        ts = [dy(rng) + 0.125 * k for k in range(nt)]; arows = [dy(rng) for _ in range(nt)]
        samples = [[dy(rng) for _ in range(dim)] for _ in range(N)]
        Lint = rng.choice([1.0, 2.0, 0.5])
        u = mk([up], "nonstatio_PDE", output_transform=lambda i, o, p: o + p.eq_params["a"])
        P = Params(nn_params=u.init_params(), eq_params={"a": jnp.array(7.0)})
        L = jinns.loss.LossPDENonStatio(u=u, dynamic_loss=None, params=P, norm_samples=jnp.array(samples), norm_int_length=Lint)
        batch = PDENonStatioBatch(times_x_inside_batch=jnp.array([[t] + [0.0] * dim for t in ts]), times_x_border_batch=None,
                                  param_batch_dict={"a": jnp.array(arows)[:, None]})
        try:
            got = float(L.evaluate(P, batch)[1]["norm_loss"])
        except Exception as ex:
            fails.append({"detail": f"non-stationary normalisation term with a parameter batch raised {type(ex).__name__}: {str(ex)[:200]}", "case": {"what": "norm_param_batch"}})
            continue
        want = sum((Lint * sum(peval(up, [t] + sj) + a for sj in samples) / N - 1.0) ** 2 for t, a in zip(ts, arows)) / nt
        if abs(got - want) > 1e-9 * (1 + abs(want)):
            fails.append({"detail": f"non-stationary normalisation term with a parameter batch ({nt} times / rows, {N} samples): {got}, pairing time i with row i gives {want}", "case": {"what": "norm_param_batch"}})
    return fails


def generate(tier, seed, casedir, variant):
    rng = random.Random(seed)
    cases, meta, viol, samples, dist = [], {}, [], [], {}
    nontrivial = set()
    combos = [("ic", "ode"), ("ic", "nonstatio"), ("norm", "statio"), ("norm", "nonstatio"), ("obs", "ode"), ("obs", "statio"), ("obs", "nonstatio")]
    per = 7 if tier == "quick" else 45
    cid = 0
    for what, kind in combos:
        for _ in range(per):
            cfg = gen(rng, what, kind)
            try:
                first, obs = evaluate(cfg, both=True)
                if first != obs:
                    viol.append({"detail": f"{what}/{kind}: the term is {first} on the first evaluation and {obs} on the second one with the same arguments", "case": jsonable(cfg)})
            except Exception as ex:
                viol.append({"detail": f"{what}/{kind}: evaluate raised {type(ex).__name__}: {str(ex)[:200]}", "case": jsonable(cfg)})
                continue
            cases.append(case_term(cid, cfg, obs)); meta[cid] = jsonable(cfg)
            k = f"{what}_{kind}"
            dist[k] = dist.get(k, 0) + 1
            if cfg.get("extra_obs"):
                dist["with_an_observation_part_carrying_parameter_rows"] = dist.get("with_an_observation_part_carrying_parameter_rows", 0) + 1
            if what == "obs" and cfg.get("arows"):
                dist["obs_with_observed_parameter_rows"] = dist.get("obs_with_observed_parameter_rows", 0) + 1
            if obs != 0.0:
                nontrivial.add(cid)
            if len(samples) < 3 and (what, kind) in (("norm", "statio"), ("obs", "ode"), ("ic", "nonstatio")) and not any(s["what"] == what for s in samples):
                samples.append(dict(jsonable(cfg), returned=obs))
            cid += 1
    write_cases(casedir, "C05", "R_C05", variant, cases, chunk=100)
    # the separable-network branches of the initial-condition and normalisation terms against the pointwise ones: oracle only
    import c11
    nsep = 3 if tier == "quick" else 9
    try:
        viol += [v for v in c11.impl_vs_impl(rng, nsep, terms_only=True) if "initial-condition" in v["detail"] or "normalisation" in v["detail"] or "norm_loss" in v["detail"]]
    except Exception as ex:
        viol.append({"detail": f"separable / pointwise term comparison raised {type(ex).__name__}: {str(ex)[:300]}", "case": {"what": "impl_vs_impl"}})
    dist["separable_vs_pointwise_rounds"] = nsep
    # the same three terms inside system losses: weighted sum over the unknowns of the single-network terms (oracle only)
    import c13
    nsys = 9 if tier == "quick" else 45
    try:
        viol += c13.system_terms_oracle(rng, nsys, terms=("initial_condition", "observations", "norm_loss"))
    except Exception as ex:
        viol.append({"detail": f"system terms comparison raised {type(ex).__name__}: {str(ex)[:300]}", "case": {"what": "system terms"}})
    dist["system_loss_rounds"] = nsys
    viol += norm_param_batch_oracle(rng, 6 if tier == "quick" else 30)
    return dict(meta=meta, oracle_violations=viol, evaluations=len(cases), distinct_nontrivial=len(nontrivial), samples=samples, distribution=dist,
                rule="per (term, loss kind): random polynomial networks with 1..3 outputs whose output adds the equation parameter a, dyadic points, scalar and per-component weights, solution / observation slices (the stationary normalisation term too is taken over the solution slice), observed parameter rows present or not, initial-condition functions returning an array or a scalar, half of the initial-condition / normalisation cases next to an observation part whose observed parameter rows must not reach them, every loss evaluated twice on the same objects; plus separable-network against pointwise initial-condition / normalisation terms (oracle only); plus the non-stationary normalisation term under a parameter batch against its definition (oracle only); plus the three terms of random system losses against the weighted sums of the single-network terms (oracle only); non-trivial = the term is non-zero",
                oracle_checks=0)


def replay(rep, casedir, variant):
    if rep["case"].get("what") in ("terms", "impl_vs_impl", "residual", "vector operator", "system terms", "norm_param_batch"):       # oracle-only comparisons are regenerated from the seed of the run
        return generate("quick", rep.get("seed", 0), casedir, variant)
    cfg = unjson(rep["case"])
    first, obs = evaluate(cfg, both=True)
    ov = [] if first == obs else [{"detail": f"the term is {first} on the first evaluation and {obs} on the second one", "case": rep["case"]}]
    write_cases(casedir, "C05", "R_C05", variant, [case_term(0, cfg, obs)])
    return dict(meta={0: rep["case"]}, oracle_violations=ov, evaluations=1, distinct_nontrivial=1, rule="replay", samples=[rep["case"]])
