"""Shared set-up for the RAR harnesses (C16, C17): tiny polynomial problems per generator kind."""
from common import jx
from poly import mk

KINDS = ["ode", "statio", "nonstatio"]


def system_problem(kind, dim=2):
    """a system loss with two unknowns and two equations whose residuals have opposite signs at many points
    (so that adding residuals before squaring and adding their squares rank candidates differently)"""
    jax, jnp, np, eqx, jinns = jx()
    from jinns.parameters import ParamsDict
    eq_type = {"ode": "ODE", "statio": "statio_PDE", "nonstatio": "nonstatio_PDE"}[kind]
    if kind == "ode":
        p1, p2 = {(0,): -1, (1,): 3, (2,): -4}, {(0,): 1, (1,): -2}
    elif kind == "statio":
        p1, p2 = ({(1, 0): 3, (0, 1): -2, (1, 1): 4}, {(1, 0): -3, (0, 2): 1}) if dim == 2 else ({(1,): 3, (2,): -4}, {(0,): 1, (1,): -3})
    else:
        p1, p2 = (({(1, 0, 0): 2, (0, 1, 0): 3, (0, 0, 1): -5, (1, 1, 0): 1}, {(1, 0, 0): -2, (0, 1, 1): 2, (0, 0, 1): 4}) if dim == 2
                  else ({(1, 0): 2, (0, 1): -3, (1, 1): 4}, {(1, 0): -2, (0, 1): 2, (0, 2): 1}))
    us = {"a": mk([p1], eq_type), "b": mk([p2], eq_type)}
    PD = ParamsDict(nn_params={k: u.init_params() for k, u in us.items()}, eq_params={})
    base = {"ode": jinns.loss.ODE, "statio": jinns.loss.PDEStatio, "nonstatio": jinns.loss.PDENonStatio}[kind]

    def mkE(key, c):
        if kind == "nonstatio":
            class E(base):
                def equation(self, t, x, u, p):
                    return c * u[key](t, x, p.extract_params(key))
        else:
            class E(base):
                def equation(self, z, u, p):
                    return c * u[key](z, p.extract_params(key))
        return E()
    dl = {"e1": mkE("a", 1.0), "e2": mkE("b", 2.0)}
    if kind == "ode":
        L = jinns.loss.SystemLossODE(u_dict=us, dynamic_loss_dict=dl, params_dict=PD, loss_weights=jinns.loss.LossWeightsODEDict(dyn_loss=1.0),
                                     initial_condition_dict={k: (0.0, jnp.array([0.0])) for k in us})
    else:
        L = jinns.loss.SystemLossPDE(u_dict=us, dynamic_loss_dict=dl, params_dict=PD, loss_weights=jinns.loss.LossWeightsPDEDict(dyn_loss=1.0))
    return L, PD


def problem(kind, dim=2, vec=False, system=False, scalar=False):
    if system:
        return system_problem(kind, dim)
    return _problem(kind, dim, vec, scalar)


def _problem(kind, dim=2, vec=False, scalar=False):
    """scalar: the equation returns a bare number per point (no trailing axis), which the refinement step squares as it is"""
    """vec: a residual with two components of differing sign and size (ODE and stationary kinds only:
    the non-stationary refinement step reshapes the residuals to one number per space-time pair)"""
    jax, jnp, np, eqx, jinns = jx()
    from jinns.parameters import Params
    if kind == "ode":
        class Eq(jinns.loss.ODE):
            def equation(self, t, u, params):
                if vec:
                    return jnp.concatenate([u(t, params) - 2.0, 2.0 * u(t, params) - 5.0 * t])
                if scalar:
                    return u(t, params)[0] - 2.0
                return u(t, params) - 2.0
        u = mk([{(0,): 1, (1,): 3, (2,): -4}], "ODE")          # residual 1 + 3t - 4t^2 - 2
        P = Params(nn_params=u.init_params(), eq_params={})
        return jinns.loss.LossODE(u=u, dynamic_loss=Eq(), params=P), P
    if kind == "statio":
        class Eq(jinns.loss.PDEStatio):
            def equation(self, x, u, params):
                if vec:
                    return jnp.concatenate([u(x, params), x[0:1] - 2.0 * u(x, params)])
                if scalar:
                    return u(x, params)[0]
                return u(x, params)
        poly = {(1, 0): 3, (0, 1): -2, (1, 1): 4} if dim == 2 else {(1,): 3, (2,): -4}
        u = mk([poly], "statio_PDE")
        P = Params(nn_params=u.init_params(), eq_params={})
        return jinns.loss.LossPDEStatio(u=u, dynamic_loss=Eq(), params=P), P
    class Eq(jinns.loss.PDENonStatio):
        def equation(self, t, x, u, params):
            return u(t, x, params)
    poly = {(1, 0, 0): 2, (0, 1, 0): 3, (0, 0, 1): -5, (1, 1, 0): 1} if dim == 2 else {(1, 0): 2, (0, 1): -3, (1, 1): 4}
    u = mk([poly], "nonstatio_PDE")
    P = Params(nn_params=u.init_params(), eq_params={})
    return jinns.loss.LossPDENonStatio(u=u, dynamic_loss=Eq(), params=P), P


def generator(kind, cfg):
    jax, jnp, np, eqx, jinns = jx()
    key = jax.random.PRNGKey(cfg["seed"])
    rar = {"start_iter": cfg["start"], "update_every": cfg["every"]}
    dim = cfg.get("dim", 2)
    mins, maxs = tuple([0.0, -1.0][:dim]), tuple([1.0, 2.0][:dim])
    tmin = cfg.get("tmin", 0.0); tmax = tmin + 1.0          # the time interval need not start at 0
    if kind == "ode":
        rar.update(sample_size_times=cfg["cand_t"], selected_sample_size_times=cfg["sel_t"])
        return jinns.data.DataGeneratorODE(key, cfg["nt"], tmin, tmax, cfg["bt"], rar_parameters=rar, nt_start=cfg["nt_start"])
    if kind == "statio":
        rar.update(sample_size_omega=cfg["cand_x"], selected_sample_size_omega=cfg["sel_x"])
        return jinns.data.CubicMeshPDEStatio(key=key, n=cfg["n"], nb=None, omega_batch_size=cfg["bx"], omega_border_batch_size=None,
                                             dim=dim, min_pts=mins, max_pts=maxs, rar_parameters=rar, n_start=cfg["n_start"])
    rar.update(sample_size_times=cfg["cand_t"], selected_sample_size_times=cfg["sel_t"],
               sample_size_omega=cfg["cand_x"], selected_sample_size_omega=cfg["sel_x"])
    return jinns.data.CubicMeshPDENonStatio(key=key, n=cfg["n"], nb=None, nt=cfg["nt"], omega_batch_size=cfg["bx"], omega_border_batch_size=None,
                                            temporal_batch_size=cfg["bt"], dim=dim, min_pts=mins, max_pts=maxs, tmin=tmin, tmax=tmax,
                                            rar_parameters=rar, n_start=cfg["n_start"], nt_start=cfg["nt_start"],
                                            cartesian_product=cfg.get("cartesian", True))


def rand_cfg(rng, kind, small_store=False, skew=None):
    sel_t, sel_x = rng.randint(1, 3), rng.randint(1, 3)
    nt_start, n_start = rng.randint(2, 5), rng.randint(2, 5)
    room_t, room_x = rng.randint(0, 3 if small_store else 7), rng.randint(0, 3 if small_store else 7)
    if skew == "space_ahead":          # initial counts far apart: time and space bookkeeping must not borrow each other's start
        n_start = nt_start + 2 * sel_t + rng.randint(1, 3); room_t = max(room_t, 4)
    elif skew == "time_ahead":
        nt_start = n_start + 2 * sel_x + rng.randint(1, 3); room_x = max(room_x, 4)
    # a store smaller than one full set is rejected by jax at trace time (update larger than operand):
    # outside the supported configurations, not generated
    nt_start, n_start = max(nt_start, sel_t), max(n_start, sel_x)
    return dict(kind=kind, start=rng.randint(0, 4), every=rng.randint(1, 4), sel_t=sel_t, sel_x=sel_x,
                nt_start=nt_start, n_start=n_start, nt=nt_start + room_t * sel_t + rng.randint(0, sel_t - 1),
                n=n_start + room_x * sel_x + rng.randint(0, sel_x - 1), cand_t=sel_t + rng.randint(0, 3), cand_x=sel_x + rng.randint(0, 3),
                bt=2, bx=2, dim=rng.choice([1, 2]) if kind != "ode" else 1, seed=rng.randrange(1 << 30), iters=rng.randint(8, 14))
