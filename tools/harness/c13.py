"""C13 harness: SystemLossODE / SystemLossPDE with 1..3 equations x 1..3 unknowns, residuals
sum_u c_eu * U_u(p) + q_e(p) with q_e not symmetric in (t, x), scalar / dictionary / missing
weights; the dynamic term against the model, every other term against the weighted sum of the
single-network terms computed with the real single losses."""
import random
from common import jx, cq, cnat, cbool, clist, write_cases, default_matches_known
from lossbuild import dy, poly_jax, nvars, cpoly
from poly import mk, prand
matches_known = default_matches_known
OTHER = {"ode": ["initial_condition", "observations"], "statio": ["norm_loss", "boundary_loss", "observations", "initial_condition"],
         "nonstatio": ["norm_loss", "boundary_loss", "observations", "initial_condition"]}


def gen(rng, kind, force_pbatch_noobs=False):
    nv = nvars(kind, 1)
    nu, ne = rng.randint(1, 3), rng.randint(1, 3)
    # key names in any (not necessarily alphabetical) insertion order: weights and terms go with names, not positions
    ukeys = rng.sample(["u0", "u1", "u2", "prey", "a", "Z", "v"], nu)
    ekeys = rng.sample(["e0", "e1", "e2", "mass", "b", "X"], ne)
    n = rng.randint(1, 4)

    def wspec(keys):
        r = rng.random()
        if r < 0.3:
            return ("scalar", rng.randint(1, 4) / 2)
        if r < 0.5:
            return ("unset", None)                # the field is left out: the documented default (weight 1 for every key)
        if r < 0.8:
            ks = list(keys); rng.shuffle(ks)          # written in any order: weights go with their key, not their position
            return ("dict", {k: rng.randint(0, 4) / 2 for k in ks})
        return ("none", None)
    def asym():
        d = dict(prand(rng, nv, 2, 2)); d.update({(2, 0): 1, (0, 1): -3} if nv == 2 else {(1,): 2}); return d
    cfg = dict(kind=kind, ukeys=ukeys, ekeys=ekeys, upolys={k: prand(rng, nv, 2, 3) or {(0,) * nv: 1} for k in ukeys},
               eqs={e: dict(coef={k: rng.randint(-2, 2) for k in ukeys}, q=asym()) for e in ekeys},
               pts=[[dy(rng) for _ in range(nv)] for _ in range(n)],
               w={"dyn_loss": wspec(ekeys), **{t: wspec(ukeys) for t in OTHER[kind]}},
               obs={k: (dict(inputs=[[dy(rng) for _ in range(nv)] for _ in range(n)], vals=[float(rng.randint(-2, 2)) for _ in range(n)]) if rng.random() < 0.6 else None) for k in ukeys})
    # some unknowns have a second output channel and are observed on a channel of their own (obs_slice_dict)
    cfg["upolys2"] = {k: (prand(rng, nv, 2, 2) or {(0,) * nv: 2}) if rng.random() < 0.5 else None for k in ukeys}
    cfg["oslice"] = {k: (rng.choice([[0, 1], [1, 2], [0, 2]]) if cfg["upolys2"][k] else None) for k in ukeys}
    for k in ukeys:
        if cfg["obs"][k] is not None and cfg["oslice"][k]:
            w = cfg["oslice"][k][1] - cfg["oslice"][k][0]
            cfg["obs"][k]["vals"] = [[float(rng.randint(-2, 2)) for _ in range(w)] for _ in range(n)]
    cfg["via_call"] = rng.random() < 0.5
    # a parameter batch: every equation reads eq_params["junk"] through a term 1000 * (junk - 2) that vanishes only with the
    # batch rows (all 2); the nominal value is 1, so a dropped or misaligned parameter batch moves every residual by 1000
    cfg["pbatch"] = force_pbatch_noobs or rng.random() < 0.4
    # ... or eq_params["junk"] is declared heterogeneous: its nominal value is 1, its function gives 2 at every point, so an
    # equation that is handed the raw parameters instead of the evaluated ones is off by 1000 as well
    cfg["het"] = (not cfg["pbatch"]) and rng.random() < 0.5
    if cfg["pbatch"] and (force_pbatch_noobs or rng.random() < 0.5):
        cfg["obs"] = {k: None for k in ukeys}        # ... also without any observation part
    cfg["statio_unknowns"] = []
    if kind == "nonstatio" and nu >= 2 and rng.random() < 0.5:
        # a mixed system: some unknowns (the first one among them) are stationary fields u_k(x); they have no initial condition
        cfg["statio_unknowns"] = [ukeys[0]] + [k for k in ukeys[1:-1] if rng.random() < 0.3]
        for k in cfg["statio_unknowns"]:
            cfg["upolys"][k] = {(0,) + es[1:]: c for es, c in cfg["upolys"][k].items()} or {(0, 0): 1}      # no dependence on t
            if cfg["upolys2"][k]:
                cfg["upolys2"][k] = {(0,) + es[1:]: c for es, c in cfg["upolys2"][k].items()} or {(0, 0): 2}
            if cfg["obs"][k] is not None:
                cfg["obs"][k]["inputs"] = [r[1:] for r in cfg["obs"][k]["inputs"]]
    if kind != "ode":
        # Dirichlet conditions on some unknowns, with an explicit selection of output components for some of them
        # (slices, or an integer index); unknowns of a mixed system that are stationary carry none
        cfg["bc"] = {}
        for k in ukeys:
            if k in cfg["statio_unknowns"] or rng.random() < 0.4:
                cfg["bc"][k] = None
                continue
            nout = 2 if cfg["upolys2"][k] else 1
            sel = rng.choice([None, [0, 1], [1, 2], 0, 1]) if nout == 2 else rng.choice([None, [0, 1], 0])
            width = nout if sel is None else 1
            cfg["bc"][k] = dict(sel=sel, polys=[prand(rng, nv, 1, 2) or {(0,) * nv: 1} for _ in range(width)])
        cfg["border_times"] = [dy(rng, 0, 4) for _ in range(rng.randint(1, 3))]
    if kind == "ode":
        cfg["ic"] = {k: (dy(rng), float(rng.randint(-2, 2))) for k in ukeys}
    else:
        cfg["norm"] = {k: [[dy(rng)] for _ in range(rng.randint(1, 3))] for k in ukeys}
        if kind == "nonstatio":
            cfg["icp"] = {k: prand(rng, 1, 2, 2) or {(0,): 1} for k in ukeys}
        if cfg["pbatch"]:
            # under a parameter batch the rows of every batched part are paired with the parameter rows: same counts
            # (normalisation samples), and no border part (its row count is that of the facets' points)
            cfg["norm"] = {k: [[dy(rng)] for _ in range(n)] for k in ukeys}
            cfg["bc"] = {k: None for k in ukeys}
    return cfg


def build(cfg):
    jax, jnp, np, eqx, jinns = jx()
    from jinns.parameters import Params, ParamsDict
    from jinns.data._Batchs import ODEBatch, PDEStatioBatch, PDENonStatioBatch
    kind = cfg["kind"]
    eq_type = {"ode": "ODE", "statio": "statio_PDE", "nonstatio": "nonstatio_PDE"}[kind]
    up2 = cfg.get("upolys2") or {}
    SU = set(cfg.get("statio_unknowns") or [])
    drop_t = lambda p: {es[1:]: c for es, c in p.items()}          # the network of a stationary unknown takes x only
    us = {k: (mk([drop_t(cfg["upolys"][k])] + ([drop_t(up2[k])] if up2.get(k) else []), "statio_PDE") if k in SU
              else mk([cfg["upolys"][k]] + ([up2[k]] if up2.get(k) else []), eq_type)) for k in cfg["ukeys"]}
    osl = {k: (jnp.s_[v[0]:v[1]] if v else jnp.s_[...]) for k, v in (cfg.get("oslice") or {k: None for k in cfg["ukeys"]}).items()}
    pbatch = bool(cfg.get("pbatch"))
    het = bool(cfg.get("het")) and not pbatch
    PD = ParamsDict(nn_params={k: u.init_params() for k, u in us.items()}, eq_params={"junk": jnp.array(1.0 if (pbatch or het) else 2.0)})
    hetkw = dict(eq_params_heterogeneity={"junk": (lambda *a: 2.0 * jnp.ones(()))}) if het else {}
    shift = lambda p: 1000.0 * (jnp.atleast_1d(p.eq_params["junk"]).ravel()[0:1] - 2.0)
    pb = {"junk": 2.0 * jnp.ones((len(cfg["pts"]), 1))} if pbatch else None
    base = {"ode": jinns.loss.ODE, "statio": jinns.loss.PDEStatio, "nonstatio": jinns.loss.PDENonStatio}[kind]

    def mkeq(spec):
        coef, q = spec["coef"], spec["q"]
        if kind == "ode":
            class E(base):
                def equation(self, t, u_dict, params_dict):
                    return sum(c * u_dict[k](t, params_dict.extract_params(k))[0:1] for k, c in coef.items()) + poly_jax(q, jnp.atleast_1d(t)) + shift(params_dict)
        elif kind == "statio":
            class E(base):
                def equation(self, x, u_dict, params_dict):
                    return sum(c * u_dict[k](x, params_dict.extract_params(k))[0:1] for k, c in coef.items()) + poly_jax(q, x) + shift(params_dict)
        else:
            class E(base):
                def equation(self, t, x, u_dict, params_dict):
                    return sum(c * (u_dict[k](x, params_dict.extract_params(k)) if k in SU else u_dict[k](t, x, params_dict.extract_params(k)))[0:1]
                               for k, c in coef.items()) + poly_jax(q, jnp.concatenate([t, x])) + shift(params_dict)
        return E(**hetkw)
    dl = {e: mkeq(s) for e, s in cfg["eqs"].items()}

    def W(spec):
        return {"scalar": spec[1], "dict": spec[1], "none": None}[spec[0]]
    def WK(**fields):
        """keyword arguments of the weight container: an unset field is left out"""
        return {k: W(v) for k, v in fields.items() if v[0] != "unset"}
    obs = {k: (None if o is None else {"pinn_in": jnp.array(o["inputs"]), "val": (jnp.array(o["vals"]) if isinstance(o["vals"][0], list) else jnp.array(o["vals"])[:, None]), "eq_params": {}}) for k, o in cfg["obs"].items()}
    if all(v is None for v in obs.values()):
        obs = None
    if kind == "ode":
        lw = jinns.loss.LossWeightsODEDict(**WK(dyn_loss=cfg["w"]["dyn_loss"], initial_condition=cfg["w"]["initial_condition"], observations=cfg["w"]["observations"]))
        ic = {k: (t0, jnp.array([u0])) for k, (t0, u0) in cfg["ic"].items()}
        L = jinns.loss.SystemLossODE(u_dict=us, dynamic_loss_dict=dl, loss_weights=lw, initial_condition_dict=ic, params_dict=PD, obs_slice_dict=osl)
        batch = ODEBatch(temporal_batch=jnp.array(cfg["pts"])[:, 0], param_batch_dict=pb, obs_batch_dict=obs)
        singles = {k: jinns.loss.LossODE(u=us[k], dynamic_loss=None, initial_condition=ic[k], params=PD.extract_params(k), obs_slice=osl[k]) for k in us}
    else:
        lw = jinns.loss.LossWeightsPDEDict(**WK(dyn_loss=cfg["w"]["dyn_loss"], norm_loss=cfg["w"]["norm_loss"], boundary_loss=cfg["w"]["boundary_loss"],
                                                observations=cfg["w"]["observations"], initial_condition=cfg["w"]["initial_condition"]))
        kw = dict(norm_samples_dict={k: jnp.array(v) for k, v in cfg["norm"].items()}, norm_int_length_dict={k: 2.0 for k in us}, obs_slice_dict=osl)
        skw = {k: dict(norm_samples=jnp.array(cfg["norm"][k]), norm_int_length=2.0, obs_slice=osl[k]) for k in us}
        if kind == "nonstatio":
            icf = {k: (None if k in SU else (lambda p: (lambda x: poly_jax(p, x)))(cfg["icp"][k])) for k in us}
            kw["initial_condition_fun_dict"] = icf
            for k in us:
                if k not in SU:
                    skw[k]["initial_condition_fun"] = icf[k]
        bc = cfg.get("bc") or {}
        border = None
        if any(v is not None for v in bc.values()):
            def mkf(polys):
                def fun(*args):
                    z = jnp.concatenate([jnp.atleast_1d(a) for a in args])
                    return jnp.stack([poly_jax(p, z) * jnp.ones(()) for p in polys])
                return fun
            def seldim(sel):
                return None if sel is None else (int(sel) if isinstance(sel, int) else jnp.s_[sel[0]:sel[1]])
            kw["omega_boundary_fun_dict"] = {k: (mkf(bc[k]["polys"]) if bc.get(k) else None) for k in us}
            kw["omega_boundary_condition_dict"] = {k: ("dirichlet" if bc.get(k) else None) for k in us}
            kw["omega_boundary_dim_dict"] = {k: (seldim(bc[k]["sel"]) if bc.get(k) else None) for k in us}
            for k in us:
                if bc.get(k):
                    skw[k].update(omega_boundary_fun=kw["omega_boundary_fun_dict"][k], omega_boundary_condition="dirichlet",
                                  omega_boundary_dim=kw["omega_boundary_dim_dict"][k])
            # 1-D space: two facets, x = -1 and x = 2; (rows, coords, facets)
            border = (jnp.array([[[-1.0, 2.0]]]) if kind == "statio"
                      else jnp.array([[[t, t], [-1.0, 2.0]] for t in cfg["border_times"]]))
        L = jinns.loss.SystemLossPDE(u_dict=us, dynamic_loss_dict=dl, loss_weights=lw, params_dict=PD, **kw)
        pts = jnp.array(cfg["pts"])
        batch = (PDEStatioBatch(inside_batch=pts, border_batch=border, param_batch_dict=pb, obs_batch_dict=obs) if kind == "statio"
                 else PDENonStatioBatch(times_x_inside_batch=pts, times_x_border_batch=border, param_batch_dict=pb, obs_batch_dict=obs))
        cls = jinns.loss.LossPDEStatio if kind == "statio" else jinns.loss.LossPDENonStatio
        singles = {k: (jinns.loss.LossPDEStatio if k in SU else cls)(u=us[k], dynamic_loss=None, params=PD.extract_params(k), **skw[k]) for k in us}
    return us, PD, L, batch, singles, obs


def evaluate(cfg):
    jax, jnp, np, eqx, jinns = jx()
    us, PD, L, batch, singles, obs = build(cfg)
    tot, terms = (L if cfg.get("via_call") else L.evaluate)(PD, batch)       # the loss object is callable: same thing
    # the same object again on a batch WITHOUT observations, then on the first batch once more: an evaluation leaves nothing
    # behind in the loss object (no observation term without observations; the first result comes back)
    if obs is not None:
        import dataclasses
        bare = type(batch)(**{f.name: (None if f.name == "obs_batch_dict" else getattr(batch, f.name)) for f in dataclasses.fields(batch)})
        _, t2 = L.evaluate(PD, bare)
        tot3, t3 = L.evaluate(PD, batch)
        if float(t2.get("observations", 0.0)) != 0.0:
            cfg.setdefault("_seq_fails", []).append(f"a batch without observations evaluated after one with observations has an observation term of {float(t2['observations'])}")
        if float(tot3) != float(tot) or any(float(t3[k]) != float(terms[k]) for k in terms):
            cfg.setdefault("_seq_fails", []).append("the same system loss on the same batch gives another result after a different batch was evaluated in between")
    sing = {}
    for k, S in singles.items():
        b = jinns.data.append_obs_batch(batch, None if obs is None else obs[k])
        _, st = S.evaluate(PD.extract_params(k), b)
        sing[k] = {t: float(v) for t, v in st.items()}
    return float(tot), {k: float(v) for k, v in terms.items()}, sing


def system_terms_oracle(rng, n, terms=("initial_condition", "observations", "norm_loss", "boundary_loss")):
    """for random systems: every non-dynamic term of the system loss is the weighted sum over the unknowns of the same
    term of the single-network loss of that unknown (weights looked up by key)"""
    fails = []
    for k in range(n):
        cfg = gen(rng, ["ode", "statio", "nonstatio"][k % 3])
        for t in OTHER[cfg["kind"]]:          # per-unknown weights, written in an order of their own, all different
            if rng.random() < 0.7:
                ks = list(cfg["ukeys"]); rng.shuffle(ks)
                cfg["w"][t] = ("dict", {u: (i + 1) / 2 for i, u in enumerate(ks)})
        try:
            tot, got, sing = evaluate(cfg)
        except Exception as ex:
            fails.append({"detail": f"system loss raised {type(ex).__name__}: {str(ex)[:200]}", "case": {"what": "system terms"}})
            continue
        for t in OTHER[cfg["kind"]]:
            if t not in terms:
                continue
            spec = cfg["w"][t]
            wk = lambda u: {"scalar": spec[1], "none": 0.0, "unset": (0.0 if cfg["kind"] == "ode" else 1.0)}.get(spec[0]) if spec[0] != "dict" else spec[1][u]
            want = sum(wk(u) * sing[u].get(t, 0.0) for u in cfg["ukeys"])
            if abs(got[t] - want) > 1e-9 * max(1.0, abs(want)):
                fails.append({"detail": f"system {cfg['kind']}: term {t} is {got[t]}, the weighted sum of the unknowns' terms is {want} (weights {spec})", "case": {"what": "system terms", "kind": cfg["kind"], "term": t}})
    return fails


def case_term(cid, cfg, terms, sing):
    kind = cfg["kind"]
    uk = {k: i for i, k in enumerate(cfg["ukeys"])}
    ek = {k: i for i, k in enumerate(cfg["ekeys"])}

    def wg(spec, idx):
        if spec[0] == "scalar":
            return f"(GScalar {cq(spec[1])})"
        if spec[0] == "none":
            return "GNone"
        if spec[0] == "unset":                    # documented defaults: None for the ODE container, 1.0 for the PDE container
            return "GNone" if kind == "ode" else f"(GScalar {cq(1.0)})"
        return f"(GDict {clist(sorted(spec[1].items(), key=lambda kv: idx[kv[0]]), lambda kv: f'({cnat(idx[kv[0]])}, {cq(kv[1])})')})"
    eqs = clist(cfg["ekeys"], lambda e: f"({cnat(ek[e])}, ({clist(cfg['ukeys'], lambda k: f'({cnat(uk[k])}, {cq(cfg['eqs'][e]['coef'][k])})')}, {cpoly(cfg['eqs'][e]['q'])}))")
    other = OTHER[kind]
    return (f"mkcase {cnat(cid)} {cbool(kind != 'ode')} {cnat(nvars(kind, 1))} {clist(range(len(ek)), cnat)} {clist(range(len(uk)), cnat)} "
            f"{clist(cfg['ukeys'], lambda k: f'({cnat(uk[k])}, {cpoly(cfg['upolys'][k])})')} {eqs} {clist(cfg['pts'], lambda r: clist(r, cq))} "
            f"{wg(cfg['w']['dyn_loss'], ek)} {clist(other, lambda t: wg(cfg['w'][t], uk))} "
            f"{clist(other, lambda t: clist(cfg['ukeys'], lambda k: f'({cnat(uk[k])}, {cq(sing[k].get(t, 0.0))})'))} "
            f"{cq(terms['dyn_loss'])} {clist(other, lambda t: cq(terms[t]))}")


def jsonable(c):
    pj = lambda p: [[list(k), v] for k, v in sorted(p.items())]
    out = dict(c, upolys={k: pj(p) for k, p in c["upolys"].items()}, upolys2={k: (pj(p) if p else None) for k, p in (c.get("upolys2") or {}).items()}, eqs={e: dict(coef=s["coef"], q=pj(s["q"])) for e, s in c["eqs"].items()})
    if "icp" in c:
        out["icp"] = {k: pj(p) for k, p in c["icp"].items()}
    if c.get("bc"):
        out["bc"] = {k: (dict(sel=v["sel"], polys=[pj(p) for p in v["polys"]]) if v else None) for k, v in c["bc"].items()}
    return out


def unjson(c):
    pu = lambda p: {tuple(k): v for k, v in p}
    out = dict(c, upolys={k: pu(p) for k, p in c["upolys"].items()}, upolys2={k: (pu(p) if p else None) for k, p in (c.get("upolys2") or {}).items()}, eqs={e: dict(coef=s["coef"], q=pu(s["q"])) for e, s in c["eqs"].items()},
               w={t: tuple(v) for t, v in c["w"].items()})
    if "icp" in c:
        out["icp"] = {k: pu(p) for k, p in c["icp"].items()}
    if c.get("bc"):
        out["bc"] = {k: (dict(sel=v["sel"], polys=[pu(p) for p in v["polys"]]) if v else None) for k, v in c["bc"].items()}
    if "ic" in c:
        out["ic"] = {k: tuple(v) for k, v in c["ic"].items()}
    return out


def generate(tier, seed, casedir, variant):
    rng = random.Random(seed)
    cases, meta, viol, samples, dist = [], {}, [], [], {}
    nontrivial = set()
    N = 36 if tier == "quick" else 240
    for cid in range(N):
        # (the first ODE / stationary / non-stationary cases always carry a parameter batch and no observation part)
        cfg = gen(rng, ["ode", "statio", "nonstatio"][cid % 3], force_pbatch_noobs=(cid in (0, 4, 8, 12)))
        try:
            tot, terms, sing = evaluate(cfg)
        except Exception as ex:
            viol.append({"detail": f"system loss raised {type(ex).__name__}: {str(ex)[:200]}", "case": jsonable(cfg)})
            continue
        for f in cfg.pop("_seq_fails", []):
            viol.append({"detail": f, "case": jsonable(cfg)})
        cases.append(case_term(cid, cfg, terms, sing)); meta[cid] = jsonable(cfg)
        if abs(tot - sum(terms.values())) > 1e-12 * (1 + abs(tot)):
            viol.append({"detail": f"total {tot} is not the sum of the returned terms", "case": jsonable(cfg)})
        k = f"{cfg['kind']}_{len(cfg['ekeys'])}eq_x_{len(cfg['ukeys'])}unknowns"
        dist[k] = dist.get(k, 0) + 1
        for t, s in cfg["w"].items():
            dist[f"weight_{s[0]}"] = dist.get(f"weight_{s[0]}", 0) + 1
        if terms["dyn_loss"] != 0.0:
            nontrivial.add(cid)
        if terms.get("boundary_loss", 0.0) != 0.0:
            dist["nonzero_boundary_term"] = dist.get("nonzero_boundary_term", 0) + 1
        if len(samples) < 2 and len(cfg["ekeys"]) != len(cfg["ukeys"]):
            samples.append(dict(jsonable(cfg), returned=terms))
    write_cases(casedir, "C13", "R_C13", variant, cases, chunk=100)
    return dict(meta=meta, oracle_violations=viol, evaluations=len(cases), distinct_nontrivial=len(nontrivial), samples=samples, distribution=dist,
                rule="random systems (ODE / stationary / non-stationary) with 1..3 equations and 1..3 unknowns (counts independent, key names inserted in any order), residuals linear in the unknowns plus a polynomial that is not symmetric in (t, x), scalar / per-key dictionary / missing weights for every field, initial conditions, normalisation samples and observations per unknown (some unknowns without observations; some with a second output channel and an observation slice of their own; half of the non-stationary systems with two or more unknowns are mixed: their first unknown is a stationary field), Dirichlet conditions on some unknowns with slices / integer indices selecting output components, 40% with a parameter batch the equations depend on (half of those without any observation part), 30% with a heterogeneous equation parameter; non-trivial = non-zero dynamic term",
                oracle_checks=len(cases))


def replay(rep, casedir, variant):
    cfg = unjson(rep["case"])
    tot, terms, sing = evaluate(cfg)
    write_cases(casedir, "C13", "R_C13", variant, [case_term(0, cfg, terms, sing)])
    return dict(meta={0: rep["case"]}, oracle_violations=[], evaluations=1, distinct_nontrivial=1, rule="replay", samples=[rep["case"]])
