"""C11 harness: (1) forward-mode operators of real separable networks against the operator model
on the expression sum_z prod_k f_k(x_k)[z] (Coq); (2) implementation against implementation: the
built-in dynamic losses and the loss terms on a separable network against the same computation on
its pointwise twin (a PINN evaluating the same function), at every grid index."""
import itertools, random
from common import relax, jx, cq, cnat, cbool, clist, write_cases, default_matches_known
from lossbuild import dy
from c10 import export_layers, clay, square
matches_known = default_matches_known


def spinn(rng, d, m, eq_type, r=None):
    jax, jnp, np, eqx, jinns = jx()
    r = r or rng.randint(1, 3)
    return jinns.utils.create_SPINN(jax.random.PRNGKey(rng.randrange(1 << 30)), d, r, ((eqx.nn.Linear, 1, 2), (square,), (eqx.nn.Linear, 2, r * m)), eq_type, m=m), r


def make_twin(s, has_t):
    """a PINN computing the separable network's function at one point"""
    jax, jnp, np, eqx, jinns = jx()

    class SpinnAsMLP(eqx.Module):
        inner: eqx.Module
        r: int = eqx.field(static=True)
        m: int = eqx.field(static=True)
        has_t: bool = eqx.field(static=True)

        def __call__(self, z):
            res = self.inner(z[0:1], z[1:]) if self.has_t else self.inner(None, z)
            return jnp.stack([jnp.sum(jnp.prod(res[:, k * self.r:(k + 1) * self.r], axis=0)) for k in range(self.m)])
    mlp = SpinnAsMLP(eqx.combine(s.params, s.static), s.r, s.m, has_t)
    return jinns.utils.PINN(mlp=mlp, slice_solution=jnp.s_[:], eq_type=s.eq_type, input_transform=lambda i, p: i, output_transform=lambda i, o, p: o)


def op_case(rng, cid):
    jax, jnp, np, eqx, jinns = jx()
    from jinns.parameters import Params
    op = rng.choice([0, 1])
    has_t = rng.random() < 0.5
    ds = rng.randint(1, 2) if has_t else rng.randint(1, 3)
    d = ds + (1 if has_t else 0)
    m = 1 if op == 0 else ds
    s, r = spinn(rng, d, m, "nonstatio_PDE" if has_t else "statio_PDE")
    B = [1, 2, 3][cid % 3]            # fewer, as many, more points per axis than space dimensions
    coords = [[dy(rng) for _ in range(B)] for _ in range(d)]
    arr = jnp.array(coords).T
    P = Params(nn_params=s.init_params(), eq_params={})
    t, x = (arr[:, 0:1], arr[:, 1:]) if has_t else (None, arr)
    out = np.asarray((jinns.loss._laplacian_fwd if op == 0 else jinns.loss._div_fwd)(t, x, s, P))
    idxs = [[rng.randrange(B) for _ in range(d)] for _ in range(3)]
    obs = [float(out[tuple(ix)]) for ix in idxs]
    nets = [export_layers(s.init_params().separated_mlp[k], s.static.separated_mlp[k]) for k in range(d)]
    term = (f"mkcase {cnat(cid)} {cnat(op)} {cbool(has_t)} {cnat(r)} {cnat(m)} {clist(nets, lambda n: clist(n, clay))} "
            f"{clist(coords, lambda c: clist(c, cq))} {clist(idxs, lambda ix: clist(ix, cnat))} {clist(obs, cq)}")
    return term, dict(what="operator", op=["laplacian_fwd", "div_fwd"][op], has_t=has_t, ds=ds, r=r, B=B)


def grid_eval(fn_point, t, x):
    jax, jnp, np, eqx, jinns = jx()
    axes = ([np.asarray(t)[:, 0]] if t is not None else []) + [np.asarray(x)[:, k] for k in range(x.shape[1])]
    out = np.empty([len(a) for a in axes], dtype=object)
    for idx in itertools.product(*[range(len(a)) for a in axes]):
        vals = [float(axes[k][i]) for k, i in enumerate(idx)]
        out[idx] = np.asarray(fn_point(jnp.array(vals[:1]), jnp.array(vals[1:]))) if t is not None else np.asarray(fn_point(None, jnp.array(vals)))
    return np.array(out.tolist(), dtype=float)


def vec_ops_vs_twin(rng, n):
    """vector Laplacian (component count given or left to its default) and advection (u.grad)u of a separable
    two-component field in 2 space dimensions, with and without time, against the reverse-mode operators on the
    pointwise twin at every grid index; 1, 2 or 3 points per axis"""
    jax, jnp, np, eqx, jinns = jx()
    from jinns.parameters import Params
    import jinns.loss._operators as O
    fails = []
    close = lambda a, b: np.allclose(np.asarray(a), np.asarray(b), rtol=1e-9, atol=1e-11)
    for rnd in range(n):
        relax(1)
        B = [1, 2, 3][rnd % 3]
        for has_t in (False, True):
            s, r = spinn(rng, 3 if has_t else 2, 2, "nonstatio_PDE" if has_t else "statio_PDE"); tw = make_twin(s, has_t)
            Ps = Params(nn_params=s.init_params(), eq_params={}); Pt = Params(nn_params=tw.init_params(), eq_params={})
            t = jnp.array([[dy(rng, 0, 3) + 0.125 * k] for k in range(B)]) if has_t else None
            x = jnp.array([[dy(rng), dy(rng)] for _ in range(B)])
            tag = f"{'with' if has_t else 'without'} time, {B} point(s) per axis"
            for nm, fw_fun, rv_fun in (
                    ("scalar Laplacian of a two-output network (component 0)", lambda: O._laplacian_fwd(t, x, s, Ps)[..., None], lambda tt, xx: jnp.atleast_1d(O._laplacian_rev(tt, xx, tw, Pt))),
                    ("vector Laplacian (component count given)", lambda: O._vectorial_laplacian(t, x, s, Ps, u_vec_ndim=2), lambda tt, xx: O._vectorial_laplacian(tt, xx, tw, Pt, u_vec_ndim=2)),
                    ("vector Laplacian (default component count)", lambda: O._vectorial_laplacian(t, x, s, Ps), lambda tt, xx: O._vectorial_laplacian(tt, xx, tw, Pt)),
                    ("advection (u.grad)u", lambda: O._u_dot_nabla_times_u_fwd(t, x, s, Ps), lambda tt, xx: O._u_dot_nabla_times_u_rev(tt, xx, tw, Pt))):
                try:
                    fw = np.asarray(fw_fun())
                    rv = grid_eval(rv_fun, t, x)                       # grid axes first, components last
                    if nm.startswith("vector"):
                        fw = np.moveaxis(fw, 0, -1)                    # the separable vector Laplacian puts the components first
                    rv = rv.reshape(rv.shape[:fw.ndim - 1] + (-1,))
                    if fw.shape != rv.shape or not close(fw, rv):
                        fails.append({"detail": f"{nm}, {tag}: the separable network gives shape {fw.shape}, the pointwise twin on the grid {rv.shape}" + ("" if fw.shape != rv.shape else "; values differ"),
                                      "case": dict(what="vector operator", name=nm, has_t=has_t, B=B)})
                except Exception as ex:
                    fails.append({"detail": f"{nm}, {tag} raised {type(ex).__name__}: {str(ex)[:160]}", "case": dict(what="vector operator", name=nm, has_t=has_t, B=B)})
    return fails


def correlated_ou():
    jax, jnp, np, eqx, jinns = jx()

    class CorrelatedOU(jinns.loss.OU_FPENonStatioLoss2D):
        def sigma_mat(self, t, x, eq_params):
            s = eq_params["sigma"]
            return jnp.array([[s[0], 0.0], [0.75 * s[1], s[1]]])
    return CorrelatedOU


def impl_vs_impl(rng, n, residuals_only=False, terms_only=False):
    """separable vs pointwise on the built-in residuals and on the loss terms (tolerance 1e-9); the number of
    points per axis is 1, 2 or 3 (fewer, as many, more than the space dimension)"""
    jax, jnp, np, eqx, jinns = jx()
    from jinns.parameters import Params, ParamsDict
    from jinns.data._Batchs import PDEStatioBatch, PDENonStatioBatch
    fails = []
    close = lambda a, b: np.allclose(np.asarray(a), np.asarray(b), rtol=1e-9, atol=1e-11)
    for rnd in range(n):
        relax(1)
        B = [1, 2, 3][rnd % 3]
        t = jnp.array([[dy(rng, 0, 3) + 0.125 * k] for k in range(B)])
        for name, mk, dx, eqp in [] if terms_only else [
                ("BurgerEquation", lambda: jinns.loss.BurgerEquation(Tmax=2.0), 1, {"nu": jnp.array(0.25)}),
                ("FisherKPP", lambda: jinns.loss.FisherKPP(Tmax=2.0), rng.choice([1, 2]), {"D": jnp.array(0.5), "r": jnp.array(1.5), "g": jnp.array(0.75)}),
                ("OU_FPENonStatioLoss2D", lambda: jinns.loss.OU_FPENonStatioLoss2D(Tmax=2.0), 2, {"alpha": jnp.array([0.5, 0.75]), "mu": jnp.array([0.25, -0.5]), "sigma": jnp.array([0.5, 1.0])}),
                # correlated noise: a subclass whose square root of the diffusion tensor is lower triangular (not symmetric)
                ("OU_FPENonStatioLoss2D with a lower-triangular sigma_mat", lambda: correlated_ou()(Tmax=2.0), 2, {"alpha": jnp.array([0.5, 0.75]), "mu": jnp.array([0.25, -0.5]), "sigma": jnp.array([0.5, 1.0])})]:
            s, r = spinn(rng, 1 + dx, 1, "nonstatio_PDE"); tw = make_twin(s, True)
            x = jnp.array([[dy(rng) for _ in range(dx)] for _ in range(B)])
            Ps = Params(nn_params=s.init_params(), eq_params=eqp); Pt = Params(nn_params=tw.init_params(), eq_params=eqp)
            L = mk()
            fw = np.asarray(L.evaluate(t, x, s, Ps))
            rv = grid_eval(lambda tt, xx: L.evaluate(tt, xx, tw, Pt), t, x)
            if not close(fw.reshape(rv.shape), rv):
                fails.append({"detail": f"{name}: the separable residual differs from the pointwise one on the grid ({B} point(s) per axis, {dx} space dimension(s))", "case": dict(what="residual", name=name, dx=dx, B=B)})
        su, _ = spinn(rng, 2, 2, "statio_PDE"); sp, _ = spinn(rng, 2, 1, "statio_PDE")
        tu, tp = make_twin(su, False), make_twin(sp, False)
        x = jnp.array([[dy(rng), dy(rng)] for _ in range(B)])
        eqp = {"rho": jnp.array(2.0), "nu": jnp.array(0.5)}
        PDs = ParamsDict(nn_params={"u": su.init_params(), "p": sp.init_params()}, eq_params=eqp)
        PDt = ParamsDict(nn_params={"u": tu.init_params(), "p": tp.init_params()}, eq_params=eqp)
        for nm, L in [] if terms_only else [("NavierStokes2DStatio", jinns.loss.NavierStokes2DStatio(u_key="u", p_key="p")), ("MassConservation2DStatio", jinns.loss.MassConservation2DStatio(nn_key="u"))]:
            fw = np.asarray(L.evaluate(x, {"u": su, "p": sp}, PDs))
            rv = grid_eval(lambda tt, xx: L.evaluate(xx, {"u": tu, "p": tp}, PDt), None, x)
            if not close(fw.reshape(rv.shape), rv):
                fails.append({"detail": f"{nm}: the separable residual differs from the pointwise one on the grid ({B} point(s) per axis)", "case": dict(what="residual", name=nm, B=B)})
        if residuals_only:
            continue
        # loss terms: stationary loss with Dirichlet / Neumann boundary and normalisation, 2-D
        for cond in ("dirichlet", "von neumann"):
            s, r = spinn(rng, 2, 1, "statio_PDE"); tw = make_twin(s, False)
            Ps = Params(nn_params=s.init_params(), eq_params={}); Pt = Params(nn_params=tw.init_params(), eq_params={})
            xs = jnp.array([[dy(rng), dy(rng)] for _ in range(B)])
            samples = jnp.array([[dy(rng), dy(rng)] for _ in range(3)])
            border = jnp.array([[[-1.0, 2.0, dy(rng), dy(rng)], [dy(rng), dy(rng), 0.5, 1.5]] for _ in range(B)])      # (B, 2, 4)

            class Eq(jinns.loss.PDEStatio):
                def equation(self, x, u, params):
                    if isinstance(u, jinns.utils._spinn.SPINN):
                        return jinns.loss._laplacian_fwd(None, x, u, params)[..., None] + u(x, params)
                    return jinns.loss._laplacian_rev(None, x, u, params)[..., None] + u(x, params)
            common = dict(dynamic_loss=Eq(), omega_boundary_fun=lambda z: (0.5 + 0.375 * z[..., 0:1] - 0.25 * z[..., -1:]) if z.ndim > 1 else (0.5 + 0.375 * z[0] - 0.25 * z[-1]),
                          omega_boundary_condition=cond, norm_samples=samples, norm_int_length=2.0)
            Ls = jinns.loss.LossPDEStatio(u=s, params=Ps, **common); Lt = jinns.loss.LossPDEStatio(u=tw, params=Pt, **common)
            # the pointwise loss sees the full grid of points; border facets: the grid of the facet's columns
            grid = jnp.array([[a, b] for a in np.asarray(xs)[:, 0] for b in np.asarray(xs)[:, 1]])
            bgrid = jnp.stack([jnp.array([[a, b] for a in np.asarray(border)[:, 0, f] for b in np.asarray(border)[:, 1, f]]) for f in range(4)], axis=-1)
            sgrid = jnp.array([[a, b] for a in np.asarray(samples)[:, 0] for b in np.asarray(samples)[:, 1]])
            Lt = jinns.loss.LossPDEStatio(u=tw, params=Pt, **dict(common, norm_samples=sgrid))
            _, ts = Ls.evaluate(Ps, PDEStatioBatch(inside_batch=xs, border_batch=border))
            _, tt = Lt.evaluate(Pt, PDEStatioBatch(inside_batch=grid, border_batch=bgrid))
            for k in ts:
                if not close(ts[k], tt[k]):
                    fails.append({"detail": f"stationary loss ({cond}): term {k} is {float(ts[k])} on the separable network and {float(tt[k])} on its pointwise twin", "case": dict(what="terms", cond=cond, term=k)})
        # 1-D non-stationary Neumann term, B time points: the separable network sees the (t_i) x {xmin, xmax} grid
        s, r = spinn(rng, 2, 1, "nonstatio_PDE"); tw = make_twin(s, True)
        Ps = Params(nn_params=s.init_params(), eq_params={}); Pt = Params(nn_params=tw.init_params(), eq_params={})
        t0 = dy(rng, 0, 2); ts = jnp.array([[t0 + 0.375 * k] for k in range(B)])          # distinct times
        xs = jnp.array([[dy(rng)] for _ in range(B)])
        bord = jnp.stack([jnp.concatenate([ts, jnp.full((B, 1), xb)], axis=1) for xb in (-1.0, 2.0)], axis=-1)          # (B, 2, 2)
        txs = jnp.concatenate([ts, xs], axis=1)
        for cond, dimsel, tag in (("von neumann", None, "Neumann"), ("dirichlet", None, "Dirichlet"), ("dirichlet", 0, "Dirichlet on component 0 (integer index)"),
                                  ("dirichlet", jnp.s_[0:1], "Dirichlet on the slice [0:1]")):
            common = dict(dynamic_loss=None, omega_boundary_fun=lambda t, x: (0.5 + 0.25 * t[..., 0:1] + 0.375 * x[..., 0:1] - 0.25 * x[..., -1:]) if hasattr(t, "ndim") and t.ndim > 1 else (0.5 + 0.25 * t + 0.375 * x[0:1] - 0.25 * x[-1:]), omega_boundary_condition=cond)
            if dimsel is not None:
                common["omega_boundary_dim"] = dimsel
            try:
                Ls = jinns.loss.LossPDENonStatio(u=s, params=Ps, **common); Lt = jinns.loss.LossPDENonStatio(u=tw, params=Pt, **common)
                _, a = Ls.evaluate(Ps, PDENonStatioBatch(times_x_inside_batch=txs, times_x_border_batch=bord))
                _, b = Lt.evaluate(Pt, PDENonStatioBatch(times_x_inside_batch=txs, times_x_border_batch=bord))
                if not close(a["boundary_loss"], b["boundary_loss"]):
                    fails.append({"detail": f"1-D non-stationary {tag} term with {B} time point(s): {float(a['boundary_loss'])} on the separable network, {float(b['boundary_loss'])} on its pointwise twin", "case": dict(what="terms", cond=tag + " 1-D non-stationary", B=B)})
            except Exception as ex:
                fails.append({"detail": f"1-D non-stationary {tag} term with {B} time point(s) raised {type(ex).__name__}: {str(ex)[:160]}", "case": dict(what="terms", cond=tag + " 1-D non-stationary", B=B)})
        # stationary 1-D and non-stationary 2-D boundary terms (the dimension tests of the separable branches take other paths there)
        for cond in ("dirichlet", "von neumann"):
            try:
                s, r = spinn(rng, 1, 1, "statio_PDE"); tw = make_twin(s, False)
                Ps = Params(nn_params=s.init_params(), eq_params={}); Pt = Params(nn_params=tw.init_params(), eq_params={})
                border1 = jnp.array([[[-1.0, 2.0]]])
                common = dict(dynamic_loss=None, omega_boundary_fun=lambda z: (0.5 + 0.375 * z[..., 0:1] - 0.25 * z[..., -1:]) if z.ndim > 1 else (0.5 + 0.375 * z[0] - 0.25 * z[-1]), omega_boundary_condition=cond)
                Ls = jinns.loss.LossPDEStatio(u=s, params=Ps, **common); Lt = jinns.loss.LossPDEStatio(u=tw, params=Pt, **common)
                _, a = Ls.evaluate(Ps, PDEStatioBatch(inside_batch=jnp.array([[0.5]]), border_batch=border1))
                _, b = Lt.evaluate(Pt, PDEStatioBatch(inside_batch=jnp.array([[0.5]]), border_batch=border1))
                if not close(a["boundary_loss"], b["boundary_loss"]):
                    fails.append({"detail": f"1-D stationary {cond} term: {float(a['boundary_loss'])} on the separable network, {float(b['boundary_loss'])} on its pointwise twin", "case": dict(what="terms", cond=cond + " 1-D stationary")})
                s, r = spinn(rng, 3, 1, "nonstatio_PDE"); tw = make_twin(s, True)
                Ps = Params(nn_params=s.init_params(), eq_params={}); Pt = Params(nn_params=tw.init_params(), eq_params={})
                tcol = [0.25 + 0.375 * k for k in range(B)]
                C = [[tcol, [[-1.0, 2.0][f] if f < 2 else dy(rng) + 0.125 * k for k in range(B)], [[0.5, 1.5][f - 2] if f >= 2 else dy(rng) - 0.25 * k for k in range(B)]] for f in range(4)]
                border2 = jnp.array([[[C[f][c][i] for f in range(4)] for c in range(3)] for i in range(B)])          # (B, 3, 4)
                bgrid2 = jnp.stack([jnp.array([[t, x, y] for t in C[f][0] for x in C[f][1] for y in C[f][2]]) for f in range(4)], axis=-1)
                common = dict(dynamic_loss=None, omega_boundary_fun=lambda t, x: (0.5 + 0.25 * t[..., 0:1] + 0.375 * x[..., 0:1] - 0.25 * x[..., -1:]) if hasattr(t, "ndim") and t.ndim > 1 else (0.5 + 0.25 * t + 0.375 * x[0:1] - 0.25 * x[-1:]), omega_boundary_condition=cond)
                Ls = jinns.loss.LossPDENonStatio(u=s, params=Ps, **common); Lt = jinns.loss.LossPDENonStatio(u=tw, params=Pt, **common)
                _, a = Ls.evaluate(Ps, PDENonStatioBatch(times_x_inside_batch=jnp.zeros((B, 3)), times_x_border_batch=border2))
                _, b = Lt.evaluate(Pt, PDENonStatioBatch(times_x_inside_batch=jnp.zeros((B, 3)), times_x_border_batch=bgrid2))
                if not close(a["boundary_loss"], b["boundary_loss"]):
                    fails.append({"detail": f"2-D non-stationary {cond} term with {B} point(s) per axis: {float(a['boundary_loss'])} on the separable network, {float(b['boundary_loss'])} on its pointwise twin", "case": dict(what="terms", cond=cond + " 2-D non-stationary", B=B)})
            except Exception as ex:
                fails.append({"detail": f"1-D stationary / 2-D non-stationary {cond} term raised {type(ex).__name__}: {str(ex)[:160]}", "case": dict(what="terms", cond=cond + " 1-D stationary / 2-D non-stationary", B=B)})
        # non-stationary normalisation term: B batch times, N = B, 2B or 4B normalisation samples (the separable branch
        # repeats the times to the sample count), 1-D space
        s, r = spinn(rng, 2, 1, "nonstatio_PDE"); tw = make_twin(s, True)
        Ps = Params(nn_params=s.init_params(), eq_params={}); Pt = Params(nn_params=tw.init_params(), eq_params={})
        for N in (B, 2 * B, 3 * B if rnd % 2 else 4 * B):
            t0 = dy(rng, 0, 2); ts = jnp.array([[t0 + 0.375 * k] for k in range(B)])          # distinct times
            xs = jnp.array([[dy(rng)] for _ in range(B)])
            ns = jnp.array([[dy(rng)] for _ in range(N)])
            common = dict(dynamic_loss=None, norm_samples=ns, norm_int_length=2.0)
            Ls = jinns.loss.LossPDENonStatio(u=s, params=Ps, **common); Lt = jinns.loss.LossPDENonStatio(u=tw, params=Pt, **common)
            txs = jnp.concatenate([ts, xs], axis=1)
            try:
                _, a = Ls.evaluate(Ps, PDENonStatioBatch(times_x_inside_batch=txs, times_x_border_batch=None))
                _, b = Lt.evaluate(Pt, PDENonStatioBatch(times_x_inside_batch=txs, times_x_border_batch=None))
                if not close(a["norm_loss"], b["norm_loss"]):
                    fails.append({"detail": f"non-stationary normalisation term with {B} time(s) and {N} samples: {float(a['norm_loss'])} on the separable network, {float(b['norm_loss'])} on its pointwise twin", "case": dict(what="terms", cond="normalisation non-stationary", B=B, N=N)})
            except Exception as ex:
                fails.append({"detail": f"non-stationary normalisation term with {B} time(s) and {N} samples raised {type(ex).__name__}: {str(ex)[:160]}", "case": dict(what="terms", cond="normalisation non-stationary", B=B, N=N)})
        # initial-condition term in 2 space dimensions, initial state not symmetric in (x, y): the separable branch evaluates
        # it on the grid of the batch columns, the pointwise one on every (x_i, y_j) pair
        s, r = spinn(rng, 3, 1, "nonstatio_PDE"); tw = make_twin(s, True)
        Ps = Params(nn_params=s.init_params(), eq_params={}); Pt = Params(nn_params=tw.init_params(), eq_params={})
        if rnd % 2 == 0:
            icf = lambda x: 1.0 + 2.0 * x[..., 0:1] - 3.0 * x[..., 1:2] + x[..., 0:1] * x[..., 1:2] ** 2
        else:       # the user's initial state returns a bare number per point (no trailing (1,) axis)
            icf = lambda x: 1.0 + 2.0 * x[..., 0] - 3.0 * x[..., 1] + x[..., 0] * x[..., 1] ** 2
        t0 = dy(rng, 0, 2); ts = jnp.array([[t0 + 0.375 * k] for k in range(B)])
        xy = jnp.array([[dy(rng) + 0.125 * k, dy(rng) - 0.25 * k] for k in range(B)])
        common = dict(dynamic_loss=None, initial_condition_fun=icf)
        Ls = jinns.loss.LossPDENonStatio(u=s, params=Ps, **common); Lt = jinns.loss.LossPDENonStatio(u=tw, params=Pt, **common)
        pairs = jnp.array([[float(ts[0, 0]), float(a), float(b)] for a in np.asarray(xy)[:, 0] for b in np.asarray(xy)[:, 1]])
        try:
            _, a = Ls.evaluate(Ps, PDENonStatioBatch(times_x_inside_batch=jnp.concatenate([ts, xy], axis=1), times_x_border_batch=None))
            _, b = Lt.evaluate(Pt, PDENonStatioBatch(times_x_inside_batch=pairs, times_x_border_batch=None))
            if not close(a["initial_condition"], b["initial_condition"]):
                fails.append({"detail": f"initial-condition term in 2 space dimensions ({B} point(s) per axis): {float(a['initial_condition'])} on the separable network, {float(b['initial_condition'])} on its pointwise twin", "case": dict(what="terms", cond="initial condition 2-D", B=B)})
        except Exception as ex:
            fails.append({"detail": f"initial-condition term in 2 space dimensions ({B} point(s) per axis) raised {type(ex).__name__}: {str(ex)[:160]}", "case": dict(what="terms", cond="initial condition 2-D", B=B)})
    return fails


def generate(tier, seed, casedir, variant):
    rng = random.Random(seed)
    cases, meta, viol, samples, dist = [], {}, [], [], {}
    N = 24 if tier == "quick" else 160
    for cid in range(N):
        relax(10)
        try:
            term, m = op_case(rng, cid)
        except Exception as ex:
            viol.append({"detail": f"forward operator raised {type(ex).__name__}: {str(ex)[:200]}", "case": {"what": "operator"}})
            continue
        cases.append(term); meta[cid] = m
        k = f"{m['op']}_{'t' if m['has_t'] else 'not'}_d{m['ds']}"
        dist[k] = dist.get(k, 0) + 1
        if len(samples) < 2:
            samples.append(m)
    nio = 6 if tier == "quick" else 18
    try:
        viol += impl_vs_impl(rng, nio)
    except Exception as ex:
        viol.append({"detail": f"separable / pointwise comparison raised {type(ex).__name__}: {str(ex)[:300]}", "case": {"what": "impl_vs_impl"}})
    dist["impl_vs_impl_rounds"] = nio
    try:
        viol += vec_ops_vs_twin(rng, 3 if tier == "quick" else 9)
    except Exception as ex:
        viol.append({"detail": f"vector operator comparison raised {type(ex).__name__}: {str(ex)[:300]}", "case": {"what": "vector operator"}})
    write_cases(casedir, "C11", "R_C11", variant, cases, chunk=60)
    return dict(meta=meta, oracle_violations=viol, evaluations=len(cases) + nio * 7, distinct_nontrivial=len(cases), samples=samples, distribution=dist,
                rule="forward-mode Laplacian / divergence of random separable networks (1..3 spatial dimensions, with and without time, embedding size 1..3, 1..3 batch points, three grid indices each) against the operator model on the network's expression; plus, implementation against implementation, the vector Laplacian (given and default component count) and the advection operator with and without time, the six built-in residuals and the dynamic / boundary (Dirichlet, Neumann) / normalisation terms of LossPDEStatio the 1-D stationary, 1-D and 2-D non-stationary boundary terms, the non-stationary normalisation (1-4 samples per batch time) and 2-D initial-condition terms on a separable network and on its pointwise twin over the whole grid, with 1 / 2 / 3 points per axis; all cases distinct (fresh random weights)",
                oracle_checks=nio * 7)


def replay(rep, casedir, variant):
    return generate("quick", rep.get("seed", 0), casedir, variant)
