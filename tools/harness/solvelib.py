"""Shared machinery of the C07 / C18 / C19 harnesses: small training problems over the real
jinns losses, generators, optax optimizers and validation modules; a textbook Python training
loop (the reference); jinns.solve runs; translation of both into the tokens of Run/R_solve.v."""
import math, random
from fractions import Fraction
from common import jx, cz, cnat, cbool, clist
from poly import mk

KINDS = ["ode", "statio", "nonstatio"]
OPTS = ["sgd", "momentum", "adam", "chain"]


# --------------------------------------------------------------------------- problem
def make_nan_tools():
    jax, jnp, np, eqx, jinns = jx()

    @jax.custom_jvp
    def zero_with_nan_grad(x, flag):
        return 0.0 * x

    @zero_with_nan_grad.defjvp
    def _jvp(primals, tangents):
        x, flag = primals
        dx, _ = tangents
        return 0.0 * x, jnp.where(flag, jnp.nan, 0.0) * dx
    return zero_with_nan_grad


def build(cfg):
    """returns dict(u, P, L, g, pg, og, opt, tracked, validation)"""
    jax, jnp, np, eqx, jinns = jx()
    import optax
    from jinns.parameters import Params
    kind = cfg["kind"]
    inj = cfg.get("inject")            # None | dict(origin, thr, sign) | dict(origin="update", k)
    zng = make_nan_tools()

    def extra(params):
        if not inj or inj["origin"] in ("update", "update_entry", "state_only"):
            return 0.0
        a = params.eq_params["a"] if inj["origin"] in ("loss", "grad_eq") else params.nn_params.scale
        beyond = (a - inj["thr"]) * inj["sign"] > 0
        if inj["origin"] == "loss":
            return jnp.where(beyond, jnp.nan, 0.0)
        return zng(a, beyond)

    if kind == "ode":
        class Eq(jinns.loss.ODE):
            def equation(self, t, u, params):
                return u(t, params) * params.eq_params["a"] - 2.0 * params.eq_params["b"] + params.eq_params["c"] + extra(params)
        u = mk([{(0,): 1, (1,): 3, (2,): -1}], "ODE")
        if cfg.get("rar"):      # refinement configured: the loop also calls trigger_rar after every update
            g = jinns.data.DataGeneratorODE(jax.random.PRNGKey(cfg["seed"]), cfg["nt"] + 6, 0.0, 1.0, cfg["bs"],
                                            rar_parameters={"start_iter": 1, "update_every": 2, "sample_size_times": 3, "selected_sample_size_times": 1}, nt_start=cfg["nt"])
        else:
            g = jinns.data.DataGeneratorODE(jax.random.PRNGKey(cfg["seed"]), cfg["nt"], 0.0, 1.0, cfg["bs"])
    elif kind == "statio":
        class Eq(jinns.loss.PDEStatio):
            def equation(self, x, u, params):
                return u(x, params) * params.eq_params["a"] - 2.0 * params.eq_params["b"] + params.eq_params["c"] + extra(params)
        u = mk([{(1, 0): 2, (0, 1): -1, (1, 1): 1, (0, 0): 1}], "statio_PDE")
        g = jinns.data.CubicMeshPDEStatio(key=jax.random.PRNGKey(cfg["seed"]), n=cfg["nt"], nb=None, omega_batch_size=cfg["bs"],
                                          omega_border_batch_size=None, dim=2, min_pts=(0.0, 0.0), max_pts=(1.0, 1.0))
    else:
        class Eq(jinns.loss.PDENonStatio):
            def equation(self, t, x, u, params):
                return u(t, x, params) * params.eq_params["a"] - 2.0 * params.eq_params["b"] + params.eq_params["c"] + extra(params)
        u = mk([{(1, 0): 1, (0, 1): 2, (1, 1): -1, (0, 0): 1}], "nonstatio_PDE")
        g = jinns.data.CubicMeshPDENonStatio(key=jax.random.PRNGKey(cfg["seed"]), n=cfg["nt"], nb=None, nt=cfg["nt"], omega_batch_size=cfg["bs"],
                                             omega_border_batch_size=None, temporal_batch_size=cfg["bs"], dim=1, min_pts=(0.0,), max_pts=(1.0,),
                                             tmin=0.0, tmax=1.0, cartesian_product=True)
    P = Params(nn_params=u.init_params(), eq_params={"a": jnp.array(1.5), "b": jnp.array(0.5), "c": jnp.array(0.25), "v": jnp.array([0.5, -0.5, 0.25])})
    infp = bool(cfg.get("inf_param"))
    if infp:      # a legitimate infinite value among the parameters (a switched-off cap nothing differentiates): infinite is not NaN
        P = Params(nn_params=P.nn_params, eq_params=dict(P.eq_params, cap=jnp.array(jnp.inf)))
    dkcls = {"ode": jinns.parameters.DerivativeKeysODE, "statio": jinns.parameters.DerivativeKeysPDEStatio,
             "nonstatio": jinns.parameters.DerivativeKeysPDENonStatio}[kind]
    dk = dkcls.from_str(P, dyn_loss=Params(nn_params=True, eq_params=dict({"a": True, "b": True, "c": False, "v": False}, **({"cap": False} if infp else {}))))
    if kind == "ode":
        L = jinns.loss.LossODE(u=u, dynamic_loss=Eq(), params=P, initial_condition=(0.0, 1.0), derivative_keys=dk)
    elif kind == "statio":
        L = jinns.loss.LossPDEStatio(u=u, dynamic_loss=Eq(), params=P, derivative_keys=dk)
    else:
        L = jinns.loss.LossPDENonStatio(u=u, dynamic_loss=Eq(), params=P, derivative_keys=dk,
                                        initial_condition_fun=lambda x: 1.0 + 0.0 * x[0:1])
    pbs = cfg["bs"] * cfg["bs"] if kind == "nonstatio" else cfg["bs"]
    pg = jinns.data.DataGeneratorParameter(jax.random.PRNGKey(cfg["seed"] + 1), max(cfg["nt"], pbs) + 1, pbs, param_ranges={"c": (0.0, 0.5)}) if cfg.get("param_gen") else None
    og = None
    if cfg.get("obs_gen"):
        nin = {"ode": 1, "statio": 2, "nonstatio": 2}[kind]
        xs = jnp.linspace(0.0, 1.0, 11)[:, None] * jnp.ones((1, nin))
        og = jinns.data.DataGeneratorObservations(jax.random.PRNGKey(cfg["seed"] + 2), pbs, xs, 1.0 + xs[:, 0:1] ** 2)
    lr = cfg.get("lr", 2.0 ** -5)
    name = cfg["opt"]
    if name == "sgd":
        opt = optax.sgd(lr)
    elif name == "momentum":
        opt = optax.sgd(lr, momentum=0.5)
    elif name == "adam":
        opt = optax.adam(lr)
    elif name == "zn_adam":           # NaN gradients are replaced by zeros before the update: the parameters stay finite, training goes on
        opt = optax.chain(optax.zero_nans(), optax.adam(lr))
    else:
        opt = optax.chain(optax.clip(1.0), optax.scale_by_adam(), optax.scale_by_schedule(optax.piecewise_constant_schedule(-lr, {3: 0.5})))
    if inj and inj["origin"] == "state_only":
        # a NaN that lives in the optimizer state only (a bookkeeping leaf no update depends on): no parameter is ever NaN,
        # training must run to the end
        k0 = inj["k"]

        def init_s(params):
            return (jnp.zeros((), dtype=jnp.int32), jnp.zeros(()))

        def update_s(updates, state, params=None):
            cnt, junk = state
            return updates, (cnt + 1, jnp.where(cnt == k0, jnp.nan, junk))
        opt = optax.chain(opt, optax.GradientTransformation(init_s, update_s))
    if inj and inj["origin"] in ("update", "update_entry"):
        k = inj["k"]
        one_entry = inj["origin"] == "update_entry"       # NaN in a single entry of a multi-entry leaf, every other leaf finite

        def init_fn(params):
            return jnp.zeros((), dtype=jnp.int32)

        def update_fn(updates, state, params=None):
            bad = state == k
            if one_entry:
                return eqx.tree_at(lambda t: t.eq_params["v"], updates, updates.eq_params["v"].at[1].set(jnp.where(bad, jnp.nan, 0.0))), state + 1
            return jax.tree_util.tree_map(lambda x: jnp.where(bad, jnp.nan, x), updates), state + 1
        opt = optax.chain(opt, optax.GradientTransformation(init_fn, update_fn))
    tracked = Params(nn_params=None, eq_params=dict({"a": True, "b": None, "c": None, "v": None}, **({"cap": None} if infp else {}))) if cfg.get("track", True) else None
    validation = None
    v = cfg.get("validation")
    if v and v["type"] == "scripted":
        class Scripted(jinns.validation._validation.AbstractValidationModule):
            call_every: int = eqx.field(kw_only=True, static=True)
            stops: jax.Array = eqx.field(kw_only=True)
            flags: jax.Array = eqx.field(kw_only=True)
            count: jax.Array = eqx.field(kw_only=True)

            def __call__(self, params):
                k = self.count
                new = eqx.tree_at(lambda t: t.count, self, k + 1)
                return new, self.stops[k], params.eq_params["a"] + 100.0, self.flags[k]
        pad = cfg["n"] + 2
        validation = Scripted(call_every=v["every"], stops=jnp.array((v["stops"] + [False] * pad)[:pad]),
                              flags=jnp.array((v["flags"] + [False] * pad)[:pad]), count=jnp.array(0))
    elif v and v["type"] == "loss":
        sub = build(dict(cfg, validation=None, inject=None, seed=cfg["seed"] + 7, param_gen=bool(v.get("own_param_gen")), obs_gen=bool(v.get("own_obs_gen"))))
        gv, vp, vo = sub["g"], sub["pg"], sub["og"]
        if vo is not None and v.get("nan_obs"):
            # some validation observations are not numbers: the criterion of those invocations is NaN, which is no strict new minimum
            vals = vo.observed_values
            vo = jinns.data.DataGeneratorObservations(jax.random.PRNGKey(cfg["seed"] + 9), vo.obs_batch_size, vo.observed_pinn_in,
                                                      vals.at[::3].set(jnp.nan))
        if vo is not None and v.get("huge_obs"):
            # validation observations of size 1e20: finite criteria above 1e38 (the first one is still a strict new minimum)
            vo = jinns.data.DataGeneratorObservations(jax.random.PRNGKey(cfg["seed"] + 9), vo.obs_batch_size, vo.observed_pinn_in, vo.observed_values * 1e20)
        validation = jinns.validation.ValidationLoss(loss=L, validation_data=gv, validation_param_data=vp, validation_obs_data=vo, call_every=v["every"],
                                                     early_stopping=v["early"], patience=v["patience"])
    return dict(u=u, P=P, L=L, g=g, pg=pg, og=og, opt=opt, tracked=tracked, validation=validation)


def gv_batch(kind, gv):
    return gv.temporal_batch_size if kind == "ode" else gv.omega_batch_size


# --------------------------------------------------------------------------- reference loop
def tree_has_nan(t):
    jax, jnp, np, eqx, jinns = jx()
    return any(bool(np.isnan(np.asarray(x)).any()) for x in jax.tree_util.tree_leaves(t))


def reference(cfg, pb=None, start=None):
    """textbook loop over the real loss / optimizer / generators; stops at the first halt.
    start = (params, opt_state, data generator) of a resumed run"""
    jax, jnp, np, eqx, jinns = jx()
    import optax
    pb = pb or build(cfg)
    P, L, g, pg, og, opt, val = pb["P"], pb["L"], pb["g"], pb["pg"], pb["og"], pb["opt"], pb["validation"]
    n = cfg["n"]
    if start is not None:
        P, g = start[0], start[2]

    def draw(g, pg, og):
        g, b = g.get_batch()
        if pg is not None:
            pg, pbt = pg.get_batch(); b = jinns.data.append_param_batch(b, pbt)
        if og is not None:
            og, ob = og.get_batch(); b = jinns.data.append_obs_batch(b, ob)
        return g, pg, og, b
    st = opt.init(P) if start is None else start[1]
    from jinns.solver._rar import init_rar, trigger_rar
    g, rar_true, rar_false = init_rar(g)                # as solve does first (a no-op without refinement)
    g, pg, og, _ = draw(g, pg, og)                      # the batch drawn to shape the containers
    params, opts, gens = [P], [st], [g]
    losses, terms, crits, val_outcomes, val_losses = [], [], [], [], []
    best = 0
    early = False
    vstate = val
    vl_best, vl_counter = math.inf, 0
    executed = 0
    for i in range(n):
        if tree_has_nan(params[-1]) or early:
            break
        g, pg, og, b = draw(g, pg, og)
        (v, tm), gr = jax.value_and_grad(L, has_aux=True)(params[-1], b)
        up, st = opt.update(gr, st, params[-1])
        pn = optax.apply_updates(params[-1], up)
        if rar_true is not None:                        # refinement looks at the updated parameters and only touches the generator
            _, _, g = trigger_rar(i, L, pn, g, rar_true, rar_false)
        losses.append(float(v)); terms.append({k: float(x) for k, x in tm.items()})
        params.append(pn); opts.append(st); gens.append(g)
        executed += 1
        vcfg = cfg.get("validation")
        if vcfg:
            if i % vcfg["every"] == 0:
                if vcfg["type"] == "scripted":
                    k = len(val_outcomes)
                    stop = bool((vcfg["stops"] + [False] * (n + 2))[k]); flag = bool((vcfg["flags"] + [False] * (n + 2))[k])
                    crit = float(pn.eq_params["a"]) + 100.0
                else:
                    vd, vbatch = vstate.validation_data.get_batch()
                    if vstate.validation_param_data is not None:
                        vpd, vpb = vstate.validation_param_data.get_batch()
                        vbatch = jinns.data.append_param_batch(vbatch, vpb)
                        vstate = eqx.tree_at(lambda t: t.validation_param_data, vstate, vpd)
                    if vstate.validation_obs_data is not None:
                        vod, vob = vstate.validation_obs_data.get_batch()
                        vbatch = jinns.data.append_obs_batch(vbatch, vob)
                        vstate = eqx.tree_at(lambda t: t.validation_obs_data, vstate, vod)
                    vstate = eqx.tree_at(lambda t: t.validation_data, vstate, vd)
                    crit = float(L(pn, vbatch)[0])
                    val_losses.append(crit)
                    stop = bool(vcfg["early"]) and vl_counter == vcfg["patience"]
                    flag = crit < vl_best
                    if flag:
                        vl_best, vl_counter = crit, 0
                    else:
                        vl_counter += 1
                val_outcomes.append((stop, flag))
                early = stop
                if flag:
                    best = len(params) - 1
                crits.append((crit, len(params) - 1))
            else:
                early = False
                crits.append(crits[-1])
    nan_tab = [tree_has_nan(p) for p in params]
    # parameters held just before the failing update, or the current ones
    last = len(params) - 2 if nan_tab[-1] else len(params) - 1
    return dict(params=params, opts=opts, gens=gens, losses=losses, terms=terms, crits=crits, nan_tab=nan_tab, last=last,
                executed=executed, val_outcomes=val_outcomes, val_losses=val_losses, best=best)


# --------------------------------------------------------------------------- solve and tokens
def run_solve(cfg, pb=None, start=None):
    jax, jnp, np, eqx, jinns = jx()
    pb = pb or build(cfg)
    P, st, g = (pb["P"], None, pb["g"]) if start is None else start
    kw = {}
    if cfg.get("sharding") and pb["og"] is not None:
        # the optional obs_batch_sharding argument routes training through the non-compiled loop: same textbook loop
        kw["obs_batch_sharding"] = jax.sharding.SingleDeviceSharding(jax.devices()[0])
    return jinns.solve(n_iter=cfg["n"], init_params=P, data=g, loss=pb["L"], optimizer=pb["opt"], opt_state=st,
                       param_data=pb["pg"], obs_data=pb["og"], tracked_params=pb["tracked"], validation=pb["validation"], verbose=False, **kw)


def close(a, b):
    if isinstance(a, float) and isinstance(b, float):
        if math.isnan(a) or math.isnan(b):
            return math.isnan(a) and math.isnan(b)
        return abs(a - b) <= 1e-9 * (1.0 + abs(b))
    return a == b


def tree_close(a, b):
    jax, jnp, np, eqx, jinns = jx()
    la, lb = jax.tree_util.tree_leaves(a), jax.tree_util.tree_leaves(b)
    if len(la) != len(lb):
        return False
    return all(np.asarray(x).shape == np.asarray(y).shape and np.allclose(np.asarray(x), np.asarray(y), rtol=1e-9, atol=1e-12, equal_nan=True) for x, y in zip(la, lb))


def gen_close(a, b):
    jax, jnp, np, eqx, jinns = jx()
    la = jax.tree_util.tree_leaves(a); lb = jax.tree_util.tree_leaves(b)
    return len(la) == len(lb) and all(np.array_equal(np.asarray(x), np.asarray(y)) for x, y in zip(la, lb))


def version_of(x, xs, eq, hint=None):
    """index of the reference record x equals; when several records are equal (e.g. a stateless
    optimizer state) the hinted one is preferred"""
    hits = [j for j, y in enumerate(xs) if eq(x, y)]
    if hint is not None and hint in hits:
        return hint
    return hits[0] if hits else 997


def tokens(cfg, ref, out):
    """what jinns.solve returned, in the tokens of the Coq runner"""
    jax, jnp, np, eqx, jinns = jx()
    n = cfg["n"]
    hl = [float(x) for x in np.asarray(out[1])]
    o_hl = [(0, 0) if x == 0.0 else (lambda j: (j, j + 1) if j != 997 else (997, 997))(version_of(x, ref["losses"], close)) for x in hl]
    keys = sorted(out[2].keys())
    o_ht = []
    for j in range(n):
        vals = {k: float(np.asarray(out[2][k])[j]) for k in keys}
        if all(v == 0.0 for v in vals.values()):
            o_ht.append((0, 0))
        else:
            jj = version_of(vals, ref["terms"], lambda a, b: set(a) == set(b) and all(close(a[k], b[k]) for k in a))
            o_ht.append((jj, jj + 1) if jj != 997 else (997, 997))
    o_htr = []
    if cfg.get("track", True):
        tr = [float(x) for x in np.asarray(out[6].eq_params["a"])]
        avals = [float(p.eq_params["a"]) for p in ref["params"]]
        for x in tr:
            o_htr.append(0 if x == 0.0 else version_of(x, avals, close))
    else:
        o_htr = None
    o_last = version_of(out[0], ref["params"], tree_close)
    o_opt = version_of(out[5], ref["opts"], tree_close, hint=ref["executed"])
    o_data = version_of(out[3], ref["gens"], gen_close, hint=ref["executed"])
    # generator version d = number of draws - 1 (gens[0] is after the initial draw)
    o_data = o_data + 1 if o_data != 997 else 997
    o_hc, o_best = [], 0
    if cfg.get("validation"):
        cv = [float(x) for x in np.asarray(out[7])]
        avals = [float(p.eq_params["a"]) + 100.0 for p in ref["params"]] if cfg["validation"]["type"] == "scripted" else None
        for pos, x in enumerate(cv):
            if x == 0.0:
                o_hc.append(0)
            elif avals is not None:
                o_hc.append(version_of(x, avals, close))
            else:
                # map the criterion to the parameter version it was computed at
                # (equal values -- several NaN criteria, a plateau -- are told apart by their position in the history)
                t = version_of(x, [c for c, _ in ref["crits"]], close, hint=pos)
                o_hc.append(ref["crits"][t][1] if t != 997 else 997)
        o_best = version_of(out[8], ref["params"], tree_close)
    return dict(o_last=o_last, o_opt=o_opt, o_data=o_data, o_best=o_best, o_hl=o_hl, o_ht=o_ht, o_htr=o_htr, o_hc=o_hc)


def expected_tokens(cfg, ref):
    """the textbook result (what the reference loop says solve must return), as tokens"""
    n, m = cfg["n"], ref["executed"]
    e = dict(o_last=ref["last"], o_opt=m, o_data=m + 1, o_best=ref["best"],
             o_hl=[(j, j + 1) for j in range(m)] + [(0, 0)] * (n - m), o_ht=[(j, j + 1) for j in range(m)] + [(0, 0)] * (n - m),
             o_htr=([j + 1 for j in range(m)] + [0] * (n - m)) if cfg.get("track", True) else None, o_hc=[])
    if cfg.get("validation"):
        e["o_hc"] = [v for _, v in ref["crits"]] + [0] * (n - m)
    return e


def case_term(cid, cfg, ref, tok):
    v = cfg.get("validation")
    use_vl = bool(v and v["type"] == "loss")
    vt = clist(ref["val_outcomes"] if (v and not use_vl) else [], lambda p: f"({cbool(p[0])}, {cbool(p[1])})")
    q = lambda x: (lambda fr: f"({fr.numerator} # {fr.denominator})%Q")(Fraction(x))
    pairs = lambda l: clist(l, lambda p: f"({cnat(p[0])}, {cnat(p[1])})")
    htr = f"(Some {clist(tok['o_htr'], cnat)})" if tok["o_htr"] is not None else "None"
    return (f"mkcase {cnat(cid)} {cnat(cfg['n'])} {clist(ref['nan_tab'] + [False] * (cfg['n'] + 2), cbool)} {cbool(bool(v))} {cz(v['every'] if v else 1)} "
            f"{vt} {clist(ref['val_losses'] if use_vl else [], q)} {cz(v['patience'] if use_vl else 0)} {cbool(v['early'] if use_vl else False)} {cbool(use_vl)} "
            f"{cnat(tok['o_last'])} {cnat(tok['o_opt'])} {cnat(tok['o_data'])} {cnat(tok['o_best'])} {pairs(tok['o_hl'])} {pairs(tok['o_ht'])} "
            f"{htr} {clist(tok['o_hc'], cnat)}")


def compare(cfg, ref, tok):
    """direct oracle: solve's result against the textbook loop"""
    exp = expected_tokens(cfg, ref)
    fails = []
    names = dict(o_last="returned parameters", o_opt="optimizer state", o_data="returned data generator", o_hl="loss history",
                 o_ht="loss-term histories", o_htr="tracked-parameter history", o_hc="validation criterion history", o_best="best validation parameters")
    for k in names:
        if k in ("o_hc", "o_best") and not cfg.get("validation"):
            continue
        if k == "o_htr" and exp[k] is None:
            continue
        if tok[k] != exp[k]:
            fails.append(f"{names[k]}: solve gives {tok[k]}, the textbook loop {exp[k]} (versions = number of updates / draws; (p, b) = loss at parameter version p on batch b)")
    return fails


def run_case(cfg):
    """cfg["resume"] = n1: the run under test is a second solve() started from what a first
    solve(n1) returned (parameters, optimizer state, data generator)"""
    start = None
    if cfg.get("resume"):
        first = run_solve(dict(cfg, n=cfg["resume"], validation=None, inject=None), None)
        start = (first[0], first[5], first[3])
    pb = build(cfg)
    ref = reference(cfg, pb, start)
    out = run_solve(cfg, build(cfg), start)
    tok = tokens(cfg, ref, out)
    return ref, tok, compare(cfg, ref, tok)


def base_cfg(rng, kind=None, n=None):
    kind = kind or rng.choice(KINDS)
    bs = rng.choice([2, 3])
    return dict(kind=kind, n=n if n is not None else rng.randint(1, 9), nt=rng.choice([bs * 2, bs * 2 + 1, 7]), bs=bs, opt=rng.choice(OPTS),
                seed=rng.randrange(1 << 20), param_gen=rng.random() < 0.4, obs_gen=(rng.random() < 0.4), track=rng.random() < 0.8,
                rar=(kind == "ode" and rng.random() < 0.5), inf_param=rng.random() < 0.25)
