"""C10 harness: networks made by create_PINN / create_SPINN / create_HYPERPINN (linear layers,
identity and square activations), weights exported exactly, against the forward passes of
Model/M_nets.v (relative tolerance 2^-30)."""
import random
from common import jx, cq, cnat, cbool, clist, write_cases, default_matches_known
from lossbuild import dy
matches_known = default_matches_known


def export_layers(mlp_params, static_layers):
    """Linear layers -> Some (W, b); anything else (the square activation) -> None"""
    jax, jnp, np, eqx, jinns = jx()
    out = []
    for lp, ls in zip(mlp_params, static_layers):
        if hasattr(lp, "weight") and lp.weight is not None:
            out.append((np.asarray(lp.weight).tolist(), np.asarray(lp.bias).tolist()))
        else:
            out.append(None)
    return out


def clay(l):
    if l is None:
        return "None"
    W, b = l
    return f"(Some ({clist(W, lambda r: clist(r, cq))}, {clist(b, cq)}))"


def square(x):
    return x * x


def pinn_case(rng, cid):
    jax, jnp, np, eqx, jinns = jx()
    from jinns.parameters import Params
    eq_type = rng.choice(["ODE", "statio_PDE", "nonstatio_PDE"])
    dim_x = 0 if eq_type == "ODE" else rng.choice([1, 2])
    nin = {"ODE": 1, "statio_PDE": dim_x, "nonstatio_PDE": dim_x + 1}[eq_type]
    h, nout = rng.randint(2, 3), rng.randint(1, 3)
    forced = cid < 6                                  # the first cases always use integer indices, index 0 among them
    if forced:
        nout = max(nout, 2)
    eqx_list = ((eqx.nn.Linear, nin, h), (square,), (eqx.nn.Linear, h, nout))
    use_tin, use_tout = rng.random() < 0.5, rng.random() < 0.5
    shared = None
    kw = {}
    if use_tin:
        kw["input_transform"] = lambda i, p: i * p.eq_params["a"]
    if use_tout:
        kw["output_transform"] = lambda i, o, p: o + p.eq_params["a"] * i[0]
    osl = None
    int_index = False
    if nout >= 2 and (forced or rng.random() < 0.6):
        def one_slice():
            if forced:
                j = [0, nout - 1, 0, 1, 0, 0][(cid + len(specs)) % 6]
                return (j, j + 1), j, True
            if rng.random() < 0.5:                       # an integer index (0 included, negative ones counted from the end) selects one component
                j = rng.randrange(-nout, nout)
                return (j % nout, j % nout + 1), j, True
            lo = rng.randrange(nout - 1); hi = rng.randint(lo + 1, nout)
            return (lo, hi), jnp.s_[lo:hi], False
        specs = []
        specs.append(one_slice()); specs.append(one_slice())
        which = rng.randrange(2)
        osl, int_index = specs[which][0], specs[which][2]
        kw["shared_pinn_outputs"] = (specs[0][1], specs[1][1])
    net_key = jax.random.PRNGKey(rng.randrange(1 << 30))
    u = jinns.utils.create_PINN(net_key, eqx_list, eq_type, dim_x, **kw)
    coupled = None
    if isinstance(u, list):
        u = u[which]
        # the same network (same key) behind an output transform that couples the components (a running sum): the transform
        # acts on ALL outputs of the network, the shared-output selection comes last
        coupled = jinns.utils.create_PINN(net_key, eqx_list, eq_type, dim_x, shared_pinn_outputs=kw["shared_pinn_outputs"],
                                          output_transform=lambda i, o, p: jnp.cumsum(o) * p.eq_params["a"])[which]
        plain = jinns.utils.create_PINN(net_key, eqx_list, eq_type, dim_x)
    a = dy(rng, 1, 3)
    nnp = u.init_params()
    P = Params(nn_params=nnp, eq_params={"a": jnp.array(a)})
    inputs = [dy(rng) for _ in range(nin)]
    bare = (not use_tin) and (not use_tout) and rng.random() < 0.5
    arg = nnp if bare else P
    scalar_time = eq_type == "ODE" and rng.random() < 0.5
    if eq_type == "ODE":
        out = u(jnp.array(inputs[0]) if scalar_time else jnp.array(inputs), arg)
    elif eq_type == "statio_PDE":
        out = u(jnp.array(inputs), arg)
    else:
        out = u(jnp.array(inputs[:1]), jnp.array(inputs[1:]), arg)
    fails = []
    if coupled is not None:
        call = (lambda net, prm: net(jnp.array(inputs), prm)) if eq_type != "nonstatio_PDE" else (lambda net, prm: net(jnp.array(inputs[:1]), jnp.array(inputs[1:]), prm))
        Pc = Params(nn_params=coupled.init_params(), eq_params={"a": jnp.array(a)})
        Pp = Params(nn_params=plain.init_params(), eq_params={"a": jnp.array(a)})
        got = np.asarray(call(coupled, Pc)).ravel()
        want = (np.cumsum(np.asarray(call(plain, Pp)).ravel()) * a)[osl[0]:osl[1]]
        if got.shape != want.shape or not np.allclose(got, want, rtol=1e-12, atol=1e-12):
            fails.append(f"shared outputs {osl} behind a transform that couples the components (running sum of all outputs, times a): the wrapper returned {got.tolist()}, transform-then-select gives {want.tolist()}")
    if out.ndim < 1:
        fails.append("the wrapper returned a 0-d array (no trailing component axis)")
    want_shape = ((osl[1] - osl[0]) if osl else nout,)
    if tuple(out.shape) != want_shape:
        fails.append(f"the wrapper returned shape {tuple(out.shape)}, its output slice has {want_shape[0]} component(s)")
    layers = export_layers(nnp.layers, u.static.layers)
    sl = f"(Some ({cnat(osl[0])}, {cnat(osl[1])}))" if osl else "None"
    term = f"Pinn {cnat(cid)} {clist(layers, clay)} {cq(a)} {cbool(use_tin)} {cbool(use_tout)} {sl} {clist(inputs, cq)} {clist(np.asarray(out).ravel().tolist(), cq)}"
    meta = dict(what="pinn", eq_type=eq_type, dim_x=dim_x, h=h, nout=nout, use_tin=use_tin, use_tout=use_tout, oslice=osl, integer_index=int_index, bare=bare, scalar_time=scalar_time)
    return term, meta, fails


def spinn_case(rng, cid):
    jax, jnp, np, eqx, jinns = jx()
    from jinns.parameters import Params
    eq_type = rng.choice(["statio_PDE", "nonstatio_PDE"])
    d = rng.randint(1, 3) if eq_type == "statio_PDE" else rng.randint(2, 3)
    r, m, h = rng.randint(1, 3), rng.randint(1, 2), 2
    eqx_list = ((eqx.nn.Linear, 1, h), (square,), (eqx.nn.Linear, h, r * m))
    u = jinns.utils.create_SPINN(jax.random.PRNGKey(rng.randrange(1 << 30)), d, r, eqx_list, eq_type, m)
    B = rng.randint(1, 3)
    coords = [[dy(rng) for _ in range(B)] for _ in range(d)]          # per dimension: the B coordinates
    arr = jnp.array(coords).T                                          # (B, d)
    # the network is evaluated with the parameters it is GIVEN (here: the initial ones scaled), wrapped or bare
    nnp = jax.tree_util.tree_map(lambda w: w * 1.5, u.init_params())
    bare = rng.random() < 0.5
    P = nnp if bare else Params(nn_params=nnp, eq_params={})
    out = u(arr, P) if eq_type == "statio_PDE" else u(arr[:, 0:1], arr[:, 1:], P)
    out = np.asarray(out)
    fails = []
    if out.shape != tuple([B] * d) + (m,):
        fails.append(f"separable network output has shape {out.shape}, expected {tuple([B] * d) + (m,)}")
    nets = [export_layers(nnp.separated_mlp[k], u.static.separated_mlp[k]) for k in range(d)]
    idxs = [[rng.randrange(B) for _ in range(d)] for _ in range(4)]
    obs = [out[tuple(ix)].tolist() for ix in idxs]
    term = (f"Spinn {cnat(cid)} {cnat(r)} {cnat(m)} {clist(nets, lambda n: clist(n, clay))} {clist(coords, lambda c: clist(c, cq))} "
            f"{clist(idxs, lambda ix: clist(ix, cnat))} {clist(obs, lambda o: clist(o, cq))}")
    return term, dict(what="spinn", eq_type=eq_type, d=d, r=r, m=m, B=B, bare=bare), fails


def hyper_case(rng, cid):
    jax, jnp, np, eqx, jinns = jx()
    from jinns.parameters import Params
    eq_type = rng.choice(["ODE", "statio_PDE"])
    dim_x = 0 if eq_type == "ODE" else 2
    nin = 1 if eq_type == "ODE" else 2
    h, nout = 2, rng.randint(1, 2)
    with_act = rng.random() < 0.6
    eqx_list = ((eqx.nn.Linear, nin, h),) + (((square,),) if with_act else ()) + ((eqx.nn.Linear, h, nout),)
    eqx_list_hyper = ((eqx.nn.Linear, 2, 3), (square,), (eqx.nn.Linear, 3, 1))
    use_tin, use_tout = rng.random() < 0.6, rng.random() < 0.6
    kw = {}
    if use_tin:
        kw["input_transform"] = lambda i, p: i * p.eq_params["a"]
    if use_tout:
        kw["output_transform"] = lambda i, o, p: o + p.eq_params["a"] * i[0]
    # the designated parameters feed the hyper-network in the DECLARED order, whatever the order of the parameter dictionary
    hyper_order = rng.choice([["a", "b"], ["b", "a"]])
    matrices = rng.random() < 0.35        # designated parameters that are 2x2 matrices: each one is flattened on its own, then they are joined
    if matrices:
        hyper_order = rng.choice([["m1", "m2"], ["m2", "m1"]])
        eqx_list_hyper = ((eqx.nn.Linear, 8, 3), (square,), (eqx.nn.Linear, 3, 1))
    osl = None
    if nout == 2 and rng.random() < 0.6:             # two networks sharing the outputs of one hyper-network-driven network
        def one():
            if rng.random() < 0.6:
                j = rng.randrange(-nout, nout)
                return (j % nout, j % nout + 1), j
            lo = rng.randrange(nout - 1); hi = rng.randint(lo + 1, nout)
            return (lo, hi), jnp.s_[lo:hi]
        specs = [one(), one()]
        which = rng.randrange(2)
        osl = specs[which][0]
        kw["shared_pinn_outputs"] = (specs[0][1], specs[1][1])
    u = jinns.utils.create_HYPERPINN(jax.random.PRNGKey(rng.randrange(1 << 30)), eqx_list, eq_type, hyperparams=hyper_order, hypernet_input_size=8 if matrices else 2,
                                     dim_x=dim_x, eqx_list_hyper=eqx_list_hyper, **kw)
    if isinstance(u, list):
        u = u[which]
    eqp = [dy(rng, 1, 3), dy(rng)]
    eqd = {"a": jnp.array(eqp[0]), "b": jnp.array(eqp[1])}
    mats = {}
    if matrices:
        mats = {k: [[dy(rng), dy(rng)], [dy(rng), dy(rng)]] for k in ("m1", "m2")}
        eqd.update({k: jnp.array(v) for k, v in mats.items()})
    if rng.random() < 0.5:
        eqd = dict(reversed(list(eqd.items())))
    P = Params(nn_params=u.init_params(), eq_params=eqd)
    inputs = [dy(rng) for _ in range(nin)]
    use_jit = rng.random() < 0.5          # under jit the dictionary is rebuilt in sorted key order
    out = (jax.jit(lambda i, p: u(i, p)) if use_jit else u)(jnp.array(inputs), P)
    hyper_in = [eqp[0], eqp[1]] if hyper_order == ["a", "b"] else [eqp[1], eqp[0]]
    if matrices:
        hyper_in = [x for k in hyper_order for row in mats[k] for x in row]
    hl = export_layers(u.init_params().layers, u.static_hyper.layers)
    shapes = [(h, nin), (nout, h)]
    acts = [with_act, False]
    sl = f"(Some ({cnat(osl[0])}, {cnat(osl[1])}))" if osl else "None"
    term = (f"Hyper {cnat(cid)} {clist(hl, clay)} {clist(hyper_in, cq)} {cq(eqp[0])} {clist(shapes, lambda s: f'({cnat(s[0])}, {cnat(s[1])})')} {clist(acts, cbool)} {cbool(use_tin)} {cbool(use_tout)} "
            f"{sl} {clist(inputs, cq)} {clist(np.asarray(out).ravel().tolist(), cq)}")
    fails = []
    want_shape = ((osl[1] - osl[0]) if osl else nout,)
    if tuple(out.shape) != want_shape:
        fails.append(f"the hyper-network wrapper returned shape {tuple(out.shape)}, its output slice has {want_shape[0]} component(s)")
    return term, dict(what="hyper", eq_type=eq_type, nout=nout, with_act=with_act, use_tin=use_tin, use_tout=use_tout, hyperparams=hyper_order, jit=use_jit, oslice=osl, matrices=matrices), fails


def generate(tier, seed, casedir, variant):
    rng = random.Random(seed)
    cases, meta, viol, samples, dist = [], {}, [], [], {}
    N = 12 if tier == "quick" else 80
    cid = 0
    for mk_case in (pinn_case, spinn_case, hyper_case):
        for _ in range(2 * N if mk_case is pinn_case else N):
            try:
                term, m, fails = mk_case(rng, cid)
            except Exception as ex:
                viol.append({"detail": f"{mk_case.__name__} raised {type(ex).__name__}: {str(ex)[:200]}", "case": {"what": mk_case.__name__}})
                continue
            cases.append(term); meta[cid] = m
            for f in fails:
                viol.append({"detail": f, "case": m})
            dist[m["what"]] = dist.get(m["what"], 0) + 1
            for k in ("bare", "scalar_time", "use_tin", "use_tout"):
                if m.get(k):
                    dist[k] = dist.get(k, 0) + 1
            if len(samples) < 3 and not any(s["what"] == m["what"] for s in samples):
                samples.append(m)
            cid += 1
    write_cases(casedir, "C10", "R_C10", variant, cases, chunk=60)
    return dict(meta=meta, oracle_violations=viol, evaluations=len(cases), distinct_nontrivial=len(cases), samples=samples, distribution=dist,
                rule="random architectures: create_PINN (ODE / stationary / non-stationary, input / output transforms reading an equation parameter, shared outputs given as slices or integer indices (0 and negative ones included; either of the two networks is evaluated; also behind a transform coupling all outputs, oracle only), bare network parameters, scalar or (1,) time), create_SPINN (d = 1..3, embedding size 1..3, 1..2 outputs, 1..3 batch points, four grid indices each), create_HYPERPINN (two designated parameters, scalars or 2x2 matrices, shared outputs, inner network with or without activation, input / output transforms reading the inputs and an equation parameter); weights exported as exact rationals; every case is non-trivial and distinct (fresh random weights)",
                oracle_checks=len(cases))


def replay(rep, casedir, variant):
    return generate("quick", rep.get("seed", 0), casedir, variant)
