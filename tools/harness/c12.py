"""C12 harness: single losses evaluated with a parameter batch over every subset of the keys
a, b, c, with observed parameters and with heterogeneity maps.  Network U(p; b) = P(p) + b,
residual a * U + c + q(p)."""
import itertools, random
from common import jx, cq, cnat, clist, write_cases, default_matches_known
from lossbuild import dy, poly_jax, nvars, cpoly
from poly import mk, prand
matches_known = default_matches_known
KEYS = ["a", "b", "c"]


def gen(rng, kind, subset, obs_subset, hetero):
    nv = nvars(kind, 1)
    n = rng.randint(1, 4)
    cfg = dict(kind=kind, P=prand(rng, nv, 2, 3) or {(0,) * nv: 1}, q=prand(rng, nv, 2, 2) or {(0,) * nv: 1},
               plain=[dy(rng, 1, 3), dy(rng), dy(rng)], pts=[[dy(rng) for _ in range(nv)] for _ in range(n)], w=rng.randint(1, 4) / 2,
               batched={k: [dy(rng) for _ in range(n)] for k in subset}, hetero=(prand(rng, nv, 1, 2) or {(0,) * nv: 1}) if hetero else None)
    cfg["rev_batch_keys"] = rng.random() < 0.5
    cfg["flat_keys"] = [k for k in subset if rng.random() < 0.35]
    cfg["tmax"] = rng.choice([1.0, 2.0, 0.5, 3.0])        # the equations here ignore Tmax; a heterogeneous parameter is a function of the point the equation receives
    cfg["own_kind"] = {k: rng.choice(["float", "float", "pyint", "intarray"]) for k in KEYS}
    for j, k in enumerate(KEYS):
        if cfg["own_kind"][k] != "float":
            cfg["plain"][j] = float(rng.randint(1, 3))
    cfg["hetero2"] = (prand(rng, nv, 1, 2) or {(0,) * nv: 1}) if (hetero and rng.random() < 0.7) else None      # c := h2(p) * a + c (reads the caller's a)
    if rng.random() < 0.7 or obs_subset:
        cfg["obs"] = dict(inputs=[[dy(rng) for _ in range(nv)] for _ in range(n)], vals=[float(rng.randint(-2, 2)) for _ in range(n)], w=rng.randint(1, 4) / 2,
                          eq={k: [dy(rng) for _ in range(n)] for k in obs_subset})
    if kind == "ode" and rng.random() < 0.7:
        cfg["ic"] = dict(t0=dy(rng), u0=float(rng.randint(-2, 2)), w=rng.randint(1, 4) / 2)
    return cfg


def build(cfg):
    """(network, parameters, loss, batch, heterogeneity map) of one configuration"""
    jax, jnp, np, eqx, jinns = jx()
    from jinns.parameters import Params
    from jinns.data._Batchs import ODEBatch, PDEStatioBatch
    kind = cfg["kind"]
    u = mk([cfg["P"]], "ODE" if kind == "ode" else "statio_PDE", output_transform=lambda i, o, p: o + p.eq_params["b"])
    # the caller's own value of a key that the batch / the observations override may be of any type (a Python
    # int placeholder, an integer array, a float array): sample i must still see row i unchanged
    def own(k, v):
        kind = (cfg.get("own_kind") or {}).get(k, "float")
        overridden = k in cfg["batched"] or k in ((cfg.get("obs") or {}).get("eq") or {})
        if not overridden or kind == "float" or v != round(v):       # (terms that do not override the key still read this value: it is integral then)
            return jnp.array(v)
        return int(round(v)) if kind == "pyint" else jnp.array(int(round(v)))
    P = Params(nn_params=u.init_params(), eq_params={k: own(k, v) for k, v in zip(KEYS, cfg["plain"])})
    q, hp, hp2 = cfg["q"], cfg["hetero"], cfg.get("hetero2")
    col = lambda rows: jnp.array(rows)[:, None]
    order = list(cfg["batched"].items())
    if cfg.get("rev_batch_keys"):
        order = order[::-1]                      # the batch dictionary written in any key order, built directly (no helper sorts it)
    flat = set(cfg.get("flat_keys") or [])        # a hand-built parameter batch may give one number per sample as a 1-D array
    pb = {k: (jnp.array(v) if k in flat else col(v)) for k, v in order} or None
    ob = None
    if cfg.get("obs"):
        oeq = list(cfg["obs"]["eq"].items())
        if cfg.get("rev_batch_keys"):
            oeq = oeq[::-1]
        ob = {"pinn_in": jnp.array(cfg["obs"]["inputs"]), "val": jnp.array(cfg["obs"]["vals"])[:, None], "eq_params": {k: col(v) for k, v in oeq}}
    het = None
    if kind == "ode":
        if hp:
            het = {"a": (lambda t, u, params: poly_jax(hp, jnp.atleast_1d(t)) * params.eq_params["a"]),
                   "c": (lambda t, u, params: poly_jax(hp2, jnp.atleast_1d(t)) * params.eq_params["a"] + params.eq_params["c"]) if hp2 else None}

        class Eq(jinns.loss.ODE):
            def equation(self, t, u, params):
                return params.eq_params["a"] * u(t, params) + params.eq_params["c"] + poly_jax(q, jnp.atleast_1d(t))
        kw = {}
        if cfg.get("ic"):
            kw["initial_condition"] = (cfg["ic"]["t0"], jnp.array([cfg["ic"]["u0"]]))
        lw = jinns.loss.LossWeightsODE(dyn_loss=cfg["w"], initial_condition=(cfg.get("ic") or {}).get("w", 1.0), observations=(cfg.get("obs") or {}).get("w", 1.0))
        L = jinns.loss.LossODE(u=u, dynamic_loss=Eq(Tmax=cfg.get("tmax", 1.0), eq_params_heterogeneity=het), params=P, loss_weights=lw, **kw)
        batch = ODEBatch(temporal_batch=jnp.array(cfg["pts"])[:, 0], param_batch_dict=pb, obs_batch_dict=ob)
    else:
        if hp:
            het = {"a": (lambda x, u, params: poly_jax(hp, x) * params.eq_params["a"])}
            if hp2:
                het["c"] = lambda x, u, params: poly_jax(hp2, x) * params.eq_params["a"] + params.eq_params["c"]

        class Eq(jinns.loss.PDEStatio):
            def equation(self, x, u, params):
                return params.eq_params["a"] * u(x, params) + params.eq_params["c"] + poly_jax(q, x)
        lw = jinns.loss.LossWeightsPDEStatio(dyn_loss=cfg["w"], observations=(cfg.get("obs") or {}).get("w", 1.0))
        L = jinns.loss.LossPDEStatio(u=u, dynamic_loss=Eq(eq_params_heterogeneity=het), params=P, loss_weights=lw)
        batch = PDEStatioBatch(inside_batch=jnp.array(cfg["pts"]), border_batch=None, param_batch_dict=pb, obs_batch_dict=ob)
    return u, P, L, batch, het


def evaluate(cfg):
    jax, jnp, np, eqx, jinns = jx()
    kind = cfg["kind"]
    u, P, L, batch, het = build(cfg)
    snapshot = jax.tree_util.tree_map(lambda x: np.asarray(x).copy(), P)
    tot, terms = L.evaluate(P, batch)
    if het:
        # the public DynamicLoss.evaluate called directly (no vmap in between) must not touch the caller's parameters either
        pt0 = jnp.array(cfg["pts"][0])
        L.dynamic_loss.evaluate(*((pt0[0],) if kind == "ode" else (pt0,)), u, P)
    unchanged = all(np.array_equal(np.asarray(a), b) for a, b in zip(jax.tree_util.tree_leaves(P), jax.tree_util.tree_leaves(snapshot)))
    return {k: float(v) for k, v in terms.items()}, unchanged


def case_term(cid, cfg, terms):
    R = lambda m: clist(m, lambda r: clist(r, cq))
    bd = lambda d: clist(sorted(d.items()), lambda kv: f"({cnat(KEYS.index(kv[0]))}, {clist(kv[1], cq)})")
    ic = f"(Some ({clist([cfg['ic']['t0']], cq)}, {cq(cfg['ic']['u0'])}, {cq(cfg['ic']['w'])}))" if cfg.get("ic") else "None"
    o = cfg.get("obs")
    return (f"mkcase {cnat(cid)} {cnat(nvars(cfg['kind'], 1))} {cpoly(cfg['P'])} {cpoly(cfg['q'])} {('(Some ' + cpoly(cfg['hetero']) + ')') if cfg['hetero'] else 'None'} {('(Some ' + cpoly(cfg['hetero2']) + ')') if cfg.get('hetero2') else 'None'} "
            f"{clist(cfg['plain'], cq)} {bd(cfg['batched'])} {bd(o['eq']) if o else '[]'} {R(cfg['pts'])} {cq(cfg['w'])} {ic} "
            f"{R(o['inputs']) if o else '[]'} {clist(o['vals'], cq) if o else '[]'} {cq(o['w']) if o else cq(1)} "
            f"{cq(terms['dyn_loss'])} {cq(terms.get('initial_condition', 0.0))} {cq(terms['observations'])}")


def jsonable(c):
    pj = lambda p: [[list(k), v] for k, v in sorted(p.items())]
    return dict(c, P=pj(c["P"]), q=pj(c["q"]), hetero=pj(c["hetero"]) if c["hetero"] else None, hetero2=pj(c["hetero2"]) if c.get("hetero2") else None)


def unjson(c):
    pu = lambda p: {tuple(k): v for k, v in p}
    return dict(c, P=pu(c["P"]), q=pu(c["q"]), hetero=pu(c["hetero"]) if c["hetero"] else None, hetero2=pu(c["hetero2"]) if c.get("hetero2") else None)


def subsets():
    return [list(s) for r in range(4) for s in itertools.combinations(KEYS, r)]


def generate(tier, seed, casedir, variant):
    rng = random.Random(seed)
    cases, meta, viol, samples, dist = [], {}, [], [], {}
    nontrivial = set()
    reps = 1 if tier == "quick" else 6
    cid = 0
    for _ in range(reps):
        for kind in ("ode", "statio"):
            for sub in subsets():
                for obs_sub in ([], ["b"], ["a", "b"]) if tier == "thorough" else ([], rng.choice([["b"], ["a"], ["b", "c"]])):
                    cfg = gen(rng, kind, sub, obs_sub, hetero=rng.random() < 0.5)
                    try:
                        terms, unchanged = evaluate(cfg)
                    except Exception as ex:
                        viol.append({"detail": f"evaluate raised {type(ex).__name__}: {str(ex)[:200]}", "case": jsonable(cfg)})
                        continue
                    if not unchanged:
                        viol.append({"detail": "the caller's parameters were modified by evaluate", "case": jsonable(cfg)})
                    cases.append(case_term(cid, cfg, terms)); meta[cid] = jsonable(cfg)
                    k = f"{kind}_batched={'+'.join(sub) or 'none'}"
                    dist[k] = dist.get(k, 0) + 1
                    if cfg["hetero"]:
                        dist["heterogeneous_a"] = dist.get("heterogeneous_a", 0) + 1
                    if cfg.get("hetero2"):
                        dist["heterogeneous_c_reading_a"] = dist.get("heterogeneous_c_reading_a", 0) + 1
                    if obs_sub:
                        dist["observed_params"] = dist.get("observed_params", 0) + 1
                    if sub and len(cfg["pts"]) > 1:
                        nontrivial.add((kind, tuple(sub), tuple(obs_sub), bool(cfg["hetero"]), cid))
                    if len(samples) < 2 and sub == ["a", "b"]:
                        samples.append(dict(jsonable(cfg), returned=terms))
                    cid += 1
    # per-sample parameters in the non-stationary normalisation term: batch time i goes with parameter row i (oracle only)
    import c05
    try:
        viol += c05.norm_param_batch_oracle(rng, 8 if tier == "quick" else 40)
    except Exception as ex:
        viol.append({"detail": f"normalisation term under a parameter batch raised {type(ex).__name__}: {str(ex)[:300]}", "case": {"what": "norm_param_batch"}})
    write_cases(casedir, "C12", "R_C12", variant, cases, chunk=100)
    return dict(meta=meta, oracle_violations=viol, evaluations=len(cases), distinct_nontrivial=len(nontrivial), samples=samples, distribution=dist,
                rule="every subset of the equation parameters {a, b, c} as batched keys x observed-parameter subsets, for the ODE and the stationary loss (network reads b, equation reads a and c), with and without heterogeneity maps (a := h(p) a; c := h2(p) a + c, reading the caller's a; the equation's evaluate is also called directly), batches of 1..4 points; dynamic, initial-condition and observation terms compared; the caller's parameters must be left unchanged; the caller's own value of an overridden key is a float array, a Python int or an integer array; plus the non-stationary normalisation term under a parameter batch against its definition (oracle only); non-trivial = at least one batched key and more than one sample",
                oracle_checks=len(cases))


def replay(rep, casedir, variant):
    if rep["case"].get("what") == "norm_param_batch":
        return generate("quick", rep.get("seed", 0), casedir, variant)
    cfg = unjson(rep["case"])
    terms, unchanged = evaluate(cfg)
    viol = [] if unchanged else [{"detail": "the caller's parameters were modified by evaluate", "case": rep["case"]}]
    write_cases(casedir, "C12", "R_C12", variant, [case_term(0, cfg, terms)])
    return dict(meta={0: rep["case"]}, oracle_violations=viol, evaluations=1, distinct_nontrivial=1, rule="replay", samples=[rep["case"]])
