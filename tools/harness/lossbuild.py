"""Builder of single losses (ODE / stationary / non-stationary) whose every part is a
polynomial with integer coefficients, plus hand-built batches; used by C03, C04, C05, C06, C12, C20."""
import random
from common import jx, cq, cnat, cbool, clist
from poly import mk, prand, padd, pmul, peval

KINDS = ["ode", "statio", "nonstatio"]


def dy(rng, lo=-3, hi=3, den=(1, 2, 4)):
    return rng.randint(lo, hi) / rng.choice(den)


def nvars(kind, dim):
    return {"ode": 1, "statio": dim, "nonstatio": dim + 1}[kind]


def poly_jax(p, z):
    """evaluate a polynomial dict at a jax vector z"""
    jax, jnp, np, eqx, jinns = jx()
    tot = 0.0
    for es, c in sorted(p.items()):
        term = float(c)
        for i, e in enumerate(es):
            if e:
                term = term * z[i] ** e
        tot = tot + term
    return tot


DK_TERMS = {"ode": ["dyn_loss", "observations", "initial_condition"], "statio": ["dyn_loss", "observations", "boundary_loss", "norm_loss"],
            "nonstatio": ["dyn_loss", "observations", "boundary_loss", "norm_loss", "initial_condition"]}


def rand_dk(rng, kind):
    """derivative keys given as boolean trees, some of them all-False: they say which parameters a term is differentiated
    with respect to and must never change the VALUE of any term"""
    return {t: [rng.random() < 0.5, rng.random() < 0.5] for t in DK_TERMS[kind]}


def make_dk(kind, P, spec):
    jax, jnp, np, eqx, jinns = jx()
    from jinns.parameters import Params
    cls = {"ode": jinns.parameters.DerivativeKeysODE, "statio": jinns.parameters.DerivativeKeysPDEStatio, "nonstatio": jinns.parameters.DerivativeKeysPDENonStatio}[kind]
    mask = lambda nn, eq: Params(nn_params=bool(nn), eq_params={k: bool(eq) for k in P.eq_params})
    return cls(**{t: mask(*spec[t]) for t in DK_TERMS[kind]}, params=P)


def make_loss(cfg):
    """cfg keys: kind, dim, upolys (list of dicts), res (list of (q poly, a int)), w_dyn, parts..."""
    jax, jnp, np, eqx, jinns = jx()
    from jinns.parameters import Params
    kind, dim = cfg["kind"], cfg.get("dim", 1)
    eq_type = {"ode": "ODE", "statio": "statio_PDE", "nonstatio": "nonstatio_PDE"}[kind]
    u = mk(cfg["upolys"], eq_type)
    res = cfg["res"]

    # the equation reads the parameter "a" (its value is 1, so the residual is q + a_coef * u): the dynamic term must be
    # computed with the GIVEN parameters, whatever rows an observation part carries for that key
    hc = cfg.get("het_c")     # an additive parameter c (nominal value 0) declared heterogeneous: c(z) = h(z); the declaration
    # lists c only (a is left out of the dictionary, which the documentation allows)
    def residual(z, uval, params):
        extra = params.eq_params["c"] if hc else 0.0
        return jnp.stack([poly_jax(q, z) + a * uval[0] * params.eq_params["a"] + extra for q, a in res])
    hkw = {}
    if hc:
        hfun = {"ode": (lambda t, u, params: poly_jax(hc, jnp.atleast_1d(t))), "statio": (lambda x, u, params: poly_jax(hc, x)),
                "nonstatio": (lambda t, x, u, params: poly_jax(hc, jnp.concatenate([t, x])))}[kind]
        hkw = dict(eq_params_heterogeneity={"c": hfun})
        if kind != "statio" and cfg.get("tmax"):
            hkw["Tmax"] = cfg["tmax"]          # (these equations do not use Tmax; c is the function's value at the point the equation receives)
    if kind == "ode":
        class Eq(jinns.loss.ODE):
            def equation(self, t, u, params):
                return residual(jnp.atleast_1d(t), u(t, params), params)
    elif kind == "statio":
        class Eq(jinns.loss.PDEStatio):
            def equation(self, x, u, params):
                return residual(x, u(x, params), params)
    else:
        class Eq(jinns.loss.PDENonStatio):
            def equation(self, t, x, u, params):
                return residual(jnp.concatenate([t, x]), u(t, x, params), params)
    P = Params(nn_params=u.init_params(), eq_params=dict({"a": jnp.array(1.0)}, **({"c": jnp.array(0.0)} if hc else {})))
    W = lambda w: (jnp.array(w) if isinstance(w, (list, tuple)) else float(w))
    kw = {}

    def LW(cls, **fields):
        """the weight container; with omit_unit_weights a field whose weight is 1 is left to its documented default,
        and with no_lw (all weights 1) no container is passed at all"""
        if cfg.get("omit_unit_weights"):
            fields = {k: v for k, v in fields.items() if not (isinstance(v, float) and v == 1.0)}
            if not fields and cfg.get("no_lw"):
                return {}
        return {"loss_weights": cls(**fields)}
    if cfg.get("dk"):
        kw["derivative_keys"] = make_dk(kind, P, cfg["dk"])
    if kind == "ode":
        lw = LW(jinns.loss.LossWeightsODE, dyn_loss=W(cfg.get("w_dyn", 1.0)), initial_condition=W(cfg.get("w_ic", 1.0)), observations=W(cfg.get("w_obs", 1.0)))
        if cfg.get("ic"):
            kw["initial_condition"] = (cfg["ic"]["t0"], jnp.array(cfg["ic"]["u0"]))
        L = jinns.loss.LossODE(u=u, dynamic_loss=Eq(**hkw) if cfg.get("dyn", True) else None, params=P, **lw, **kw)
    else:
        if cfg.get("norm"):
            kw["norm_samples"] = jnp.array(cfg["norm"]["samples"]); kw["norm_int_length"] = cfg["norm"]["L"]
        if cfg.get("boundary"):
            b = cfg["boundary"]
            kw["omega_boundary_fun"] = b["fun"]; kw["omega_boundary_condition"] = b["cond"]
            if b.get("dim") is not None:
                kw["omega_boundary_dim"] = b["dim"]
        if kind == "statio":
            lw = LW(jinns.loss.LossWeightsPDEStatio, dyn_loss=W(cfg.get("w_dyn", 1.0)), norm_loss=W(cfg.get("w_norm", 1.0)),
                                                 boundary_loss=W(cfg.get("w_bc", 1.0)), observations=W(cfg.get("w_obs", 1.0)))
            L = jinns.loss.LossPDEStatio(u=u, dynamic_loss=Eq(**hkw) if cfg.get("dyn", True) else None, params=P, **lw, **kw)
        else:
            lw = LW(jinns.loss.LossWeightsPDENonStatio, dyn_loss=W(cfg.get("w_dyn", 1.0)), norm_loss=W(cfg.get("w_norm", 1.0)), boundary_loss=W(cfg.get("w_bc", 1.0)),
                                                    observations=W(cfg.get("w_obs", 1.0)), initial_condition=W(cfg.get("w_ic", 1.0)))
            if cfg.get("ic"):
                icp = cfg["ic"]["polys"]
                kw["initial_condition_fun"] = lambda x: jnp.stack([poly_jax(p, x) for p in icp])
            L = jinns.loss.LossPDENonStatio(u=u, dynamic_loss=Eq(**hkw) if cfg.get("dyn", True) else None, params=P, **lw, **kw)
    if cfg.get("reweight"):
        # the weight is replaced on the existing object (eqx.tree_at does not re-run __post_init__): the loss must use the weight it holds now
        w = cfg.get("w_dyn", 1.0)
        dummy = dict(cfg, w_dyn=([7.0] * len(w) if isinstance(w, (list, tuple)) else 7.0), reweight=False)
        _, _, L0 = make_loss(dummy)
        L = eqx.tree_at(lambda l: l.loss_weights.dyn_loss, L0, W(w))
    return u, P, L


def make_batch(cfg):
    jax, jnp, np, eqx, jinns = jx()
    from jinns.data._Batchs import ODEBatch, PDEStatioBatch, PDENonStatioBatch
    pts = jnp.array(cfg["batch"])
    obs = None
    if cfg.get("obs"):
        eqp = {"a": jnp.array(cfg["obs"]["arows"])[:, None]} if cfg["obs"].get("arows") else {}
        obs = {"pinn_in": jnp.array(cfg["obs"]["inputs"]), "val": jnp.array(cfg["obs"]["vals"]), "eq_params": eqp}
    kind = cfg["kind"]
    if kind == "ode":
        return ODEBatch(temporal_batch=pts[:, 0], obs_batch_dict=obs)
    bb = jnp.array(cfg["border"]) if cfg.get("border") is not None else None
    if kind == "statio":
        return PDEStatioBatch(inside_batch=pts, border_batch=bb, obs_batch_dict=obs)
    return PDENonStatioBatch(times_x_inside_batch=pts, times_x_border_batch=bb, obs_batch_dict=obs)


def residual_polys(cfg):
    """r_c = q_c + a_c * u_0 as polynomials of the batch point"""
    u0 = cfg["upolys"][0]
    hc = cfg.get("het_c") or {}
    return [padd(padd(q, {k: a * v for k, v in u0.items()}), hc) for q, a in cfg["res"]]


def cpoly(p):
    return clist(sorted(p.items()), lambda m: f"({cq(m[1])}, {clist(m[0], cnat)})")


def cweight(w):
    return f"(WVec {clist(w, cq)})" if isinstance(w, (list, tuple)) else f"(WScalar {cq(w)})"


def rand_base(rng, kind=None, ncomp=None):
    kind = kind or rng.choice(KINDS)
    dim = 1 if kind == "ode" else rng.choice([1, 2])
    nv = nvars(kind, dim)
    nres = ncomp or rng.randint(1, 3)
    cfg = dict(kind=kind, dim=dim, upolys=[prand(rng, nv, 2, 3) or {(0,) * nv: 1}],
               res=[(prand(rng, nv, 2, 3) or {(0,) * nv: 1}, rng.randint(-2, 2)) for _ in range(nres)],
               batch=[[dy(rng) for _ in range(nv)] for _ in range(rng.randint(1, 9))])
    cfg["w_dyn"] = [rng.randint(0, 4) / 2 for _ in range(nres)] if rng.random() < 0.5 else rng.randint(0, 6) / 2
    cfg["reweight"] = rng.random() < 0.3
    return cfg
