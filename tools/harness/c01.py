"""C01 harness: the operators exported by jinns.loss (and the advection operator through the
Navier-Stokes residual) on polynomial networks at dyadic points, exact comparison with the
Coq model; closed-form check on a trigonometric + Gaussian family as a direct oracle."""
import itertools, math, random
from common import relax, jx, cq, cnat, cbool, clist, write_cases, default_matches_known
from poly import mk, prand, pdiff, peval
matches_known = default_matches_known
OPS = ["laplacian", "divergence", "vector_laplacian", "advection"]


def call_op(op, has_t, d, polys, pt, nus, extra=None):
    jax, jnp, np, eqx, jinns = jx()
    from jinns.parameters import Params, ParamsDict
    eq_type = "nonstatio_PDE" if has_t else "statio_PDE"
    # the scalar Laplacian is that of the FIRST output: further outputs of the network (extra) are ignored
    u = mk(polys + ([extra] if (extra and op == "laplacian") else []), eq_type)
    eqp = {f"junk{k}": jnp.array(float(v)) for k, v in enumerate(nus)}
    P = Params(nn_params=u.init_params(), eq_params=eqp)
    t = jnp.array([float(pt[0])]) if has_t else None
    x = jnp.array([float(v) for v in (pt[1:] if has_t else pt)])
    if op == "laplacian":
        return [float(jinns.loss._laplacian_rev(t, x, u, P))]
    if op == "divergence":
        return [float(jinns.loss._div_rev(t, x, u, P))]
    if op == "vector_laplacian":
        if len(polys) == d and (len(pt) + len(polys)) % 2 == 0:
            # as many components as space dimensions: the optional component count may be left unset
            return [float(v) for v in np.asarray(jinns.loss._vectorial_laplacian(t, x, u, P)).ravel()]
        return [float(v) for v in np.asarray(jinns.loss._vectorial_laplacian(t, x, u, P, u_vec_ndim=len(polys))).ravel()]
    if op == "advection" and (has_t or int(abs(pt[0]) * 4) % 2 == 0):
        # the operator itself (the library only reaches it without a time argument)
        return [float(v) for v in np.asarray(jinns.loss._operators._u_dot_nabla_times_u_rev(t, x, u, P)).ravel()]
    # advection through the Navier-Stokes residual with p = 0, rho = 1, nu = 0
    p = mk([{(0,) * d: 0}], "statio_PDE")
    ns = jinns.loss.NavierStokes2DStatio(u_key="u", p_key="p")
    PD = ParamsDict(nn_params={"u": u.init_params(), "p": p.init_params()}, eq_params={"rho": jnp.array(1.0), "nu": jnp.array(0.0)})
    return [float(v) for v in np.asarray(ns.evaluate(x, {"u": u, "p": p}, PD)).ravel()]


def expected(op, has_t, d, polys, pt):
    """hand differentiation of the polynomials (independent of the Coq model)"""
    off = 1 if has_t else 0
    lap = lambda p: sum(peval(pdiff(pdiff(p, off + i), off + i), pt) for i in range(d))
    if op == "laplacian":
        return [lap(polys[0])]
    if op == "divergence":
        return [sum(peval(pdiff(polys[i], off + i), pt) for i in range(d))]
    if op == "vector_laplacian":
        return [lap(p) for p in polys]
    return [sum(peval(polys[j], pt) * peval(pdiff(polys[c], off + j), pt) for j in range(2)) for c in range(2)]


def monomials(nv, deg):
    return [es for es in itertools.product(range(deg + 1), repeat=nv) if sum(es) <= deg]


def gen_cfgs(tier, rng):
    out = []
    # monomial basis up to total degree 3
    for d in (1, 2, 3, 4):
        for has_t in (False, True):
            nv = d + (1 if has_t else 0)
            mons = monomials(nv, 3)
            if tier == "quick":
                mons = rng.sample(mons, min(len(mons), 6))
            for es in mons:
                pt = [rng.randint(-6, 6) / rng.choice([1, 2, 4]) for _ in range(nv)]
                out.append(dict(op="laplacian", has_t=has_t, d=d, polys=[{es: 1}], pt=pt))
                j = rng.randrange(d)
                comps = [{es: 1} if i == j else {(0,) * nv: rng.randint(-2, 2)} for i in range(d)]
                out.append(dict(op="divergence", has_t=has_t, d=d, polys=comps, pt=pt))
    nrand = 40 if tier == "quick" else 300
    for _ in range(nrand):
        op = rng.choice(OPS)
        has_t = rng.random() < 0.5
        d = 2 if op == "advection" else rng.randint(1, 4)
        nv = d + (1 if has_t else 0)
        nout = {"laplacian": 1, "divergence": d, "vector_laplacian": rng.randint(1, 3), "advection": 2}[op]
        polys = [prand(rng, nv, 4, 4) or {(0,) * nv: 1} for _ in range(nout)]
        if rng.random() < 0.2:     # fields of very small / very large magnitude (powers of two: still exact)
            s = 2.0 ** rng.choice([-40, -24, 24])
            polys = [{es: v * s for es, v in p.items()} for p in polys]
        pt = [rng.randint(-6, 6) / rng.choice([1, 2, 4]) for _ in range(nv)]
        out.append(dict(op=op, has_t=has_t, d=d, polys=polys, pt=pt))
        if op == "laplacian" and rng.random() < 0.4:
            out[-1]["extra"] = prand(rng, nv, 3, 3) or {(0,) * nv: 2}
    for c in out:
        c["nus"] = [rng.randint(-5, 5) for _ in range(rng.randint(0, 2))]
    return out


def case_term(cid, c, obs):
    polys = clist(c["polys"], lambda p: clist(sorted(p.items()), lambda m: f"({cq(m[1])}, {clist(m[0], cnat)})"))
    return (f"mkcase {cnat(cid)} {cnat(OPS.index(c['op']))} {cbool(c['has_t'])} {cnat(c['d'])} {polys} "
            f"{clist(c['pt'], cq)} {clist(c['nus'], cq)} {clist(obs, cq)}")


def smooth_family_oracle(rng, n):
    """trigonometric + quadratic + Gaussian fields with closed-form Laplacian / divergence at generic float64 points, half of them
    far from the origin (float64 accuracy: 1e-11 relative to the size of the value and of the coordinates)"""
    jax, jnp, np, eqx, jinns = jx()
    from jinns.parameters import Params
    fails = []

    class Net(eqx.Module):
        a: jax.Array; w: jax.Array; q: jax.Array; c: jax.Array

        def __call__(self, z):
            return jnp.stack([self.a * jnp.sin(self.w @ z) + z @ self.q @ z + jnp.exp(-jnp.sum((z - self.c) ** 2))])
    for _ in range(n):
        relax(10)
        d = rng.randint(1, 4); has_t = rng.random() < 0.5; nv = d + has_t
        r = np.random.default_rng(rng.randrange(1 << 30))
        a, w, q, c = r.normal(), r.normal(size=nv), r.normal(size=(nv, nv)), r.normal(size=nv)
        z = r.normal(size=nv)
        if r.random() < 0.5:
            z = z * 1024.0       # coordinates far from the origin (not representable in single precision either)
        net = Net(jnp.array(a), jnp.array(w), jnp.array(q), jnp.array(c))
        u = jinns.utils.PINN(mlp=net, slice_solution=jnp.s_[:], eq_type="nonstatio_PDE" if has_t else "statio_PDE",
                             input_transform=lambda i, p: i, output_transform=lambda i, o, p: o)
        P = Params(nn_params=u.init_params(), eq_params={"junk": jnp.array(r.normal())})
        got = float(jinns.loss._laplacian_rev(jnp.array(z[:1]) if has_t else None, jnp.array(z[1:] if has_t else z), u, P))
        off = int(has_t)
        g = math.exp(-float(np.sum((z - c) ** 2)))
        want = sum(-a * math.sin(float(w @ z)) * w[i] ** 2 + 2 * q[i, i] + g * (4 * (z[i] - c[i]) ** 2 - 2) for i in range(off, nv))
        if abs(got - want) > 1e-11 * (1 + abs(want)) * (1 + float(np.max(np.abs(z)))):
            fails.append({"detail": f"Laplacian of a trig+quadratic+Gaussian field at {z.tolist()}: {got} instead of {want}", "case": dict(what="smooth", d=d, has_t=has_t)})
        # divergence of a vector field F_i(z) = a_i sin(w_i . z) + z^T Q_i z
        A, W, Q = r.normal(size=d), r.normal(size=(d, nv)), r.normal(size=(d, nv, nv))

        class VNet(eqx.Module):
            A: jax.Array; W: jax.Array; Q: jax.Array

            def __call__(self, zz):
                return self.A * jnp.sin(self.W @ zz) + jnp.einsum("i,kij,j->k", zz, self.Q, zz)
        v = jinns.utils.PINN(mlp=VNet(jnp.array(A), jnp.array(W), jnp.array(Q)), slice_solution=jnp.s_[:], eq_type="nonstatio_PDE" if has_t else "statio_PDE",
                             input_transform=lambda i, p: i, output_transform=lambda i, o, p: o)
        Pv = Params(nn_params=v.init_params(), eq_params={"junk": jnp.array(0.0)})
        gotd = float(jinns.loss._div_rev(jnp.array(z[:1]) if has_t else None, jnp.array(z[1:] if has_t else z), v, Pv))
        wantd = sum(A[i] * math.cos(float(W[i] @ z)) * W[i, off + i] + float(((Q[i] + Q[i].T) @ z)[off + i]) for i in range(d))
        if abs(gotd - wantd) > 1e-11 * (1 + abs(wantd)) * (1 + float(np.max(np.abs(z)))):
            fails.append({"detail": f"divergence of a trig+quadratic field at {z.tolist()}: {gotd} instead of {wantd}", "case": dict(what="smooth", d=d, has_t=has_t)})
    return fails


def generate(tier, seed, casedir, variant):
    rng = random.Random(seed)
    cases, meta, viol, samples, dist = [], {}, [], [], {}
    nontrivial = set()
    for cid, c in enumerate(gen_cfgs(tier, rng)):
        relax()
        try:
            obs = call_op(c["op"], c["has_t"], c["d"], c["polys"], c["pt"], c["nus"], c.get("extra"))
        except Exception as ex:
            viol.append({"detail": f"operator raised {type(ex).__name__}: {str(ex)[:200]}", "case": jsonable(c)})
            continue
        cases.append(case_term(cid, c, obs)); meta[cid] = jsonable(c)
        exp = expected(c["op"], c["has_t"], c["d"], c["polys"], c["pt"])
        if [float(e) for e in exp] != obs:
            viol.append({"detail": f"{c['op']} returned {obs}, hand differentiation gives {exp}", "case": jsonable(c)})
        k = f"{c['op']}_d{c['d']}_{'t' if c['has_t'] else 'not'}"
        dist[k] = dist.get(k, 0) + 1
        if any(e != 0 for e in exp):
            nontrivial.add(str(jsonable(c)))
        if len(samples) < 3 and any(e != 0 for e in exp):
            samples.append(dict(jsonable(c), observed=obs))
    viol += smooth_family_oracle(rng, 10 if tier == "quick" else 80)
    write_cases(casedir, "C01", "R_C01", variant, cases, chunk=150)
    # the forward-mode (separable-network) Laplacian and divergence are operators of the library too: same operator
    # model, on the expression of a random separable network, 1 / 2 / 3 points per axis (cases and runner of C11)
    import c11
    fcases = []
    for k in range(12 if tier == "quick" else 90):
        relax(10)
        try:
            term, m = c11.op_case(rng, k)
        except Exception as ex:
            viol.append({"detail": f"forward operator raised {type(ex).__name__}: {str(ex)[:200]}", "case": {"what": "forward operator"}})
            continue
        fcases.append(term); meta[f"s{k}"] = m
        dist["fwd_" + m["op"]] = dist.get("fwd_" + m["op"], 0) + 1
        nontrivial.add(("fwd", k))
    write_cases(casedir, "C01fwdsys", "R_C11", variant, fcases, chunk=60)
    # vector Laplacian and advection of separable networks against the reverse-mode operators on the pointwise twin
    try:
        viol += c11.vec_ops_vs_twin(rng, 3 if tier == "quick" else 9)
    except Exception as ex:
        viol.append({"detail": f"vector operator comparison raised {type(ex).__name__}: {str(ex)[:300]}", "case": {"what": "vector operator"}})
    cases = cases + fcases
    return dict(meta=meta, oracle_violations=viol, evaluations=len(cases), distinct_nontrivial=len(nontrivial), samples=samples, distribution=dist,
                rule="monomial basis of total degree <= 3 in d = 1..4 spatial variables with and without time (all of it in the thorough tier) for the Laplacian and the divergence, plus random integer polynomials of degree <= 4 for the four operators (scalar and vector outputs, extra unrelated parameters present; the advection operator called directly, with and without a time argument, and through the Navier-Stokes residual), at dyadic points; non-trivial = the operator value is non-zero; plus a trig+quadratic+Gaussian family with closed-form Laplacian (oracle only); plus the forward-mode Laplacian / divergence on random separable networks (1..3 space dimensions, with and without time, 1 / 2 / 3 points per axis) and the separable vector Laplacian (given / default component count) and advection operator against their pointwise counterparts (oracle only)",
                oracle_checks=len(cases) + (10 if tier == "quick" else 80), exhaustive=False)


def jsonable(c):
    out = dict(c, polys=[[[list(k), v] for k, v in sorted(p.items())] for p in c["polys"]])
    if c.get("extra"):
        out["extra"] = [[list(k), v] for k, v in sorted(c["extra"].items())]
    return out


def unjson(c):
    out = dict(c, polys=[{tuple(k): v for k, v in p} for p in c["polys"]])
    if c.get("extra"):
        out["extra"] = {tuple(k): v for k, v in c["extra"]}
    return out


def replay(rep, casedir, variant):
    c = rep["case"]
    if c.get("what") == "smooth":
        return dict(meta={}, oracle_violations=smooth_family_oracle(random.Random(0), 50), evaluations=50, distinct_nontrivial=50, rule="replay", samples=[c])
    if c.get("what") in ("vector operator", "forward operator"):       # separable-network cases are regenerated from the seed of the run
        return generate("quick", rep.get("seed", 0), casedir, variant)
    c = unjson(c)
    obs = call_op(c["op"], c["has_t"], c["d"], c["polys"], c["pt"], c["nus"], c.get("extra"))
    exp = expected(c["op"], c["has_t"], c["d"], c["polys"], c["pt"])
    viol = [] if [float(e) for e in exp] == obs else [{"detail": f"{c['op']} returned {obs}, hand differentiation gives {exp}", "case": jsonable(c)}]
    write_cases(casedir, "C01", "R_C01", variant, [case_term(0, c, obs)])
    return dict(meta={0: jsonable(c)}, oracle_violations=viol, evaluations=1, distinct_nontrivial=1, rule="replay", samples=[jsonable(c)])
