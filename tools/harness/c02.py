"""C02 harness: DynamicLoss.evaluate of every built-in equation on polynomial candidate
solutions with rational parameters against the Coq model; manufactured solutions as a direct
oracle (the residual must vanish where the network satisfies the equation)."""
import math, random
from common import relax, jx, cq, cnat, cbool, clist, write_cases, default_matches_known
from poly import mk, prand, pdiff, peval, pmul, padd
from lossbuild import poly_jax
matches_known = default_matches_known
EQS = ["burgers", "fisher", "ou", "glv", "mass", "ns"]
TMAX = [1.0, 2.0, 0.5, 10.0]


def dy(rng, lo=-4, hi=4, den=(1, 2, 4)):
    return rng.randint(lo, hi) / rng.choice(den)


def gen_case(rng, eq):
    c = dict(eq=eq, tmax=rng.choice(TMAX))
    if eq == "burgers":
        c.update(d=1, polys=[prand(rng, 2, 3, 4) or {(0, 0): 1}], pt=[dy(rng), dy(rng)], nus=[dy(rng)])
        if rng.random() < 0.4:       # the network has an auxiliary first output; the solution is the component slice_solution designates
            c["aux"] = prand(rng, 2, 3, 3) or {(1, 0): 2}
    elif eq == "fisher":
        d = rng.randint(1, 3)
        c.update(d=d, polys=[prand(rng, d + 1, 3, 4) or {(0,) * (d + 1): 1}], pt=[dy(rng) for _ in range(d + 1)], nus=[dy(rng), dy(rng), dy(rng)])
        if rng.random() < 0.4:        # a space-dependent growth rate r(x) = r * profile(x), declared through eq_params_heterogeneity
            c["het"] = prand(rng, d, 1, 2) or {(0,) * d: 2}
    elif eq == "ou":
        c.update(d=2, polys=[prand(rng, 3, 3, 4) or {(0, 0, 0): 1}], pt=[dy(rng) for _ in range(3)],
                 nus=[dy(rng) for _ in range(6)], vector_alpha=rng.random() < 0.5)
        if not c["vector_alpha"]:
            c["nus"][1] = c["nus"][0]
    elif eq == "glv":
        m = rng.randint(1, 4)
        # population k is called names[k]: any key layout, the other populations listed in any (not necessarily sorted) order
        names = rng.sample(["0", "1", "2", "9", "10", "a", "b", "B", "prey", "z"], m)
        c.update(names=names)
        c["u0"] = [rng.choice([0.5, 1.0, 2.0]) for _ in range(m)]      # every network reads its own equation parameter "u0" (a scale)
        # positive polynomials of t on [0, 1]
        polys = [{(0,): rng.randint(2, 5), (1,): rng.randint(0, 3), (2,): rng.randint(0, 2)} for _ in range(m)]
        c.update(d=0, polys=polys, pt=[rng.randint(0, 4) / 4], nus=[dy(rng), dy(rng)] + [dy(rng) for _ in range(m)],
                 shared_params=rng.random() < 0.5, tmax=rng.choice(TMAX))
        if c["shared_params"] and rng.random() < 0.5:     # a seasonal growth rate r(t) = r * profile(t), declared through eq_params_heterogeneity
            c["het_t"] = {(0,): rng.randint(1, 3), (1,): rng.randint(-2, 2)}
    elif eq == "mass":
        c.update(d=2, polys=[prand(rng, 2, 3, 3) or {(0, 0): 1} for _ in range(2)], pt=[dy(rng), dy(rng)], nus=[], tmax=1.0,
                 shared_params=rng.random() < 0.5)
    else:
        c.update(d=2, polys=[prand(rng, 2, 3, 3) or {(0, 0): 1} for _ in range(3)], pt=[dy(rng), dy(rng)],
                 nus=[rng.choice([1.0, 2.0, 0.5, 4.0, -2.0]), dy(rng)], tmax=1.0)
    # candidate solutions of very small / very large magnitude (powers of two). Only for the equations that are homogeneous in
    # the unknown (Fokker-Planck, mass conservation: every term scales alike, binary64 stays exact) and for Lotka-Volterra
    # (compared with a tolerance; d/dt log u does not depend on the scale); in Burgers / Fisher-KPP / Navier-Stokes terms of
    # degree 1 and 2 would mix magnitudes 2^-40 and 2^-80 and the exact comparison would see rounding, not a defect
    if eq in ("ou", "mass", "glv") and rng.random() < 0.4:
        s = 2.0 ** rng.choice([-40, -24, 24])
        c["polys"] = [{es: v * s for es, v in p.items()} for p in c["polys"]]
        c["scaled"] = True
    return c


def evaluate(c):
    relax(20)
    jax, jnp, np, eqx, jinns = jx()
    from jinns.parameters import Params, ParamsDict
    eq, pt, nus = c["eq"], c["pt"], c["nus"]
    A = lambda v: jnp.array(float(v))
    if eq in ("burgers", "fisher", "ou"):
        u = mk(c["polys"], "nonstatio_PDE") if not c.get("aux") else mk([c["aux"], c["polys"][0]], "nonstatio_PDE", slice_solution=jnp.s_[1:2])
        t, x = jnp.array([pt[0]]), jnp.array(pt[1:])
        if eq == "burgers":
            L = jinns.loss.BurgerEquation(Tmax=c["tmax"]); eqp = {"nu": A(nus[0])}
        elif eq == "fisher":
            het = None
            if c.get("het"):
                prof = c["het"]
                het = {"D": None, "r": (lambda t, x, u, params: params.eq_params["r"] * poly_jax(prof, x)), "g": None}
            L = jinns.loss.FisherKPP(Tmax=c["tmax"], eq_params_heterogeneity=het); eqp = {"D": A(nus[0]), "r": A(nus[1]), "g": A(nus[2])}
        else:
            L = jinns.loss.OU_FPENonStatioLoss2D(Tmax=c["tmax"])
            eqp = {"alpha": jnp.array(nus[0:2]) if c["vector_alpha"] else A(nus[0]), "mu": jnp.array(nus[2:4]), "sigma": jnp.array(nus[4:6])}
        P = Params(nn_params=u.init_params(), eq_params=eqp)
        # with an auxiliary first output the residual has one row per network output; the row of the solution component is compared
        pick = (lambda a: np.asarray(a).ravel()[1:2]) if (eq == "burgers" and c.get("aux")) else (lambda a: np.asarray(a).ravel())
        first = [float(v) for v in pick(L.evaluate(t, x, u, P))]
        second = [float(v) for v in pick(L.evaluate(t, x, u, P))]       # the same objects again (eagerly)
        if first != second:
            c["_repeat_differs"] = (first, second)
        return second
    if eq == "glv":
        m = len(c["polys"])
        nm = c.get("names") or [str(k) for k in range(m)]
        u0 = c.get("u0") or [1.0] * m
        if c["shared_params"]:
            u0 = [u0[0]] * m                                  # one shared parameter set: one shared scale
        us = {nm[k]: mk([c["polys"][k]], "ODE", output_transform=lambda i, o, p: o * p.eq_params["u0"]) for k in range(m)}
        main = {"growth_rate": A(nus[0]), "carrying_capacity": A(nus[1]), "interactions": jnp.array(nus[2:2 + m]), "u0": A(u0[0])}
        if c["shared_params"]:
            eqp = main
        else:
            eqp = {nm[k]: (main if k == 0 else {"growth_rate": A(9.0), "carrying_capacity": A(9.0), "interactions": jnp.ones((m,)) * 9.0, "u0": A(u0[k])}) for k in range(m)}
        PD = ParamsDict(nn_params={k: u.init_params() for k, u in us.items()}, eq_params=eqp)
        hkw = {}
        if c.get("het_t"):
            prof = c["het_t"]
            hkw["eq_params_heterogeneity"] = {"growth_rate": (lambda t, u, params: params.eq_params["growth_rate"] * poly_jax(prof, jnp.atleast_1d(t))),
                                              "carrying_capacity": None, "interactions": None, "u0": None}
        L = jinns.loss.GeneralizedLotkaVolterra(key_main=nm[0], keys_other=[nm[k] for k in range(1, m)], Tmax=c["tmax"], **hkw)
        return [float(v) for v in np.asarray(L.evaluate(jnp.array([pt[0]]), us, PD)).ravel()]
    x = jnp.array(pt)
    if eq == "mass":
        u = mk(c["polys"], "statio_PDE")
        eqp = {"junk": A(3.0)} if c["shared_params"] else {"u": {"junk": A(3.0)}}
        PD = ParamsDict(nn_params={"u": u.init_params()}, eq_params=eqp)
        L = jinns.loss.MassConservation2DStatio(nn_key="u")
        return [float(v) for v in np.asarray(L.evaluate(x, {"u": u}, PD)).ravel()]
    u = mk(c["polys"][:2], "statio_PDE"); p = mk(c["polys"][2:3], "statio_PDE")
    PD = ParamsDict(nn_params={"u": u.init_params(), "p": p.init_params()}, eq_params={"rho": A(nus[0]), "nu": A(nus[1])})
    L = jinns.loss.NavierStokes2DStatio(u_key="u", p_key="p")
    return [float(v) for v in np.asarray(L.evaluate(x, {"u": u, "p": p}, PD)).ravel()]


def case_term(cid, c, obs):
    if c["eq"] == "glv" and c.get("u0"):       # population k is u0_k * polynomial_k (u0 shared when the parameters are)
        u0 = [c["u0"][0]] * len(c["polys"]) if c["shared_params"] else c["u0"]
        c = dict(c, polys=[{es: v * s for es, v in p.items()} for p, s in zip(c["polys"], u0)])
    if c.get("het_t"):        # inside the equation the growth rate is r * profile(t) at the evaluation time
        from poly import peval
        c = dict(c, nus=[c["nus"][0] * peval(c["het_t"], c["pt"][:1])] + list(c["nus"][1:]))
    if c.get("het"):          # inside the equation the growth rate is r * profile(x) at the evaluation point
        from poly import peval
        c = dict(c, nus=[c["nus"][0], c["nus"][1] * peval(c["het"], c["pt"][1:]), c["nus"][2]])
    polys = clist(c["polys"], lambda p: clist(sorted(p.items()), lambda m: f"({cq(m[1])}, {clist(m[0], cnat)})"))
    return (f"mkcase {cnat(cid)} {cnat(EQS.index(c['eq']))} {cnat(c['d'])} {cq(c['tmax'])} {polys} {clist(c['pt'], cq)} "
            f"{clist(c['nus'], cq)} {clist(obs, cq)}")


def general_fpe(rng, n):
    """the Fokker-Planck residual with a drift and a FULL (non-diagonal, point-dependent) diffusion matrix, on polynomial
    candidates, against polynomial algebra (the built-in Ornstein-Uhlenbeck loss has a diagonal diffusion, so its mixed
    second-order terms vanish; a subclass with its own drift / diffusion uses them)"""
    jax, jnp, np, eqx, jinns = jx()
    from jinns.parameters import Params
    from poly import pmul, padd, pdiff, peval
    fails = []
    lin = lambda c0, c1, c2: {k: v for k, v in {(0, 0, 0): c0, (0, 1, 0): c1, (0, 0, 1): c2}.items() if v != 0}     # variables (t, x0, x1)
    for _ in range(n):
        relax(5)
        tmax = rng.choice(TMAX)
        A = [[dy(rng), dy(rng)], [dy(rng), dy(rng)]]; cvec = [dy(rng), dy(rng)]
        d01 = [dy(rng, 1, 3), dy(rng), dy(rng)]
        Dc = [[[dy(rng, 1, 3), dy(rng), dy(rng)], d01], [d01, [dy(rng, 1, 3), dy(rng), dy(rng)]]]      # symmetric, entries d + e x0 + f x1
        up = prand(rng, 3, 3, 4) or {(0, 1, 1): 1}
        pt = [dy(rng), dy(rng), dy(rng)]

        class Gen(jinns.loss.FPENonStatioLoss2D):
            def drift(self, t, x, eq_params):
                return jnp.array(A) @ x + jnp.array(cvec)

            def diffusion(self, t, x, eq_params, i=None, j=None):
                M = jnp.array([[Dc[a][b][0] + Dc[a][b][1] * x[0] + Dc[a][b][2] * x[1] for b in range(2)] for a in range(2)])
                return M if i is None else M[i, j]
        u = mk([up], "nonstatio_PDE")
        P = Params(nn_params=u.init_params(), eq_params={"junk": jnp.array(1.0)})
        try:
            got = float(np.asarray(Gen(Tmax=tmax).evaluate(jnp.array(pt[:1]), jnp.array(pt[1:]), u, P)).ravel()[0])
        except Exception as ex:
            fails.append({"detail": f"general Fokker-Planck residual raised {type(ex).__name__}: {str(ex)[:200]}", "case": dict(what="general_fpe")})
            continue
        mu = [lin(cvec[i], A[i][0], A[i][1]) for i in range(2)]
        Dp = [[lin(*Dc[a][b]) for b in range(2)] for a in range(2)]
        order1 = {}
        for i in range(2):
            order1 = padd(order1, pdiff(pmul(mu[i], up), 1 + i))
        order2 = {}
        for i in range(2):
            for j in range(2):
                order2 = padd(order2, pdiff(pdiff(pmul(Dp[i][j], up), 1 + i), 1 + j))
        want = -peval(pdiff(up, 0), pt) + tmax * (-peval(order1, pt) + peval(order2, pt))
        if abs(got - want) > 1e-9 * (1 + abs(want)):
            fails.append({"detail": f"Fokker-Planck residual with drift A x + c and a full diffusion matrix: {got}, polynomial algebra gives {want} (Tmax={tmax})", "case": dict(what="general_fpe")})
    return fails


def manufactured(rng, n):
    """exact solutions: the residual must vanish (float64, 1e-9)"""
    jax, jnp, np, eqx, jinns = jx()
    from jinns.parameters import Params
    fails = []

    class Heat(eqx.Module):
        # v(tau, x) = exp(-D k^2 tau) sin(k x) solves v_tau = D v_xx; here u(s, x) = v(Tmax s, x)
        k: jax.Array; D: jax.Array; T: jax.Array

        def __call__(self, z):
            return jnp.stack([jnp.exp(-self.D * self.k ** 2 * self.T * z[0]) * jnp.sin(self.k * z[1])])
    for _ in range(n):
        k, D, T = rng.uniform(0.5, 2), rng.uniform(0.1, 1), rng.choice(TMAX)
        u = jinns.utils.PINN(mlp=Heat(jnp.array(k), jnp.array(D), jnp.array(T)), slice_solution=jnp.s_[:], eq_type="nonstatio_PDE",
                             input_transform=lambda i, p: i, output_transform=lambda i, o, p: o)
        P = Params(nn_params=u.init_params(), eq_params={"D": jnp.array(D), "r": jnp.array(0.0), "g": jnp.array(0.0)})
        s, x = rng.uniform(0, 1), rng.uniform(-1, 1)
        r = float(np.asarray(jinns.loss.FisherKPP(Tmax=T).evaluate(jnp.array([s]), jnp.array([x]), u, P)).ravel()[0])
        if abs(r) > 1e-9:
            fails.append({"detail": f"Fisher-KPP residual {r} on an exact solution of the heat equation (Tmax={T})", "case": dict(what="manufactured")})
    return fails


def jsonable(c):
    out = dict(c, polys=[[[list(k), v] for k, v in sorted(p.items())] for p in c["polys"]])
    for extra in ("het", "aux", "het_t"):
        if c.get(extra):
            out[extra] = [[list(k), v] for k, v in sorted(c[extra].items())]
    out.pop("_repeat_differs", None)
    return out


def unjson(c):
    out = dict(c, polys=[{tuple(k): v for k, v in p} for p in c["polys"]])
    for extra in ("het", "aux", "het_t"):
        if c.get(extra):
            out[extra] = {tuple(k): v for k, v in c[extra]}
    return out


def generate(tier, seed, casedir, variant):
    rng = random.Random(seed)
    cases, meta, viol, samples, dist = [], {}, [], [], {}
    nontrivial = set()
    per = 12 if tier == "quick" else 80
    cid = 0
    for eq in EQS:
        for _ in range(per):
            c = gen_case(rng, eq)
            try:
                obs = evaluate(c)
            except Exception as ex:
                viol.append({"detail": f"{eq}: evaluate raised {type(ex).__name__}: {str(ex)[:200]}", "case": jsonable(c)})
                continue
            if c.get("_repeat_differs"):
                a, b = c.pop("_repeat_differs")
                viol.append({"detail": f"{eq}: the residual is {a} on the first evaluation and {b} on the second one with the same arguments", "case": jsonable(c)})
            cases.append(case_term(cid, c, obs)); meta[cid] = jsonable(c)
            dist[eq] = dist.get(eq, 0) + 1
            dist[f"tmax={c['tmax']}"] = dist.get(f"tmax={c['tmax']}", 0) + 1
            if any(o != 0.0 for o in obs):
                nontrivial.add(str(jsonable(c)))
            if len(samples) < 3 and eq in ("burgers", "ns", "glv") and not any(s["eq"] == eq for s in samples):
                samples.append(dict(jsonable(c), observed=obs))
            cid += 1
    nm = 10 if tier == "quick" else 60
    viol += manufactured(rng, nm)
    viol += general_fpe(rng, 8 if tier == "quick" else 40)
    # the separable-network branches of the built-in equations against the pointwise branch on the same function
    import c11
    nsep = 3 if tier == "quick" else 9
    try:
        viol += c11.impl_vs_impl(rng, nsep, residuals_only=True)
    except Exception as ex:
        viol.append({"detail": f"separable / pointwise residual comparison raised {type(ex).__name__}: {str(ex)[:300]}", "case": {"what": "impl_vs_impl"}})
    dist["separable_vs_pointwise_rounds"] = nsep
    write_cases(casedir, "C02", "R_C02", variant, cases, chunk=120)
    return dict(meta=meta, oracle_violations=viol, evaluations=len(cases) + nm, distinct_nontrivial=len(nontrivial), samples=samples, distribution=dist,
                rule="per equation: random integer-coefficient polynomial candidate solutions (positive ones for Lotka-Volterra), dyadic points and parameters, Tmax in {1, 2, 1/2, 10}, scalar and vector drift parameters, shared and per-network parameter layouts, 1..4 Lotka-Volterra populations under arbitrary key names listed in any order; non-trivial = non-zero residual; plus exact heat-equation solutions on which the Fisher-KPP residual must vanish (oracle only); plus the Fokker-Planck residual of a subclass with linear drift and a full point-dependent diffusion matrix against polynomial algebra (oracle only); plus the separable-network branch of every built-in equation against its pointwise branch on the same function, 1 / 2 / 3 points per axis (oracle only)",
                oracle_checks=nm)


def replay(rep, casedir, variant):
    c = rep["case"]
    if c.get("what") == "general_fpe":
        return dict(meta={}, oracle_violations=general_fpe(random.Random(rep.get("seed", 0)), 40), evaluations=40, distinct_nontrivial=40, rule="replay", samples=[c])
    if c.get("what") == "manufactured":
        return dict(meta={}, oracle_violations=manufactured(random.Random(0), 40), evaluations=40, distinct_nontrivial=40, rule="replay", samples=[c])
    if c.get("what") in ("terms", "impl_vs_impl", "residual", "vector operator"):       # oracle-only comparisons are regenerated from the seed of the run
        return generate("quick", rep.get("seed", 0), casedir, variant)
    c = unjson(c)
    obs = evaluate(c)
    write_cases(casedir, "C02", "R_C02", variant, [case_term(0, c, obs)])
    return dict(meta={0: jsonable(c)}, oracle_violations=[], evaluations=1, distinct_nontrivial=1, rule="replay", samples=[jsonable(c)])
