"""C15 harness: observation loader (rows coded by their number), parameter loader (table vs
range, both table shapes), multi-network loader."""
import random
from common import jx, cz, cnat, cbool, clist, write_cases, default_matches_known
matches_known = default_matches_known


def obs_trace(cfg):
    jax, jnp, np, eqx, jinns = jx()
    n, b, cols = cfg["n"], cfg["b"], cfg["cols"]
    code = lambda off: (jnp.arange(n, dtype=float)[:, None] * 10.0 + off) + jnp.arange(cols, dtype=float)[None, :] * 1000.0
    P = code(1.0) if cols > 1 else (code(1.0)[:, 0] if cfg["flat"] else code(1.0))
    V = code(2.0)[:, 0] if (cols == 1 and cfg.get("flatv")) else code(2.0)        # observed values may be given as a 1-D table too
    E = {"nu": jnp.arange(n, dtype=float) * 10.0 + 3.0 if cfg["flat"] else (jnp.arange(n, dtype=float) * 10.0 + 3.0)[:, None],
         "mu": jnp.arange(n, dtype=float) * 10.0 + 5.0 if cfg.get("flat2", cfg["flat"]) else (jnp.arange(n, dtype=float) * 10.0 + 5.0)[:, None]}        # a second observed parameter
    skw = {}
    if cfg.get("sharded"):        # the documented optional placement of the tables on a device: same tables, same batches
        skw["sharding_device"] = jax.sharding.SingleDeviceSharding(jax.devices()[0])
    g = jinns.data.DataGeneratorObservations(jax.random.PRNGKey(cfg["seed"]), b, P, V, E, **skw)
    batches, stores = [], []
    extra_fails = cfg.setdefault("_extra_fails", [])
    for _ in range(cfg["calls"]):
        g, bt = g.get_batch()
        mu = np.asarray(bt["eq_params"]["mu"]).ravel().tolist(); nu = np.asarray(bt["eq_params"]["nu"]).ravel().tolist()
        if any(not (m - q == 2.0) for m, q in zip(mu, nu)) or len(mu) != len(nu):
            extra_fails.append(f"call {len(batches)}: the two observed parameters of a batch row come from different rows (nu {nu}, mu {mu})")
        batches.append((np.asarray(bt["pinn_in"]).tolist(), np.asarray(bt["val"]).tolist(), np.asarray(bt["eq_params"]["nu"]).tolist()))
        stores.append(np.asarray(g.indices).tolist())
    return batches, stores


def obs_oracle(cfg, batches):
    fails = list(cfg.pop("_extra_fails", []))
    for k, (p, v, e) in enumerate(batches):
        if not (len(p) == len(v) == len(e) == cfg["b"]):
            fails.append(f"call {k}: batch parts have different lengths")
            continue
        for r in range(len(p)):
            er = e[r][0] if isinstance(e[r], (list, tuple)) else e[r]
            if not isinstance(e[r], (list, tuple)):
                fails.append(f"call {k}, position {r}: the observed parameter of a batch row is a bare number, not a row of the (n, 1) table")
            vals = list(p[r]) + list(v[r]) + [er]
            if any(x != x for x in vals):
                fails.append(f"call {k}, position {r}: the batch row holds values that are not numbers ({vals}): not a row of the table"); continue
            js = {round((x - 1.0 - 1000.0 * c) / 10.0, 6) for c, x in enumerate(p[r])} | {round((x - 2.0 - 1000.0 * c) / 10.0, 6) for c, x in enumerate(v[r])} | {round((er - 3.0) / 10.0, 6)}
            if len(js) != 1 or not (0 <= min(js) < cfg["n"]) or min(js) != int(min(js)):
                fails.append(f"call {k}, position {r}: input/value/parameter come from rows {sorted(js)}")
    return fails


def obs_case(cid, cfg, batches, stores):
    n, b = cfg["n"], cfg["b"]
    e = -(-n // b)
    perms = [stores[k] for k in range(0, cfg["calls"], e)]
    tab = lambda off: clist([10 * j + off for j in range(n)], cz)
    # a value that is not a number (or not an entry of the table) is written as -1: no row of the table holds it
    toz = lambda x: int(x) if (x == x and abs(x) < 1e15) else -1
    first = lambda r: r[0] if isinstance(r, (list, tuple)) else r          # (a table that was left 1-D gives bare numbers)
    ob = clist(batches, lambda t: f"({clist([toz(first(r)) for r in t[0]], cz)}, {clist([toz(first(r)) for r in t[1]], cz)}, {clist([toz(first(r)) for r in t[2]], cz)})")
    return f"ObsCase {cnat(cid)} {cz(b)} {tab(1)} {tab(2)} {tab(3)} {clist(perms, lambda p: clist(p, cnat))} {ob}"


def param_observe(cfg):
    """returns the observed classification of how the key's store was built"""
    jax, jnp, np, eqx, jinns = jx()
    n = cfg["n"]
    table = np.arange(n, dtype=float) * 7.0 + 100.0
    shape = cfg["shape"]
    ud = {}
    if cfg["has_table"]:
        ud["nu"] = {"n1": jnp.asarray(table)[:, None], "n": jnp.asarray(table), "bad_len": jnp.asarray(np.append(table, 1.0)), "bad_cols": jnp.stack([jnp.asarray(table)] * 2, axis=1)}[shape]
    pr = {"nu": (0.0, 1.0)} if cfg["has_range"] else {}
    try:
        none_if_empty = lambda d: (None if (not d and cfg["seed"] % 2) else d)        # an absent table / range dictionary may be given as None
        g = jinns.data.DataGeneratorParameter(jax.random.PRNGKey(cfg["seed"]), n, cfg["b"], none_if_empty(pr), cfg["method"], none_if_empty(ud))
    except ValueError:
        return "PErr", None
    st = np.asarray(g.param_n_samples["nu"])
    if st.shape != (n, 1):
        return "PErr", st.tolist()
    col = st[:, 0]
    if np.array_equal(col, table):
        return ("PTable" if shape == "n1" else "PTableAsColumn"), st.tolist()
    if np.all((col >= 0.0) & (col <= 1.0)):
        grid = np.allclose(col, np.arange(n) / n)
        if not grid and n >= 3 and len(set(col.tolist())) == 1:
            return "PUnset", st.tolist()          # n draws from the range that are all the same number are no sample of that range
        return ("PRangeGrid" if grid else "PRangeUniform"), st.tolist()
    return "PUnset", st.tolist()


def param_expected(cfg):
    if cfg["has_table"]:
        return {"n1": "PTable", "n": "PTableAsColumn"}.get(cfg["shape"], "PErr")
    return {"grid": "PRangeGrid", "uniform": "PRangeUniform"}[cfg["method"]]


def param_case(cid, cfg, observed):
    return (f"ParamCase {cnat(cid)} {cbool(cfg['has_table'])} {cbool(cfg['shape'] == 'n1')} {cbool(cfg['shape'] == 'n')} "
            f"{cbool(cfg['method'] == 'grid')} {cbool(cfg['method'] == 'uniform')} {observed}")


def param_multi_oracle(seed):
    """several parameters at once, the PRNG keys given as a dictionary written in any order: every key's samples come from
    that key's own table / range, at every call"""
    jax, jnp, np, eqx, jinns = jx()
    rng = random.Random(seed)
    fails = []
    n, b = 8, 3
    table = np.arange(n, dtype=float) * 7.0 + 100.0
    for trial in range(4):
        names = ["nu", "theta", "alpha"]
        order = names if trial == 0 else rng.sample(names, 3)
        ks = jax.random.split(jax.random.PRNGKey(seed + trial), 3)
        keys = {nm: k for nm, k in zip(order, ks)} if trial % 2 == 1 or trial == 0 else jax.random.PRNGKey(seed + trial)
        case = {"what": "param_multi", "order": order, "dict_keys": isinstance(keys, dict), "seed": seed}
        try:
            g = jinns.data.DataGeneratorParameter(keys, n, b, {"theta": (10.0, 11.0), "alpha": (-3.0, -2.0)}, "uniform", {"nu": jnp.asarray(table)})
            for call in range(4):
                g, bt = g.get_batch()
                nu = np.asarray(bt["nu"]).ravel(); th = np.asarray(bt["theta"]).ravel(); al = np.asarray(bt["alpha"]).ravel()
                if not all(x in table for x in nu):
                    fails.append((f"parameter nu (user table) at call {call}: batch {nu.tolist()} is not made of rows of its table", case)); break
                if not (np.all((th >= 10.0) & (th <= 11.0)) and np.all((al >= -3.0) & (al <= -2.0))):
                    fails.append((f"parameters theta / alpha at call {call}: batches {th.tolist()} / {al.tolist()} are not in their own ranges [10, 11] / [-3, -2]", case)); break
        except Exception as ex:
            fails.append((f"several parameters with keys {'as a dictionary' if isinstance(keys, dict) else 'as one key'} raised {type(ex).__name__}: {str(ex)[:150]}", case))
    # two loaders built from the SAME user_data / param_ranges dictionary objects (a training and a validation loader sharing a
    # measured table): the caller's dictionaries are left as they were, and each loader draws theta in its own range
    for method in ("uniform", "grid"):
        case = {"what": "param_multi", "shared_dictionaries": True, "method": method, "seed": seed}
        try:
            ud = {"nu": jnp.asarray(table)}
            r1, r2 = {"theta": (10.0, 11.0)}, {"theta": (-2.0, -1.0)}
            g1 = jinns.data.DataGeneratorParameter(jax.random.PRNGKey(seed), n, b, r1, method, ud)
            g2 = jinns.data.DataGeneratorParameter(jax.random.PRNGKey(seed + 1), n, b, r2, method, ud)
            if set(ud) != {"nu"} or set(r1) != {"theta"} or set(r2) != {"theta"} or not np.array_equal(np.asarray(ud["nu"]).ravel(), table):
                fails.append((f"building a parameter loader changed the caller's dictionaries (user_data keys now {sorted(ud)})", case))
            for g, (lo, hi) in ((g1, r1["theta"]), (g2, r2["theta"])):
                for call in range(3):
                    g, bt = g.get_batch()
                    th = np.asarray(bt["theta"]).ravel(); nu = np.asarray(bt["nu"]).ravel()
                    if not (np.all((th >= lo) & (th <= hi)) and all(x in table for x in nu)):
                        fails.append((f"two loaders sharing one user_data dictionary ({method}): theta batch {th.tolist()} is not in its own range [{lo}, {hi}] (or nu {nu.tolist()} not from the table)", case)); break
        except Exception as ex:
            fails.append((f"two loaders sharing one user_data dictionary raised {type(ex).__name__}: {str(ex)[:150]}", case))
    return fails


def multi_oracle(seed):
    """per-network loaders: each network's batch pairs its own input / value / parameter rows, whatever the
    order in which the three dictionaries were written; a network without observations gets an empty entry"""
    jax, jnp, np, eqx, jinns = jx()
    rng = random.Random(seed)
    n = 6
    code = lambda off: (jnp.arange(n, dtype=float) * 10.0 + off)[:, None]
    tables = {"pinn_in": {"u": code(1.0), "v": None, "w": code(4.0)}, "val": {"u": code(2.0), "v": None, "w": code(5.0)},
              "eq": {"u": {"nu": code(3.0)}, "v": {}, "w": {"nu": code(6.0)}}}
    fails = []
    orders = [["u", "v", "w"]] * 3
    for trial in range(4):
        if trial:
            orders = [rng.sample(["u", "v", "w"], 3) for _ in range(3)]      # the three dictionaries written in independent orders
        din, dval, deq = ({k: tables[t][k] for k in o} for t, o in zip(("pinn_in", "val", "eq"), orders))
        case = {"what": "multi", "orders": orders, "seed": seed}
        try:
            g = jinns.data.DataGeneratorObservationsMultiPINNs(3, din, dval, observed_eq_params_dict=deq, key=jax.random.PRNGKey(seed + trial))
        except Exception as ex:
            fails.append((f"multi-network loader rejected dictionaries with equal key sets ({type(ex).__name__})", case)); continue
        for k in range(5):
            g, bt = g.get_batch()
            if set(bt.keys()) != {"u", "v", "w"}:
                fails.append(("multi-network batch lost a network key", case))
                continue
            if bt["v"] is not None and bt["v"] != {}:  # "empty entry": None (what the loss consumes) or {}
                fails.append(("network without observations does not get an empty entry", case))
            for net, off in (("u", 1.0), ("w", 4.0)):
                try:
                    pi = np.asarray(bt[net]["pinn_in"])[:, 0]; vv = np.asarray(bt[net]["val"])[:, 0]; ee = np.asarray(bt[net]["eq_params"]["nu"])[:, 0]
                except (KeyError, TypeError, IndexError) as ex:
                    fails.append((f"network {net}: its batch lacks an entry of its own tables at call {k} ({type(ex).__name__}: {ex})", case)); continue
                if not (np.array_equal(pi % 10.0, np.full_like(pi, off)) and np.array_equal(pi + 1.0, vv) and np.array_equal(pi + 2.0, ee)):
                    fails.append((f"network {net}: batch rows are not rows of its own tables at call {k} (inputs {pi.tolist()}, values {vv.tolist()}, parameters {ee.tolist()})", case))
    return fails


def generate(tier, seed, casedir, variant):
    rng = random.Random(seed)
    cases, meta, viol, samples, dist = [], {}, [], [], {}
    nontrivial = set()
    cid = 0
    nobs = 30 if tier == "quick" else 150
    for _ in range(nobs):
        n = rng.randint(1, 8); b = rng.randint(1, n)
        cfg = dict(what="obs", n=n, b=b, cols=rng.choice([1, 1, 2]), flat=rng.random() < 0.4, flat2=rng.random() < 0.5, calls=2 * (-(-n // b)) + 1, seed=rng.randrange(1 << 30))
        cfg["flatv"] = rng.random() < 0.4
        cfg["sharded"] = rng.random() < 0.25
        if cfg["cols"] > 1:
            cfg["flat"] = False
        batches, stores = obs_trace(cfg)
        cases.append(obs_case(cid, cfg, batches, stores)); meta[cid] = cfg
        for f in obs_oracle(cfg, batches):
            viol.append({"detail": f, "case": cfg})
        dist["obs"] = dist.get("obs", 0) + 1
        if n > b:
            nontrivial.add(("obs", n, b, cfg["cols"], cfg["flat"]))
        if len(samples) < 2:
            samples.append(dict(cfg, first_batch=batches[0]))
        cid += 1
    for has_table in (True, False):
        for has_range in (True, False):
            for shape in ("n1", "n", "bad_len", "bad_cols"):
                for method in ("grid", "uniform"):
                    if not has_table and not has_range:
                        continue
                    if not has_table and shape != "n1":
                        continue
                    cfg = dict(what="param", n=rng.randint(3, 6), b=2, has_table=has_table, has_range=has_range, shape=shape, method=method, seed=rng.randrange(1 << 30))
                    observed, _ = param_observe(cfg)
                    cases.append(param_case(cid, cfg, observed)); meta[cid] = cfg
                    if observed != param_expected(cfg):
                        viol.append({"detail": f"parameter key built as {observed}, expected {param_expected(cfg)}", "case": cfg})
                    dist["param_" + observed] = dist.get("param_" + observed, 0) + 1
                    nontrivial.add(("param", has_table, has_range, shape, method))
                    if has_table and shape == "n1" and len(samples) < 3:
                        samples.append(dict(cfg, observed=observed))
                    cid += 1
    for f, case in multi_oracle(rng.randrange(1 << 30)):
        viol.append({"detail": f, "case": case})
    for f, case in param_multi_oracle(rng.randrange(1 << 30)):
        viol.append({"detail": f, "case": case})
    write_cases(casedir, "C15", "R_C15", variant, cases, chunk=200)
    return dict(meta=meta, oracle_violations=viol, evaluations=len(cases) + 1, distinct_nontrivial=len(nontrivial),
                rule="observation loaders: random (n, b, columns, flat/2-D tables) with histories of two epochs + 1; parameter loaders: every (table?, range?, table shape, method) combination; multi-network loader histories with the three dictionaries written in independent key orders; non-trivial = more than one batch per epoch (obs) / every combination (param)",
                samples=samples, distribution=dist, oracle_checks=len(cases) + 1)


def replay(rep, casedir, variant):
    cfg = rep["case"]
    viol = []
    cases = []
    if cfg.get("what") == "obs":
        batches, stores = obs_trace(cfg)
        cases.append(obs_case(0, cfg, batches, stores))
        viol = [{"detail": f, "case": cfg} for f in obs_oracle(cfg, batches)]
    elif cfg.get("what") == "param":
        observed, _ = param_observe(cfg)
        cases.append(param_case(0, cfg, observed))
        if observed != param_expected(cfg):
            viol.append({"detail": f"parameter key built as {observed}, expected {param_expected(cfg)}", "case": cfg})
    elif cfg.get("what") == "param_multi":
        viol = [{"detail": f, "case": c} for f, c in param_multi_oracle(cfg.get("seed", 0))]
    else:
        viol = [{"detail": f, "case": c} for f, c in multi_oracle(cfg.get("seed", 0))]
    write_cases(casedir, "C15", "R_C15", variant, cases)
    return dict(meta={0: cfg}, oracle_violations=viol, evaluations=1, distinct_nontrivial=1, rule="replay", samples=[cfg])
