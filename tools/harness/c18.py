"""C18 harness: a NaN is injected at every iteration index and from every origin (loss value,
gradient of a network leaf, gradient of an equation parameter, optimizer update)."""
import random
from common import default_matches_known
import solvelib as S
from c07 import run_all
matches_known = default_matches_known
ORIGINS = ["update", "update_entry", "loss", "grad_nn", "grad_eq", "state_only"]


def with_injection(cfg, origin, k):
    """threshold-based injections need the un-faulted trajectory of the watched parameter"""
    if origin in ("update", "update_entry", "state_only"):
        return dict(cfg, inject=dict(origin=origin, k=k))
    ref = S.reference(dict(cfg, inject=None, validation=None))
    vals = [float(p.eq_params["a"]) if origin in ("loss", "grad_eq") else float(p.nn_params.scale) for p in ref["params"]]
    if len(vals) <= k:
        return None
    # the loss at parameter version k must be the first to see a value beyond the threshold
    if k == 0:
        sign = 1.0
        thr = vals[0] - 1.0
    else:
        sign = 1.0 if vals[k] > vals[k - 1] else -1.0
        thr = 0.5 * (vals[k] + vals[k - 1])
        if any((v - thr) * sign > 0 for v in vals[:k]) or not (vals[k] - thr) * sign > 0 or abs(vals[k] - vals[k - 1]) < 1e-6:
            return None
    return dict(cfg, inject=dict(origin=origin, thr=thr, sign=sign))


def generate(tier, seed, casedir, variant):
    rng = random.Random(seed)
    cfgs = []
    n = 6 if tier == "quick" else 8
    for origin in ORIGINS:
        ks = range(n) if tier == "thorough" else sorted(set([0, n - 1] + rng.sample(range(1, n - 1), 2)))
        for k in ks:
            base = S.base_cfg(rng, S.KINDS[(k + ORIGINS.index(origin)) % 3], n=n)
            base["opt"] = S.OPTS[(k + 2 * ORIGINS.index(origin)) % 4]
            base["track"] = True
            c = with_injection(base, origin, k)
            if c is None:
                c = with_injection(base, "update", k)
            c["fault_at"] = k
            cfgs.append(c)
    # a NaN gradient absorbed by the optimizer (zero_nans): no parameter becomes NaN, the loop goes on and the returned
    # parameters are the last ones -- at the last iteration, and right before an update that is NaN for good
    for j, (origin, k, k2) in enumerate([("grad_eq", n - 1, None), ("grad_nn", n - 1, None), ("grad_eq", 2, 3), ("grad_nn", 1, 2)][: (4 if tier == "thorough" else 3)]):
        base = S.base_cfg(rng, S.KINDS[j % 3], n=n)
        base["opt"] = "zn_adam"; base["track"] = True; base["rar"] = False
        c = with_injection(base, origin, k)
        if c is None:
            continue
        c["fault_at"] = k
        cfgs.append(c)
    r = run_all(cfgs, casedir, variant, "C18")
    r["rule"] = ("fault injected at iteration k (every k of 0..n-1 in the thorough tier) from each origin: NaN optimizer update, NaN loss value, NaN gradient of a network leaf, NaN gradient of an equation parameter, and a NaN confined to a bookkeeping leaf of the optimizer state (no parameter is NaN: training runs to the end) "
                 "(thresholds placed on the un-faulted trajectory); loss kinds and optimizers rotated; non-trivial = at least two iterations executed")
    for o in ORIGINS:
        r["distribution"][f"origin={o}"] = sum(1 for c in cfgs if c["inject"]["origin"] == o)
    r["distribution"]["absorbed_by_zero_nans"] = sum(1 for c in cfgs if c["opt"] == "zn_adam")
    return r


def replay(rep, casedir, variant):
    r = run_all([rep["case"]], casedir, variant, "C18")
    r["rule"] = "replay"
    return r
