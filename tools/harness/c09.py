"""C09 harness: real generators of every kind are driven through get_batch histories;
the observed reshuffles are handed to the Coq cursor model as its oracle and the batches
are compared; the property itself is also checked directly on every observed trace."""
import itertools, random
from common import jx, cz, cnat, clist, write_cases, default_matches_known

KINDS = ["ode_t", "omega", "border", "pde_t", "obs", "param"]
matches_known = default_matches_known


def make_gen(kind, n, b, seed, method="uniform"):
    jax, jnp, np, eqx, jinns = jx()
    key = jax.random.PRNGKey(seed)
    if kind == "ode_t":
        g = jinns.data.DataGeneratorODE(key, n, 0.0, 1.0, b, method, **({"nt_start": max(1, n // 2)} if seed % 3 == 0 else {}))     # a start count without refinement is ignored
        return g, (lambda g: g.times), (lambda g: g.temporal_batch())
    if kind == "omega":
        g = jinns.data.CubicMeshPDEStatio(key=key, n=n, nb=None, omega_batch_size=b, omega_border_batch_size=None,
                                          dim=2, min_pts=(0.0, -1.0), max_pts=(1.0, 2.0), method="uniform", **({"n_start": max(1, n // 2)} if seed % 3 == 0 else {}))
        return g, (lambda g: g.omega), (lambda g: g.inside_batch())
    if kind == "border":
        g = jinns.data.CubicMeshPDEStatio(key=key, n=4, nb=4 * n, omega_batch_size=2, omega_border_batch_size=b,
                                          dim=2, min_pts=(0.0, -1.0), max_pts=(1.0, 2.0), method="uniform")
        return g, (lambda g: g.omega_border), (lambda g: g.border_batch())
    if kind == "pde_t":
        g = jinns.data.CubicMeshPDENonStatio(key=key, n=4, nb=None, nt=n, omega_batch_size=2, omega_border_batch_size=None,
                                             temporal_batch_size=b, dim=1, min_pts=(0.0,), max_pts=(1.0,), tmin=0.0, tmax=2.0,
                                             method=method, **({"nt_start": max(1, n // 2), "n_start": 2} if seed % 3 == 0 else {}))
        return g, (lambda g: g.times), (lambda g: g.temporal_batch())
    if kind == "obs":
        xs = jnp.arange(n, dtype=float)[:, None] * 10.0
        g = jinns.data.DataGeneratorObservations(key, b, xs, xs + 1.0, {"nu": xs + 2.0})
        return g, (lambda g: g.indices), (lambda g: (lambda r: (r[0], r[1]["pinn_in"][:, 0] / 10.0))(g.obs_batch()))
    if kind == "param":
        g = jinns.data.DataGeneratorParameter(key, n, b, {"nu": (0.0, 1.0)}, method)
        return g, (lambda g: g.param_n_samples["nu"]), (lambda g: (lambda r: (r[0], r[1]["nu"]))(g.param_batch()))
    raise ValueError(kind)


def rows(a):
    jax, jnp, np, eqx, jinns = jx()
    a = np.asarray(a)
    return [tuple(np.atleast_1d(r).ravel().tolist()) for r in a]


def trace(kind, n, b, calls, seed, method="uniform", mode="eager64"):
    """mode jit32: the library's default precision, every draw through jax.jit (the cursor is then a traced int32)"""
    jax, jnp, np, eqx, jinns = jx()
    if mode == "jit32":
        with jax.enable_x64(False):
            return _trace(kind, n, b, calls, seed, method, jit=True)
    return _trace(kind, n, b, calls, seed, method, jit=False)


def _trace(kind, n, b, calls, seed, method, jit):
    jax, jnp, np, eqx, jinns = jx()
    g, store_of, draw = make_gen(kind, n, b, seed, method)
    if jit:
        draw = jax.jit(draw)
    s0 = rows(store_of(g))
    ident = {r: i for i, r in enumerate(s0)}
    distinct = len(ident) == len(s0)
    prev = s0
    perms, batches, reshuffled = [], [], []
    for _ in range(calls):
        g, bt = draw(g)
        cur = rows(store_of(g))
        if cur != prev or not perms:
            # a reshuffle may return the identical order; the first call always reshuffles
            pass
        changed = cur != prev
        if kind == "obs":
            bt_ids = [int(round(float(x))) for x in rows(bt) for x in x]
            cur_ids = [int(x[0]) for x in cur]
        else:
            bt_ids = [ident.get(r, -1) for r in rows(bt)]
            cur_ids = [ident.get(r, -1) for r in cur]
        batches.append(bt_ids)
        reshuffled.append((changed, cur_ids))
        prev = cur
    return dict(kind=kind, n=n, b=b, calls=calls, seed=seed, method=method, mode="jit32" if jit else "eager64", distinct=distinct,
                batches=batches, stores=[c for _, c in reshuffled], changed=[c for c, _ in reshuffled])


def oracle(tr):
    """the property, checked directly on the observed trace; returns a list of failure strings"""
    n, b = tr["n"], tr["b"]
    fails = []
    e = -(-n // b)
    for k, st in enumerate(tr["stores"]):
        if sorted(st) != list(range(n)):
            fails.append(f"store after call {k} is not a permutation of the initial store")
    # epochs: calls q*e .. q*e+e-1
    for q in range(0, len(tr["batches"]) // e):
        ep = tr["batches"][q * e:(q + 1) * e]
        flat = [i for bt in ep for i in bt]
        if n % b == 0 and len(set(flat)) != len(flat):
            fails.append(f"epoch {q}: a point is served twice although b divides n (batches {ep})")
        if set(flat) != set(range(n)):
            fails.append(f"epoch {q}: points {sorted(set(range(n)) - set(flat))} not served (batches {ep})")
        for j in range(1, e):
            if tr["stores"][q * e + j] != tr["stores"][q * e]:
                fails.append(f"epoch {q}: store changed at call {q * e + j}, before all points were served")
    for bt in tr["batches"]:
        if len(bt) != b or any(i < 0 for i in bt):
            fails.append(f"batch {bt} has wrong length or a point outside the store")
    return fails


def model_perms(tr):
    """stores right after each reshuffle the MODEL performs (calls k with k mod e = 0)"""
    e = -(-tr["n"] // tr["b"])
    return [tr["stores"][k] for k in range(0, tr["calls"], e)]


def case_term(cid, tr):
    ps = model_perms(tr)
    unk = tr["n"] + 7                       # a row that is no row of the initial store: an index outside the store
    fix = lambda p: [x if x >= 0 else unk for x in p]
    ps = [fix(p) for p in ps]
    tr = dict(tr, batches=[fix(b) for b in tr["batches"]])
    return (f"mkcase {cnat(cid)} {cnat(KINDS.index(tr['kind']))} {cnat(tr['n'])} {cz(tr['b'])} "
            f"{clist(ps, lambda p: clist(p, cnat))} {clist(tr['batches'], lambda p: clist(p, cnat))}")


# ---- generators with residual-adaptive refinement configured: the points an epoch runs over are the ACTIVE ones ----
def refined_trace(cfg):
    """real init_rar + k real refinement steps, then draws; reshuffles are recognised by the change of the
    generator's key (a reshuffle may leave the order unchanged)"""
    jax, jnp, np, eqx, jinns = jx()
    from jinns.solver._rar import init_rar, trigger_rar
    from rarlib import problem, generator
    kind, which = cfg["kind"], cfg["which"]
    loss, P = problem(kind, 2)
    g = generator(kind, cfg)
    g, st, sf = init_rar(g)
    for i in range(cfg["steps"]):
        _, _, g = trigger_rar(i, loss, P, g, st, sf)
    if which == "t":
        store_of, p_of, draw, b = (lambda g: g.times), (lambda g: g.p_times), (lambda g: g.temporal_batch()), cfg["bt"]
    else:
        store_of, p_of, draw, b = (lambda g: g.omega), (lambda g: g.p_omega), (lambda g: g.inside_batch()), cfg["bx"]
    s0 = rows(store_of(g))
    ident = {r: i for i, r in enumerate(s0)}
    active = sorted(ident[r] for r, p in zip(s0, np.asarray(p_of(g)).tolist()) if p != 0)
    batches, resh = [], []
    key = np.asarray(jax.random.key_data(g.key) if hasattr(jax.random, "key_data") else g.key).tolist()
    for _ in range(cfg["calls"]):
        g, bt = draw(g)
        k2 = np.asarray(jax.random.key_data(g.key) if hasattr(jax.random, "key_data") else g.key).tolist()
        resh.append(k2 != key); key = k2
        batches.append([ident.get(r, -1) for r in rows(bt)])
    return dict(distinct=len(ident) == len(s0), active=active, b=b, steps_done=int(g.rar_iter_nb), batches=batches, reshuffled=resh,
                store_size=len(s0))


def refined_oracle(cfg, tr):
    fails = []
    A, b = set(tr["active"]), tr["b"]
    n_eff = len(A)
    start, sel = (cfg["nt_start"], cfg["sel_t"]) if cfg["which"] == "t" else (cfg["n_start"], cfg["sel_x"])
    if n_eff != start + tr["steps_done"] * sel:
        return fails                         # the bookkeeping of the refinement itself is C16's business
    e = -(-n_eff // b)
    R = [k for k, r in enumerate(tr["reshuffled"]) if r]
    if not R:
        return [f"no reshuffle in {len(tr['batches'])} draws although only {n_eff} points are active (batch size {b})"]
    for k0, k1 in zip(R, R[1:] + [None]):
        ep = tr["batches"][k0:k1]
        if k1 is None and len(ep) <= e:
            continue                         # last epoch still running
        if len(ep) != e:
            fails.append(f"epoch starting at draw {k0} lasted {len(ep)}{'+' if k1 is None else ''} draws; {n_eff} active points and batch size {b} make {e}")
            continue
        flat = [i for bt in ep for i in bt]
        if not A <= set(flat):
            fails.append(f"epoch starting at draw {k0}: active points {sorted(A - set(flat))} not served")
        if n_eff % b == 0 and (len(set(flat)) != len(flat) or not set(flat) <= A):
            fails.append(f"epoch starting at draw {k0}: batch size divides the {n_eff} active points, yet a point is served twice or an inactive one is served ({ep})")
    return fails


def refined_cfgs(tier, rng):
    out = []
    reps = 3 if tier == "thorough" else 1
    for _ in range(reps):
        for kind, which in (("ode", "t"), ("statio", "x"), ("nonstatio", "t"), ("nonstatio", "x")):
            for steps in (1, 2):
                sel = 1 if (kind, which) == ("nonstatio", "x") else rng.randint(1, 2)   # the non-stationary step may pick one space point twice (rows are told apart by value)
                b = 2
                start = rng.choice([2, 4]) if rng.random() < 0.6 else 3
                cand = sel + rng.randint(2, 4)           # candidates drawn per step differ from the points added
                n = start + 3 * sel + rng.randint(0, 1)
                cfg = dict(kind=kind, which=which, start=0, every=1, steps=steps, dim=2, seed=rng.randrange(1 << 30),
                           sel_t=sel, sel_x=sel, cand_t=cand, cand_x=cand, nt_start=start, n_start=start, nt=n, n=n, bt=b, bx=b)
                cfg["calls"] = 3 * (-(-(start + steps * sel) // b)) + 1
                out.append(cfg)
    return out


def scopes(tier, rng):
    full = [(n, b) for n in range(1, 9) for b in range(1, n + 1)]
    if tier == "thorough":
        return [(k, n, b) for k in KINDS for (n, b) in full]
    out = []
    for k in KINDS:
        must = [(4, 2), (6, 3), (5, 2), (7, 7), (1, 1), (8, 3)]
        extra = rng.sample([x for x in full if x not in must], 4)
        out += [(k, n, b) for (n, b) in must + extra]
    return out


def generate(tier, seed, casedir, variant):
    rng = random.Random(seed)
    cases, meta, viol, samples = [], {}, [], []
    dist = {}
    nontrivial = set()
    for cid, (kind, n, b) in enumerate(scopes(tier, rng)):
        e = -(-n // b)
        calls = 3 * e + 1
        method = "grid" if (kind in ("ode_t", "pde_t", "param") and rng.random() < 0.3) else "uniform"
        mode = "jit32" if cid % 3 == 2 else "eager64"
        tr = trace(kind, n, b, calls, rng.randrange(1 << 30), method, mode)
        if not tr["distinct"]:
            continue
        cases.append(case_term(cid, tr))
        meta[cid] = {k: tr[k] for k in ("kind", "n", "b", "calls", "seed", "method", "mode")}
        dist[tr["mode"]] = dist.get(tr["mode"], 0) + 1
        for f in oracle(tr):
            viol.append({"detail": f, "case": dict(meta[cid], batches=tr["batches"])})
        dist[kind] = dist.get(kind, 0) + 1
        dist["b_divides_n" if n % b == 0 else "b_not_divides_n"] = dist.get("b_divides_n" if n % b == 0 else "b_not_divides_n", 0) + 1
        if e >= 2:
            nontrivial.add((kind, n, b))
        if len(samples) < 3:
            samples.append(dict(meta[cid], batches=tr["batches"][:6]))
    nref = 0
    for cfg in refined_cfgs(tier, rng):
        tr = refined_trace(cfg)
        if not tr["distinct"]:
            continue
        nref += 1
        dist["refined_" + cfg["kind"] + "_" + cfg["which"]] = dist.get("refined_" + cfg["kind"] + "_" + cfg["which"], 0) + 1
        for f in refined_oracle(cfg, tr):
            viol.append({"detail": f, "case": dict(cfg, refined=True, batches=tr["batches"], active=tr["active"])})
    write_cases(casedir, "C09", "R_C09", variant, cases)
    return dict(meta=meta, oracle_violations=viol, evaluations=len(cases), distinct_nontrivial=len(nontrivial),
                rule="(generator kind, n, b) with n <= 8, b <= n, history of 3 epochs + 1 calls, a third of the histories drawn under jax.jit in the library's default 32-bit mode; plus generators with refinement configured after 1-2 real refinement steps (oracle only: the epoch runs over the active points); non-trivial = at least two batches per epoch; distinct = distinct (kind, n, b)",
                samples=samples, distribution=dist, oracle_checks=len(cases) + nref, exhaustive=(tier == "thorough"))


def replay(rep, casedir, variant):
    c = rep["case"]
    if c.get("refined"):
        cfg = {k: v for k, v in c.items() if k not in ("refined", "batches", "active")}
        tr = refined_trace(cfg)
        viol = [{"detail": f, "case": dict(cfg, refined=True, batches=tr["batches"], active=tr["active"])} for f in refined_oracle(cfg, tr)]
        write_cases(casedir, "C09", "R_C09", variant, [])
        return dict(meta={}, oracle_violations=viol, evaluations=0, distinct_nontrivial=0, rule="replay", samples=[cfg])
    tr = trace(c["kind"], c["n"], c["b"], c["calls"], c["seed"], c.get("method", "uniform"), c.get("mode", "eager64"))
    viol = [{"detail": f, "case": dict(c, batches=tr["batches"])} for f in oracle(tr)]
    write_cases(casedir, "C09", "R_C09", variant, [case_term(0, tr)])
    return dict(meta={0: c}, oracle_violations=viol, evaluations=1, distinct_nontrivial=1, rule="replay", samples=[c])
