"""C19 harness: scripted validation modules over all short outcome scripts, and the built-in
ValidationLoss with its own generators."""
import itertools, random
from common import default_matches_known
import solvelib as S
from c07 import run_all
matches_known = default_matches_known


def direct_one(case):
    """ValidationLoss called directly on a sequence of parameter values with repetitions (its validation data is a
    single point, so equal parameters give exactly equal criteria: ties with the running minimum, which are no strict
    improvement); flag, stop request, running minimum and counter are compared with the definition"""
    import math
    from common import jx
    jax, jnp, np, eqx, jinns = jx()
    cfg = dict(kind=case["kind"], n=3, nt=1, bs=1, rar=False, param_gen=False, obs_gen=False, opt="sgd", seed=case["seed"], track=False)
    pb = S.build(cfg)
    early, patience = case["early"], case["patience"]
    vl = jinns.validation.ValidationLoss(loss=pb["L"], validation_data=pb["g"], call_every=1, early_stopping=early, patience=patience)
    best, counter, ties = math.inf, 0, 0
    for step, a in enumerate(case["a_values"]):
        P = eqx.tree_at(lambda t: t.eq_params["a"], pb["P"], jnp.array(a))
        vl, stop, crit, flag = vl(P)
        crit, flag, stop = float(crit), bool(flag), bool(stop)
        ties += int(crit == best)
        e_stop = early and counter == patience
        e_flag = crit < best
        if e_flag:
            best, counter = crit, 0
        else:
            counter += 1
        got = (flag, stop, float(vl.best_val_loss), float(vl.counter))
        want = (e_flag, e_stop, best, float(counter))
        if got != want:
            return [{"detail": f"ValidationLoss call {step}: criterion {crit}; (improvement flag, stop request, running minimum, counter) = {got}, definition gives {want}", "case": case}], step + 1, ties
    return [], len(case["a_values"]), ties


def direct_calls(rng, tier):
    viol, ncalls, nties = [], 0, 0
    avals = [1.5, 0.5, 2.5, -1.0]
    for j in range(6 if tier == "quick" else 30):
        case = dict(kind=S.KINDS[j % 3], seed=rng.randrange(1 << 20), early=(j % 4 != 3), patience=rng.choice([0, 1, 2, 3]),
                    a_values=[rng.choice(avals) for _ in range(rng.randint(6, 10))], direct=True)
        v, n, t = direct_one(case)
        viol += v; ncalls += n; nties += t
    return viol, ncalls, nties


def generate(tier, seed, casedir, variant):
    rng = random.Random(seed)
    cfgs = []
    L = 3 if tier == "quick" else 4
    scripts = list(itertools.product([(False, False), (False, True), (True, False), (True, True)], repeat=L))
    if tier == "quick":
        scripts = rng.sample(scripts, 14)
    for j, sc in enumerate(scripts):
        every = [1, 2, 3][j % 3]
        base = S.base_cfg(rng, S.KINDS[j % 3], n=min(9, every * (L - 1) + 1 + (j % 2)))
        base["opt"] = S.OPTS[j % 4]
        base["validation"] = dict(type="scripted", every=every, stops=[s for s, _ in sc], flags=[f for _, f in sc])
        cfgs.append(base)
    nvl = 6 if tier == "quick" else 24
    for j in range(nvl):
        base = S.base_cfg(rng, S.KINDS[j % 3], n=rng.randint(5, 9))
        base["opt"] = S.OPTS[j % 4]
        base["lr"] = rng.choice([2.0 ** -5, 2.0 ** -3, 2.0 ** -2])       # larger rates make the validation loss go up and down
        base["validation"] = dict(type="loss", every=rng.choice([1, 1, 2]), early=(j % 4 != 3), patience=rng.choice([0, 1, 2]), own_param_gen=(j % 2 == 0), own_obs_gen=(j % 3 != 2))
        if base["validation"]["own_param_gen"]:
            base["param_gen"] = True
        if base["validation"]["own_obs_gen"]:
            base["obs_gen"] = True
            base["validation"]["nan_obs"] = (j % 3 == 0)
            base["validation"]["huge_obs"] = (j % 3 == 1)
        cfgs.append(base)
    # the update of a validated iteration is not a number: the module is called with the post-update parameters all the same
    # (its criterion is then NaN: no improvement), and the loop stops right after
    for j in range(4 if tier == "quick" else 12):
        every = [1, 2, 3][j % 3]
        k = every * rng.randint(0, 2)
        base = S.base_cfg(rng, S.KINDS[j % 3], n=k + 3)
        base["opt"] = S.OPTS[j % 4]
        base["inject"] = dict(origin="update", k=k)
        if j % 2 == 0:
            base["validation"] = dict(type="scripted", every=every, stops=[False] * 6, flags=[True, False, True, True, False, True])
        else:
            base["validation"] = dict(type="loss", every=every, early=False, patience=1, own_param_gen=False, own_obs_gen=False)
        cfgs.append(base)
    r = run_all(cfgs, casedir, variant, "C19")
    dv, ncalls, nties = direct_calls(rng, tier)
    r["oracle_violations"] = list(r.get("oracle_violations", [])) + dv
    r["oracle_checks"] = r.get("oracle_checks", 0) + ncalls
    r.setdefault("distribution", {})
    r["distribution"].update(direct_validation_calls=ncalls, ties_with_running_minimum=nties)
    r["rule"] = ("scripted validation modules: outcome scripts (stop request, improvement flag) of length %d (all %d of them in the thorough tier), periods 1..3; built-in ValidationLoss with its own data / parameter / observation generators (some validation observations not numbers, so that some criteria are NaN), "
                 "patience 0..2, early stopping on and off; plus ValidationLoss called directly on parameter sequences with repetitions (exact ties with the running minimum; oracle only); non-trivial = at least two iterations executed" % (L, 4 ** L))
    r["exhaustive"] = tier == "thorough"
    return r


def replay(rep, casedir, variant):
    if rep["case"].get("direct"):
        v, n, t = direct_one(rep["case"])
        r = run_all([], casedir, variant, "C19")
        r["oracle_violations"] = v; r["oracle_checks"] = n; r["rule"] = "replay"
        return r
    r = run_all([rep["case"]], casedir, variant, "C19")
    r["rule"] = "replay"
    return r
