"""C19 harness: scripted validation modules over all short outcome scripts, and the built-in
ValidationLoss with its own generators."""
import itertools, random
from common import default_matches_known
import solvelib as S
from c07 import run_all
matches_known = default_matches_known


def generate(tier, seed, casedir, variant):
    rng = random.Random(seed)
    cfgs = []
    L = 3 if tier == "quick" else 4
    scripts = list(itertools.product([(False, False), (False, True), (True, False), (True, True)], repeat=L))
    if tier == "quick":
        scripts = rng.sample(scripts, 14)
    for j, sc in enumerate(scripts):
        every = [1, 2, 3][j % 3]
        base = S.base_cfg(rng, S.KINDS[j % 3], n=min(9, every * (L - 1) + 1 + (j % 2)))
        base["opt"] = S.OPTS[j % 4]
        base["validation"] = dict(type="scripted", every=every, stops=[s for s, _ in sc], flags=[f for _, f in sc])
        cfgs.append(base)
    nvl = 6 if tier == "quick" else 24
    for j in range(nvl):
        base = S.base_cfg(rng, S.KINDS[j % 3], n=rng.randint(5, 9))
        base["opt"] = S.OPTS[j % 4]
        base["lr"] = rng.choice([2.0 ** -5, 2.0 ** -3, 2.0 ** -2])       # larger rates make the validation loss go up and down
        base["validation"] = dict(type="loss", every=rng.choice([1, 1, 2]), early=(j % 4 != 3), patience=rng.choice([0, 1, 2]), own_param_gen=(j % 2 == 0), own_obs_gen=(j % 3 != 2))
        if base["validation"]["own_param_gen"]:
            base["param_gen"] = True
        if base["validation"]["own_obs_gen"]:
            base["obs_gen"] = True
            base["validation"]["nan_obs"] = (j % 3 == 0)
            base["validation"]["huge_obs"] = (j % 3 == 1)
        cfgs.append(base)
    r = run_all(cfgs, casedir, variant, "C19")
    r["rule"] = ("scripted validation modules: outcome scripts (stop request, improvement flag) of length %d (all %d of them in the thorough tier), periods 1..3; built-in ValidationLoss with its own data / parameter / observation generators (some validation observations not numbers, so that some criteria are NaN), "
                 "patience 0..2, early stopping on and off; non-trivial = at least two iterations executed" % (L, 4 ** L))
    r["exhaustive"] = tier == "thorough"
    return r


def replay(rep, casedir, variant):
    r = run_all([rep["case"]], casedir, variant, "C19")
    r["rule"] = "replay"
    return r
