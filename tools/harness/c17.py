"""C17 harness: refinement steps observed through the JINNS_VERIF hook (candidates, squared
residuals, chosen indices) and on the stores before/after, interleaved with batch draws."""
import random
from common import jx, cz, cq, cnat, cbool, clist, write_cases, default_matches_known
from rarlib import KINDS, problem, generator, rand_cfg
from c16 import dpar, pars
matches_known = default_matches_known


def rows_of(a):
    jax, jnp, np, eqx, jinns = jx()
    a = np.asarray(a)
    if a.ndim == 1:
        a = a[:, None]
    return a.tolist()


def snapshot(kind, g):
    jax, jnp, np, eqx, jinns = jx()
    t = rows_of(g.times) if kind != "statio" else []
    x = rows_of(g.omega) if kind != "ode" else []
    mt = (np.asarray(g.p_times) != 0).tolist() if kind != "statio" else []
    mx = (np.asarray(g.p_omega) != 0).tolist() if kind != "ode" else []
    return dict(t=t, x=x, mt=mt, mx=mx, J=int(g.rar_iter_nb))


def observe(cfg):
    """returns (list of step records, list of failures of the interleaving oracle)"""
    jax, jnp, np, eqx, jinns = jx()
    import jinns.solver._rar as R
    loss, P = problem(cfg["kind"], cfg.get("dim", 2), cfg.get("vec", False), cfg.get("system", False), cfg.get("scalar", False))
    g = generator(cfg["kind"], cfg)
    g, st, sf = R.init_rar(g)
    steps, fails = [], []
    kind = cfg["kind"]
    for i in range(cfg["iters"]):
        if cfg.get("reinit_at") is not None and i == cfg["reinit_at"]:
            # what a second jinns.solve call does with the generator the first one returned: init_rar again
            # (the step number, the stores and the probability masks must be kept; only the period counter is re-armed)
            b_pre = snapshot(kind, g)
            g, st, sf = R.init_rar(g)
            b_post = snapshot(kind, g)
            if b_pre != b_post:
                fails.append(f"iteration {i}: init_rar on a generator that has already been refined changed its step number, stores or masks")
        b0 = snapshot(kind, g)
        g, _ = g.get_batch()
        b1 = snapshot(kind, g)
        for nm, m in (("t", "mt"), ("x", "mx")):
            a = sum(b0[m])
            if sorted(map(tuple, b0[nm][:a])) != sorted(map(tuple, b1[nm][:a])) or b0[nm][a:] != b1[nm][a:]:
                fails.append(f"iteration {i}: a batch draw changed the set of active {nm}-points or moved inactive slots")
        del R._VERIF_SINK[:]
        _, _, g = R.trigger_rar(i, loss, P, g, st, sf)
        jax.effects_barrier()
        b2 = snapshot(kind, g)
        if b2["J"] != b1["J"]:
            if len(R._VERIF_SINK) != 1:
                fails.append(f"iteration {i}: a step happened but the hook recorded {len(R._VERIF_SINK)} events")
                continue
            rec = R._VERIF_SINK[0]
            steps.append(dict(i=i, before=b1, after=b2, rec=[np.asarray(a).tolist() for a in rec[1:]], rkind=rec[0]))
            fails += residual_oracle(cfg, i, loss, P, rec)
    return steps, fails


def residual_oracle(cfg, i, loss, P, rec):
    """the numbers the step ranks by are the squared residuals of the current network at the candidates
    (sum of the squared components for a residual with several components), recomputed here point by point"""
    jax, jnp, np, eqx, jinns = jx()
    kind = cfg["kind"]
    if cfg.get("system"):        # a system of equations: the squared residuals of the equations add up
        sysloss = loss
        ev = lambda *a: jnp.concatenate([jnp.atleast_1d(d.evaluate(*a[:-2], sysloss.u_dict, a[-1])).ravel() for d in sysloss.dynamic_loss_dict.values()])
        loss = type("L", (), {"u": None})()
    else:
        ev = loss.dynamic_loss.evaluate
    sq = lambda r: float(np.sum(np.asarray(r, dtype=float).ravel() ** 2))
    close = lambda a, b: abs(a - b) <= 1e-9 * max(1.0, abs(a), abs(b))
    if kind in ("ode", "statio"):
        cand, mse = np.asarray(rec[1]), np.asarray(rec[2]).ravel()
        cand = cand[:, None] if cand.ndim == 1 else cand
        want = [sq(ev(jnp.asarray(c), loss.u, P)) for c in cand]
        bad = [k for k, (a, b) in enumerate(zip(mse.tolist(), want)) if not close(a, b)]
        if bad:
            k = bad[0]
            return [f"step at {i}: candidate {cand[k].tolist()} is ranked by {mse[k]}, its squared residual is {want[k]}"]
        return []
    ct, cx, M = np.asarray(rec[1]), np.asarray(rec[2]), np.asarray(rec[3])
    ct = ct[:, None] if ct.ndim == 1 else ct
    for a in range(ct.shape[0]):
        for b in range(cx.shape[0]):
            w = sq(ev(jnp.asarray(ct[a]), jnp.asarray(cx[b]), loss.u, P))
            if not close(float(M[a, b]), w):
                return [f"step at {i}: pair (t={ct[a].tolist()}, x={cx[b].tolist()}) is ranked by {M[a, b]}, its squared residual is {w}"]
    return []


def step_oracle(cfg, s):
    jax, jnp, np, eqx, jinns = jx()
    fails = []
    kind = cfg["kind"]
    b, a_, rec = s["before"], s["after"], s["rec"]
    dim = cfg.get("dim", 2)
    lo, hi = [0.0, -1.0][:dim], [1.0, 2.0][:dim]
    def frame(nm, m, start, sel, newpts):
        act = sum(b[m])
        if a_[nm][:act] != b[nm][:act]:
            fails.append(f"step at {s['i']}: an active {nm}-point was overwritten")
        if any(b[m][act:act + sel]):
            fails.append(f"step at {s['i']}: an active slot was written")
        if a_[nm][act:act + sel] != newpts:
            fails.append(f"step at {s['i']}: the chosen {nm}-points are not in slots [{act},{act + sel})")
        if a_[nm][act + sel:] != b[nm][act + sel:]:
            fails.append(f"step at {s['i']}: slots above the added {nm}-points changed")
        if not all(a_[m][:act + sel]) or any(a_[m][act + sel:]):
            fails.append(f"step at {s['i']}: active {nm}-mask is not the first {act + sel} slots")
    if kind in ("ode", "statio"):
        cand, mse, idx = rec
        cand = rows_of(np.asarray(cand)); mse = list(np.asarray(mse).ravel())
        sel = cfg["sel_t"] if kind == "ode" else cfg["sel_x"]
        rest = [m for k, m in enumerate(mse) if k not in idx]
        if any(not (0 <= k < len(mse)) for k in idx):
            return [f"step at {s['i']}: chosen indices {idx} do not all name one of the {len(mse)} candidates"]
        if len(idx) != sel or len(set(idx)) != sel or (rest and min(mse[k] for k in idx) < max(rest)):
            fails.append(f"step at {s['i']}: chosen candidates {idx} are not the {sel} largest squared residuals {mse}")
        for r in cand:
            if kind == "ode" and not (cfg.get("tmin", 0.0) <= r[0] <= cfg.get("tmin", 0.0) + 1.0) or kind == "statio" and not all(l <= v <= h for v, l, h in zip(r, lo, hi)):
                fails.append(f"step at {s['i']}: candidate {r} outside the domain")
        frame("t" if kind == "ode" else "x", "mt" if kind == "ode" else "mx", None, sel, [cand[k] for k in idx])
    else:
        ct, cx, mse, ti, xi = rec
        ct = rows_of(np.asarray(ct)); cx = rows_of(np.asarray(cx)); M = np.asarray(mse)
        flat = sorted(M.ravel().tolist(), reverse=True)
        if any(not (0 <= a1 < M.shape[0]) for a1 in ti) or any(not (0 <= b1 < M.shape[1]) for b1 in xi):
            return [f"step at {s['i']}: chosen indices (times {ti}, points {xi}) do not all name one of the {M.shape[0]} x {M.shape[1]} candidates"]
        for m, (a1, b1) in enumerate(zip(ti, xi)):
            if M[a1, b1] != flat[m]:
                fails.append(f"step at {s['i']}: pair number {m} chosen (t#{a1}, x#{b1}) is not the {m}-th largest space-time pair")
        if len(ti) != cfg["sel_t"] or len(xi) != cfg["sel_x"]:
            fails.append(f"step at {s['i']}: wrong number of chosen indices")
        for r in ct:
            if not (cfg.get("tmin", 0.0) <= r[0] <= cfg.get("tmin", 0.0) + 1.0):
                fails.append(f"candidate time {r} outside the domain")
        for r in cx:
            if not all(l <= v <= h for v, l, h in zip(r, lo, hi)):
                fails.append(f"candidate point {r} outside the domain")
        frame("t", "mt", None, cfg["sel_t"], [ct[k] for k in ti])
        frame("x", "mx", None, cfg["sel_x"], [cx[k] for k in xi])
    return fails[:4]


def case_term(cid, cfg, s):
    jax, jnp, np, eqx, jinns = jx()
    kind = cfg["kind"]
    pt, px = pars(cfg)
    b, a_, rec = s["before"], s["after"], s["rec"]
    R = lambda m: clist(m, lambda r: clist(r, cq))
    if kind in ("ode", "statio"):
        cand, mse, idx = rec
        cand = rows_of(np.asarray(cand)); mse = np.asarray(mse).ravel()
        order = np.argsort(mse, kind="stable").tolist()
        ct, cx = (cand, []) if kind == "ode" else ([], cand)
        cht, chx = (idx, []) if kind == "ode" else ([], idx)
        msev = mse.tolist()
    else:
        ct, cx, mse, ti, xi = rec
        ct = rows_of(np.asarray(ct)); cx = rows_of(np.asarray(cx)); M = np.asarray(mse)
        nsel = max(cfg["sel_t"], cfg["sel_x"])
        order = np.argsort(-M.ravel(), kind="stable")[:nsel].tolist()
        cht, chx, msev = ti, xi, M.ravel().tolist()
    return (f"mkcase {cnat(cid)} {cnat(KINDS.index(kind))} {pt} {px} {cz(b['J'])} {R(b['t'])} {R(b['x'])} {clist(b['mt'], cbool)} {clist(b['mx'], cbool)} "
            f"{R(ct)} {R(cx)} {clist(order, cnat)} {clist(msev, cq)} {clist(cht, cnat)} {clist(chx, cnat)} "
            f"{R(a_['t'])} {R(a_['x'])} {clist(a_['mt'], cbool)} {clist(a_['mx'], cbool)}")


def generate(tier, seed, casedir, variant):
    rng = random.Random(seed)
    cases, meta, viol, samples, dist = [], {}, [], [], {}
    nontrivial = set()
    per_kind = 5 if tier == "quick" else 25
    cid = 0
    nruns = 0
    for kind in KINDS:
        for j in range(per_kind):
            cfg = rand_cfg(rng, kind)
            cfg["start"] = rng.randint(0, 2); cfg["every"] = rng.randint(1, 2); cfg["iters"] = rng.randint(5, 9)
            if j % 2 == 0 and kind == "nonstatio":
                cfg["nt_start"], cfg["n_start"] = max(cfg["nt_start"], cfg["n_start"] + 2, cfg["sel_t"]), cfg["n_start"]
                cfg["nt"] = cfg["nt_start"] + 3 * cfg["sel_t"]
                if j % 4 == 0:       # the time store fills first while space still has room: refinement must stop there, nothing active is overwritten
                    cfg["start"], cfg["every"], cfg["iters"] = 0, 1, 8
                    cfg["n"] = cfg["n_start"] + 8 * cfg["sel_x"]
                else:                # ... and the other way round
                    cfg["start"], cfg["every"], cfg["iters"] = 0, 1, 8
                    cfg["n"] = cfg["n_start"] + 2 * cfg["sel_x"]; cfg["nt"] = cfg["nt_start"] + 8 * cfg["sel_t"]
            if j % 3 == 1:
                cfg["reinit_at"] = rng.randint(2, 4)
            if kind != "statio":
                cfg["tmin"] = [0.0, 0.5, -1.0, 2.0][j % 4]       # time domains that do not start at 0
            if kind != "nonstatio" and j % 2 == 1:
                cfg["vec"] = True                                 # residual with two components
            if kind != "nonstatio" and j % 5 == 0:
                cfg["scalar"] = True; cfg.pop("vec", None)      # the equation returns a bare number per point
            if j % 5 == 2 or (kind == "nonstatio" and j % 5 == 4):
                cfg["system"] = True; cfg.pop("vec", None)        # a system loss: two unknowns, two equations
            nruns += 1
            try:
                steps, fails = observe(cfg)
            except Exception as ex:
                viol.append({"detail": f"refinement raised {type(ex).__name__}: {str(ex)[:200]}", "case": cfg})
                continue
            for f in fails:
                viol.append({"detail": f, "case": cfg})
            for s in steps:
                cases.append(case_term(cid, cfg, s)); meta[cid] = dict(cfg, step_at=s["i"])
                for f in step_oracle(cfg, s):
                    viol.append({"detail": f, "case": dict(cfg, step_at=s["i"])})
                dist[kind] = dist.get(kind, 0) + 1
                if cfg.get("system"):
                    dist["system_loss"] = dist.get("system_loss", 0) + 1
                if cfg.get("vec"):
                    dist["vector_residual"] = dist.get("vector_residual", 0) + 1
                if kind == "nonstatio" and cfg["nt_start"] != cfg["n_start"]:
                    dist["unequal_starts"] = dist.get("unequal_starts", 0) + 1
                nontrivial.add((kind, cfg["seed"], s["i"]))
                if len(samples) < 2:
                    samples.append(dict(cfg, step_at=s["i"], chosen=s["rec"][-1], mse=s["rec"][-2] if kind != "nonstatio" else None))
                cid += 1
    write_cases(casedir, "C17", "R_C17", variant, cases, chunk=40)
    return dict(meta=meta, oracle_violations=viol, evaluations=len(cases), distinct_nontrivial=len(nontrivial),
                rule="random generators of the three kinds (1-D and 2-D, equal and unequal time/space starts, runs in which the time store or the space store fills first and refinement has to stop) stepped through trigger_rar with a batch draw before every iteration (a third of the runs calls init_rar again in the middle, as a resumed training does); one case per refinement step that happened (hook record + stores/masks before and after); all are non-trivial; distinct by (run, iteration)",
                samples=samples, distribution=dict(dist, runs=nruns), oracle_checks=len(cases) + nruns)


def replay(rep, casedir, variant):
    cfg = {k: v for k, v in rep["case"].items() if k != "step_at"}
    steps, fails = observe(cfg)
    viol = [{"detail": f, "case": cfg} for f in fails]
    cases = []
    for k, s in enumerate(steps):
        cases.append(case_term(k, cfg, s))
        viol += [{"detail": f, "case": cfg} for f in step_oracle(cfg, s)]
    write_cases(casedir, "C17", "R_C17", variant, cases)
    return dict(meta={k: cfg for k in range(len(cases))}, oracle_violations=viol, evaluations=len(cases), distinct_nontrivial=1, rule="replay", samples=[cfg])
