"""C07 harness: jinns.solve against the textbook loop (Python reference over the real loss and
optax) and against the Coq loop model on tokens; no fault injected, no early stop."""
import random
from common import write_cases, default_matches_known
import solvelib as S
matches_known = default_matches_known


def configs(tier, rng):
    out = []
    N = 14 if tier == "quick" else 70
    for j in range(N):
        kind = S.KINDS[j % 3]
        cfg = S.base_cfg(rng, kind)
        cfg["opt"] = S.OPTS[(j // 3) % 4]
        if j % 4 == 1:
            cfg["param_gen"] = True; cfg["obs_gen"] = True        # both auxiliary generators at once
        if j % 6 == 2:
            cfg["obs_gen"] = True; cfg["sharding"] = True; cfg["n"] = max(cfg["n"], 3)     # the obs_batch_sharding route (plain Python loop)
        if j % 5 == 4:
            cfg["resume"] = rng.randint(1, 4)
        if j % 7 == 3:
            cfg["n"] = 0 if j % 2 else 1
        out.append(cfg)
    return out


def run_all(cfgs, casedir, variant, prefix):
    cases, meta, viol, samples, dist = [], {}, [], [], {}
    nontrivial = set()
    for cid, cfg in enumerate(cfgs):
        try:
            ref, tok, fails = S.run_case(cfg)
        except Exception as ex:
            viol.append({"detail": f"solve or the reference loop raised {type(ex).__name__}: {str(ex)[:300]}", "case": cfg})
            continue
        import math
        for f in fails:
            viol.append({"detail": f, "case": cfg})
        if any(not math.isfinite(x) for x in ref["val_losses"]):
            # a criterion that is not a finite number has no image in the model's rational arithmetic: the run is compared
            # with the textbook loop only (direct oracle above), no Coq case is written
            dist["non_finite_validation_loss_oracle_only"] = dist.get("non_finite_validation_loss_oracle_only", 0) + 1
            continue
        cases.append(S.case_term(cid, cfg, ref, tok)); meta[cid] = cfg
        for k in ("kind", "opt"):
            dist[f"{k}={cfg[k]}"] = dist.get(f"{k}={cfg[k]}", 0) + 1
        for k in ("param_gen", "obs_gen", "resume", "validation", "inject"):
            if cfg.get(k):
                dist[k] = dist.get(k, 0) + 1
        dist["batch_divides_store" if cfg["nt"] % cfg["bs"] == 0 else "batch_does_not_divide"] = dist.get("batch_divides_store" if cfg["nt"] % cfg["bs"] == 0 else "batch_does_not_divide", 0) + 1
        if ref["executed"] >= 2:
            nontrivial.add(str(sorted((k, str(v)) for k, v in cfg.items())))
        if len(samples) < 3:
            samples.append(dict(cfg, executed=ref["executed"], loss_history_tokens=tok["o_hl"], first_losses=ref["losses"][:3]))
    write_cases(casedir, prefix, "R_solve", variant, cases, chunk=100)
    return dict(meta=meta, oracle_violations=viol, evaluations=len(cases), distinct_nontrivial=len(nontrivial), samples=samples,
                distribution=dist, oracle_checks=len(cases))


def generate(tier, seed, casedir, variant):
    rng = random.Random(seed)
    r = run_all(configs(tier, rng), casedir, variant, "C07")
    r["rule"] = ("random training programs: loss kind (ODE / stationary / non-stationary), optimizer (sgd, momentum, adam, clipped adam chain with a schedule), batch sizes that do and do not divide the store, "
                 "optional parameter / observation generators, tracked parameter, n_iter in 0..9, resumed runs; non-trivial = at least two iterations executed; distinct by configuration")
    return r


def replay(rep, casedir, variant):
    r = run_all([rep["case"]], casedir, variant, "C07")
    r["rule"] = "replay"
    return r
