"""Exact-arithmetic networks for the correspondence: polynomial PINNs (integer coefficients,
evaluated at dyadic points, so every intermediate is exact in binary64) and polynomial algebra
on {exponent tuple: coefficient} dicts."""
from common import jx


def pdiff(p, k):
    out = {}
    for es, c in p.items():
        if es[k] > 0:
            e2 = list(es); e2[k] -= 1
            out[tuple(e2)] = out.get(tuple(e2), 0) + c * es[k]
    return out


def peval(p, pt):
    tot = 0
    for es, c in p.items():
        term = c
        for i, e in enumerate(es):
            term = term * pt[i] ** e
        tot = tot + term
    return tot


def pmul(p, q):
    out = {}
    for a, c in p.items():
        for b, d in q.items():
            k = tuple(x + y for x, y in zip(a, b)); out[k] = out.get(k, 0) + c * d
    return out


def padd(p, q, s=1):
    out = dict(p)
    for k, v in q.items():
        out[k] = out.get(k, 0) + s * v
    return out


def prand(rng, nv, deg=2, nterms=3, lo=-3, hi=3):
    p = {}
    for _ in range(nterms):
        es = [0] * nv
        for _ in range(rng.randint(0, deg)):
            es[rng.randrange(nv)] += 1
        c = rng.randint(lo, hi)
        if c:
            p[tuple(es)] = p.get(tuple(es), 0) + c
    return {k: v for k, v in p.items() if v != 0}


_PNet = None


def PNetClass():
    global _PNet
    if _PNet is None:
        jax, jnp, np, eqx, jinns = jx()

        class PNet(eqx.Module):
            """mlp whose j-th output is the j-th polynomial of its input; `scale` is a trainable
            factor (so that nn_params is not empty), initialised to 1"""
            polys: tuple = eqx.field(static=True)
            scale: jax.Array

            def __call__(self, z):
                outs = []
                for p in self.polys:
                    v = 0.0 * self.scale
                    for es, c in p:
                        term = float(c) * jnp.ones(())
                        for i, e in enumerate(es):
                            if e:
                                term = term * z[i] ** e
                        v = v + term
                    outs.append(v * self.scale)
                return jnp.stack(outs)
        _PNet = PNet
    return _PNet


def mk(polys, eq_type, **kw):
    """PINN whose outputs are the given polynomials of its (concatenated) input"""
    from common import relax
    relax(60)          # long runs of distinct small networks: keep the number of live compiled functions bounded
    jax, jnp, np, eqx, jinns = jx()
    mlp = PNetClass()(tuple(tuple(sorted(p.items())) for p in polys), jnp.ones(()))
    return jinns.utils.PINN(mlp=mlp, slice_solution=kw.pop("slice_solution", jnp.s_[:]), eq_type=eq_type,
                            input_transform=kw.pop("input_transform", lambda i, p: i),
                            output_transform=kw.pop("output_transform", lambda i, o, p: o), **kw)
