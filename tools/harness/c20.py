"""C20 harness (direct checks on the implementation): every argument of evaluate / get_batch is
snapshotted and compared after the call; the call is repeated; eager, jit and value_and_grad
primal results are compared -- single losses with and without parameter / observation parts,
system losses with a parameter batch, every generator kind."""
import copy, random
from common import jx, write_cases, default_matches_known
import c03, c12, c13
from lossbuild import make_loss, make_batch, rand_base
matches_known = default_matches_known


def snap(tree):
    jax, jnp, np, eqx, jinns = jx()
    leaves, treedef = jax.tree_util.tree_flatten(tree, is_leaf=lambda x: x is None)
    return [None if l is None else (np.asarray(l).copy() if hasattr(l, "shape") or isinstance(l, (int, float, bool)) else l) for l in leaves], str(treedef)


def same(a, b):
    jax, jnp, np, eqx, jinns = jx()
    (la, ta), (lb, tb) = a, b
    if ta != tb or len(la) != len(lb):
        return False
    for x, y in zip(la, lb):
        if isinstance(x, np.ndarray) or isinstance(y, np.ndarray):
            if not (isinstance(x, np.ndarray) and isinstance(y, np.ndarray) and x.shape == y.shape and np.array_equal(x, y, equal_nan=True)):
                return False
        elif x is not y and x != y:
            return False
    return True


def close_tree(a, b, rtol=1e-12):
    jax, jnp, np, eqx, jinns = jx()
    la, lb = jax.tree_util.tree_leaves(a), jax.tree_util.tree_leaves(b)
    return len(la) == len(lb) and all(np.allclose(np.asarray(x), np.asarray(y), rtol=rtol, atol=1e-14) for x, y in zip(la, lb))


def check_loss(name, L, P, batch, case, jit_first=False):
    try:
        return _check_loss(name, L, P, batch, case, jit_first)
    except Exception as ex:
        return [{"detail": f"{name}: {'compiled evaluation first, then ' if jit_first else ''}repeated evaluations raised {type(ex).__name__}: {str(ex)[:200]}", "case": case}]


def _check_loss(name, L, P, batch, case, jit_first):
    jax, jnp, np, eqx, jinns = jx()
    fails = []
    if jit_first:       # all orders of evaluation: the compiled one may well be the first this process ever makes
        r0 = jax.jit(lambda p, b: L.evaluate(p, b))(P, batch)
    # mutable python containers reachable from the arguments are compared by content
    before = (snap(P), snap(batch), snap(L))
    dict_ids = copy.deepcopy(jax.tree_util.tree_map(lambda x: np.asarray(x).tolist() if hasattr(x, "shape") else x, getattr(P, "eq_params", None)))
    r1 = L.evaluate(P, batch)
    after = (snap(P), snap(batch), snap(L))
    for nm, b, a in zip(("parameters", "batch", "loss object"), before, after):
        if not same(b, a):
            fails.append(f"{name}: evaluate modified its {nm}")
    now = jax.tree_util.tree_map(lambda x: np.asarray(x).tolist() if hasattr(x, "shape") else x, getattr(P, "eq_params", None))
    if now != dict_ids:
        fails.append(f"{name}: evaluate modified the caller's eq_params dictionary")
    if jit_first and not close_tree(r0, r1):
        fails.append(f"{name}: the eager result after a compiled first evaluation differs from it")
    r2 = L.evaluate(P, batch)
    if not close_tree(r1, r2, 0.0):
        fails.append(f"{name}: two evaluations on the same arguments differ")
    rj = jax.jit(lambda p, b: L.evaluate(p, b))(P, batch)
    if not close_tree(r1, rj):
        fails.append(f"{name}: jit result differs from the eager one")
    # the loss object itself as a (flattened and rebuilt) argument of the compiled function, as jinns.solve passes it
    rl = eqx.filter_jit(lambda l, p, b: l.evaluate(p, b))(L, P, batch)
    if not close_tree(r1, rl):
        fails.append(f"{name}: the result with the loss object passed through jit as an argument differs from the eager one")
    (v, aux), _g = jax.value_and_grad(lambda p: L.evaluate(p, batch), has_aux=True)(P)
    if not close_tree(r1, (v, aux)):
        fails.append(f"{name}: value_and_grad primal differs from the eager result")
    return [{"detail": f, "case": case} for f in fails]


def check_generator(name, g, draw, case):
    jax, jnp, np, eqx, jinns = jx()
    fails = []
    before = snap(g)
    g1, b1 = draw(g)
    if not same(before, snap(g)):
        fails.append(f"{name}: get_batch modified the generator it was called on")
    g2, b2 = draw(g)
    if not (close_tree(b1, b2, 0.0) and same(snap(g1), snap(g2))):
        fails.append(f"{name}: two draws from the same generator state differ")
    gj, bj = jax.jit(lambda x: draw(x))(g)
    if not (close_tree(b1, bj, 0.0) and close_tree(jax.tree_util.tree_leaves(g1), jax.tree_util.tree_leaves(gj), 0.0)):
        fails.append(f"{name}: jitted get_batch differs from the eager one")
    return [{"detail": f, "case": case} for f in fails]


def generators(rng):
    jax, jnp, np, eqx, jinns = jx()
    k = lambda: jax.random.PRNGKey(rng.randrange(1 << 20))
    xs = jnp.arange(6, dtype=float)[:, None]
    return [
        ("DataGeneratorODE", jinns.data.DataGeneratorODE(k(), 7, 0.0, 1.0, 3)),
        ("CubicMeshPDEStatio", jinns.data.CubicMeshPDEStatio(key=k(), n=6, nb=8, omega_batch_size=2, omega_border_batch_size=2, dim=2, min_pts=(0.0, 0.0), max_pts=(1.0, 1.0))),
        ("CubicMeshPDENonStatio", jinns.data.CubicMeshPDENonStatio(key=k(), n=6, nb=None, nt=5, omega_batch_size=2, omega_border_batch_size=None, temporal_batch_size=2, dim=1,
                                                                    min_pts=(0.0,), max_pts=(1.0,), tmin=0.0, tmax=1.0)),
        ("DataGeneratorParameter", jinns.data.DataGeneratorParameter(k(), 6, 2, {"nu": (0.0, 1.0), "mu": (1.0, 2.0)})),
        ("DataGeneratorObservations", jinns.data.DataGeneratorObservations(k(), 2, xs, xs + 1.0, {"nu": xs + 2.0})),
        ("DataGeneratorObservationsMultiPINNs", jinns.data.DataGeneratorObservationsMultiPINNs(2, {"u": xs, "v": None}, {"u": xs + 1.0, "v": None}, key=k())),
    ]


def generate(tier, seed, casedir, variant):
    jax, jnp, np, eqx, jinns = jx()
    rng = random.Random(seed)
    viol, samples, dist = [], [], {}
    n_eval = 0
    N = 8 if tier == "quick" else 40
    # boundary terms first, and compiled first: Dirichlet and Neumann conditions in 1-D / 2-D, stationary or not (builders of C04)
    import c04
    for j in range(6 if tier == "quick" else 24):
        bc = c04.gen(rng)
        try:
            Lb, Pb, bb = c04.build(bc)
        except Exception as ex:
            viol.append({"detail": f"boundary loss could not be built: {type(ex).__name__}: {str(ex)[:200]}", "case": dict(what="boundary")}); continue
        viol += check_loss(f"loss with a boundary condition ({'stationary' if bc['statio'] else 'non-stationary'}, {bc['dim']}-D)", Lb, Pb, bb, dict(what="boundary", cfg=c04.jsonable(bc)), jit_first=True)
        n_eval += 1; dist["boundary_jit_first"] = dist.get("boundary_jit_first", 0) + 1
    # single losses with optional parts (builders of C03) and with parameter batches / observed parameters (C12)
    for j in range(N):
        cfg = c03.with_parts(rng, rand_base(rng, ["ode", "statio", "nonstatio"][j % 3]))
        u, P, L = make_loss(cfg)
        viol += check_loss(f"single loss ({cfg['kind']})", L, P, make_batch(cfg), dict(what="single", cfg=c03.jsonable(cfg)))
        n_eval += 1; dist["single_" + cfg["kind"]] = dist.get("single_" + cfg["kind"], 0) + 1
    for j in range(N):
        sub = rng.sample(c12.KEYS, rng.randint(1, 3))
        cfg = c12.gen(rng, ["ode", "statio"][j % 2], sub, rng.choice([[], ["b"], ["a", "b"], sub]), hetero=rng.random() < 0.5)
        viol += purity_c12(cfg)
        n_eval += 1; dist["single_with_param_batch"] = dist.get("single_with_param_batch", 0) + 1
    for j in range(N):
        cfg = c13.gen(rng, ["ode", "statio", "nonstatio"][j % 3])
        cfg["param_batch"] = True
        viol += purity_c13(cfg)
        n_eval += 1; dist["system_" + cfg["kind"]] = dist.get("system_" + cfg["kind"], 0) + 1
    for _ in range(2 if tier == "quick" else 6):
        for name, g in generators(rng):
            for h in range(rng.randint(0, 3)):
                g, _b = g.get_batch()
            viol += check_generator(name, g, lambda x: x.get_batch(), dict(what="generator", name=name))
            n_eval += 1; dist[name] = dist.get(name, 0) + 1
    # the library's default precision is 32 bits: fresh generators (whose cursor starts near the int32 maximum) are drawn
    # from eagerly and under jit in that mode too, with batch sizes leaving remainders 0, 1, 2 and 3
    with jax.enable_x64(False):
        for (n, b) in [(14, 4), (11, 3), (12, 4), (13, 4), (23, 7)] if tier == "quick" else [(n, b) for n in range(4, 24, 3) for b in (2, 3, 4, 7) if b <= n]:
            k = jax.random.PRNGKey(rng.randrange(1 << 20))
            xs = jnp.arange(n, dtype=jnp.float32)[:, None]
            for name, g in [("DataGeneratorODE (32-bit)", jinns.data.DataGeneratorODE(k, n, 0.0, 1.0, b)),
                            ("CubicMeshPDEStatio (32-bit)", jinns.data.CubicMeshPDEStatio(key=k, n=n, nb=None, omega_batch_size=b, omega_border_batch_size=None, dim=2, min_pts=(0.0, 0.0), max_pts=(1.0, 1.0))),
                            ("DataGeneratorObservations (32-bit)", jinns.data.DataGeneratorObservations(k, b, xs, xs + 1.0)),
                            ("DataGeneratorParameter (32-bit)", jinns.data.DataGeneratorParameter(k, n, b, {"nu": (0.0, 1.0)}))]:
                viol += check_generator(name, g, lambda x: x.get_batch(), dict(what="generator32", name=name, n=n, b=b))
                n_eval += 1; dist["32-bit generators"] = dist.get("32-bit generators", 0) + 1
    samples = [dict(what="single loss / system loss / generator", checks=["arguments bitwise unchanged", "repeatable", "eager = jit", "eager = value_and_grad primal"])]
    return dict(meta={}, oracle_violations=viol, evaluations=n_eval, distinct_nontrivial=n_eval, samples=samples, distribution=dist,
                rule="random single losses (every optional part on/off, parameter batches, observed parameters, heterogeneity), random systems with a parameter batch, six generator kinds after 0..3 earlier draws, and fresh generators in the library's default 32-bit mode for batch sizes leaving remainders 0..3; every argument (parameters, batch, loss object, generator) snapshotted bitwise before and after; repeated call; eager vs jit vs value_and_grad primal (relative tolerance 1e-12); all cases are non-trivial and distinct",
                oracle_checks=n_eval)


def purity_c12(cfg):
    jax, jnp, np, eqx, jinns = jx()
    import c12 as M
    cfg = dict(cfg, own_kind=None)      # value_and_grad below differentiates w.r.t. every leaf: float leaves only
    # rebuild the objects of c12.evaluate and run the purity checks on them
    terms, unchanged = M.evaluate(cfg)
    case = dict(what="c12", cfg=M.jsonable(cfg))
    out = [] if unchanged else [{"detail": "single loss with a parameter batch: evaluate modified the caller's parameters", "case": case}]
    u, P, L, batch, het = M.build(cfg)
    return out + check_loss(f"single loss ({cfg['kind']}) with a parameter batch" + (" and observed parameters" if (cfg.get("obs") or {}).get("eq") else ""), L, P, batch, case)


def purity_c13(cfg):
    jax, jnp, np, eqx, jinns = jx()
    import c13 as M
    n = len(cfg["pts"])
    # this check attaches a parameter batch of its own (one row per interior point): no border part (its rows are the facets'
    # points, another count) and none of the generator's own parameter batches
    cfg = dict(cfg, bc={k: None for k in cfg["ukeys"]}, pbatch=False)
    if cfg["kind"] != "ode":
        # the stationary normalisation term pairs sample j with parameter row j (DESIGN.md, C12 scope): same count, for
        # every stationary unknown (all of them in a stationary system, the stationary fields of a mixed one)
        st = set(cfg["ukeys"]) if cfg["kind"] == "statio" else set(cfg.get("statio_unknowns") or [])
        cfg = dict(cfg, norm={k: ([[0.25 * (i + 1)] for i in range(n)] if k in st else v) for k, v in cfg["norm"].items()})
    if len(cfg["ekeys"]) >= 2:
        # per-equation weights written in another key order than the equations, with distinct values
        cfg = dict(cfg, w=dict(cfg["w"], dyn_loss=("dict", {k: 1.0 + 0.5 * i for i, k in enumerate(reversed(cfg["ekeys"]))})))
    us, PD, L, batch, singles, obs = M.build(cfg)
    batch = jinns.data.append_param_batch(batch, {"junk": jnp.arange(n, dtype=float)[:, None] + 2.0})
    return check_loss(f"system loss ({cfg['kind']}) with a parameter batch", L, PD, batch, dict(what="system", cfg=M.jsonable(cfg)))


def replay(rep, casedir, variant):
    c = rep["case"]
    viol = []
    if c.get("what") == "system":
        cfg = c13.unjson(c["cfg"]); viol = purity_c13(cfg)
    elif c.get("what") == "single":
        cfg = c03.unjson(c["cfg"]); u, P, L = make_loss(cfg); viol = check_loss("single loss", L, P, make_batch(cfg), c)
    elif c.get("what") == "c12":
        viol = purity_c12(c12.unjson(c["cfg"]))
    elif c.get("what") == "boundary":
        import c04
        Lb, Pb, bb = c04.build(c04.unjson(c["cfg"])); viol = check_loss("loss with a boundary condition", Lb, Pb, bb, c, jit_first=True)
    else:
        rng = random.Random(0)
        for name, g in generators(rng):
            if name == c.get("name"):
                viol += check_generator(name, g, lambda x: x.get_batch(), c)
    return dict(meta={}, oracle_violations=viol, evaluations=1, distinct_nontrivial=1, rule="replay", samples=[c])
