"""C03 harness: (total, terms) returned by the three single losses on polynomial residual maps
against the Coq model of the dynamic term and of the total; linearity, permutation invariance
and the halves identity checked directly on the implementation."""
import random
from common import jx, cq, cnat, clist, write_cases, default_matches_known
from lossbuild import KINDS, rand_base, make_loss, make_batch, residual_polys, cpoly, cweight, nvars, dy, rand_dk
from poly import prand
matches_known = default_matches_known


def with_parts(rng, cfg):
    """switch optional parts on at random (their values are the business of C04 / C05)"""
    kind, dim = cfg["kind"], cfg["dim"]
    nv = nvars(kind, dim)
    nout = len(cfg["upolys"])
    if kind == "ode" and rng.random() < 0.5:
        cfg["ic"] = dict(t0=0.0, u0=[float(rng.randint(-2, 2)) for _ in range(nout)])
    if kind == "nonstatio" and rng.random() < 0.5:
        cfg["ic"] = dict(polys=[prand(rng, dim, 2, 2) or {(0,) * dim: 1} for _ in range(nout)])
    if kind != "ode" and rng.random() < 0.4:
        cfg["norm"] = dict(samples=[[dy(rng) for _ in range(dim)] for _ in range(rng.randint(1, 4))], L=2.0)
    if rng.random() < 0.4:
        n = len(cfg["batch"])
        cfg["obs"] = dict(inputs=[[dy(rng) for _ in range(nv)] for _ in range(n)], vals=[[float(rng.randint(-2, 2)) for _ in range(nout)] for _ in range(n)])
        if rng.random() < 0.6:       # observed rows of the parameter the equation reads: they belong to the observation term only
            cfg["obs"]["arows"] = [dy(rng, 2, 6) for _ in range(n)]
    cfg["dyn"] = rng.random() < 0.9
    if rng.random() < 0.12:       # a residual that vanishes identically on the batch: the dynamic term is exactly 0 (not NaN)
        cfg["res"] = [({(0,) * nv: 0}, 0) for _ in cfg["res"]]
    elif rng.random() < 0.1 and len(cfg["batch"]) >= 2:      # ... or on half of the batch (the residual is q(z) = z_0 - c, points with z_0 = c)
        c0 = cfg["batch"][0][0]
        for row in cfg["batch"][: len(cfg["batch"]) // 2]:
            row[0] = c0
        cfg["res"] = [({(1,) + (0,) * (nv - 1): 1, (0,) * nv: -c0}, 0) for _ in cfg["res"]]
    if rng.random() < 0.25 and not cfg.get("obs", {}).get("arows"):
        cfg["het_c"] = prand(rng, nv, 2, 2) or {(0,) * nv: 3}
        cfg["tmax"] = rng.choice([1.0, 2.0, 0.5, 3.0])
    if rng.random() < 0.25 and not cfg.get("reweight"):
        cfg["omit_unit_weights"] = True           # weights equal to 1 are left to their documented default
        if not isinstance(cfg["w_dyn"], list) and rng.random() < 0.5:
            cfg["w_dyn"] = 1.0; cfg["no_lw"] = True           # ... or no weight container is given at all
    if rng.random() < 0.3:
        cfg["dk"] = rand_dk(rng, kind)
        if rng.random() < 0.5:
            cfg["dk"]["dyn_loss"] = [False, False]       # nothing is differentiated through the dynamic term: its value is unchanged
    return cfg


def evaluate(cfg):
    jax, jnp, np, eqx, jinns = jx()
    u, P, L = make_loss(cfg)
    tot, terms = L.evaluate(P, make_batch(cfg))
    return float(tot), {k: float(v) for k, v in terms.items()}


def absent_terms(cfg):
    out = []
    if not cfg.get("dyn", True):
        out.append("dyn_loss")
    if not cfg.get("ic") and cfg["kind"] != "statio":
        out.append("initial_condition")
    if not cfg.get("norm") and cfg["kind"] != "ode":
        out.append("norm_loss")
    if cfg["kind"] != "ode":
        out.append("boundary_loss")
    if not cfg.get("obs"):
        out.append("observations")
    return out


def oracle(cfg, rng):
    """the three consequences, on the implementation (relative tolerance 1e-12)"""
    fails = []
    close = lambda a, b: abs(a - b) <= 1e-12 * (1 + abs(a) + abs(b))
    base = dict(cfg, dyn=True)
    for k in ("ic", "norm", "obs"):
        base.pop(k, None)
    d = lambda c: evaluate(c)[1]["dyn_loss"]
    w = base["w_dyn"]
    if isinstance(w, list):
        w2 = [float(rng.randint(0, 3)) for _ in w]; a, b = 2.0, 0.5
        lin = [a * x + b * y for x, y in zip(w, w2)]
    else:
        w2 = float(rng.randint(0, 3)); a, b = 2.0, 0.5
        lin = a * w + b * w2
    if not close(d(dict(base, w_dyn=lin)), a * d(base) + b * d(dict(base, w_dyn=w2))):
        fails.append("the dynamic term is not linear in its weight")
    perm = list(base["batch"]); rng.shuffle(perm)
    if not close(d(dict(base, batch=perm)), d(base)):
        fails.append("the dynamic term changes under a permutation of the batch")
    n = len(base["batch"])
    if n >= 2 and n % 2 == 0:
        h1, h2 = base["batch"][:n // 2], base["batch"][n // 2:]
        if not close(d(base), 0.5 * (d(dict(base, batch=h1)) + d(dict(base, batch=h2)))):
            fails.append("the dynamic term is not the average of its values on two equal halves")
    return fails


def case_term(cid, cfg, tot, terms):
    nv = nvars(cfg["kind"], cfg["dim"])
    keys = sorted(terms)
    absent = [terms[k] for k in absent_terms(cfg) if k in terms]
    return (f"mkcase {cnat(cid)} {cnat(nv)} {cweight(cfg['w_dyn'])} {clist(residual_polys(cfg), cpoly)} "
            f"{clist(cfg['batch'], lambda r: clist(r, cq))} {cq(terms['dyn_loss'] if cfg.get('dyn', True) else 0.0)} "
            f"{clist([terms[k] for k in keys], cq)} {clist(absent, cq)} {cq(tot)}")


def jsonable(c):
    pj = lambda p: [[list(k), v] for k, v in sorted(p.items())]
    out = dict(c, upolys=[pj(p) for p in c["upolys"]], res=[[pj(q), a] for q, a in c["res"]])
    if c.get("ic") and "polys" in c["ic"]:
        out["ic"] = dict(polys=[pj(p) for p in c["ic"]["polys"]])
    if c.get("het_c"):
        out["het_c"] = pj(c["het_c"])
    return out


def unjson(c):
    pu = lambda p: {tuple(k): v for k, v in p}
    out = dict(c, upolys=[pu(p) for p in c["upolys"]], res=[(pu(q), a) for q, a in c["res"]])
    if c.get("ic") and "polys" in c["ic"]:
        out["ic"] = dict(polys=[pu(p) for p in c["ic"]["polys"]])
    if c.get("het_c"):
        out["het_c"] = pu(c["het_c"])
    return out


def one(cid, cfg, rng, cases, meta, viol, do_oracle):
    tot, terms = evaluate(cfg)
    if not cfg.get("dyn", True):
        cfg = dict(cfg)  # the model's dynamic term is compared only when the part is configured
    cases.append(case_term(cid, dict(cfg, **({} if cfg.get("dyn", True) else {"res": [({(0,) * nvars(cfg["kind"], cfg["dim"]): 0}, 0)], "w_dyn": 1.0, "het_c": None})), tot, terms))
    meta[cid] = jsonable(cfg)
    for k in absent_terms(cfg):
        if k in terms and terms[k] != 0.0:
            viol.append({"detail": f"the term {k} is not configured but is {terms[k]} instead of 0", "case": jsonable(cfg)})
    if abs(tot - sum(terms.values())) > 1e-12 * (1 + abs(tot)):
        viol.append({"detail": f"total {tot} is not the sum of the returned terms {terms}", "case": jsonable(cfg)})
    if do_oracle:
        for f in oracle(cfg, rng):
            viol.append({"detail": f, "case": jsonable(cfg)})
    return terms


def generate(tier, seed, casedir, variant):
    rng = random.Random(seed)
    cases, meta, viol, samples, dist = [], {}, [], [], {}
    nontrivial = set()
    N = 45 if tier == "quick" else 300
    for cid in range(N):
        cfg = with_parts(rng, rand_base(rng, KINDS[cid % 3]))
        try:
            terms = one(cid, cfg, rng, cases, meta, viol, do_oracle=(cid % 3 == 0))
        except Exception as ex:
            viol.append({"detail": f"evaluate raised {type(ex).__name__}: {str(ex)[:200]}", "case": jsonable(cfg)})
            continue
        k = f"{cfg['kind']}_{'vecw' if isinstance(cfg['w_dyn'], list) else 'scalarw'}_{len(cfg['res'])}comp"
        dist[k] = dist.get(k, 0) + 1
        for p in ("ic", "norm", "obs", "dk", "omit_unit_weights", "no_lw", "het_c"):
            if cfg.get(p):
                dist[p] = dist.get(p, 0) + 1
        if terms.get("dyn_loss", 0.0) != 0.0 and len(cfg["batch"]) > 1:
            nontrivial.add(cid)
        if len(samples) < 3:
            samples.append(dict(jsonable(cfg), returned_terms=terms))
    write_cases(casedir, "C03", "R_C03", variant, cases, chunk=100)
    return dict(meta=meta, oracle_violations=viol, evaluations=len(cases), distinct_nontrivial=len(nontrivial), samples=samples, distribution=dist,
                rule="random polynomial residual maps with 1..3 components on polynomial networks, batches of 1..9 dyadic points, scalar and per-component weights, each optional part (initial condition, normalisation, observations, dynamic part itself) switched on or off, a third with non-default derivative keys (boolean trees, all-False ones included), for the ODE / stationary / non-stationary losses; non-trivial = non-zero dynamic term on more than one point; every third case also checks linearity, permutation invariance and the halves identity on the implementation",
                oracle_checks=N // 3)


def replay(rep, casedir, variant):
    cfg = unjson(rep["case"])
    cases, meta, viol = [], {}, []
    one(0, cfg, random.Random(0), cases, meta, viol, do_oracle=True)
    write_cases(casedir, "C03", "R_C03", variant, cases)
    return dict(meta=meta, oracle_violations=viol, evaluations=1, distinct_nontrivial=1, rule="replay", samples=[rep["case"]])
