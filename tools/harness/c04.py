"""C04 harness: boundary term of LossPDEStatio / LossPDENonStatio in 1-D and 2-D with polynomial
networks and non-zero polynomial boundary functions (scalar / (1,) / (k,) return shapes), global
and per-facet conditions, hand-built and generator-made border batches."""
import random
from common import jx, cq, cnat, cbool, clist, write_cases, default_matches_known
from lossbuild import dy, poly_jax, cpoly
from poly import mk, prand
matches_known = default_matches_known
FACETS = {1: ["xmin", "xmax"], 2: ["xmin", "xmax", "ymin", "ymax"]}


def gen(rng):
    statio = rng.random() < 0.5
    dim = rng.choice([1, 2])
    nv = dim + (0 if statio else 1)
    nout = rng.randint(1, 2)
    nf = 2 * dim
    cfg = dict(statio=statio, dim=dim, w=rng.randint(1, 6) / 2, upolys=[prand(rng, nv, 3, 4) or {(0,) * nv: 1} for _ in range(nout)])
    per_facet = rng.random() < 0.5
    cfg["per_facet"] = per_facet
    cfg["key_order"] = rng.sample(range(2 * dim), 2 * dim) if (per_facet and rng.random() < 0.6) else None
    cfg["int_dim"] = rng.random() < 0.6           # a single component may be named by its integer index (global or per facet)
    cfg["omit_full_dim"] = rng.random() < 0.5     # a selection of every component may be left out altogether (documented default)
    lo = rng.randrange(nout)
    neu_possible = True
    specs = []
    for fa in range(nf):
        if per_facet and rng.random() < 0.3:
            specs.append(None)
            continue
        neu = rng.random() < 0.5
        specs.append(dict(neu=neu))
    if not per_facet:
        neu = rng.random() < 0.5
        specs = [dict(neu=neu) for _ in range(nf)]
    if per_facet and all(s is None for s in specs):
        specs[0] = dict(neu=False)
    any_neu = any(s and s["neu"] for s in specs)
    # Neumann needs a scalar selection; a global dim_to_apply is shared by all facets
    if any_neu:
        hi = lo + 1
    else:
        hi = rng.randint(lo + 1, nout)
    cfg["lo"], cfg["hi"] = lo, hi
    k = hi - lo
    shape = rng.choice(["scalar", "array"]) if k == 1 else "array"
    for s in specs:
        if s is not None:
            s["scalar"] = (shape == "scalar") if not per_facet else (rng.random() < 0.5 if k == 1 else False)
            s["polys"] = [prand(rng, nv, 2, 3) or {(0,) * nv: 1} for _ in range(1 if s["scalar"] else k)]
    if not per_facet:
        for s in specs[1:]:
            s["scalar"], s["polys"] = specs[0]["scalar"], specs[0]["polys"]
    cfg["specs"] = specs
    # border points
    nt = 1 if statio else rng.randint(1, 3)
    if dim == 1:
        xs = [[[-1.0]], [[2.0]]]          # per facet: list of spatial points
    else:
        nb = rng.randint(1, 3)
        a0, b0, a1, b1 = -1.0, 2.0, 0.5, 1.5
        xs = [[[a0, dy(rng)] for _ in range(nb)], [[b0, dy(rng)] for _ in range(nb)], [[dy(rng), a1] for _ in range(nb)], [[dy(rng), b1] for _ in range(nb)]]
    ts = [dy(rng, 0, 4) for _ in range(nt)]
    # a hand-built batch may carry different times on different facets: every facet uses its own time column
    own_times = (not statio) and rng.random() < 0.5
    tsf = [[dy(rng, 0, 4) for _ in range(nt)] if own_times else ts for _ in range(nf)]
    cfg["points"] = [[([t] if not statio else []) + x for t in (tsf[fa] if not statio else [None]) for x in xs[fa]] for fa in range(nf)]
    return cfg


def build_and_eval(cfg):
    L, P, batch = build(cfg)
    tot, terms = L.evaluate(P, batch)
    return float(terms["boundary_loss"])


def build(cfg):
    jax, jnp, np, eqx, jinns = jx()
    from jinns.parameters import Params
    from jinns.data._Batchs import PDEStatioBatch, PDENonStatioBatch
    statio, dim = cfg["statio"], cfg["dim"]
    u = mk(cfg["upolys"], "statio_PDE" if statio else "nonstatio_PDE")
    P = Params(nn_params=u.init_params(), eq_params={})

    def mkf(s):
        def fun(*args):
            z = jnp.concatenate([jnp.atleast_1d(a) for a in args])
            vals = [poly_jax(p, z) for p in s["polys"]]
            return vals[0] * jnp.ones(()) if s["scalar"] else jnp.stack([v * jnp.ones(()) for v in vals])
        return fun
    names = FACETS[dim]
    specs = cfg["specs"]
    if cfg["per_facet"]:
        # the three per-facet dictionaries may be written in any key order: a condition goes with the facet it names
        order = cfg.get("key_order") or list(range(len(names)))
        pairs = [(names[i], specs[i]) for i in order]
        fun = {n: (mkf(s) if s else None) for n, s in pairs}
        cond = {n: (("von neumann" if s["neu"] else "dirichlet") if s else None) for n, s in pairs}
        bdim = {n: jnp.s_[cfg["lo"]:cfg["hi"]] for n, s in pairs}
        if cfg.get("int_dim") and cfg["hi"] - cfg["lo"] == 1:
            bdim = {n: int(cfg["lo"]) for n, s in pairs}
    else:
        fun = mkf(specs[0]); cond = "von neumann" if specs[0]["neu"] else "dirichlet"; bdim = jnp.s_[cfg["lo"]:cfg["hi"]]
        if cfg.get("int_dim") and cfg["hi"] - cfg["lo"] == 1:
            bdim = int(cfg["lo"])          # a single component may be selected by its integer index (0 included)
    kw = dict(omega_boundary_fun=fun, omega_boundary_condition=cond, omega_boundary_dim=bdim)
    if cfg.get("omit_full_dim") and cfg["lo"] == 0 and cfg["hi"] == len(cfg["upolys"]):
        del kw["omega_boundary_dim"]
    # (rows, coords, facets)
    pts = cfg["points"]
    arr = jnp.array([[[pts[fa][r][c] for fa in range(len(pts))] for c in range(len(pts[0][0]))] for r in range(len(pts[0]))])
    if statio:
        L = jinns.loss.LossPDEStatio(u=u, dynamic_loss=None, params=P, loss_weights=jinns.loss.LossWeightsPDEStatio(boundary_loss=cfg["w"]), **kw)
        batch = PDEStatioBatch(inside_batch=jnp.zeros((1, dim)), border_batch=arr)
    else:
        L = jinns.loss.LossPDENonStatio(u=u, dynamic_loss=None, params=P, loss_weights=jinns.loss.LossWeightsPDENonStatio(boundary_loss=cfg["w"]), **kw)
        batch = PDENonStatioBatch(times_x_inside_batch=jnp.zeros((1, dim + 1)), times_x_border_batch=arr)
    return L, P, batch


def generator_batch_case(rng):
    """border batch made by the real generators (checks the facet order end to end)"""
    jax, jnp, np, eqx, jinns = jx()
    cfg = gen(rng)
    while cfg["dim"] != 2:
        cfg = gen(rng)
    # boxes whose bounds all differ, with the larger upper bound on either axis
    lo, hi = rng.choice([((-1.0, 0.5), (2.0, 1.5)), ((-1.0, 0.5), (1.25, 3.0)), ((0.25, -2.0), (0.75, -1.0))])
    if not cfg["statio"] and rng.random() < 0.5:
        g = jinns.data.CubicMeshPDENonStatio(key=jax.random.PRNGKey(rng.randrange(1 << 20)), n=4, nb=8, nt=2, omega_batch_size=2, omega_border_batch_size=2,
                                             temporal_batch_size=2, dim=2, min_pts=lo, max_pts=hi, tmin=0.0, tmax=1.0, cartesian_product=False)
        g, b = g.get_batch()
        bb = np.asarray(b.times_x_border_batch)[:, 1:, :]
    else:
        g = jinns.data.CubicMeshPDEStatio(key=jax.random.PRNGKey(rng.randrange(1 << 20)), n=4, nb=8, omega_batch_size=2, omega_border_batch_size=2, dim=2,
                                          min_pts=lo, max_pts=hi)
        g, b = g.get_batch()
        bb = np.asarray(b.border_batch)   # (2, 2, 4)
    # the boundary term of facet k is taken on facet k: every generator-made point lies on the facet whose outward normal it gets
    fixed = [(0, lo[0]), (0, hi[0]), (1, lo[1]), (1, hi[1])]
    for fa, (ax, val) in enumerate(fixed):
        for r in range(bb.shape[0]):
            pt = bb[r, :, fa]
            if pt[ax] != val or not (lo[1 - ax] <= pt[1 - ax] <= hi[1 - ax]):
                cfg.setdefault("_facet_fails", []).append(f"generator-made border point {pt.tolist()} handed to facet {FACETS[2][fa]} of the box {lo}-{hi} does not lie on that facet")
    ts = [cfg["points"][0][0][0]] if not cfg["statio"] else [None]
    cfg["points"] = [[([t] if t is not None else []) + bb[r, :, fa].tolist() for t in ts for r in range(bb.shape[0])] for fa in range(4)]
    return cfg


def case_term(cid, cfg, obs):
    spec = lambda s: "None" if s is None else f"(Some ({cbool(s['neu'])}, {clist(s['polys'], cpoly)}, {cbool(s['scalar'])}))"
    pts = clist(cfg["points"], lambda f: clist(f, lambda r: clist(r, cq)))
    return (f"mkcase {cnat(cid)} {cbool(cfg['statio'])} {cnat(cfg['dim'])} {cq(cfg['w'])} {clist(cfg['upolys'], cpoly)} {cnat(cfg['lo'])} {cnat(cfg['hi'])} "
            f"{clist(cfg['specs'], spec)} {pts} {cq(obs)}")


def jsonable(c):
    pj = lambda p: [[list(k), v] for k, v in sorted(p.items())]
    return dict(c, upolys=[pj(p) for p in c["upolys"]], specs=[None if s is None else dict(s, polys=[pj(p) for p in s["polys"]]) for s in c["specs"]])


def unjson(c):
    pu = lambda p: {tuple(k): v for k, v in p}
    return dict(c, upolys=[pu(p) for p in c["upolys"]], specs=[None if s is None else dict(s, polys=[pu(p) for p in s["polys"]]) for s in c["specs"]])


def generate(tier, seed, casedir, variant):
    rng = random.Random(seed)
    cases, meta, viol, samples, dist = [], {}, [], [], {}
    nontrivial = set()
    N = 50 if tier == "quick" else 350
    for cid in range(N):
        cfg = generator_batch_case(rng) if cid % 10 == 9 else gen(rng)
        for f in cfg.pop("_facet_fails", [])[:2]:
            viol.append({"detail": f, "case": {"what": "generator-made border batch"}})
        try:
            obs = build_and_eval(cfg)
        except Exception as ex:
            viol.append({"detail": f"boundary term raised {type(ex).__name__}: {str(ex)[:200]}", "case": jsonable(cfg)})
            continue
        cases.append(case_term(cid, cfg, obs)); meta[cid] = jsonable(cfg)
        k = f"{'statio' if cfg['statio'] else 'nonstatio'}_{cfg['dim']}d_{'perfacet' if cfg['per_facet'] else 'global'}"
        dist[k] = dist.get(k, 0) + 1
        for s in cfg["specs"]:
            if s:
                kk = ("neumann" if s["neu"] else "dirichlet") + ("_scalar_f" if s["scalar"] else "_array_f")
                dist[kk] = dist.get(kk, 0) + 1
        if not cfg["statio"]:
            nt = len({tuple(r[:1]) for r in cfg["points"][0]})
            dist[f"time_points={nt}"] = dist.get(f"time_points={nt}", 0) + 1
        if obs != 0.0:
            nontrivial.add(cid)
        if len(samples) < 2:
            samples.append(dict(jsonable(cfg), returned=obs))
    write_cases(casedir, "C04", "R_C04", variant, cases, chunk=100)
    # the separable-network branches of the boundary functions against the pointwise ones (Dirichlet and Neumann, 2-D
    # stationary and 1-D non-stationary, 1 / 2 / 3 points per axis): oracle only
    import c11
    nsep = 3 if tier == "quick" else 9
    try:
        viol += [v for v in c11.impl_vs_impl(rng, nsep, terms_only=True) if any(w in v["detail"] for w in ("boundary", "Neumann", "neumann", "irichlet"))]
    except Exception as ex:
        viol.append({"detail": f"separable / pointwise boundary comparison raised {type(ex).__name__}: {str(ex)[:300]}", "case": {"what": "impl_vs_impl"}})
    dist["separable_vs_pointwise_rounds"] = nsep
    return dict(meta=meta, oracle_violations=viol, evaluations=len(cases), distinct_nontrivial=len(nontrivial), samples=samples, distribution=dist,
                rule="random (stationary / non-stationary, 1-D / 2-D) polynomial networks with 1..2 outputs, non-zero polynomial boundary functions returning a 0-d array, a (1,) array or a (k,) array, global or per-facet conditions (dictionaries written in any key order) with facets set to none, component selections (slices, or an integer index, 0 included), 1..3 time points (the same on every facet or different ones per facet), hand-built border batches on the box [-1,2]x[0.5,1.5] and (every tenth case) batches made by CubicMeshPDEStatio; non-trivial = non-zero term; plus separable-network against pointwise boundary terms (oracle only)",
                oracle_checks=0)


def replay(rep, casedir, variant):
    if rep["case"].get("what"):        # oracle-only cases (generator-made batches, separable-network comparisons) are regenerated from the seed of the run
        return generate("quick", rep.get("seed", 0), casedir, variant)
    cfg = unjson(rep["case"])
    obs = build_and_eval(cfg)
    write_cases(casedir, "C04", "R_C04", variant, [case_term(0, cfg, obs)])
    return dict(meta={0: rep["case"]}, oracle_violations=[], evaluations=1, distinct_nontrivial=1, rule="replay", samples=[rep["case"]])
