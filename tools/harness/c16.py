"""C16 harness: init_rar + trigger_rar stepped over iterations (and jinns.solve end states)
against the refinement machine of Model/M_rar.v; schedule and counts checked directly too."""
import random
from common import jx, cz, cnat, cbool, clist, write_cases, default_matches_known
from rarlib import KINDS, problem, generator, rand_cfg
matches_known = default_matches_known


def dpar(n, s, sel):
    return f"{{| dn := {cz(n)}; dstart := {cz(s)}; dsel := {cz(sel)} |}}"


def pars(cfg):
    k = cfg["kind"]
    pt = dpar(cfg["nt"], cfg["nt_start"], cfg["sel_t"]) if k != "statio" else dpar(0, 0, 1)
    px = dpar(cfg["n"], cfg["n_start"], cfg["sel_x"]) if k != "ode" else dpar(0, 0, 1)
    return pt, px


def observe(cfg):
    jax, jnp, np, eqx, jinns = jx()
    from jinns.solver._rar import init_rar, trigger_rar
    loss, P = problem(cfg["kind"], cfg.get("dim", 2))
    g = generator(cfg["kind"], cfg)
    g, st, sf = init_rar(g)
    obs = []
    for i in range(cfg["iters"]):
        if cfg.get("draw", True):
            g, _ = g.get_batch()
        before = int(g.rar_iter_nb)
        _, _, g = trigger_rar(i, loss, P, g, st, sf)
        mt = (np.asarray(g.p_times) != 0).tolist() if cfg["kind"] != "statio" else []
        mx = (np.asarray(g.p_omega) != 0).tolist() if cfg["kind"] != "ode" else []
        obs.append((int(g.rar_iter_nb) != before, int(g.rar_iter_nb), mt, mx))
    return obs


def expected_steps(cfg):
    caps = []
    if cfg["kind"] != "statio":
        caps.append((cfg["nt"] - cfg["nt_start"]) // cfg["sel_t"])
    if cfg["kind"] != "ode":
        caps.append((cfg["n"] - cfg["n_start"]) // cfg["sel_x"])
    cap = min(caps)
    out, J = [], 0
    for i in range(cfg["iters"]):
        s = i >= cfg["start"] and (i - cfg["start"]) % cfg["every"] == 0 and J < cap
        J += 1 if s else 0
        out.append((s, J))
    return out


def oracle(cfg, obs):
    fails = []
    exp = expected_steps(cfg)
    for i, ((s, J, mt, mx), (es, eJ)) in enumerate(zip(obs, exp)):
        if s != es:
            fails.append(f"iteration {i}: step {'happened' if s else 'did not happen'}, schedule start={cfg['start']} every={cfg['every']} says {'step' if es else 'no step'}")
        if cfg["kind"] != "statio" and (sum(mt) != cfg["nt_start"] + J * cfg["sel_t"] or sum(mt) > cfg["nt"]):
            fails.append(f"iteration {i}: {sum(mt)} active time points after {J} steps (nt_start={cfg['nt_start']}, sel={cfg['sel_t']}, nt={cfg['nt']})")
        if cfg["kind"] != "ode" and (sum(mx) != cfg["n_start"] + J * cfg["sel_x"] or sum(mx) > cfg["n"]):
            fails.append(f"iteration {i}: {sum(mx)} active space points after {J} steps (n_start={cfg['n_start']}, sel={cfg['sel_x']}, n={cfg['n']})")
    return fails[:4]


def case_term(cid, cfg, obs):
    pt, px = pars(cfg)
    o = clist(obs, lambda t: f"({cbool(t[0])}, {cz(t[1])}, {clist(t[2], cbool)}, {clist(t[3], cbool)})")
    return f"mkcase {cnat(cid)} {cnat(KINDS.index(cfg['kind']))} {cz(cfg['start'])} {cz(cfg['every'])} {pt} {px} {o}"


def solve_end_state(cfg):
    """the same schedule through the public jinns.solve: counts after n_iter iterations"""
    jax, jnp, np, eqx, jinns = jx()
    import optax
    loss, P = problem(cfg["kind"], cfg.get("dim", 2))
    g = generator(cfg["kind"], cfg)
    kw = {}
    if cfg.get("with_validation"):      # a validation module next to the refinement: the schedule is the same
        import jinns.validation
        kw["validation"] = jinns.validation.ValidationLoss(loss=loss, validation_data=generator(cfg["kind"], dict(cfg, seed=cfg["seed"] + 1)), call_every=2, early_stopping=False)
    out = jinns.solve(n_iter=cfg["iters"], init_params=P, data=g, loss=loss, optimizer=optax.sgd(0.0), verbose=False, **kw)
    g2 = out[3]
    J = int(g2.rar_iter_nb)
    at = int((np.asarray(g2.p_times) != 0).sum()) if cfg["kind"] != "statio" else None
    ax = int((np.asarray(g2.p_omega) != 0).sum()) if cfg["kind"] != "ode" else None
    return J, at, ax


def resumed_end_state(cfg, n1, n2):
    """two successive jinns.solve calls, the second one fed with the generator the first returned;
    in every call iteration numbers restart at 0 and init_rar re-arms the period counter"""
    jax, jnp, np, eqx, jinns = jx()
    import optax
    kind = cfg.get("kind", "ode")
    loss, P = problem(kind, cfg.get("dim", 2) if kind != "ode" else 1)
    g = generator(kind, cfg)
    out1 = jinns.solve(n_iter=n1, init_params=P, data=g, loss=loss, optimizer=optax.sgd(0.0), verbose=False)
    out2 = jinns.solve(n_iter=n2, init_params=out1[0], data=out1[3], loss=loss, optimizer=optax.sgd(0.0), verbose=False)
    g2 = out2[3]
    act_t = int((np.asarray(g2.p_times) != 0).sum()) if kind != "statio" else None
    act_x = int((np.asarray(g2.p_omega) != 0).sum()) if kind != "ode" else None
    return int(g2.rar_iter_nb), act_t, act_x


def generate(tier, seed, casedir, variant):
    rng = random.Random(seed)
    cases, meta, viol, samples, dist = [], {}, [], [], {}
    nontrivial = set()
    cfgs = []
    grid = [(s, e) for s in range(0, 5) for e in range(1, 5)]
    per_kind = 8 if tier == "quick" else 40
    for kind in KINDS:
        for j in range(per_kind):
            c = rand_cfg(rng, kind, small_store=(j % 3 == 0), skew={1: "space_ahead", 2: "time_ahead"}.get(j % 4) if kind == "nonstatio" else None)
            c["start"], c["every"] = grid[(j * 7 + KINDS.index(kind) * 3) % len(grid)] if tier == "quick" else grid[j % len(grid)]
            if kind == "nonstatio" and j % 4 == 3:
                # more points kept along an axis than candidates drawn along it (they are picked from the candidate grid)
                if j % 8 == 3:
                    c["sel_t"] = max(c["sel_t"], 2); c["cand_t"] = c["sel_t"] - 1; c["cand_x"] = max(c["cand_x"], c["sel_x"] + 1, c["sel_t"] + 1)
                else:
                    c["sel_x"] = max(c["sel_x"], 2); c["cand_x"] = c["sel_x"] - 1; c["cand_t"] = max(c["cand_t"], c["sel_t"] + 1, c["sel_x"] + 1)
                c["nt_start"], c["n_start"] = max(c["nt_start"], c["sel_t"]), max(c["n_start"], c["sel_x"])
                c["nt"] = c["nt_start"] + 3 * c["sel_t"]; c["n"] = c["n_start"] + 3 * c["sel_x"]
            cfgs.append(c)
    for cid, cfg in enumerate(cfgs):
        try:
            obs = observe(cfg)
        except Exception as ex:  # a supported configuration must not raise
            viol.append({"detail": f"trigger_rar raised {type(ex).__name__}: {str(ex)[:200]}", "case": cfg})
            continue
        cases.append(case_term(cid, cfg, obs)); meta[cid] = cfg
        for f in oracle(cfg, obs):
            viol.append({"detail": f, "case": cfg})
        nsteps = sum(1 for o in obs if o[0])
        key = f"{cfg['kind']}_{'capacity_hit' if nsteps < sum(1 for i in range(cfg['iters']) if i >= cfg['start'] and (i - cfg['start']) % cfg['every'] == 0) else 'room_left'}"
        dist[key] = dist.get(key, 0) + 1
        if nsteps >= 1:
            nontrivial.add((cfg["kind"], cfg["start"], cfg["every"], cfg["nt_start"], cfg["n_start"], cfg["sel_t"], cfg["sel_x"], cfg["nt"], cfg["n"]))
        if len(samples) < 3:
            samples.append(dict(cfg, steps_at=[i for i, o in enumerate(obs) if o[0]], active_after=[(sum(o[2]), sum(o[3])) for o in obs][-1]))
    # through jinns.solve
    nsolve = 3 if tier == "quick" else 12
    for j in range(nsolve):
        cfg = rand_cfg(rng, KINDS[j % 3]); cfg["iters"] = rng.randint(5, 9)
        cfg["with_validation"] = (j % 2 == 1) or (tier == "quick" and j == 0)
        J, at, ax = solve_end_state(cfg)
        eJ = expected_steps(cfg)[-1][1]
        ok = J == eJ and (at is None or at == cfg["nt_start"] + eJ * cfg["sel_t"]) and (ax is None or ax == cfg["n_start"] + eJ * cfg["sel_x"])
        dist["via_solve"] = dist.get("via_solve", 0) + 1
        if not ok:
            viol.append({"detail": f"jinns.solve({cfg['iters']} iterations): {J} steps, active (t,x)=({at},{ax}); schedule gives {eJ} steps", "case": dict(cfg, via="solve")})
    # resumed training: the schedule of every call is start + k * every in that call's own iteration numbers
    nres = 6 if tier == "quick" else 18
    for j in range(nres):
        c = rand_cfg(rng, KINDS[j % 3])
        c["start"], c["every"] = rng.randint(0, 1), rng.randint(2, 4)
        c["nt"] = c["nt_start"] + 12 * c["sel_t"]; c["n"] = c["n_start"] + 12 * c["sel_x"]
        n1 = c["start"] + c["every"] * rng.randint(1, 2) + rng.randint(1, c["every"] - 1) + 1        # the first call ends in the middle of a period
        n2 = c["start"] + c["every"] * rng.randint(1, 2) + 1
        sched = lambda n: sum(1 for i in range(n) if i >= c["start"] and (i - c["start"]) % c["every"] == 0)
        expJ = sched(n1) + sched(n2)
        exp_t = c["nt_start"] + expJ * c["sel_t"] if c["kind"] != "statio" else None
        exp_x = c["n_start"] + expJ * c["sel_x"] if c["kind"] != "ode" else None
        try:
            J, at, ax = resumed_end_state(c, n1, n2)
        except Exception as ex:
            viol.append({"detail": f"resumed run ({c['kind']}) raised {type(ex).__name__}: {str(ex)[:200]}", "case": dict(c, what="resumed", n1=n1, n2=n2)}); continue
        if (J, at, ax) != (expJ, exp_t, exp_x):
            viol.append({"detail": f"resumed run ({c['kind']}; {n1} then {n2} iterations, start={c['start']}, every={c['every']}): {J} steps, active time / space points {at} / {ax}, expected {expJ}, {exp_t} / {exp_x}",
                         "case": dict(c, what="resumed", n1=n1, n2=n2)})
        dist["resumed_runs"] = dist.get("resumed_runs", 0) + 1
    write_cases(casedir, "C16", "R_C16", variant, cases, chunk=60)
    return dict(meta=meta, oracle_violations=viol, evaluations=len(cases) + nsolve, distinct_nontrivial=len(nontrivial),
                rule="random (kind, start, every, initial/total counts, selected sizes) with every (start, every) in 0..4 x 1..4 visited; trigger_rar stepped 8-14 iterations with batch draws in between, plus end states of jinns.solve; non-trivial = at least one refinement step happened",
                samples=samples, distribution=dist, oracle_checks=len(cases) + nsolve)


def replay(rep, casedir, variant):
    cfg = rep["case"]
    viol = []
    if cfg.get("what") == "resumed":
        c = {k: v for k, v in cfg.items() if k not in ("what", "n1", "n2")}
        sched = lambda n: sum(1 for i in range(n) if i >= c["start"] and (i - c["start"]) % c["every"] == 0)
        expJ = sched(cfg["n1"]) + sched(cfg["n2"])
        exp_t = c["nt_start"] + expJ * c["sel_t"] if c["kind"] != "statio" else None
        exp_x = c["n_start"] + expJ * c["sel_x"] if c["kind"] != "ode" else None
        J, at, ax = resumed_end_state(c, cfg["n1"], cfg["n2"])
        if (J, at, ax) != (expJ, exp_t, exp_x):
            viol.append({"detail": f"resumed run: {J} steps, active {at} / {ax}, expected {expJ}, {exp_t} / {exp_x}", "case": cfg})
        return dict(meta={0: cfg}, oracle_violations=viol, evaluations=1, distinct_nontrivial=1, rule="replay", samples=[cfg])
    if cfg.get("via") == "solve":
        J, at, ax = solve_end_state(cfg); eJ = expected_steps(cfg)[-1][1]
        if J != eJ:
            viol.append({"detail": f"jinns.solve: {J} steps, schedule gives {eJ}", "case": cfg})
        return dict(meta={0: cfg}, oracle_violations=viol, evaluations=1, distinct_nontrivial=1, rule="replay", samples=[cfg])
    obs = observe(cfg)
    write_cases(casedir, "C16", "R_C16", variant, [case_term(0, cfg, obs)])
    return dict(meta={0: cfg}, oracle_violations=[{"detail": f, "case": cfg} for f in oracle(cfg, obs)], evaluations=1,
                distinct_nontrivial=1, rule="replay", samples=[cfg])
