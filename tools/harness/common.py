"""Shared helpers of the correspondence harness (runs under /venv/bin/python with PYTHONPATH=/repo)."""
import os, sys, warnings, json, random
os.environ.setdefault("JAX_PLATFORMS", "cpu")
warnings.filterwarnings("ignore")
import logging
logging.disable(logging.WARNING)
from fractions import Fraction

_jax = None


def jx():
    """lazy import of jax/jinns with x64 enabled"""
    global _jax
    if _jax is None:
        import jax
        jax.config.update("jax_enable_x64", True)
        import jax.numpy as jnp
        import numpy as np
        import equinox as eqx
        import jinns
        import jinns.validation
        _jax = (jax, jnp, np, eqx, jinns)
    return _jax


_relax_count = 0


def relax(every=40):
    """every `every` calls: drop jax's compilation caches (each compiled function holds memory mappings; a long run of
    distinct small networks otherwise runs into the per-process mapping limit: 'LLVM ERROR: Unable to allocate section memory')"""
    global _relax_count
    _relax_count += 1
    if _relax_count % every == 0:
        import gc
        jax = jx()[0]
        jax.clear_caches()
        gc.collect()


# ---- Coq literal writers -------------------------------------------------------
def cz(x):
    x = int(x)
    return f"({x})%Z" if x < 0 else f"{x}%Z"


def cnat(x):
    return f"{int(x)}%nat"


def cbool(x):
    return "true" if x else "false"


def clist(xs, f=str):
    return "[" + "; ".join(f(x) for x in xs) + "]"


def cq(x):
    """exact rational literal of a python float / int / Fraction as an element of QcF"""
    fr = Fraction(x) if not isinstance(x, Fraction) else x
    return f"(qq ({fr.numerator}) {fr.denominator})" if fr.numerator < 0 else f"(qq {fr.numerator} {fr.denominator})"


def write_cases(casedir, prefix, runner, variant, cases, chunk=400, preamble="", ctype="case", summary="summary"):
    """cases: list of Coq terms of type `case`; one file per chunk"""
    files = []
    for k in range(0, max(len(cases), 1), chunk):
        part = cases[k:k + chunk]
        if not part:
            break
        p = os.path.join(casedir, f"cases_{prefix}_{k // chunk}.v")
        with open(p, "w") as f:
            f.write("From Coq Require Import ZArith List Bool QArith Qcanon.\n")
            f.write(f"From JV Require Import Kit.Field Kit.GenTypes {variant}.{runner}.\nImport ListNotations.\n{preamble}\n")
            f.write(f"Definition cases : list {ctype} := [\n" + ";\n".join(part) + "\n].\n")
            f.write(f"Eval vm_compute in ({summary} cases).\n")
        files.append(p)
    return files


def default_matches_known(known, violation):
    """a known finding matches a violation when every key of its signature equals the case's value"""
    sig = known.get("signature", {})
    case = violation.get("case") or {}
    return bool(sig) and all(case.get(k) == v for k, v in sig.items())
