"""C14 harness: CubicMeshPDENonStatio.get_batch against the product/pairing model of the
three sub-batches drawn separately from the same generator state, over histories."""
import random


def flag_value(b, form):
    """the pairing / product switch is a truth value: a Python bool, a numpy bool or an integer 0 / 1 mean the same"""
    import numpy as np
    return {"bool": bool(b), "npbool": np.bool_(b), "int": int(b)}[form]
from common import jx, cq, cnat, cbool, clist, write_cases, default_matches_known
matches_known = default_matches_known


def build(cfg):
    jax, jnp, np, eqx, jinns = jx()
    d = cfg["dim"]
    return jinns.data.CubicMeshPDENonStatio(
        key=jax.random.PRNGKey(cfg["seed"]), n=cfg["n"], nb=cfg["nb"], nt=cfg["nt"],
        omega_batch_size=cfg["bx"], omega_border_batch_size=cfg["bb"], temporal_batch_size=cfg["bt"],
        dim=d, min_pts=tuple([-1.0, 0.5][:d]), max_pts=tuple([2.0, 1.5][:d]), tmin=0.0, tmax=3.0,
        method=cfg["method"], cartesian_product=flag_value(cfg["cartesian"], cfg.get("flag_form", "bool")))


def observe(cfg):
    jax, jnp, np, eqx, jinns = jx()
    g = build(cfg)
    for _ in range(cfg["history"]):
        g, _b = g.get_batch()
    g1, x = g.inside_batch()
    g2, dx = g1.border_batch()
    g3, t = g2.temporal_batch()
    _, batch = g.get_batch()
    return dict(t=np.asarray(t).tolist(), x=np.asarray(x).tolist(),
                dx=None if dx is None else np.asarray(dx).tolist(),
                inside=np.asarray(batch.times_x_inside_batch).tolist(),
                border=None if batch.times_x_border_batch is None else np.asarray(batch.times_x_border_batch).tolist(),
                times_store=np.asarray(g.times).tolist(), omega_store=np.asarray(g.omega).tolist())


def oracle(cfg, ob):
    """the property read directly off the returned batch"""
    fails = []
    ins = ob["inside"]
    nt, nx = cfg["bt"], cfg["bx"]
    if cfg["cartesian"]:
        if len(ins) != nt * nx:
            return [f"interior batch has {len(ins)} rows, expected {nt * nx}"]
        for i in range(nt):
            for j in range(nx):
                r = ins[i * nx + j]
                if r[0] != ins[i * nx][0] or r[1:] != ins[j][1:]:
                    fails.append(f"row {i * nx + j} is not (t_{i}, x_{j})")
        pairs = {tuple(r) for r in ins}
        if len(pairs) != len(ins):
            fails.append("a (t, x) pair appears twice")
    else:
        if len(ins) != nt:
            fails.append(f"interior batch has {len(ins)} rows, expected {nt}")
    ts = set(ob["times_store"]); xs = {tuple(r) for r in ob["omega_store"]}
    for r in ins:
        if r[0] not in ts or tuple(r[1:]) not in xs:
            fails.append("column 0 is not a stored time or columns 1.. are not a stored point")
            break
    if ob["border"] is not None:
        bd = ob["border"]; dx = ob["dx"]
        nf = len(dx[0][0]); nb = len(dx)
        prod = cfg["cartesian"] or cfg["dim"] == 1
        exp_rows = nt * nb if prod else nt
        if len(bd) != exp_rows:
            fails.append(f"border batch has {len(bd)} rows, expected {exp_rows}")
        else:
            for f in range(nf):
                for k, row in enumerate(bd):
                    i, j = (k // nb, k % nb) if prod else (k, k)
                    if row[0][f] not in ts or [c[f] for c in row[1:]] != [c[f] for c in dx[j]] or row[0][f] != bd[i * nb if prod else i][0][0]:
                        fails.append(f"facet {f}, row {k}: not (t_{i}, dx_{j})")
                        break
    return fails


def case_term(cid, cfg, ob):
    q = cq
    rows = lambda m: clist(m, lambda r: clist(r, q))
    mats = lambda m: clist(m, lambda r: clist(r, lambda c: clist(c, q)))
    return (f"mkcase {cnat(cid)} {cbool(cfg['cartesian'])} {cbool(cfg['dim'] == 1)} {clist(ob['t'], q)} {rows(ob['x'])} "
            f"{mats(ob['dx'] or [])} {rows(ob['inside'])} {mats(ob['border'] or [])}")


def configs(tier, rng):
    out = []
    N = 60 if tier == "quick" else 400
    while len(out) < N:
        dim = rng.choice([1, 2])
        cart = rng.random() < 0.6
        border = rng.random() < 0.7
        bt = rng.randint(1, 4)
        bx = rng.randint(1, 4) if cart else bt
        if dim == 1:
            bb, nb = (2, 2) if border else (None, None)
        else:
            bb = (rng.randint(1, 3) if cart else bt) if border else None
            nb = 4 * rng.randint(bb, bb + 2) if border else None
        out.append(dict(flag_form=["bool", "bool", "npbool", "int"][len(out) % 4], dim=dim, cartesian=cart, bt=bt, bx=bx, bb=bb, nb=nb, nt=rng.randint(bt, bt + 4), n=rng.randint(bx, bx + 5),
                        method=rng.choice(["uniform", "uniform", "grid"]) if dim == 1 else "uniform",
                        history=rng.randint(0, 5), seed=rng.randrange(1 << 30)))
    return out


def generate(tier, seed, casedir, variant):
    rng = random.Random(seed)
    cases, meta, viol, samples, dist = [], {}, [], [], {}
    nontrivial = set()
    for cid, cfg in enumerate(configs(tier, rng)):
        ob = observe(cfg)
        cases.append(case_term(cid, cfg, ob))
        meta[cid] = cfg
        for f in oracle(cfg, ob):
            viol.append({"detail": f, "case": cfg})
        key = f"dim{cfg['dim']}_{'cart' if cfg['cartesian'] else 'pair'}_{'border' if cfg['bb'] else 'noborder'}"
        dist[key] = dist.get(key, 0) + 1
        if cfg["bt"] > 1 and cfg["bx"] > 1:
            nontrivial.add((cfg["dim"], cfg["cartesian"], cfg["bt"], cfg["bx"], cfg["bb"], cfg["history"]))
        if len(samples) < 3:
            samples.append(dict(cfg, inside=ob["inside"][:4]))
    # large products (the row order must not depend on the size of the product): oracle only
    big = [dict(flag_form="bool", dim=1, cartesian=True, bt=128, bx=128, bb=2, nb=2, nt=130, n=131, method="uniform", history=0, seed=rng.randrange(1 << 30)),
           dict(flag_form="bool", dim=2, cartesian=True, bt=150, bx=3, bb=128, nb=4 * 129, nt=151, n=5, method="uniform", history=1, seed=rng.randrange(1 << 30))]
    for cfg in big:
        try:
            ob = observe(cfg)
            for f in oracle(cfg, ob)[:3]:
                viol.append({"detail": f"large product ({cfg['bt']} x {cfg['bx']}, border {cfg['bb']}): " + f, "case": cfg})
        except Exception as ex:
            viol.append({"detail": f"large product raised {type(ex).__name__}: {str(ex)[:200]}", "case": cfg})
        dist["large_product"] = dist.get("large_product", 0) + 1
    write_cases(casedir, "C14", "R_C14", variant, cases, chunk=100)
    return dict(meta=meta, oracle_violations=viol, evaluations=len(cases), distinct_nontrivial=len(nontrivial),
                rule="random (dim, option, batch sizes, border present, history length) configurations, plus products of more than 16000 rows (oracle only); non-trivial = at least 2 times and 2 points; distinct by configuration",
                samples=samples, distribution=dist, oracle_checks=len(cases))


def replay(rep, casedir, variant):
    cfg = rep["case"]
    ob = observe(cfg)
    write_cases(casedir, "C14", "R_C14", variant, [case_term(0, cfg, ob)])
    return dict(meta={0: cfg}, oracle_violations=[{"detail": f, "case": cfg} for f in oracle(cfg, ob)], evaluations=1,
                distinct_nontrivial=1, rule="replay", samples=[cfg])
