"""C08 harness: every generator kind on negative / non-unit boxes, uniform and grid sampling,
dimensions 1..3; stored counts, shapes, domain membership of stores and of every batch over
histories across reshuffles; border points against the regenerated facet table."""
import random
from fractions import Fraction
from common import jx, cnat, clist, write_cases, default_matches_known
matches_known = default_matches_known


def qq(x):
    fr = Fraction(float(x))
    return f"({fr.numerator} # {fr.denominator})"


def box(rng, dim):
    mins = [rng.choice([-2.0, -0.5, 0.0, 0.1, 1.0]) for _ in range(dim)]
    maxs = [m + rng.choice([0.25, 0.8, 1.0, 3.0]) for m in mins]
    return mins, maxs


def check_batches(g, kind, mins, maxs, tmin, tmax, ncalls, cfg, fails):
    """shapes and membership of every returned batch, through reshuffles"""
    jax, jnp, np, eqx, jinns = jx()
    store_t = {float(x) for x in np.asarray(g.times).ravel()} if hasattr(g, "times") else None
    store_x = {tuple(r) for r in np.asarray(g.omega).tolist()} if hasattr(g, "omega") else None
    for k in range(ncalls):
        g, b = g.get_batch()
        if kind == "ode":
            tb = np.asarray(b.temporal_batch)
            if tb.shape != (cfg["bt"],) or any(float(t) not in store_t for t in tb):
                fails.append(f"call {k}: temporal batch of shape {tb.shape} or with a point outside the store")
        elif kind == "statio":
            ib = np.asarray(b.inside_batch)
            if ib.shape != (cfg["bx"], cfg["dim"]) or any(tuple(r) not in store_x for r in ib.tolist()):
                fails.append(f"call {k}: inside batch of shape {ib.shape} or with a point outside the store")
            if b.border_batch is not None:
                bb = np.asarray(b.border_batch)
                exp = (1, 1, 2) if cfg["dim"] == 1 else (cfg["bb"], 2, 4)
                if bb.shape != exp:
                    fails.append(f"call {k}: border batch of shape {bb.shape}, expected {exp}")
                if cfg["dim"] == 1 and bb.ravel().tolist() != [mins[0], maxs[0]]:
                    fails.append(f"call {k}: 1-D border is {bb.ravel().tolist()}, not [xmin, xmax]")
                if cfg["dim"] == 2:
                    for f, (pc, bound) in enumerate([(0, mins[0]), (0, maxs[0]), (1, mins[1]), (1, maxs[1])]):
                        col = bb[:, pc, f]; other = bb[:, 1 - pc, f]
                        if not np.all(col == bound) or not np.all((other >= mins[1 - pc]) & (other <= maxs[1 - pc])):
                            fails.append(f"call {k}: border points of facet {f} are not on it")
        else:
            tx = np.asarray(b.times_x_inside_batch)
            n_exp = cfg["bt"] if cfg.get("pairing") else cfg["bt"] * cfg["bx"]
            if tx.shape != (n_exp, 1 + cfg["dim"]) or any(float(t) not in store_t for t in tx[:, 0]) or any(tuple(r) not in store_x for r in tx[:, 1:].tolist()):
                fails.append(f"call {k}: space-time batch of shape {tx.shape} or with a point outside the stores")
            if not (np.all(tx[:, 0] >= tmin) and np.all(tx[:, 0] <= tmax)):
                fails.append(f"call {k}: a time outside [tmin, tmax]")
    return g


def one(rng, cid, cases, viol, dist, samples):
    jax, jnp, np, eqx, jinns = jx()
    kind = rng.choice(["ode", "statio", "statio", "nonstatio"])
    method = rng.choice(["uniform", "grid"])
    key = jax.random.PRNGKey(rng.randrange(1 << 30))
    fails = []
    tmin = rng.choice([-1.0, 0.0, 0.3]); tmax = tmin + rng.choice([0.5, 1.0, 7.0])
    cfg = dict(kind=kind, method=method)
    # a third of the generators is configured for residual-adaptive refinement (pre-allocated store, part of it active):
    # the whole store and every batch must still lie in the domain
    use_rar = rng.random() < 0.35
    cfg["rar"] = use_rar
    try:
        if kind == "ode":
            nt = rng.choice([1, 5, 7, 49, 12]); bt = rng.randint(1, min(nt, 4))
            cfg.update(nt=nt, bt=bt, tmin=tmin, tmax=tmax)
            if use_rar and nt >= 5:
                bt = min(bt, 2); cfg["bt"] = bt
                g = jinns.data.DataGeneratorODE(key, nt, tmin, tmax, bt, method, rar_parameters={"start_iter": 0, "update_every": 1, "sample_size_times": 3, "selected_sample_size_times": 1},
                                                nt_start=max(bt, nt // 2))
            else:
                g = jinns.data.DataGeneratorODE(key, nt, tmin, tmax, bt, method)
            st = np.asarray(g.times)
            if st.shape != (nt,):
                fails.append(f"{st.shape[0]} time points stored, {nt} requested")
            if not (np.all(st >= tmin) and np.all(st <= tmax)):
                fails.append("a stored time lies outside [tmin, tmax]")
            if method == "grid":
                cases.append(f"GridCase {cnat(cid)} {qq(tmin)} {qq(tmax)} {cnat(nt)} {clist(st.tolist(), qq)}")
            else:
                cases.append(f"BoxCase {cnat(cid)} [{qq(tmin)}] [{qq(tmax)}] {cnat(nt)} {clist(st.tolist(), lambda x: '[' + qq(x) + ']')}")
            check_batches(g, kind, None, None, tmin, tmax, 2 * (-(-nt // bt)) + 1, cfg, fails)
        else:
            dim = rng.choice([1, 2, 2, 3]) if kind == "statio" else rng.choice([1, 2])
            mins, maxs = box(rng, dim)
            side = rng.choice([2, 3, 7, 15])
            n = side ** dim if method == "grid" else rng.choice([4, 9, 10])
            bx = rng.randint(1, min(n, 3))
            border = dim <= 2 and rng.random() < 0.7
            bb = (2 if dim == 1 else rng.randint(1, 2)) if border else None
            nb = (2 if dim == 1 else 4 * rng.randint(bb, bb + 2)) if border else None
            cfg.update(dim=dim, n=n, bx=bx, bb=bb, nb=nb, mins=mins, maxs=maxs)
            if kind == "statio":
                g = jinns.data.CubicMeshPDEStatio(key=key, n=n, nb=nb, omega_batch_size=bx, omega_border_batch_size=bb, dim=dim, min_pts=tuple(mins), max_pts=tuple(maxs), method=method)
            else:
                nt = rng.choice([3, 5, 49]); bt = rng.randint(1, 3)
                cfg.update(nt=nt, bt=bt, tmin=tmin, tmax=tmax)
                rkw = {}
                pairing = (not use_rar) and rng.random() < 0.4
                if pairing:
                    bt = bx; cfg.update(bt=bt, pairing=True); rkw = dict(cartesian_product=False)
                if use_rar and nt >= 5 and n >= 4:
                    bt = min(bt, 2); bx = min(bx, 2); cfg.update(bt=bt, bx=bx)
                    rkw = dict(rar_parameters={"start_iter": 0, "update_every": 1, "sample_size_times": 3, "selected_sample_size_times": 1,
                                               "sample_size_omega": 3, "selected_sample_size_omega": 1}, n_start=max(bx, n // 2), nt_start=max(bt, nt // 2))
                g = jinns.data.CubicMeshPDENonStatio(key=key, n=n, nb=None, nt=nt, omega_batch_size=bx, omega_border_batch_size=None, temporal_batch_size=bt, dim=dim,
                                                     min_pts=tuple(mins), max_pts=tuple(maxs), tmin=tmin, tmax=tmax, method=method, **rkw)
                st = np.asarray(g.times)
                if st.shape != (nt,) or not (np.all(st >= tmin) and np.all(st <= tmax)):
                    fails.append(f"times store of shape {st.shape} or outside [tmin, tmax]")
                if method == "grid":
                    cases.append(f"GridCase {cnat(cid)} {qq(tmin)} {qq(tmax)} {cnat(nt)} {clist(st.tolist(), qq)}")
            om = np.asarray(g.omega)
            if om.shape != (n, dim):
                fails.append(f"omega store of shape {om.shape}, expected {(n, dim)}")
            cases.append(f"BoxCase {cnat(cid + 100000)} {clist(mins, qq)} {clist(maxs, qq)} {cnat(n)} {clist(om.tolist(), lambda r: clist(r, qq))}")
            if method == "grid" and dim == 1:
                cases.append(f"GridCase {cnat(cid + 200000)} {qq(mins[0])} {qq(maxs[0])} {cnat(n)} {clist(om[:, 0].tolist(), qq)}")
            if border and dim == 2 and kind == "statio":
                ob = np.asarray(g.omega_border)      # (nb/4, 2, 4)
                if ob.shape != (nb // 4, 2, 4):
                    fails.append(f"border store of shape {ob.shape}")
                cases.append(f"BorderCase {cnat(cid + 300000)} {clist(mins, qq)} {clist(maxs, qq)} {clist(range(4), lambda f: clist(ob[:, :, f].tolist(), lambda r: clist(r, qq)))}")
            check_batches(g, kind, mins, maxs, tmin, tmax, 2 * (-(-n // bx)) + 1, cfg, fails)
    except Exception as ex:
        fails.append(f"generator raised {type(ex).__name__}: {str(ex)[:200]}")
    for f in fails[:3]:
        viol.append({"detail": f, "case": cfg})
    k = f"{kind}_{method}_dim{cfg.get('dim', 1)}"
    dist[k] = dist.get(k, 0) + 1
    if cfg.get("rar") and "fori" not in k:
        dist["configured_for_refinement"] = dist.get("configured_for_refinement", 0) + 1
    if len(samples) < 3:
        samples.append(cfg)
    return cfg


def generate(tier, seed, casedir, variant):
    rng = random.Random(seed)
    cases, viol, samples, dist = [], [], [], {}
    N = 40 if tier == "quick" else 300
    metas = {}
    for cid in range(N):
        cfg = one(rng, cid, cases, viol, dist, samples)
        for off in (0, 100000, 200000, 300000):
            metas[cid + off] = cfg
    # the input that used to raise (fixed: 38a771e) is always exercised
    jax, jnp, np, eqx, jinns = jx()
    try:
        g = jinns.data.CubicMeshPDEStatio(key=jax.random.PRNGKey(0), n=225, nb=None, omega_batch_size=2, omega_border_batch_size=None, dim=2, min_pts=(0.1, 0.2), max_pts=(0.9, 1.3), method="grid")
        if g.omega.shape != (225, 2):
            viol.append({"detail": f"grid n=225 on [0.1,0.9]x[0.2,1.3] stores {g.omega.shape}", "case": {"what": "grid225"}})
    except Exception as ex:
        viol.append({"detail": f"grid n=225 on [0.1,0.9]x[0.2,1.3] raised {type(ex).__name__}", "case": {"what": "grid225"}})
    try:
        g = jinns.data.DataGeneratorODE(jax.random.PRNGKey(0), 49, 0.0, 1.0, 7, "grid")
        if g.times.shape != (49,):
            viol.append({"detail": f"grid nt=49 on [0,1] stores {g.times.shape[0]} points", "case": {"what": "grid49"}})
    except Exception as ex:
        viol.append({"detail": f"grid nt=49 raised {type(ex).__name__}", "case": {"what": "grid49"}})
    # the 1-D border is exactly the pair of declared end points (end points that binary32 cannot represent included),
    # in the store and in every batch, for the stationary and the non-stationary generator
    for (a, b) in [(0.1, 0.9), (-0.3, 1.1), (-2.0, 0.5)]:
        try:
            gs = jinns.data.CubicMeshPDEStatio(key=jax.random.PRNGKey(1), n=5, nb=2, omega_batch_size=2, omega_border_batch_size=2, dim=1, min_pts=(a,), max_pts=(b,))
            gn = jinns.data.CubicMeshPDENonStatio(key=jax.random.PRNGKey(2), n=5, nb=2, nt=4, omega_batch_size=2, omega_border_batch_size=2, temporal_batch_size=2, dim=1,
                                                  min_pts=(a,), max_pts=(b,), tmin=0.0, tmax=1.0)
            for nm, g in (("stationary", gs), ("non-stationary", gn)):
                if np.asarray(g.omega_border).ravel().tolist() != [a, b]:
                    viol.append({"detail": f"{nm} 1-D border store is {np.asarray(g.omega_border).ravel().tolist()}, declared end points [{a}, {b}]", "case": {"what": "border1d", "a": a, "b": b}})
                for k in range(3):
                    g, bt = g.get_batch()
                    ends = np.asarray(bt.border_batch).ravel().tolist() if nm == "stationary" else sorted(set(np.asarray(bt.times_x_border_batch)[:, 1, :].ravel().tolist()))
                    if ends != [a, b]:
                        viol.append({"detail": f"{nm} 1-D border batch {k} holds {ends}, declared end points [{a}, {b}]", "case": {"what": "border1d", "a": a, "b": b}}); break
            dist["border_1d_end_points"] = dist.get("border_1d_end_points", 0) + 2
        except Exception as ex:
            viol.append({"detail": f"1-D border on [{a}, {b}] raised {type(ex).__name__}: {str(ex)[:150]}", "case": {"what": "border1d", "a": a, "b": b}})
    write_cases(casedir, "C08", "R_C08", variant, cases, chunk=60,
                preamble="Open Scope Q_scope.")
    return dict(meta=metas, oracle_violations=viol, evaluations=len(cases), distinct_nontrivial=N, samples=samples, distribution=dist,
                rule="random generators (ODE / stationary in dimension 1..3 / non-stationary), uniform and grid sampling, negative and non-unit boxes and time intervals, point counts including 49 and 225, with and without border; stored counts and shapes, every stored point and every point of every batch over two epochs + 1 calls inside the domain / the initial store, 1-D border = [xmin, xmax], 2-D border points on their facet; grid stores compared with the grid formula in Coq",
                oracle_checks=N + 2)


def replay(rep, casedir, variant):
    return generate("quick", rep.get("seed", 0), casedir, variant)
