#!/usr/bin/env python3
"""Rewrite the table between <!-- seeded:begin --> and <!-- seeded:end --> in DESIGN.md from seeded/*/meta.json."""
import glob, json, os, re
ROOT = os.path.dirname(os.path.dirname(os.path.abspath(__file__)))
rows = []
for d in sorted(glob.glob(os.path.join(ROOT, "seeded", "*"))):
    m = json.load(open(os.path.join(d, "meta.json")))
    det = m.get("detection", {})
    line = (det.get("check_output") or [""])[-1]
    how = []
    if "proof=BROKEN" in line:
        how.append("proof obligation broken")
    mm = re.search(r"cases/(\d+) disagreements", line)
    if mm and int(mm.group(1)) > 0:
        how.append("correspondence")
    mm = re.search(r"oracle_violations=(\d+)", line)
    if mm and int(mm.group(1)) > 0:
        how.append("direct oracle (replay)")
    mm = re.search(r"missing_anchors=(\d+)", line)
    note = "" if not mm or mm.group(1) == "0" else f"; {mm.group(1)} anchor(s) fell back to Pinned"
    first = m.get("first_run", {})
    hist = m.get("history", "")
    rows.append(f"| `{os.path.basename(d)}` | {m['property']} | {m['summary'][:230].replace('|', '/')} | {'yes' if det.get('detected') else '**no**'}: {', '.join(how) or '-'}{note} | {hist} |")
table = "| seeded change | prop | what it does | caught by the registered check | history |\n|---|---|---|---|---|\n" + "\n".join(rows)
p = os.path.join(ROOT, "DESIGN.md")
s = open(p).read()
s = re.sub(r"<!-- seeded:begin -->.*<!-- seeded:end -->", "<!-- seeded:begin -->\n" + table + "\n<!-- seeded:end -->", s, flags=re.S)
open(p, "w").write(s)
print(len(rows), "rows")
