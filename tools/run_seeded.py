#!/usr/bin/env python3
"""Confirm a seeded change (patch applies, the 51 baseline tests pass with it, the demonstration
passes without and fails with it) in a scratch worktree, store it under /verif/seeded/<id>/, and run
the registered check of its property against it.  usage: run_seeded.py <src dir> [<name>]"""
import json, os, re, shutil, subprocess, sys, time
ROOT = os.path.dirname(os.path.dirname(os.path.abspath(__file__)))
BASE = json.load(open("/root/.vp/BASELINE.json"))
TESTS = ("tests/dataGenerator_tests tests/parameters_tests tests/utils_tests tests/solver_tests/test_nan_params_catch.py tests/solver_tests/test_parameter_tracker.py "
         "tests/solver_tests/test_rar_algorithm.py tests/solver_tests/test_NSPipeFlow_x32_eqx.py tests/solver_tests_spinn/test_NSPipeFlow_x32_spinn_eqx.py")


def sh(cmd, **kw):
    p = subprocess.run(cmd, shell=True, stdout=subprocess.PIPE, stderr=subprocess.STDOUT, text=True, **kw)
    return p.returncode, p.stdout


def main():
    src = sys.argv[1]
    meta = json.load(open(os.path.join(src, "meta.json")))
    pid = meta["property"]
    name = sys.argv[2] if len(sys.argv) > 2 else pid
    wt = f"/tmp/wt_seed_{name}_{os.getpid()}"
    sh(f"git -C /repo worktree add -q {wt} HEAD")
    out = {"property": pid, "name": name, "confirmed_at": time.strftime("%Y-%m-%d %H:%M:%S")}
    try:
        env = f"JAX_PLATFORMS=cpu PYTHONPATH={wt}"
        rc0, o0 = sh(f"cd {wt} && {env} timeout 900 /venv/bin/python {src}/demo.py")
        out["demo_unchanged_exit"] = rc0
        rc, o = sh(f"git -C {wt} apply {src}/patch.diff")
        out["patch_applies"] = rc == 0
        if rc != 0:
            out["error"] = o[-500:]
        else:
            rc1, o1 = sh(f"cd {wt} && {env} timeout 900 /venv/bin/python {src}/demo.py")
            out["demo_patched_exit"] = rc1
            out["demo_patched_tail"] = o1[-400:]
            rct, ot = sh(f"cd {wt} && JAX_PLATFORMS=cpu timeout 2400 /venv/bin/python -m pytest -q -p no:cacheprovider --timeout=900 --continue-on-collection-errors {TESTS} 2>&1 | tail -3")
            out["tests_tail"] = ot.strip().splitlines()[-1] if ot.strip() else ""
            out["tests_51_pass"] = bool(re.match(r"^51 passed", out["tests_tail"])) and "failed" not in out["tests_tail"] and "error" not in out["tests_tail"]
            t0 = time.time()
            coqcopy = f"/tmp/coq_seed_{name}_{os.getpid()}"
            sh(f"rm -rf {coqcopy}; cp -r {ROOT}/coq {coqcopy}")
            rcc, oc = sh(f"cd {ROOT} && VERIF_REPO={wt} VERIF_COQ={coqcopy} VERIF_EVIDENCE_DIR=/tmp/ev_seed ./check {pid} --tier quick 2>&1 | grep -v '^validation loss' | tail -3")
            sh(f"rm -rf {coqcopy}")
            out["check_exit"] = rcc
            out["check_output"] = oc.strip().splitlines()[-2:]
            out["check_wall_s"] = round(time.time() - t0, 1)
            out["detected"] = any(l.startswith("VIOLATION") for l in oc.splitlines())
    finally:
        sh(f"git -C /repo worktree remove --force {wt}")
    ok = out.get("patch_applies") and out.get("demo_unchanged_exit") == 0 and out.get("demo_patched_exit") not in (0, None) and out.get("tests_51_pass")
    out["kept"] = bool(ok)
    if ok:
        dst = os.path.join(ROOT, "seeded", name)
        os.makedirs(dst, exist_ok=True)
        for f in ("patch.diff", "demo.py"):
            shutil.copy(os.path.join(src, f), os.path.join(dst, f))
        meta.update({"confirmation": {k: out[k] for k in ("demo_unchanged_exit", "demo_patched_exit", "tests_tail", "confirmed_at")},
                     "what_was_run": ["git worktree of /repo HEAD; demo.py before the patch", "git apply patch.diff; demo.py again", f"pytest {TESTS}", f"VERIF_REPO=<worktree> ./check {pid} --tier quick"],
                     "detection": {"detected": out["detected"], "check_output": out["check_output"], "wall_s": out["check_wall_s"]}})
        json.dump(meta, open(os.path.join(dst, "meta.json"), "w"), indent=1)
    print(json.dumps(out, indent=1))


if __name__ == "__main__":
    main()
