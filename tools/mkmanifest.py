#!/usr/bin/env python3
"""Writes MANIFEST.json from tools/props.py (claimed) and properties.jsonl (the rest)."""
import json, os, sys
ROOT = os.path.dirname(os.path.dirname(os.path.abspath(__file__)))
sys.path.insert(0, os.path.join(ROOT, "tools"))
from props import PROPS
TEXT = json.load(open(os.path.join(ROOT, "tools", "manifest_text.json")))
ids = [json.loads(l)["id"] for l in open(os.path.join(ROOT, "properties.jsonl"))]
checks = []
for pid in ids:
    if pid not in PROPS:
        continue
    t = TEXT[pid]
    checks.append({
        "property_id": pid,
        "quick_cmd": f"./check {pid} --tier quick",
        "thorough_cmd": f"./check {pid} --tier thorough",
        "evidence_file": f"/verif/evidence/{pid}.json",
        "replay_cmd_template": f"./check {pid} --replay {{path}}",
        "engine": "rocq-model",
        "level_claimed": {"category": "proof", "text": t["level"], "design_ref": t.get("ref", "DESIGN.md sec. 4")},
        "level_note": t["note"],
        "technique": t["technique"],
    })
man = {
    "version": 1,
    "setup_cmd": "./setup.sh",
    "hooks": {"guard": "JINNS_VERIF", "enable": "JINNS_VERIF=1 in the environment of ./check (set by the wrapper)",
              "baseline_off_cmd": "cd /repo && env -u JINNS_VERIF /venv/bin/python -m pytest -ra -q -p no:cacheprovider --timeout=900 --continue-on-collection-errors",
              "source_commits": TEXT.get("_hook_commits", []), "add_only": True},
    "engines": [{"name": "rocq-model", "path": "/verif/coq", "serves_properties": [c["property_id"] for c in checks],
                 "kind_free_text": "Coq 8.16.1 development (Kit/Model/Proofs/Props) tied to /repo by a regenerating ast translator (tools/translate.py -> coq/Gen) and by correspondence runs (tools/harness -> coq/Corr cases evaluated with vm_compute)"}],
    "checks": checks,
    "notes": TEXT.get("_notes", ""),
    "not_applicable": [{"property_id": pid, "reason": TEXT.get("_na", {}).get(pid, "check not built yet in this session; see DESIGN.md sec. 4")} for pid in ids if pid not in PROPS],
}
json.dump(man, open(os.path.join(ROOT, "MANIFEST.json"), "w"), indent=1)
print("claimed", len(checks), "not_applicable", len(man["not_applicable"]))
