#!/usr/bin/env python3
"""./check <ID> [--tier quick|thorough] [--replay PATH] -- decision procedure of DESIGN.md sec. 2.3.

1. regenerate coq/Gen from /repo's working tree (tools/translate.py);
2. build the cone of Props/<ID>.vo (full .vo) and re-run coqc on Props/<ID>.v to collect
   the Print Assumptions lines;
3. run the correspondence (tools/harness/<id>.py writes cases_*.v evaluated by coqc with
   vm_compute against the model instantiated with Gen; with Pinned when a proof broke);
4. run the direct property oracles of the harness (tests; they supply replays);
5. decide, write evidence/<ID>.json, print VIOLATION / KNOWN-FINDING lines.
"""
import argparse, fcntl, glob, hashlib, importlib, json, os, re, shutil, subprocess, sys, time

ROOT = os.path.dirname(os.path.dirname(os.path.abspath(__file__)))
COQ = os.environ.get("VERIF_COQ") or os.path.join(ROOT, "coq")      # VERIF_COQ: a private copy (scratch runs against a modified tree)
REPO = os.environ.get("VERIF_REPO", "/repo")
PY = sys.executable
STATIC_DIRS = ["Kit", "Model", "Proofs", "Pinned", "Gen", "Inst", "InstP", "Run", "RunP", "Props"]
TWINS = [("Inst", "InstP"), ("Run", "RunP")]


def sh(cmd, timeout=None, cwd=None, env=None):
    p = subprocess.run(cmd, shell=isinstance(cmd, str), cwd=cwd, env=env, timeout=timeout,
                       stdout=subprocess.PIPE, stderr=subprocess.STDOUT, text=True)
    return p.returncode, p.stdout


def write_if_changed(path, content):
    if os.path.exists(path) and open(path).read() == content:
        return False
    os.makedirs(os.path.dirname(path), exist_ok=True)
    with open(path, "w") as f:
        f.write(content)
    return True


def twin_text(s):
    return (s.replace("JV.Gen.", "JV.Pinned.").replace("Gen.G_", "Pinned.G_")
             .replace("Inst.I_", "InstP.I_").replace("Run.R_", "RunP.R_"))


def derive_twins():
    for a, b in TWINS:
        os.makedirs(os.path.join(COQ, b), exist_ok=True)
        want = set()
        for f in sorted(glob.glob(os.path.join(COQ, a, "*.v"))):
            want.add(os.path.basename(f))
            write_if_changed(os.path.join(COQ, b, os.path.basename(f)),
                             "(* derived from %s/%s by tools/check.py: same text over JV.Pinned *)\n" % (a, os.path.basename(f))
                             + twin_text(open(f).read()))
        for f in glob.glob(os.path.join(COQ, b, "*.v")):
            if os.path.basename(f) not in want:
                os.remove(f)


def ensure_makefile():
    files = []
    for d in STATIC_DIRS:
        files += sorted(os.path.relpath(f, COQ) for f in glob.glob(os.path.join(COQ, d, "*.v")))
    proj = "-Q . JV\n" + "\n".join(files) + "\n"
    changed = write_if_changed(os.path.join(COQ, "_CoqProject"), proj)
    if changed or not os.path.exists(os.path.join(COQ, "Makefile")):
        rc, out = sh("coq_makefile -f _CoqProject -o Makefile", cwd=COQ, timeout=120)
        if rc != 0:
            raise SystemExit("coq_makefile failed:\n" + out)


def translate(pin=False):
    rc, out = sh([PY, os.path.join(ROOT, "tools", "translate.py"), "--repo", REPO, "--out", os.path.join(COQ, "Gen"), "--pinned", os.path.join(COQ, "Pinned")] + (["--pin"] if pin else []), timeout=120)
    if rc != 0:
        raise SystemExit("translator crashed:\n" + out)
    return json.loads(out)


def make(targets, timeout=1500, jobs=16):
    rc, out = sh(f"timeout {timeout} make -j{jobs} {' '.join(targets)} 2>&1", cwd=COQ, timeout=timeout + 30)
    return rc == 0, out


class Lock:
    def __enter__(self):
        self.f = open(os.path.join(COQ, ".lock"), "w")
        fcntl.flock(self.f, fcntl.LOCK_EX)

    def __exit__(self, *a):
        fcntl.flock(self.f, fcntl.LOCK_UN)
        self.f.close()


def prepare(gen_files):
    """steps 1-2a under the build lock; returns translator report (with compile fallbacks)"""
    report = translate()
    derive_twins()
    ensure_makefile()
    # a generated file that does not type-check is replaced by its pinned twin
    for g in gen_files:
        ok, out = make([f"Gen/{g}.vo"], timeout=300)
        if not ok:
            pinned = open(os.path.join(COQ, "Pinned", g + ".v")).read().replace("JV.Pinned.", "JV.Gen.")
            write_if_changed(os.path.join(COQ, "Gen", g + ".v"), pinned)
            for k in report.get(g, {}):
                report[g][k] = "missing: generated file does not type-check"
            ok2, out2 = make([f"Gen/{g}.vo"], timeout=300)
            if not ok2:
                raise SystemExit("pinned Gen file does not compile:\n" + out2)
    return report


def coqc_props(pid):
    """re-run coqc on the thin Props file to collect theorem names and assumptions"""
    rc, out = sh(f"timeout 600 coqc -Q . JV Props/{pid}.v 2>&1", cwd=COQ, timeout=630)
    src = open(os.path.join(COQ, "Props", pid + ".v")).read()
    thms = re.findall(r"^(?:Theorem|Lemma|Example)\s+(\w+)", src, re.M)
    printed = re.findall(r"^Print Assumptions (\w+)\.", src, re.M)
    blocks = []
    cur = None
    for line in out.splitlines():
        if line.startswith("Closed under the global context"):
            blocks.append(["Closed under the global context"])
            cur = None
        elif line.startswith("Axioms:"):
            cur = []
            blocks.append(cur)
        elif cur is not None and line.strip():
            cur.append(line.strip())
    base = []
    for name, bl in zip(printed, blocks):
        base.append(f"{name}: " + "; ".join(bl))
    return rc == 0, thms, base, out


def run_cases(casedir, jobs=16):
    """coqc every cases_*.v; each prints `= (n, nbad, [ids])`"""
    files = sorted(glob.glob(os.path.join(casedir, "cases_*.v")))
    if not files:
        return 0, [], []
    rel = [os.path.relpath(f, COQ) for f in files]
    procs = []
    results = []
    errors = []
    total = 0
    bad = []
    pending = list(zip(files, rel))
    running = []
    while pending or running:
        while pending and len(running) < jobs:
            f, r = pending.pop(0)
            p = subprocess.Popen(f"ulimit -s unlimited 2>/dev/null; timeout 900 coqc -Q . JV {r}", shell=True, cwd=COQ,
                                 stdout=subprocess.PIPE, stderr=subprocess.STDOUT, text=True)
            running.append((f, p))
        for f, p in list(running):
            if p.poll() is not None:
                out = p.stdout.read()
                running.remove((f, p))
                m = re.search(r"=\s*\((\d+)%?n?a?t?,\s*(\d+)%?n?a?t?,\s*\[([^\]]*)\]", out.replace("\n", " "))
                if p.returncode != 0 or not m:
                    errors.append((os.path.basename(f), out[-2000:]))
                else:
                    total += int(m.group(1))
                    ids = [int(x.replace("%nat", "")) for x in m.group(3).split(";") if x.strip()]
                    if int(m.group(2)) > 0:
                        bad.append((os.path.basename(f), int(m.group(2)), ids))
        time.sleep(0.05)
    return total, bad, errors


def load_known():
    p = os.path.join(ROOT, "known_findings.json")
    return json.load(open(p)) if os.path.exists(p) else []


def main():
    ap = argparse.ArgumentParser()
    ap.add_argument("pid")
    ap.add_argument("--tier", default=os.environ.get("VERIF_TIER", "quick"))
    ap.add_argument("--replay", default=None)
    ap.add_argument("--seed", type=int, default=int(os.environ.get("VERIF_SEED", "0")))
    a = ap.parse_args()
    pid, tier, seed = a.pid, a.tier, a.seed
    if tier not in ("quick", "thorough"):
        tier = "quick"
    t0 = time.time()
    sys.path.insert(0, os.path.join(ROOT, "tools"))
    sys.path.insert(0, os.path.join(ROOT, "tools", "harness"))
    from props import PROPS
    spec = PROPS[pid]
    EVD = os.environ.get("VERIF_EVIDENCE_DIR", os.path.join(ROOT, "evidence")); os.makedirs(EVD, exist_ok=True)
    os.makedirs(os.path.join(ROOT, "replays"), exist_ok=True)

    with Lock():
        report = prepare(spec["gen"])
        missing = [f"{g}.{k}: {v}" for g in spec["gen"] for k, v in report.get(g, {}).items() if v != "ok"]
        targets = [f"Run/{r}.vo" for r in spec["runners"]] + [f"RunP/{r}.vo" for r in spec["runners"]]
        ok_run, out_run = make(targets) if targets else (True, "")
        if not ok_run:
            # the runners over Gen may fail to type-check if Gen changed shape; pinned runners must build
            ok_runp, out_runp = make([f"RunP/{r}.vo" for r in spec["runners"]])
            if not ok_runp:
                raise SystemExit("framework error: pinned runners do not build\n" + out_runp[-3000:])
        ok_proof_build, out_proof = make([f"Props/{pid}.vo"] + [f"Props/{x}.vo" for x in spec.get("extra_props", [])])
        proof_ok, thms, base, out_props = (False, [], [], out_proof)
        if ok_proof_build:
            proof_ok, thms, base, out_props = coqc_props(pid)
        else:
            src = open(os.path.join(COQ, "Props", pid + ".v")).read()
            thms = re.findall(r"^(?:Theorem|Lemma|Example)\s+(\w+)", src, re.M)
        # thorough tier: the compiled library and everything it depends on is re-checked by the independent checker
        chk = None
        if tier == "thorough" and proof_ok:
            rc_chk, out_chk = sh(f"timeout 1500 coqchk -silent -o -Q . JV JV.Props.{pid} 2>&1", cwd=COQ, timeout=1530)
            summ = out_chk[out_chk.find("* Theory"):] if "* Theory" in out_chk else out_chk[-1500:]
            axioms = re.findall(r"^\s{4}(\S.*)$", summ.split("* Constants/Inductives relying on type-in-type")[0], re.M) if "* Axioms" in summ else []
            chk = {"ok": rc_chk == 0, "axioms_of_the_context": [a.strip() for a in axioms][:60],
                   "summary": " ".join(summ.split())[:1200]}
            if rc_chk != 0:
                proof_ok = False

    variant = "Run" if (proof_ok and ok_run) else "RunP"
    harness = importlib.import_module(spec["harness"])
    casedir = os.path.join(COQ, "Corr", f"{pid}.{os.getpid()}")
    shutil.rmtree(casedir, ignore_errors=True)
    os.makedirs(casedir)
    violations = []   # dicts: {kind, detail, replay}
    corr_errors = []
    try:
        try:
            if a.replay:
                res = harness.replay(json.load(open(a.replay)), casedir=casedir, variant=variant)
            else:
                # a broken proof widens the search; so does an anchor that fell back to Pinned (the source left the
                # grammar there, so only the correspondence and the oracles speak about that piece: look harder)
                h_tier = tier if (proof_ok and not missing) else "thorough"
                res = harness.generate(tier=h_tier, seed=seed, casedir=casedir, variant=variant)
        except Exception as ex:      # the harness itself could not run against this tree: nothing is shown, report it
            import traceback
            tb = traceback.format_exc()
            res = dict(meta={}, oracle_violations=[], evaluations=0, distinct_nontrivial=0, rule="the harness raised before finishing", samples=[{"traceback": tb[-1500:]}])
            corr_errors = [("harness", f"{type(ex).__name__}: {ex}\n{tb[-2500:]}")]
        total, bad, errors = run_cases(casedir)
        corr_errors = corr_errors + errors
        # correspondence disagreements -> replays
        for v in res.get("oracle_violations", []):
            violations.append({"kind": "oracle", "detail": v["detail"], "case": v["case"]})
        for fname, nbad, ids in bad:
            for cid in ids[:3]:
                if re.search(r"sys_\d+\.v$", os.path.basename(fname)):      # second case family of a harness: ids are local to its files
                    meta = res["meta"].get(f"s{cid}")
                else:
                    meta = res["meta"].get(str(cid)) or res["meta"].get(cid)
                violations.append({"kind": "correspondence", "detail": f"model ({'regenerated' if variant == 'Run' else 'pinned'}) and implementation disagree on case {cid} of {fname}", "case": meta})
    finally:
        if not os.environ.get("VERIF_KEEP_CASES"):
            shutil.rmtree(casedir, ignore_errors=True)

    known = [k for k in load_known() if k["property"] == pid]
    open_known = [k for k in known if k["status"] == "open"]
    lines = []
    reported = []
    for v in violations:
        sig = None
        for k in open_known:
            if harness.matches_known(k, v):
                sig = k
        if sig is not None:
            continue
        reported.append(v)
    for k in open_known:
        lines.append(f"KNOWN-FINDING: property={pid} {k['id']} {k['what']}")
    exit_code = 0
    replay_path = None
    if reported:
        v = reported[0]
        replay_path = os.path.join(ROOT, "replays", f"{pid}_{int(time.time())}_{os.getpid()}.json")
        json.dump({"property": pid, "kind": v["kind"], "detail": v["detail"], "case": v["case"],
                   "proof_ok": proof_ok, "variant": variant, "seed": seed,
                   "how_to_replay": f"./check {pid} --replay <this file>"}, open(replay_path, "w"), indent=1, default=str)
        lines.append(f"VIOLATION property={pid} replay={replay_path}")
        exit_code = 1
    elif corr_errors:
        # the correspondence itself could not be evaluated (a case file did not type-check / evaluate): the property is
        # not shown to hold on this tree
        replay_path = os.path.join(ROOT, "replays", f"{pid}_{int(time.time())}_{os.getpid()}.json")
        json.dump({"property": pid, "kind": "correspondence-not-evaluable",
                   "detail": "the correspondence case files of this run could not be evaluated against the model",
                   "files": [n for n, _ in corr_errors], "coq_error": corr_errors[0][1][-2000:]}, open(replay_path, "w"), indent=1)
        lines.append(f"VIOLATION property={pid} replay={replay_path} no-failing-input-found")
        exit_code = 1
    elif not proof_ok:
        replay_path = os.path.join(ROOT, "replays", f"{pid}_{int(time.time())}_{os.getpid()}.json")
        err = out_props if ok_proof_build else out_proof
        m = re.search(r'File "\./([^"]+)", line (\d+)', err)
        json.dump({"property": pid, "kind": "proof-obligation",
                   "detail": "the theorems of Props/%s.v no longer check against the model regenerated from the source; "
                             "the correspondence with the pinned model and the direct oracles found no failing input" % pid,
                   "broken_at": (m.group(1) + ":" + m.group(2)) if m else None,
                   "coq_error": err[-3000:], "translator": {g: report.get(g) for g in spec["gen"]}},
                  open(replay_path, "w"), indent=1)
        lines.append(f"VIOLATION property={pid} replay={replay_path} no-failing-input-found")
        exit_code = 1

    n_obl = len(thms)
    ev = {
        "property_id": pid, "tier": tier, "seed": seed, "level": "proof",
        "coverage": {
            "obligations": n_obl, "discharged": n_obl if proof_ok else 0,
            "checker_cmd": f"cd coq && make Props/{pid}.vo && coqc -Q . JV Props/{pid}.v   (Coq 8.16.1, full .vo build; Gen regenerated from {REPO} by tools/translate.py)",
            "trusted_base": base + ["Coq 8.16.1 kernel + vm_compute", "tools/translate.py (anchors, expression grammars)",
                                    "correspondence harness tools/harness/%s.py and its canonicalisation" % spec["harness"]],
            "theorems": thms,
            "tie": "translator+correspondence" if not missing else "correspondence-only for the missing anchors",
            "missing_anchors": missing,
            "model_variant_used_for_correspondence": "regenerated (Gen)" if variant == "Run" else "pinned",
            "evaluations": int(res.get("evaluations", total)), "correspondence_cases": total,
            "correspondence_disagreements": sum(b[1] for b in bad),
            "distinct_nontrivial": int(res.get("distinct_nontrivial", 0)),
            "rule": res.get("rule", ""), "samples": res.get("samples", [])[:5],
            "distribution": res.get("distribution", {}),
            "oracle_checks": res.get("oracle_checks", 0),
            "exhaustive": bool(res.get("exhaustive", False)),
            **({"coqchk": chk} if chk is not None else {}),
        },
        "assumptions": spec.get("assumptions", []),
        "wall_s": round(time.time() - t0, 1),
        "violations": len(reported) + (1 if (not proof_ok and not reported) else 0),
    }
    json.dump(ev, open(os.path.join(EVD, f"{pid}.json"), "w"), indent=1, default=str)
    for l in lines:
        print(l)
    print(f"[{pid}] tier={tier} seed={seed} proof={'ok' if proof_ok else 'BROKEN'} theorems={n_obl} "
          f"corr={total} cases/{sum(b[1] for b in bad)} disagreements (model={variant}) oracle_violations={len(res.get('oracle_violations', []))} "
          f"missing_anchors={len(missing)} wall={ev['wall_s']}s -> {'PASS' if exit_code == 0 else 'FAIL'}")
    sys.exit(exit_code)


if __name__ == "__main__":
    main()
