#!/usr/bin/env python3
"""Re-run the registered check of a stored seeded change (seeded/<name>/) in a scratch worktree with a
private copy of coq/, and record the outcome in its meta.json.  usage: recheck_seeded.py <name> [tier]"""
import json, os, subprocess, sys, time
ROOT = os.path.dirname(os.path.dirname(os.path.abspath(__file__)))


def sh(cmd):
    p = subprocess.run(cmd, shell=True, stdout=subprocess.PIPE, stderr=subprocess.STDOUT, text=True)
    return p.returncode, p.stdout


name = sys.argv[1]
tier = sys.argv[2] if len(sys.argv) > 2 else "quick"
d = os.path.join(ROOT, "seeded", name)
meta = json.load(open(os.path.join(d, "meta.json")))
pid = meta["property"]
wt, cq = f"/tmp/wt_re_{name}_{os.getpid()}", f"/tmp/coq_re_{name}_{os.getpid()}"
sh(f"git -C /repo worktree add -q {wt} HEAD")
try:
    rc, o = sh(f"git -C {wt} apply {d}/patch.diff")
    if rc != 0:
        raise SystemExit("patch does not apply: " + o)
    sh(f"cp -r {ROOT}/coq {cq}")
    t0 = time.time()
    rc, oc = sh(f"cd {ROOT} && VERIF_REPO={wt} VERIF_COQ={cq} VERIF_EVIDENCE_DIR=/tmp/ev_seed ./check {pid} --tier {tier} 2>&1 | grep -v '^validation loss' | tail -4")
    lines = oc.strip().splitlines()
    det = any(l.startswith("VIOLATION") for l in lines)
    meta["detection"] = {"detected": det, "check_output": lines[-2:], "wall_s": round(time.time() - t0, 1), "rechecked_at": time.strftime("%Y-%m-%d %H:%M:%S")}
    json.dump(meta, open(os.path.join(d, "meta.json"), "w"), indent=1)
    print(name, "detected" if det else "MISSED", "|", lines[-1] if lines else "")
finally:
    sh(f"rm -rf {cq}; git -C /repo worktree remove --force {wt}")
