"""Per-property wiring of the check driver: which Gen files, runners and harness module."""
PROPS = {
    "C09": dict(gen=["G_datagen"], runners=["R_C09"], harness="c09",
                assumptions=["jax.random.choice(key, a, (n,), replace=False, p) returns a permutation of a (checked on every observed reshuffle)",
                             "lax.dynamic_slice clamps its start index into [0, n - size]",
                             "equinox tree_at replaces exactly the selected leaves"]),
    "C14": dict(gen=["G_datagen"], runners=["R_C14"], harness="c14",
                assumptions=["jnp.repeat / jnp.tile / jnp.concatenate have their documented numpy semantics (exercised by the correspondence)",
                             "the three sub-batches drawn separately from the same immutable generator state are the ones get_batch draws"]),
    "C15": dict(gen=["G_datagen"], runners=["R_C15"], harness="c15",
                assumptions=["jnp.take(table, idx, axis=0) gathers rows; tree_map applies it to every observed parameter",
                             "the index vector is shuffled by the cursor machine of C09 (same regenerated definitions)"]),
    "C16": dict(gen=["G_rar", "G_datagen"], runners=["R_C16"], harness="c16",
                assumptions=["lax.dynamic_update_slice clamps its start; lax.fori_loop(lo, hi, f, x) iterates lo..hi-1; p.at[:k].set",
                             "jnp.count_nonzero(p == 0) counts the inactive slots (model: the false entries of the mask)"]),
}
