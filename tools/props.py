"""Per-property wiring of the check driver: which Gen files, runners and harness module."""
PROPS = {
    "C09": dict(gen=["G_datagen"], runners=["R_C09"], harness="c09",
                assumptions=["jax.random.choice(key, a, (n,), replace=False, p) returns a permutation of a (checked on every observed reshuffle)",
                             "lax.dynamic_slice clamps its start index into [0, n - size]",
                             "equinox tree_at replaces exactly the selected leaves"]),
}
