#!/bin/sh
# MANIFEST.setup_cmd: build the whole Coq development from files on disk (offline).
HERE="$(cd "$(dirname "$0")" && pwd)"
cd "$HERE" || exit 1
mkdir -p evidence replays coq/Corr
exec env PYTHONPATH="${VERIF_REPO:-/repo}:$HERE/tools:$HERE/tools/harness" /venv/bin/python -W ignore - <<'PY'
import sys, os
sys.path.insert(0, os.path.join(os.getcwd(), "tools"))
import check
with check.Lock():
    rep = check.translate()
    check.derive_twins()
    check.ensure_makefile()
    ok, out = check.make(["all"], timeout=3000)
    if not ok:
        # a generated file may be at fault: fall back to the pinned text for all of them and retry
        import glob
        for f in glob.glob(os.path.join(check.COQ, "Pinned", "*.v")):
            g = os.path.basename(f)
            check.write_if_changed(os.path.join(check.COQ, "Gen", g), open(f).read().replace("JV.Pinned.", "JV.Gen."))
        ok, out = check.make(["all"], timeout=3000)
    print(out[-3000:])
    sys.exit(0 if ok else 1)
PY
