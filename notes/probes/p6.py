from common import *
import traceback
# 1D statio Neumann: u(x) = 1 + 3x -> du/dx = 3 ; outward normal derivative: xmin: -3, xmax: +3
u = make_pinn([[1.,3.,0.]], "statio_PDE")
params = Params(nn_params=u.init_params(), eq_params={})
bb = jnp.array([0.,2.])[None,None]  # (1,1,2)
batch = jinns.data.PDEStatioBatch(inside_batch=jnp.zeros((2,1)), border_batch=bb)
for name,f in [("f=0", lambda dx: 0.), ("f=1 scalar", lambda dx: 1.), ("f=1 arr", lambda dx: jnp.array([1.]))]:
    for cond in ["von neumann"]:
        loss = jinns.loss.LossPDEStatio(u=u, dynamic_loss=None, omega_boundary_fun=f, omega_boundary_condition=cond, params=params)
        print("1D statio neumann", name, loss(params,batch)[1]["boundary_loss"], " expected outward: (-3-f)^2+(3-f)^2 =", ((-3-1)**2+(3-1)**2) if "1" in name else 18)
# per facet
loss = jinns.loss.LossPDEStatio(u=u, dynamic_loss=None, omega_boundary_fun={"xmin":lambda dx: 1., "xmax":lambda dx: 1.}, omega_boundary_condition={"xmin":"von neumann","xmax":None}, params=params)
print("1D per-facet xmin only f=1:", loss(params,batch)[1]["boundary_loss"], "expected outward (-3-1)^2=16, inward (3-1)^2=4")
# 2D statio Neumann u = 1 + 2x + 5y
u2 = make_pinn([[1.,2.,5.,0,0,0]], "statio_PDE")
p2 = Params(nn_params=u2.init_params(), eq_params={})
nb=3
rng = np.random.default_rng(0)
def facets(nb):
    a = rng.uniform(0,1,(nb,))
    xmin = np.stack([np.zeros(nb), a],1); xmax = np.stack([np.ones(nb), a],1)
    ymin = np.stack([a, np.zeros(nb)],1); ymax = np.stack([a, np.ones(nb)],1)
    return jnp.asarray(np.stack([xmin,xmax,ymin,ymax],-1))
bb2 = facets(nb)
batch2 = jinns.data.PDEStatioBatch(inside_batch=jnp.zeros((2,2)), border_batch=bb2)
for name,f in [("f=1 scalar", lambda dx: 1.), ("f=1 arr", lambda dx: jnp.array([1.])), ("f=1 0-d arr", lambda dx: jnp.array(1.))]:
    loss = jinns.loss.LossPDEStatio(u=u2, dynamic_loss=None, omega_boundary_fun=f, omega_boundary_condition="von neumann", params=p2)
    print("2D statio neumann", name, loss(p2,batch2)[1]["boundary_loss"], "expected", (-2-1)**2+(2-1)**2+(-5-1)**2+(5-1)**2)
# Dirichlet 2D with scalar vs arr f
for name,f in [("f=1 scalar", lambda dx: 1.), ("f=1 arr", lambda dx: jnp.array([1.]))]:
    loss = jinns.loss.LossPDEStatio(u=u2, dynamic_loss=None, omega_boundary_fun=f, omega_boundary_condition="dirichlet", params=p2)
    print("2D statio dirichlet", name, loss(p2,batch2)[1]["boundary_loss"])
# nonstatio 1D neumann with nt = 1 and nt = 3
un = make_pinn([[1.,7.,3.,0,0,0]], "nonstatio_PDE")  # u = 1 + 7t + 3x
pn = Params(nn_params=un.init_params(), eq_params={})
for nt in [1,3]:
    t = jnp.arange(nt, dtype=float).reshape(nt,1,1)
    t_ = jnp.repeat(t, 2, axis=2)
    from jinns.data._DataGenerators import make_cartesian_product
    tdx = make_cartesian_product(t_, bb)
    batch = jinns.data.PDENonStatioBatch(times_x_inside_batch=jnp.zeros((2,2)), times_x_border_batch=tdx)
    try:
        loss = jinns.loss.LossPDENonStatio(u=un, dynamic_loss=None, omega_boundary_fun=lambda t,dx: 1., omega_boundary_condition="von neumann", params=pn)
        print("1D nonstatio neumann nt=",nt, loss(pn,batch)[1]["boundary_loss"], "expected 20")
    except Exception as e:
        print("1D nonstatio neumann nt=",nt, type(e).__name__, str(e)[:200])
