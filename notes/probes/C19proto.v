From Coq Require Import List Arith Bool Lia QArith.
Import ListNotations.
Open Scope nat_scope.
(* ValidationLoss.__call__ as the source states it: the stop test reads the OLD counter *)
Record vst := { counter : nat; best : option Q }.   (* best = None encodes +inf *)
Definition improves (v : Q) (s : vst) : bool := match best s with None => true | Some b => if Qlt_le_dec v b then true else false end.
Definition vstep (patience : nat) (early : bool) (s : vst) (v : Q) : vst * bool * bool :=
  let imp := improves v s in
  let s' := if imp then {| counter := 0; best := Some v |} else {| counter := S (counter s); best := best s |} in
  (s', (Nat.eqb (counter s) patience) && early, imp).     (* (new state, stop request, improvement flag) *)
Fixpoint vrun (patience : nat) (early : bool) (s : vst) (vs : list Q) : vst * list (bool * bool) :=
  match vs with [] => (s, []) | v :: r => let '(s', stop, imp) := vstep patience early s v in
                                           let '(sf, out) := vrun patience early s' r in (sf, (stop, imp) :: out) end.
(* simpler characterisation used in the theorem: the counter after a script is the number of
   consecutive non-improving invocations at its end *)
Fixpoint run_len (flags : list bool) (acc : nat) : nat :=
  match flags with [] => acc | true :: r => run_len r 0 | false :: r => run_len r (S acc) end.

Lemma vrun_counter patience early s vs :
  counter (fst (vrun patience early s vs)) = run_len (map snd (snd (vrun patience early s vs))) (counter s).
Proof. revert s. induction vs as [|v r IH]; intro s; cbn [vrun]; [reflexivity|].
  unfold vstep. destruct (improves v s) eqn:E.
  - specialize (IH {| counter := 0; best := Some v |}).
    destruct (vrun patience early {| counter := 0; best := Some v |} r) as [sf out]. cbn in *. exact IH.
  - specialize (IH {| counter := S (counter s); best := best s |}).
    destruct (vrun patience early {| counter := S (counter s); best := best s |} r) as [sf out]. cbn in *. exact IH. Qed.

(* never a stop request when early stopping is disabled *)
Lemma no_stop_when_disabled patience s vs : forallb (fun p => negb (fst p)) (snd (vrun patience false s vs)) = true.
Proof. revert s. induction vs as [|v r IH]; intro s; cbn [vrun]; [reflexivity|]. unfold vstep.
  destruct (improves v s);
  [specialize (IH {| counter := 0; best := Some v |}); destruct (vrun patience false {| counter := 0; best := Some v |} r)
  |specialize (IH {| counter := S (counter s); best := best s |}); destruct (vrun patience false {| counter := S (counter s); best := best s |} r)];
  cbn in *; rewrite andb_false_r; cbn; exact IH. Qed.
