from polyc import *
from fractions import Fraction
import sys
from jinns.loss import _laplacian_rev
rng = np.random.default_rng(7)
def qlit(x):
    fr = Fraction(float(x)); return f"(Q2Qc ({fr.numerator} # {fr.denominator}))"
cases=[]
N=int(sys.argv[1]) if len(sys.argv)>1 else 200

for cid in range(N):
    d = int(rng.integers(1,4)); has_t = bool(rng.integers(0,2)); nv = d+(1 if has_t else 0)
    p = prand(rng, nv, 3, 4)
    pt = rng.integers(-3,4,size=nv).astype(float) / float(rng.choice([1,2,4]))
    u = mk([p], "nonstatio_PDE" if has_t else "statio_PDE")
    P = Params(nn_params=u.init_params(), eq_params={})
    got = float(_laplacian_rev(jnp.array(pt[:1]) if has_t else None, jnp.array(pt[1:] if has_t else pt), u, P))
    mons = "; ".join(f"({qlit(c)}, [{'; '.join(str(e)+'%nat' for e in es)}])" for es,c in p.items())
    cases.append(f"  mkcase {cid} {str(has_t).lower()} {d} [{mons}] [{'; '.join(qlit(v) for v in pt)}] {qlit(got)}")
open("coq/cases_lap.v","w").write("""From Coq Require Import List ZArith QArith Qcanon Bool.
Require Import Expr.
Import ListNotations.
Record case := mkcase { cid : nat; has_t : bool; dim : nat; mons : list (Qc * list nat); pt : list Qc; observed : Qc }.
Definition cst (c:Qc) := Cst Qc c.
Fixpoint powE (v:nat) (e:nat) : expr Qc := match e with O => cst (Q2Qc 1) | S e' => Mul Qc (Var Qc v) (powE v e') end.
Fixpoint monoE (v:nat) (es:list nat) : expr Qc := match es with [] => cst (Q2Qc 1) | e::r => Mul Qc (powE v e) (monoE (S v) r) end.
Definition polyE (ms : list (Qc * list nat)) : expr Qc := fold_right (fun m acc => Add Qc (Mul Qc (cst (fst m)) (monoE 0 (snd m))) acc) (cst (Q2Qc 0)) ms.
Definition env_of (p : list Qc) (v:nat) : Qc := nth v p (Q2Qc 0).
(* model of _laplacian_rev: trace of the Hessian w.r.t. the spatial block only *)
Definition coord (ht:bool) (i:nat) := if ht then S i else i.
Definition model (c:case) : Qc :=
  let u := polyE (mons c) in
  fold_right Qcplus (Q2Qc 0) (map (fun i => evq (Dq (coord (has_t c) i) (Dq (coord (has_t c) i) u)) |> (fun f => f) ) (seq 0 (dim c))).
""".replace("evq (Dq (coord (has_t c) i) (Dq (coord (has_t c) i) u)) |> (fun f => f) ", "evq (env_of (pt c)) (Dq (coord (has_t c) i) (Dq (coord (has_t c) i) u))")
+ "Definition cases : list case := [\n" + ";\n".join(cases) + "\n].\n"
+ """Definition agree (a b : Qc) : bool := Qeq_bool (this a) (this b).
Definition bad := filter (fun c => negb (agree (model c) (observed c))) cases.
Eval vm_compute in (length cases, length bad, firstn 5 (map cid bad)).
""")
print("wrote", len(cases))
