From Coq Require Import List Arith ZArith QArith Qcanon Field Ring Lia.
Import ListNotations.

Section F.
Variable K : Type.
Variables (k0 k1 : K) (kadd kmul ksub : K -> K -> K) (kopp : K -> K) (kdiv : K -> K -> K) (kinv : K -> K).
Hypothesis Kfield : field_theory k0 k1 kadd kmul ksub kopp kdiv kinv eq.
Add Field Kf : Kfield.
Notation "x + y" := (kadd x y). Notation "x * y" := (kmul x y). Notation "x - y" := (ksub x y).

Inductive expr := Var (v : nat) | Cst (c : K) | Add (a b : expr) | Mul (a b : expr).
Fixpoint ev (env : nat -> K) (e : expr) : K :=
  match e with Var v => env v | Cst c => c | Add a b => ev env a + ev env b | Mul a b => ev env a * ev env b end.
Fixpoint D (v : nat) (e : expr) : expr :=
  match e with
  | Var w => if Nat.eqb v w then Cst k1 else Cst k0
  | Cst _ => Cst k0
  | Add a b => Add (D v a) (D v b)
  | Mul a b => Add (Mul (D v a) b) (Mul a (D v b))
  end.
Lemma D_comm v w e env : ev env (D v (D w e)) = ev env (D w (D v e)).
Proof. induction e as [x|c|a IHa b IHb|a IHa b IHb]; cbn.
 - destruct (Nat.eqb w x), (Nat.eqb v x); cbn; reflexivity.
 - reflexivity.
 - rewrite IHa, IHb. reflexivity.
 - rewrite IHa, IHb. ring.
Qed.
Definition sum (l : list K) := fold_right kadd k0 l.
Definition lap (vars : list nat) (u : expr) env := sum (map (fun v => ev env (D v (D v u))) vars).
End F.

Definition QcE := expr Qc.
Definition evq := ev Qc Qcplus Qcmult.
Definition Dq := D Qc (Q2Qc 0) (Q2Qc 1).
Definition x := Var Qc 0. Definition y := Var Qc 1.
Definition c (z : Z) := Cst Qc (Q2Qc (inject_Z z)).
Definition u := Add _ (Mul _ (Mul _ x x) y) (Mul _ (c 3) (Mul _ y (Mul _ y y))).
Definition env0 (v : nat) : Qc := match v with 0%nat => Q2Qc (2#1) | _ => Q2Qc (5#3) end.
Eval vm_compute in this (lap Qc (Q2Qc 0) (Q2Qc 1) Qcplus Qcmult [0%nat;1%nat] u env0).
Check D_comm.
Print Assumptions D_comm.
