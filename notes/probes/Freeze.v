From Coq Require Import List Arith Bool Field Ring Lia Permutation.
Import ListNotations.
Section F.
Variable K : Type.
Variables (k0 k1 : K) (kadd kmul ksub : K -> K -> K) (kopp : K -> K) (kdiv : K -> K -> K) (kinv : K -> K).
Hypothesis Kfield : field_theory k0 k1 kadd kmul ksub kopp kdiv kinv eq.
Add Field Kf : Kfield.
Notation "x + y" := (kadd x y). Notation "x * y" := (kmul x y).

Inductive var := In (k:nat) | Th (k:nat) | Nu (k:nat) | Fz (v:var).
Fixpoint var_eqb (a b : var) : bool :=
  match a, b with
  | In i, In j | Th i, Th j | Nu i, Nu j => Nat.eqb i j
  | Fz x, Fz y => var_eqb x y
  | _, _ => false end.
Lemma var_eqb_eq a b : var_eqb a b = true <-> a = b.
Proof. revert b; induction a as [i|i|i|x IH]; intros [j|j|j|y]; cbn [var_eqb];
  try (split; intro H; discriminate H).
  1-3: rewrite Nat.eqb_eq; split; [intros ->; reflexivity| intros [= ->]; reflexivity].
  rewrite IH. split; [intros ->; reflexivity|intros [= ->]; reflexivity]. Qed.

Inductive expr := Var (v : var) | Cst (c : K) | Add (a b : expr) | Mul (a b : expr).
Fixpoint ev (env : var -> K) (e : expr) : K :=
  match e with Var v => env v | Cst c => c | Add a b => ev env a + ev env b | Mul a b => ev env a * ev env b end.
Fixpoint D (v : var) (e : expr) : expr :=
  match e with
  | Var w => if var_eqb v w then Cst k1 else Cst k0
  | Cst _ => Cst k0
  | Add a b => Add (D v a) (D v b)
  | Mul a b => Add (Mul (D v a) b) (Mul a (D v b)) end.
Fixpoint free (v : var) (e : expr) : bool :=
  match e with Var w => var_eqb v w | Cst _ => false | Add a b | Mul a b => free v a || free v b end.
(* stop_gradient on the group G: every variable of G is replaced by its frozen twin *)
Fixpoint freeze (G : var -> bool) (e : expr) : expr :=
  match e with Var w => if G w then Var (Fz w) else Var w | Cst c => Cst c
             | Add a b => Add (freeze G a) (freeze G b) | Mul a b => Mul (freeze G a) (freeze G b) end.

Lemma D_not_free v e env : free v e = false -> ev env (D v e) = k0.
Proof. induction e as [w|c|a IHa b IHb|a IHa b IHb]; cbn; intro H.
  - rewrite H. reflexivity.
  - reflexivity.
  - apply orb_false_iff in H as [Ha Hb]. rewrite IHa, IHb by assumption. ring.
  - apply orb_false_iff in H as [Ha Hb]. rewrite IHa, IHb by assumption. ring. Qed.

Lemma freeze_value G e env : (forall v, env (Fz v) = env v) -> ev env (freeze G e) = ev env e.
Proof. intro Henv. induction e as [w|c|a IHa b IHb|a IHa b IHb]; cbn [freeze ev];
  [destruct (G w); cbn [ev]; [apply Henv|reflexivity] | reflexivity
  | rewrite IHa, IHb; reflexivity | rewrite IHa, IHb; reflexivity]. Qed.

Lemma freeze_not_free G g e : G g = true -> (forall x, g <> Fz x) -> free g (freeze G e) = false.
Proof. intros Hg Hnf. induction e as [w|c|a IHa b IHb|a IHa b IHb]; cbn; try reflexivity.
  - destruct (G w) eqn:E; cbn.
    + destruct (var_eqb g (Fz w)) eqn:E2; [apply var_eqb_eq in E2; exfalso; eapply Hnf; eassumption|reflexivity].
    + destruct (var_eqb g w) eqn:E2; [apply var_eqb_eq in E2; subst; congruence|reflexivity].
  - rewrite IHa, IHb; reflexivity.
  - rewrite IHa, IHb; reflexivity. Qed.

(* C06 core: an unselected (term, group) pair contributes exactly zero *)
Theorem stopped_gradient_is_zero G g e env : G g = true -> (forall x, g <> Fz x) ->
  ev env (D g (freeze G e)) = k0.
Proof. intros. apply D_not_free. apply freeze_not_free; assumption. Qed.

(* C06 core: the gradient of a sum of masked terms is the sum over the terms *)
Definition sumE (l : list expr) := fold_right Add (Cst k0) l.
Definition sumK (l : list K) := fold_right kadd k0 l.
Theorem grad_total g (terms : list expr) env : ev env (D g (sumE terms)) = sumK (map (fun t => ev env (D g t)) terms).
Proof. unfold sumE, sumK. induction terms as [|t ts IH]; cbn [fold_right map D ev]; [reflexivity|].
  rewrite IH. reflexivity. Qed.

(* C03 core: batch mean of a per-point quantity is permutation invariant *)
Theorem sumK_perm l l' : Permutation l l' -> sumK l = sumK l'.
Proof. unfold sumK. induction 1; cbn [fold_right]; [reflexivity|congruence|ring|congruence]. Qed.
End F.
Print Assumptions stopped_gradient_is_zero. Print Assumptions sumK_perm.
