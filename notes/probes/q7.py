from polyc import *
import optax, traceback
from jinns.loss import ODE
class EqO(ODE):
    def equation(self, t, u, params):
        return u(t, params)*params.eq_params["a"] - 2.*params.eq_params["b"]
def ot(i,o,p): return o + 0.5*p.eq_params["a"]
W0=[[1.,3.,0.]]
def build():
    u = make_pinn(W0, "ODE", output_transform=ot)
    P = Params(nn_params=u.init_params(), eq_params={"a": jnp.array(1.5), "b": jnp.array(0.5)})
    from jinns.parameters import DerivativeKeysODE
    dk = DerivativeKeysODE.from_str(P, dyn_loss="both", observations="nn_params", initial_condition="nn_params")
    L = jinns.loss.LossODE(u=u, dynamic_loss=EqO(), params=P, initial_condition=(0., 1.), derivative_keys=dk)
    g = jinns.data.DataGeneratorODE(jax.random.PRNGKey(0), 7, 0., 1., 3)
    pg = jinns.data.DataGeneratorParameter(jax.random.PRNGKey(1), 5, 3, param_ranges={"a":(1.,2.)})
    og = jinns.data.DataGeneratorObservations(jax.random.PRNGKey(2), 3, jnp.linspace(0,1,8), 1+jnp.linspace(0,1,8)**2)
    return u,P,L,g,pg,og
def ref(n, P, L, g, pg, og, opt, st=None):
    g,b = g.get_batch(); pg,pb = pg.get_batch(); og,ob = og.get_batch()   # the initial draw
    if st is None: st = opt.init(P)
    losses=[]; tr=[]; terms=[]
    for i in range(n):
        g,b = g.get_batch(); pg,pb = pg.get_batch(); og,ob = og.get_batch()
        b = jinns.data.append_obs_batch(jinns.data.append_param_batch(b,pb),ob)
        (v,tm),gr = jax.value_and_grad(L, has_aux=True)(P,b)
        up, st = opt.update(gr, st, P); P = optax.apply_updates(P, up)
        losses.append(float(v)); tr.append(float(P.eq_params["b"])); terms.append({k:float(x) for k,x in tm.items()})
    return P, losses, tr, terms, g, st, pg, og
for name,opt in [("sgd", optax.sgd(2**-7)), ("adam", optax.adam(1e-3)), ("chain", optax.chain(optax.clip(1.0), optax.scale_by_adam(), optax.scale_by_schedule(optax.piecewise_constant_schedule(-1e-2, {3:0.5}))))]:
    u,P,L,g,pg,og = build()
    n=9
    out = jinns.solve(n_iter=n, init_params=P, data=g, loss=L, optimizer=opt, param_data=pg, obs_data=og, verbose=False, tracked_params=Params(nn_params=None, eq_params={"a":None,"b":True}))
    Pr, losses, tr, terms, gr_, st, _, _ = ref(n, P, L, g, pg, og, opt)
    print(name, "loss hist ok", np.allclose(out[1], losses, rtol=1e-9), "tracked ok", np.allclose(out[6].eq_params["b"], tr, rtol=1e-9), "final ok", np.allclose(out[0].nn_params.W, Pr.nn_params.W, rtol=1e-9),
          "terms ok", all(np.allclose(out[2][k], [t[k] for t in terms], rtol=1e-9) for k in out[2]),
          "gen idx", int(out[3].curr_time_idx), int(gr_.curr_time_idx), "times eq", np.array_equal(out[3].times, gr_.times),
          "opt state eq", all(np.allclose(a,b) for a,b in zip(jax.tree.leaves(out[5]), jax.tree.leaves(st))))
    # resume: solve(4) then solve(5) with returned opt_state and generator
    o1 = jinns.solve(n_iter=4, init_params=P, data=g, loss=L, optimizer=opt, param_data=pg, obs_data=og, verbose=False)
    print("   note: solve does not return param_data/obs_data generators -> resume must reuse the initial ones")
