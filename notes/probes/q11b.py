from polyc import *
import traceback
exec(open("q11.py").read().split("bad=0; tot=0")[0].split("key = jax.random.PRNGKey(0)")[1].join(["key = jax.random.PRNGKey(0)",""])) if False else None
import importlib.util, sys
# reuse helpers from q11 by copying minimal pieces
key = jax.random.PRNGKey(5); r=3
def spinn(d, m, eq_type, key):
    return jinns.utils.create_SPINN(key, d, r, ((eqx.nn.Linear,1,4),(jnp.tanh,),(eqx.nn.Linear,4,r*m)), eq_type, m=m)
class SpinnAsMLP(eqx.Module):
    inner: eqx.Module
    d: int = eqx.field(static=True); r: int = eqx.field(static=True); m: int = eqx.field(static=True); has_t: bool = eqx.field(static=True)
    def __call__(self, z):
        res = self.inner(z[0:1], z[1:]) if self.has_t else self.inner(None, z)
        return jnp.stack([jnp.sum(jnp.prod(res[:, k*self.r:(k+1)*self.r], axis=0)) for k in range(self.m)])
def make_twin(s, has_t):
    mlp = SpinnAsMLP(eqx.combine(s.params, s.static), s.d, s.r, s.m, has_t)
    return jinns.utils.PINN(mlp=mlp, slice_solution=jnp.s_[:], eq_type=s.eq_type, input_transform=lambda i,p:i, output_transform=lambda i,o,p:o)
def grid_rows(cols):  # cols: list of 1-D arrays -> (prod, len(cols)) ij order
    g = np.stack(np.meshgrid(*cols, indexing="ij"), -1); return jnp.asarray(g.reshape(-1, len(cols)))
B=2
for dim in [1,2]:
  for statio in [False, True]:
    try:
        key, sk, k2, k3 = jax.random.split(key,4)
        has_t = not statio
        s = spinn(dim + (1 if has_t else 0), 1, "nonstatio_PDE" if has_t else "statio_PDE", sk); tw = make_twin(s, has_t)
        x = jax.random.uniform(k2,(B,dim)); t = jax.random.uniform(k3,(B,1))
        # border batch (B, dim, 2*dim)
        if dim==1: bb = jnp.array([0.,1.])[None,None]   # (1,1,2)
        else:
            a = jax.random.uniform(k3,(B,4))
            bb = jnp.stack([jnp.stack([jnp.zeros(B),a[:,0]],1), jnp.stack([jnp.ones(B),a[:,1]],1), jnp.stack([a[:,2],jnp.zeros(B)],1), jnp.stack([a[:,3],jnp.ones(B)],1)], -1)
        nb = bb.shape[0]
        eqp = {"D": jnp.array(0.3), "r": jnp.array(1.5), "g": jnp.array(0.7)}
        Ps = Params(nn_params=s.init_params(), eq_params=eqp); Pt = Params(nn_params=tw.init_params(), eq_params=eqp)
        norm_samples = jax.random.uniform(sk,(B,dim)); L=2.5
        for cond in ["dirichlet","von neumann"]:
            if has_t:
                f = lambda t,dx: 0.3 + 0*t[...,0:1]  # returns (...,1)
                fp = lambda t,dx: jnp.array([0.3])
                u0 = lambda x: 0.2*jnp.sum(x, axis=-1, keepdims=True)
                dyn = jinns.loss.FisherKPP(Tmax=2.)
                ls = jinns.loss.LossPDENonStatio(u=s, dynamic_loss=dyn, omega_boundary_fun=f, omega_boundary_condition=cond, initial_condition_fun=u0, norm_samples=norm_samples, norm_int_length=L, params=Ps)
                lt = jinns.loss.LossPDENonStatio(u=tw, dynamic_loss=dyn, omega_boundary_fun=fp, omega_boundary_condition=cond, initial_condition_fun=u0, norm_samples=grid_rows([norm_samples[:,k] for k in range(dim)]), norm_int_length=L, params=Pt)
                # spinn batch: non cartesian (B, 1+dim); border (nb, 1+dim, nfacets) pairing
                tb = t[:nb]
                bs = jinns.data.PDENonStatioBatch(times_x_inside_batch=jnp.concatenate([t,x],1), times_x_border_batch=jnp.concatenate([jnp.repeat(tb[:,:,None], bb.shape[-1], 2), bb],1))
                gi = grid_rows([t[:,0]]+[x[:,k] for k in range(dim)])
                gb = jnp.stack([grid_rows([tb[:,0]]+[bb[:,k,f] for k in range(dim)]) for f in range(bb.shape[-1])], -1)
                bt = jinns.data.PDENonStatioBatch(times_x_inside_batch=gi, times_x_border_batch=gb)
            else:
                f = lambda dx: 0.3 + 0*dx[...,0:1]; fp = lambda dx: jnp.array([0.3])
                class Lap(jinns.loss.PDEStatio):
                    def equation(self, x, u, params):
                        from jinns.loss import _laplacian_rev, _laplacian_fwd
                        from jinns.utils import SPINN
                        return (_laplacian_fwd(None,x,u,params)[...,None] if isinstance(u,SPINN) else _laplacian_rev(None,x,u,params)[...,None])
                ls = jinns.loss.LossPDEStatio(u=s, dynamic_loss=Lap(), omega_boundary_fun=f, omega_boundary_condition=cond, norm_samples=norm_samples, norm_int_length=L, params=Ps)
                lt = jinns.loss.LossPDEStatio(u=tw, dynamic_loss=Lap(), omega_boundary_fun=fp, omega_boundary_condition=cond, norm_samples=grid_rows([norm_samples[:,k] for k in range(dim)]), norm_int_length=L, params=Pt)
                bs = jinns.data.PDEStatioBatch(inside_batch=x, border_batch=bb)
                bt = jinns.data.PDEStatioBatch(inside_batch=grid_rows([x[:,k] for k in range(dim)]), border_batch=jnp.stack([grid_rows([bb[:,k,f] for k in range(dim)]) for f in range(bb.shape[-1])],-1))
            try:
                vs = ls(Ps, bs)[1]; vt = lt(Pt, bt)[1]
                for k in vs:
                    ok = np.allclose(vs[k], vt[k], rtol=1e-7, atol=1e-10)
                    print("dim",dim,"statio",statio,cond,k, "OK" if ok else f"MISMATCH spinn={float(vs[k]):.6g} twin={float(vt[k]):.6g}")
            except Exception as e:
                print("dim",dim,"statio",statio,cond,"ERR", type(e).__name__, str(e)[:200])
    except Exception as e:
        traceback.print_exc()
