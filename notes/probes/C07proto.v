From Coq Require Import List Arith Lia Bool.
Import ListNotations.
Section S.
Variables (L St : Type) (zero : L).
Variable step : St -> L * St.            (* draw; value_and_grad; update *)
Variable nan : St -> bool.               (* NaN in the parameters of the state *)
Definition upd (i : nat) (v : L) (l : list L) := firstn i l ++ v :: skipn (S i) l.
Record carry := { ci : nat; cs : St; clast : St; chist : list L }.
Definition body (c : carry) : carry :=
  let '(l, s') := step (cs c) in
  {| ci := S (ci c); cs := s'; clast := if nan s' then clast c else s';
     chist := upd (ci c) l (chist c) |}.
Definition cond (n : nat) (c : carry) := (ci c <? n) && negb (nan (cs c)).
Fixpoint loop (fuel n : nat) (c : carry) : carry :=
  match fuel with O => c | S f => if cond n c then loop f n (body c) else c end.
Definition init (n : nat) (s0 : St) := {| ci := 0; cs := s0; clast := s0; chist := repeat zero n |}.

(* reference: the textbook loop *)
Fixpoint ref (k : nat) (s : St) : list L * St :=
  match k with O => ([], s) | S k' => let '(ls, s') := ref k' s in let '(l, s'') := step s' in (ls ++ [l], s'') end.
Definition state_at k s := snd (ref k s).

Lemma ref_len k s : length (fst (ref k s)) = k.
Proof. induction k as [|k IH]; cbn; [reflexivity|].
  destruct (ref k s) as [ls s'] eqn:E. destruct (step s') as [l s'']. cbn in *. rewrite app_length; cbn. lia. Qed.

Lemma upd_app xs zs v : upd (length xs) v (xs ++ zero :: zs) = (xs ++ [v]) ++ zs.
Proof. unfold upd. rewrite firstn_app, Nat.sub_diag, firstn_all. cbn [firstn]. rewrite app_nil_r.
  replace (S (length xs)) with (length (xs ++ [zero])) by (rewrite app_length; cbn; lia).
  replace (xs ++ zero :: zs) with ((xs ++ [zero]) ++ zs) by (rewrite <- app_assoc; reflexivity).
  rewrite skipn_app, Nat.sub_diag, skipn_all. cbn. rewrite <- app_assoc. reflexivity. Qed.

(* invariant: after i iterations without NaN the carry is the embedding of the reference *)
Definition embed n i s0 (last : St) := {| ci := i; cs := state_at i s0; clast := last;
                                          chist := fst (ref i s0) ++ repeat zero (n - i) |}.

Lemma body_embed n i s0 last : i < n ->
  body (embed n i s0 last) =
  embed n (S i) s0 (if nan (state_at (S i) s0) then last else state_at (S i) s0).
Proof. intro Hi. unfold body, embed, state_at. cbn [cs ci chist clast ref].
  destruct (ref i s0) as [ls s'] eqn:E. cbn [fst snd]. destruct (step s') as [l s''] eqn:E2. cbn [fst snd].
  f_equal. assert (Hl : length ls = i) by (pose proof (ref_len i s0) as H; rewrite E in H; exact H).
  replace (n - i) with (S (n - S i)) by lia. cbn [repeat]. rewrite <- Hl at 1. apply upd_app. Qed.

Theorem solve_no_nan n s0 :
  (forall i, i <= n -> nan (state_at i s0) = false) ->
  loop n n (init n s0) = embed n n s0 (state_at n s0).
Proof. intro Hn.
  assert (G : forall fuel i last, i + fuel = n -> (last = state_at i s0) ->
          loop fuel n (embed n i s0 last) = embed n n s0 (state_at n s0)).
  { induction fuel as [|f IH]; intros i last Hi Hl.
    - cbn. assert (i = n) by lia. subst i last. reflexivity.
    - cbn [loop]. unfold cond. cbn [ci cs embed]. rewrite Hn by lia.
      replace (i <? n) with true by (symmetry; apply Nat.ltb_lt; lia). cbn [andb negb].
      rewrite body_embed by lia. rewrite Hn by lia. apply IH; [lia|reflexivity]. }
  replace (init n s0) with (embed n 0 s0 (state_at 0 s0)).
  - apply G; [lia|reflexivity].
  - unfold init, embed, state_at. cbn. rewrite Nat.sub_0_r. reflexivity. Qed.

(* C18: first NaN after update k *)
Theorem solve_first_nan n s0 k : k < n ->
  (forall i, i <= k -> nan (state_at i s0) = false) -> nan (state_at (S k) s0) = true ->
  loop n n (init n s0) = embed n (S k) s0 (state_at k s0).
Proof. intros Hk Hok Hbad.
  assert (G : forall fuel i, i <= S k -> S k <= i + fuel ->
          loop fuel n (embed n i s0 (state_at (Nat.min i k) s0)) = embed n (S k) s0 (state_at k s0)).
  { induction fuel as [|f IH]; intros i Hi Hf.
    - cbn. assert (i = S k) by lia. subst i. rewrite Nat.min_r by lia. reflexivity.
    - cbn [loop]. unfold cond. cbn [ci cs embed].
      destruct (Nat.eq_dec i (S k)) as [->|Hne].
      + rewrite Hbad. rewrite andb_false_r. rewrite Nat.min_r by lia. reflexivity.
      + rewrite Hok by lia. replace (i <? n) with true by (symmetry; apply Nat.ltb_lt; lia). cbn [andb negb].
        rewrite body_embed by lia. rewrite Nat.min_l by lia.
        destruct (Nat.eq_dec i k) as [->|Hik].
        * rewrite Hbad. specialize (IH (S k)). rewrite Nat.min_r in IH by lia. apply IH; lia.
        * rewrite Hok by lia. specialize (IH (S i)). rewrite Nat.min_l in IH by lia. apply IH; lia. }
  replace (init n s0) with (embed n 0 s0 (state_at (Nat.min 0 k) s0)).
  - apply G; lia.
  - unfold init, embed, state_at. cbn. rewrite Nat.sub_0_r. reflexivity. Qed.
End S.
Print Assumptions solve_no_nan. Print Assumptions solve_first_nan.
