from common import *
from jinns.solver._rar import init_rar, trigger_rar
from jinns.loss import ODE, PDENonStatio, PDEStatio
class EqO(ODE):
    def equation(self, t, u, params):
        return u(t, params) - 2.   # residual = 1+3t-2
uo = make_pinn([[1.,3.,0.]], "ODE")
po = Params(nn_params=uo.init_params(), eq_params={})
lo = jinns.loss.LossODE(u=uo, dynamic_loss=EqO(), params=po)
def run_ode(start, every, nt=30, nt_start=4, sel=3, cand=8, iters=14):
    rar = {"start_iter":start, "update_every":every, "sample_size_times":cand, "selected_sample_size_times":sel}
    g = jinns.data.DataGeneratorODE(jax.random.PRNGKey(3), nt, 0., 1., 2, rar_parameters=rar, nt_start=nt_start)
    g, st, sf = init_rar(g)
    out=[]
    for i in range(iters):
        g, b = g.get_batch()
        before = int(g.rar_iter_nb)
        _,_,g = trigger_rar(i, lo, po, g, st, sf)
        out.append((i, int(g.rar_iter_nb)-before, int((g.p_times!=0).sum()), int(g.rar_iter_from_last_sampling)))
    return out
for (s,e) in [(0,1),(0,3),(3,1),(3,3),(2,2)]:
    r = run_ode(s,e)
    print("ODE start",s,"every",e,"steps at", [i for i,d,_,_ in r if d], "nonzero p", [c for _,_,c,_ in r])
# capacity
r = run_ode(0,1,nt=12,nt_start=4,sel=3,iters=8)
print("ODE capacity nt=12 start4 sel3:", "steps at", [i for i,d,_,_ in r if d], "nonzero p", [c for _,_,c,_ in r])
