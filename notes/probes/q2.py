from polyc import *
rng = np.random.default_rng(1)
bad=0; tot=0
def chk(name, got, exp):
    global bad, tot
    tot+=1
    if not np.allclose(np.asarray(got).ravel(), np.asarray(exp).ravel(), rtol=1e-9, atol=1e-9):
        bad+=1; print("MISMATCH", name, np.asarray(got).ravel(), np.asarray(exp).ravel())
for trial in range(15):
    Tmax = float(rng.choice([1.,2.,0.5,10.]))
    # Burgers 1D: vars (t,x)
    u_ = prand(rng,2,3,4); pt = rng.integers(-2,3,size=2).astype(float)
    u = mk([u_],"nonstatio_PDE"); nu=float(rng.integers(1,5))
    P = Params(nn_params=u.init_params(), eq_params={"nu": jnp.array(nu)})
    got = jinns.loss.BurgerEquation(Tmax=Tmax).evaluate(jnp.array(pt[:1]), jnp.array(pt[1:]), u, P)
    exp = peval(pdiff(u_,0),pt) + Tmax*(peval(u_,pt)*peval(pdiff(u_,1),pt) - nu*peval(pdiff(pdiff(u_,1),1),pt))
    chk("burgers", got, exp)
    # Fisher KPP dims 1..3
    d = int(rng.integers(1,4)); u_ = prand(rng,1+d,3,4); pt = rng.integers(-2,3,size=1+d).astype(float)
    u = mk([u_],"nonstatio_PDE"); D,r,g = [float(v) for v in rng.integers(1,5,size=3)]
    P = Params(nn_params=u.init_params(), eq_params={"D": jnp.array(D), "r": jnp.array(r), "g": jnp.array(g)})
    got = jinns.loss.FisherKPP(Tmax=Tmax).evaluate(jnp.array(pt[:1]), jnp.array(pt[1:]), u, P)
    lap = sum(peval(pdiff(pdiff(u_,1+i),1+i),pt) for i in range(d)); uv=peval(u_,pt)
    chk("fisher", got, peval(pdiff(u_,0),pt) - Tmax*(D*lap + uv*(r-g*uv)))
    # OU FPE 2D
    u_ = prand(rng,3,3,4); pt = rng.integers(-2,3,size=3).astype(float)
    u = mk([u_],"nonstatio_PDE"); al = rng.integers(1,4,size=2).astype(float); mu = rng.integers(-2,3,size=2).astype(float); sg = rng.integers(1,4,size=2).astype(float)
    P = Params(nn_params=u.init_params(), eq_params={"alpha": jnp.array(al), "mu": jnp.array(mu), "sigma": jnp.array(sg)})
    got = jinns.loss.OU_FPENonStatioLoss2D(Tmax=Tmax).evaluate(jnp.array(pt[:1]), jnp.array(pt[1:]), u, P)
    # drift_i = al_i (mu_i - x_i): poly in vars (t,x0,x1)
    o1=0; o2=0
    for i in range(2):
        xi = {tuple(1 if k==1+i else 0 for k in range(3)):1.0}
        drift = padd({(0,0,0): al[i]*mu[i]}, xi, -al[i])
        o1 += peval(pdiff(pmul(drift,u_),1+i),pt)
        o2 += 0.5*sg[i]**2*peval(pdiff(pdiff(u_,1+i),1+i),pt)
    chk("ou", got, -peval(pdiff(u_,0),pt) + Tmax*(-o1+o2))
    # mass conservation + NS
    ux,uy,p_ = prand(rng,2,3,4), prand(rng,2,3,4), prand(rng,2,3,4); pt = rng.integers(-2,3,size=2).astype(float)
    U = mk([ux,uy],"statio_PDE"); Pn = mk([p_],"statio_PDE"); rho=float(rng.integers(1,5)); nu=float(rng.integers(1,5))
    PD = ParamsDict(nn_params={"u":U.init_params(),"p":Pn.init_params()}, eq_params={"rho":jnp.array(rho),"nu":jnp.array(nu)})
    got = jinns.loss.MassConservation2DStatio(nn_key="u").evaluate(jnp.array(pt), {"u":U,"p":Pn}, PD)
    chk("mass", got, peval(pdiff(ux,0),pt)+peval(pdiff(uy,1),pt))
    got = jinns.loss.NavierStokes2DStatio(u_key="u", p_key="p").evaluate(jnp.array(pt), {"u":U,"p":Pn}, PD)
    comps=[ux,uy]; exp=[]
    for i in range(2):
        adv = sum(peval(comps[j],pt)*peval(pdiff(comps[i],j),pt) for j in range(2))
        lap = sum(peval(pdiff(pdiff(comps[i],j),j),pt) for j in range(2))
        exp.append(adv + peval(pdiff(p_,i),pt)/rho - nu*lap)
    chk("ns", got, exp)
    # GLV with 3 populations, positive polys in t
    us = [padd(prand(rng,1,2,2), {(0,):20.0}) for _ in range(3)]; pt = np.array([float(rng.integers(0,3))])
    nets = {str(i): mk([us[i]],"ODE") for i in range(3)}
    eqp = {str(i): {"carrying_capacity": jnp.array(float(rng.integers(1,4))), "growth_rate": jnp.array(float(rng.integers(1,4))), "interactions": jnp.array(rng.integers(-3,4,size=3).astype(float))} for i in range(3)}
    PD = ParamsDict(nn_params={k:v.init_params() for k,v in nets.items()}, eq_params=eqp)
    main, others = "1", ["0","2"]
    got = jinns.loss.GeneralizedLotkaVolterra(key_main=main, keys_other=others, Tmax=Tmax).evaluate(jnp.array(pt), nets, PD)
    vals = {k: peval(us[int(k)],pt) for k in nets}; e = eqp[main]
    inter = float(e["interactions"][0])*vals[main] + sum(float(e["interactions"][i+1])*vals[k] for i,k in enumerate(others))
    carry = float(e["carrying_capacity"])*sum(vals.values())
    exp = peval(pdiff(us[1],0),pt)/vals[main] + Tmax*(-float(e["growth_rate"]) - inter + carry)
    chk("glv", got, exp)
print("total",tot,"bad",bad)
