From Coq Require Import PrimFloat Uint63 ZArith.
Open Scope float_scope.
(* ceil of a non-negative binary64 as Z, via normfr_mantissa/frshiftexp is overkill here: compare with of_uint63 *)
Definition arange_size_gt (a b : float) (n : float) (k : float) : bool :=
  (* true iff (b-a)/((b-a)/n) > k, i.e. ceil(...) >= k+1 *)
  let step := (b - a) / n in PrimFloat.ltb k ((b - a) / step).
Definition q := (1 - 0) / ((1 - 0) / 49).
Eval vm_compute in q.
Eval vm_compute in (PrimFloat.ltb 49 q).
Theorem grid_count_refuted : exists a b n, arange_size_gt a b n n = true.
Proof. exists 0, 1, 49. vm_compute. reflexivity. Qed.
Print Assumptions grid_count_refuted.
