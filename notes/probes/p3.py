from common import *
import traceback
from jinns.loss import PDENonStatio, PDEStatio, ODE
class Eq(PDENonStatio):
    def equation(self, t, x, u_dict, params_dict):
        # residual reveals argument order: 100*t + x0
        return 100.*t + x[0:1]
W = [[1., 1., 2., 0.] + [0.]*6]
u = make_pinn(W, "nonstatio_PDE")
pd = ParamsDict(nn_params={"a": u.init_params()}, eq_params={"nu": jnp.array(2.)})
try:
    loss = jinns.loss.SystemLossPDE(u_dict={"a":u}, dynamic_loss_dict={"e":Eq()}, loss_weights=jinns.loss.LossWeightsPDEDict(), params_dict=pd)
    tx = jnp.array([[1.,2.,3.]])
    batch = jinns.data.PDENonStatioBatch(times_x_inside_batch=tx, times_x_border_batch=None)
    tot, terms = loss(pd, batch)
    print("dyn", terms["dyn_loss"], "expected (100*1+2)^2=", 102.**2, " swapped: t:=x -> shapes differ")
except Exception as e:
    traceback.print_exc()
# 1D so that shapes agree
W1 = [[1., 1., 2., 0.,0.,0.]]
u1 = make_pinn(W1, "nonstatio_PDE")
pd = ParamsDict(nn_params={"a": u1.init_params()}, eq_params={"nu": jnp.array(2.)})
loss = jinns.loss.SystemLossPDE(u_dict={"a":u1}, dynamic_loss_dict={"e":Eq()}, loss_weights=jinns.loss.LossWeightsPDEDict(), params_dict=pd)
tx = jnp.array([[1.,2.]])
batch = jinns.data.PDENonStatioBatch(times_x_inside_batch=tx, times_x_border_batch=None)
tot, terms = loss(pd, batch)
print("1D dyn", terms["dyn_loss"], "expected", 102.**2, "swapped", 201.**2)
# dict weights
try:
    loss = jinns.loss.SystemLossPDE(u_dict={"a":u1}, dynamic_loss_dict={"e":Eq()}, loss_weights=jinns.loss.LossWeightsPDEDict(dyn_loss={"e":3.}), params_dict=pd)
    print("dict weights ok", loss(pd,batch)[1]["dyn_loss"])
except Exception as e:
    print("dict weights PDE:", type(e).__name__, e)
# in place mutation with param batch
pd = ParamsDict(nn_params={"a": u1.init_params()}, eq_params={"nu": jnp.array(2.)})
loss = jinns.loss.SystemLossPDE(u_dict={"a":u1}, dynamic_loss_dict={"e":Eq()}, loss_weights=jinns.loss.LossWeightsPDEDict(), params_dict=pd)
batch2 = jinns.data.append_param_batch(batch, {"nu": jnp.array([[7.]])})
try:
    tot, terms = loss(pd, batch2)
    print("after eval eq_params:", pd.eq_params)
except Exception as e:
    traceback.print_exc(); print("after failed eval eq_params:", pd.eq_params)
# SystemLossODE
class EqO(ODE):
    def equation(self, t, u_dict, params_dict):
        return u_dict["a"](t, params_dict.extract_params("a")) * params_dict.eq_params["nu"]
uo = make_pinn([[1.,2.,0.]], "ODE")
pdo = ParamsDict(nn_params={"a": uo.init_params()}, eq_params={"nu": jnp.array(2.)})
for lw in [jinns.loss.LossWeightsODEDict(dyn_loss=1., initial_condition=1., observations=1.), jinns.loss.LossWeightsODEDict(dyn_loss={"e":3.}, initial_condition={"a":1.}, observations={"a":1.}), jinns.loss.LossWeightsODEDict()]:
  try:
    lo = jinns.loss.SystemLossODE(u_dict={"a":uo}, dynamic_loss_dict={"e":EqO()}, loss_weights=lw, params_dict=pdo, initial_condition_dict={"a":(0., 1.)})
    b = jinns.data.ODEBatch(temporal_batch=jnp.array([0.,1.]))
    print("ODE sys", lo(pdo,b))
    b2 = jinns.data.append_param_batch(b, {"nu": jnp.array([[7.],[8.]])})
    print("ODE sys w/ param batch", lo(pdo,b2))
  except Exception as e:
    print("ODE sys:", type(e).__name__, e)
