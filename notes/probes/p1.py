import os
os.environ["JAX_PLATFORMS"]="cpu"
import jax, jax.numpy as jnp, numpy as np
jax.config.update("jax_enable_x64", True)
import jinns
# C09: ODE generator n=4,b=2
for n,b in [(4,2),(6,3),(5,2),(6,2)]:
    g = jinns.data.DataGeneratorODE(jax.random.PRNGKey(0), n, 0., 1., b, method="grid")
    store0 = np.sort(np.asarray(g.times))
    seq=[]
    for k in range(8):
        g, batch = g.get_batch()
        seq.append((int(g.curr_time_idx), [round(float(v),3) for v in batch.temporal_batch], np.allclose(np.sort(np.asarray(g.times)),store0)))
    print(n,b)
    for s in seq: print("   ",s)
