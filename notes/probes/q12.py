from polyc import *
import traceback
from jinns.loss import ODE, PDEStatio, PDENonStatio
rng = np.random.default_rng(2)
# C12 heterogeneity: parameter "r" replaced by h(t,x,u,params) inside the equation only
class Eq(PDENonStatio):
    def equation(self, t, x, u, params):
        return u(t,x,params) * params.eq_params["r"] + params.eq_params["s"]
def ot(i,o,p): return o + p.eq_params["r"]   # network reads r too (must see the ORIGINAL r)
u_ = {(1,0):2.0,(0,1):3.0,(0,0):1.0}
u = mk([u_],"nonstatio_PDE", output_transform=ot)
P = Params(nn_params=u.init_params(), eq_params={"r": jnp.array(5.), "s": jnp.array(7.)})
het = {"r": lambda t,x,u,params: 10.*t[0] + x[0] + params.eq_params["s"], "s": None}
L = Eq(Tmax=1., eq_params_heterogeneity=het)
t=jnp.array([2.]); x=jnp.array([3.])
got = L.evaluate(t,x,u,P)
uval = 1+2*2+3*3 + 5.   # network uses original r=5
rh = 10*2+3+7
print("heterogeneous:", got, "expected (net sees original r):", uval*rh+7, " (net sees replaced r):", (1+4+9+rh)*rh+7)
# missing key in heterogeneity dict
L2 = Eq(Tmax=1., eq_params_heterogeneity={"r": het["r"]})
print("missing key ok:", L2.evaluate(t,x,u,P))
# C13: ODE system composition vs single LossODE
class E1(ODE):
    def equation(self, t, u_dict, pd):
        return u_dict["a"](t, pd.extract_params("a")) * pd.eq_params["k"] - u_dict["b"](t, pd.extract_params("b"))
class E2(ODE):
    def equation(self, t, u_dict, pd):
        return u_dict["b"](t, pd.extract_params("b")) + 2.0
ua = mk([{(1,):2.0,(0,):1.0}],"ODE"); ub = mk([{(2,):1.0,(0,):-1.0}],"ODE")
PD = ParamsDict(nn_params={"a":ua.init_params(),"b":ub.init_params()}, eq_params={"k": jnp.array(3.)})
lw = jinns.loss.LossWeightsODEDict(dyn_loss={"e1":2.,"e2":5.}, initial_condition={"a":7.,"b":11.}, observations={"a":1.,"b":1.})
sysl = jinns.loss.SystemLossODE(u_dict={"a":ua,"b":ub}, dynamic_loss_dict={"e1":E1(),"e2":E2()}, loss_weights=lw, initial_condition_dict={"a":(0.,3.),"b":(1.,-2.)}, params_dict=PD)
b = jinns.data.ODEBatch(temporal_batch=jnp.array([0.,1.,2.]))
tot, terms = sysl(PD,b)
ts=np.array([0.,1,2]); a=1+2*ts; bb=ts**2-1
exp_dyn = 2*np.mean((a*3-bb)**2)+5*np.mean((bb+2)**2)
exp_ic = 7*(1-3)**2 + 11*((1-1)-(-2))**2
print("sys ODE dyn", terms["dyn_loss"], exp_dyn, " ic", terms["initial_condition"], exp_ic, " total", tot, exp_dyn+exp_ic)
