from polyc import *
import itertools
from jinns.loss import PDENonStatio
from jinns.parameters import DerivativeKeysPDENonStatio
rng = np.random.default_rng(4)
def ot(i,o,p): return o*p.eq_params["a"]
class EqN(PDENonStatio):
    def equation(self, t, x, u, params): return u(t, x, params)*params.eq_params["b"] + t
W = [[1.,2.,3.,1.,0.,0.,0.,1.,0.,0.]]
un = make_pinn(W, "nonstatio_PDE", output_transform=ot)
Pn = Params(nn_params=un.init_params(), eq_params={"a": jnp.array(2.), "b": jnp.array(5.)})
nb=2; a_ = rng.integers(0,4,size=(nb,4)).astype(float)
bb = jnp.asarray(np.stack([np.stack([np.zeros(nb),a_[:,0]],1), np.stack([np.ones(nb)*4,a_[:,1]],1), np.stack([a_[:,2],np.zeros(nb)],1), np.stack([a_[:,3],np.ones(nb)*4],1)], -1))
x = jnp.asarray(rng.integers(0,4,size=(2,2)).astype(float)); t = jnp.array([[0.],[1.]])
tb = jnp.concatenate([jnp.repeat(t[:,:,None],4,2), bb],1)
bn = jinns.data.PDENonStatioBatch(times_x_inside_batch=jnp.concatenate([t,x],1), times_x_border_batch=tb)
bn = jinns.data.append_obs_batch(bn, {"pinn_in": jnp.array([[0.,1.,2.],[1.,0.,1.]]), "val": jnp.array([[1.],[2.]]), "eq_params": {}})
terms = ["dyn_loss","norm_loss","boundary_loss","observations","initial_condition"]
groups = ["nn","a","b"]
def build(mask):  # mask[term][group] bool
    mk_ = lambda m: Params(nn_params=m["nn"], eq_params={"a":m["a"],"b":m["b"]})
    dk = DerivativeKeysPDENonStatio(**{tm: mk_(mask[tm]) for tm in terms}, params=Pn)
    return jinns.loss.LossPDENonStatio(u=un, dynamic_loss=EqN(), omega_boundary_fun=lambda t,dx: jnp.array([1.0]), omega_boundary_condition="dirichlet", norm_samples=x, norm_int_length=2.0, initial_condition_fun=lambda x: jnp.array([0.5]), params=Pn, derivative_keys=dk)
full = {tm:{g:True for g in groups} for tm in terms}
Lf = build(full)
def gvec(g): return {"nn": np.asarray(g.nn_params.W).ravel(), "a": np.asarray(g.eq_params["a"]).ravel(), "b": np.asarray(g.eq_params["b"]).ravel()}
gfull = {tm: gvec(jax.grad(lambda p: Lf(p,bn)[1][tm])(Pn)) for tm in terms}
vals_full = {k: float(v) for k,v in Lf(Pn,bn)[1].items()}
bad=0; n=0
for trial in range(40):
    mask = {tm:{g: bool(rng.integers(0,2)) for g in groups} for tm in terms}
    L = build(mask)
    vals = {k: float(v) for k,v in L(Pn,bn)[1].items()}
    if vals != vals_full: bad+=1; print("values depend on mask")
    gt = gvec(jax.grad(lambda p: L(p,bn)[0])(Pn))
    for g in groups:
        exp = sum(gfull[tm][g] for tm in terms if mask[tm][g]) + 0*gfull["dyn_loss"][g]
        n+=1
        if not np.allclose(gt[g], exp, rtol=1e-10, atol=1e-10): bad+=1; print("MISMATCH", g, gt[g], exp, mask)
print("checked", n, "bad", bad, "nonzero full grads:", {tm:{g: bool(np.any(gfull[tm][g]!=0)) for g in groups} for tm in terms})
