from common import *
# C05 normalisation, stationary
W = [[1., 2., 0., 0., 0., 0.]] # u(x,y) = 1 + 2x
u = make_pinn(W, "statio_PDE")
params = Params(nn_params=u.init_params(), eq_params={})
samples = jnp.array([[0.,0.],[1.,0.],[2.,0.],[3.,5.]])
L = 0.5
loss = jinns.loss.LossPDEStatio(u=u, dynamic_loss=None, norm_samples=samples, norm_int_length=L, params=params)
batch = jinns.data.PDEStatioBatch(inside_batch=jnp.zeros((2,2)), border_batch=None)
tot, terms = loss(params, batch)
uv = np.array([1,3,5,7.])
print("impl", terms["norm_loss"], "sq-dev-of-mean", (L*uv.mean()-1)**2, "mean-of-sq-dev", ((L*uv-1)**2).mean())
# nonstatio
W = [[1., 1., 2., 0.] + [0.]*6] # u(t,x,y)=1+t+2x
u = make_pinn(W, "nonstatio_PDE")
params = Params(nn_params=u.init_params(), eq_params={})
loss = jinns.loss.LossPDENonStatio(u=u, dynamic_loss=None, norm_samples=samples, norm_int_length=L, params=params)
tx = jnp.array([[0.,0.,0.],[1.,0.,0.],[4.,0,0]])
batch = jinns.data.PDENonStatioBatch(times_x_inside_batch=tx, times_x_border_batch=None)
tot, terms = loss(params, batch)
exp = np.mean([(L*(uv+t).mean()-1)**2 for t in [0,1,4.]])
print("impl", terms["norm_loss"], "expected", exp)
