from common import *
import traceback
# ODE PINN whose output depends on eq_params["a"] via output_transform: u(t) = (1+2t) * a
def ot(i, o, p): return o * p.eq_params["a"]
u = make_pinn([[1.,2.,0.]], "ODE", output_transform=ot)
params = Params(nn_params=u.init_params(), eq_params={"a": jnp.array(1.), "b": jnp.array(5.)})
loss = jinns.loss.LossODE(u=u, dynamic_loss=None, params=params)
t_obs = jnp.array([[0.],[1.],[2.]])
a_obs = jnp.array([[1.],[2.],[3.]])
vals = jnp.array([[0.],[0.],[0.]])
b = jinns.data.ODEBatch(temporal_batch=jnp.zeros((3,)))
b = jinns.data.append_obs_batch(b, {"pinn_in": t_obs, "val": vals, "eq_params": {"a": a_obs}})
try:
    tot, terms = loss(params, b)
    exp = np.mean([((1+2*t)*a)**2 for t,a in zip([0,1,2],[1,2,3])])
    print("obs term", terms["observations"], "expected row-aligned", exp)
except Exception as e:
    traceback.print_exc()
# same with param_batch for dyn loss alignment
from jinns.loss import ODE
class EqO(ODE):
    def equation(self, t, u, params):
        return u(t, params) + 100*params.eq_params["b"]
loss = jinns.loss.LossODE(u=u, dynamic_loss=EqO(), params=params, initial_condition=(0., 0.))
b = jinns.data.ODEBatch(temporal_batch=jnp.array([0.,1.,2.]))
b = jinns.data.append_param_batch(b, {"a": a_obs})
tot, terms = loss(params, b)
print("dyn w/ param batch", terms["dyn_loss"], "expected", np.mean([((1+2*t)*a+500)**2 for t,a in zip([0,1,2],[1,2,3])]))
print("ic w/ param batch", terms["initial_condition"], "expected", np.mean([((1)*a)**2 for a in [1,2,3]]))
