from polyc import *
import traceback
key = jax.random.PRNGKey(0)
# C10 PINN via create_PINN
eqx_list = ((eqx.nn.Linear, 3, 4),(jnp.square,),(eqx.nn.Linear,4,3))
def it(i,p): return i*p.eq_params["s"]
def ot(i,o,p): return o + i[0]*p.eq_params["s"]
u = jinns.utils.create_PINN(key, eqx_list, "nonstatio_PDE", 2, input_transform=it, output_transform=ot)
P = Params(nn_params=u.init_params(), eq_params={"s": jnp.array(2.)})
t=jnp.array([0.5]); x=jnp.array([1.,-1.])
m = eqx.combine(P.nn_params, u.static); l0,l2 = m.layers[0], m.layers[2]
z = jnp.concatenate([t,x])
ref = (l2.weight @ ((l0.weight @ (z*2.) + l0.bias)**2) + l2.bias) + z[0]*2.
print("PINN fwd ok", np.allclose(u(t,x,P), ref), u(t,x,P).shape)
# bare params when no transform needs eq_params
u2 = jinns.utils.create_PINN(key, eqx_list, "nonstatio_PDE", 2)
print("bare params ok", np.allclose(u2(t,x,u2.init_params()), u2(t,x,Params(nn_params=u2.init_params(), eq_params={}))))
# shared outputs
us = jinns.utils.create_PINN(key, eqx_list, "nonstatio_PDE", 2, shared_pinn_outputs=(jnp.s_[0:2], jnp.s_[2]))
full = u2(t,x,u2.init_params())
print("shared ok", np.allclose(us[0](t,x,us[0].init_params()), full[0:2]), np.allclose(us[1](t,x,us[1].init_params()), full[2:3]), us[1](t,x,us[1].init_params()).shape)
# ODE scalar / length-one time
uo = jinns.utils.create_PINN(key, ((eqx.nn.Linear,1,3),(jnp.tanh,),(eqx.nn.Linear,3,1)), "ODE")
print("ODE scalar vs (1,):", uo(jnp.array(0.3), uo.init_params()), uo(jnp.array([0.3]), uo.init_params()))
# HYPERPINN
h = jinns.utils.create_HYPERPINN(key, ((eqx.nn.Linear,2,3),(jnp.tanh,),(eqx.nn.Linear,3,1)), "statio_PDE", ["a","b"], 3, dim_x=2, eqx_list_hyper=((eqx.nn.Linear,3,5),(jnp.tanh,),(eqx.nn.Linear,5,1)))
Ph = Params(nn_params=h.init_params(), eq_params={"a": jnp.array([0.3,0.4]), "b": jnp.array(0.7), "c": jnp.array(9.)})
hy = eqx.combine(Ph.nn_params, h.static_hyper)
w = hy(jnp.array([0.3,0.4,0.7]))
leaves = jax.tree.leaves(h.params); sizes=[l.size for l in leaves]; print("leaf shapes", [l.shape for l in leaves], "hyper out", w.shape)
segs = np.split(np.asarray(w), np.cumsum(sizes)[:-1]); newl=[s.reshape(l.shape) for s,l in zip(segs,leaves)]
W1,b1,W2,b2 = newl
xx = jnp.array([0.2,-0.1])
ref = W2 @ np.tanh(W1 @ np.asarray(xx) + b1) + b2
print("HYPERPINN ok", np.allclose(h(xx,Ph), ref), h(xx,Ph).shape)
# SPINN slots
s = jinns.utils.create_SPINN(key, 2, 3, ((eqx.nn.Linear,1,4),(jnp.tanh,),(eqx.nn.Linear,4,6)), "statio_PDE", m=2)
xb = jnp.array([[0.1,0.2],[0.3,0.4],[0.5,0.6]])
out = s(xb, s.init_params())
sm = eqx.combine(s.params, s.static)
def f(dd, v):
    z = jnp.array([v])
    for layer in sm.separated_mlp[dd]: z = layer(z)
    return z
ref = np.zeros((3,3,2))
for i in range(3):
  for j in range(3):
    for mm in range(2):
        ref[i,j,mm] = float(jnp.sum(f(0,xb[i,0])[mm*3:(mm+1)*3]*f(1,xb[j,1])[mm*3:(mm+1)*3]))
print("SPINN ok", np.allclose(out, ref), out.shape)
