from common import *
import optax, traceback
import jinns.validation
from jinns.loss import ODE
class EqO(ODE):
    def equation(self, t, u, params):
        return u(t, params) - 2.
uo = make_pinn([[1.,3.,0.]], "ODE")
po = Params(nn_params=uo.init_params(), eq_params={"k": jnp.array(1.)})
lo = jinns.loss.LossODE(u=uo, dynamic_loss=EqO(), params=po, initial_condition=(0., 1.))
g = jinns.data.DataGeneratorODE(jax.random.PRNGKey(0), 8, 0., 1., 4, method="grid")
gv = jinns.data.DataGeneratorODE(jax.random.PRNGKey(1), 8, 0., 1., 4, method="grid")
val = jinns.validation.ValidationLoss(loss=lo, validation_data=gv, call_every=2, patience=2, early_stopping=True)
try:
    out = jinns.solve(n_iter=12, init_params=po, data=g, loss=lo, optimizer=optax.sgd(1e-2), validation=val, verbose=False)
    print("train", out[1]); print("valcrit", out[7]); print("best", out[8].nn_params.W, "final", out[0].nn_params.W)
except Exception as e:
    traceback.print_exc()
# script-driven validation module
class Scripted(jinns.validation.AbstractValidationModule):
    call_every: int = eqx.field(kw_only=True, default=2)
    k: jax.Array = eqx.field(default_factory=lambda: jnp.array(0))
    stops: jax.Array = eqx.field(default_factory=lambda: jnp.array([0,0,0,1,0,0,0,0]))
    improves: jax.Array = eqx.field(default_factory=lambda: jnp.array([1,0,1,0,1,0,0,0]))
    def __call__(self, params):
        new = eqx.tree_at(lambda m: m.k, self, self.k+1)
        return new, self.stops[self.k]==1, 10.0*self.k + params.nn_params.W[0,0]*0, self.improves[self.k]==1
try:
    out = jinns.solve(n_iter=12, init_params=po, data=g, loss=lo, optimizer=optax.sgd(1e-2), validation=Scripted(), verbose=False, tracked_params=Params(nn_params=None, eq_params={"k":True}))
    print("train", out[1]); print("valcrit", out[7]); print("best", out[8].nn_params.W, "final", out[0].nn_params.W)
except Exception as e:
    traceback.print_exc()
