from common import *
import itertools
from jinns.loss import _div_rev, _laplacian_rev, _vectorial_laplacian
from jinns.loss._operators import _u_dot_nabla_times_u_rev
# polynomial = dict exps->coef
def pdiff(p, k):
    out={}
    for es,c in p.items():
        if es[k]>0:
            e2=list(es); e2[k]-=1; out[tuple(e2)] = out.get(tuple(e2),0)+c*es[k]
    return out
def peval(p, pt): return sum(c*np.prod([pt[i]**e for i,e in enumerate(es)]) for es,c in p.items()) if p else 0.0
def pmul(p,q):
    out={}
    for a,c in p.items():
        for b,d_ in q.items():
            k=tuple(x+y for x,y in zip(a,b)); out[k]=out.get(k,0)+c*d_
    return out
def padd(p,q):
    out=dict(p)
    for k,v in q.items(): out[k]=out.get(k,0)+v
    return out
class PNet(eqx.Module):
    polys: tuple = eqx.field(static=True)
    dummy: jax.Array
    def __call__(self, z):
        outs=[]
        for p in self.polys:
            v = 0.*self.dummy
            for es,c in p: 
                term = c*jnp.ones(())
                for i,e in enumerate(es): term = term * z[i]**e
                v = v + term
            outs.append(v)
        return jnp.stack(outs)
def mk(polys, eq_type):
    mlp = PNet(tuple(tuple(sorted(p.items())) for p in polys), jnp.zeros(()))
    return jinns.utils.PINN(mlp=mlp, slice_solution=jnp.s_[:], eq_type=eq_type, input_transform=lambda i,p:i, output_transform=lambda i,o,p:o)
bad=0; tot=0
rng = np.random.default_rng(0)
for d in range(1,5):
  for has_t in [False, True]:
    nv = d + (1 if has_t else 0); off = 1 if has_t else 0
    monos = [ {es:1.0} for es in itertools.product(range(4), repeat=nv) if sum(es)<=3]
    pt = rng.integers(-3,4,size=nv).astype(float)
    tt = jnp.array(pt[:1]) if has_t else None; xx = jnp.array(pt[off:])
    et = "nonstatio_PDE" if has_t else "statio_PDE"
    for m in monos:
        u = mk([m], et)
        p = Params(nn_params=u.init_params(), eq_params={"junk": jnp.array(rng.normal())})
        got = float(_laplacian_rev(tt, xx, u, p))
        exp = sum(peval(pdiff(pdiff(m,off+i),off+i), pt) for i in range(d)); tot+=1
        if abs(got-exp)>1e-9: bad+=1; print("LAP", d, has_t, m, got, exp)
    for trial in range(12):
        comps = [padd(monos[i], {k:3.0*v for k,v in monos[j].items()}) for i,j in rng.integers(0,len(monos),size=(d,2))]
        u = mk(comps, et); p = Params(nn_params=u.init_params(), eq_params={})
        got = float(_div_rev(tt, xx, u, p)); exp = sum(peval(pdiff(comps[i],off+i),pt) for i in range(d)); tot+=1
        if abs(got-exp)>1e-9: bad+=1; print("DIV", d, has_t, comps, got, exp)
        got = np.asarray(_vectorial_laplacian(tt, xx, u, p)).ravel(); exp = np.array([sum(peval(pdiff(pdiff(c,off+i),off+i),pt) for i in range(d)) for c in comps]); tot+=1
        if not np.allclose(got,exp): bad+=1; print("VLAP", d, has_t, comps, got, exp)
        if d==2:
            got = np.asarray(_u_dot_nabla_times_u_rev(tt, xx, u, p)).ravel(); exp = np.array([sum(peval(comps[j],pt)*peval(pdiff(comps[i], off+j),pt) for j in range(2)) for i in range(2)]); tot+=1
            if not np.allclose(got,exp): bad+=1; print("ADV", has_t, comps, got, exp)
print("total", tot, "bad", bad)
