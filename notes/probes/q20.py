from polyc import *
import copy, traceback
from jinns.loss import ODE, PDEStatio, PDENonStatio
rng = np.random.default_rng(3)
def snap(tree):
    leaves, treedef = jax.tree.flatten(tree)
    return [np.array(l, copy=True) if hasattr(l,'shape') else l for l in leaves], str(treedef)
def same(a,b):
    return a[1]==b[1] and len(a[0])==len(b[0]) and all((np.array_equal(x,y) if hasattr(x,'shape') else x==y) for x,y in zip(a[0],b[0]))
def check(name, loss, params, batch):
    s0 = (snap(params), snap(batch), snap(loss))
    try:
        e1 = loss(params, batch)
    except Exception as e:
        print(name, "ERR", type(e).__name__, str(e)[:100]); return
    s1 = (snap(params), snap(batch), snap(loss))
    pure = all(same(a,b) for a,b in zip(s0,s1))
    e2 = loss(params, batch)
    rep = np.allclose(e1[0], e2[0], rtol=0, atol=0) and all(np.array_equal(e1[1][k], e2[1][k]) for k in e1[1])
    j = jax.jit(lambda p,b: loss(p,b))(params, batch)
    jit_ok = np.allclose(e1[0], j[0], rtol=1e-12) and all(np.allclose(e1[1][k], j[1][k], rtol=1e-12, atol=1e-12) for k in e1[1])
    (v, aux), g = jax.value_and_grad(lambda p,b: loss(p,b), has_aux=True)(params, batch)
    vg_ok = np.allclose(e1[0], v, rtol=1e-12) and all(np.allclose(e1[1][k], aux[k], rtol=1e-12, atol=1e-12) for k in e1[1])
    print(name, "args unchanged:", pure, " repeat:", rep, " jit:", jit_ok, " value_and_grad primal:", vg_ok)
# ODE with param + obs
def ot(i,o,p): return o*p.eq_params["a"]
class EqO(ODE):
    def equation(self, t, u, params): return u(t, params) + params.eq_params["b"]
u = mk([{(1,):2.0,(0,):1.0}],"ODE", output_transform=ot)
P = Params(nn_params=u.init_params(), eq_params={"a": jnp.array(2.), "b": jnp.array(5.)})
L = jinns.loss.LossODE(u=u, dynamic_loss=EqO(), params=P, initial_condition=(0., 0.5))
b = jinns.data.ODEBatch(temporal_batch=jnp.array([0.,1.,2.]))
check("LossODE plain", L, P, b)
b2 = jinns.data.append_param_batch(b, {"a": jnp.array([[1.],[2.],[3.]])})
b2 = jinns.data.append_obs_batch(b2, {"pinn_in": jnp.array([[1.],[2.],[0.]]), "val": jnp.array([[0.],[1.],[2.]]), "eq_params": {"b": jnp.array([[1.],[1.],[2.]])}})
check("LossODE param+obs", L, P, b2)
# statio + nonstatio with boundary, norm, param batch
class EqS(PDEStatio):
    def equation(self, x, u, params): return u(x, params)*params.eq_params["b"]
us = mk([{(1,0):2.0,(0,1):1.0,(0,0):1.0}],"statio_PDE", output_transform=ot)
Ps = Params(nn_params=us.init_params(), eq_params={"a": jnp.array(2.), "b": jnp.array(5.)})
nb=3; a_ = rng.integers(0,4,size=(nb,4)).astype(float)
bb = jnp.asarray(np.stack([np.stack([np.zeros(nb),a_[:,0]],1), np.stack([np.ones(nb)*4,a_[:,1]],1), np.stack([a_[:,2],np.zeros(nb)],1), np.stack([a_[:,3],np.ones(nb)*4],1)], -1))
x = jnp.asarray(rng.integers(0,4,size=(3,2)).astype(float))
Ls = jinns.loss.LossPDEStatio(u=us, dynamic_loss=EqS(), omega_boundary_fun=lambda dx: jnp.array([1.0]), omega_boundary_condition="dirichlet", norm_samples=x, norm_int_length=2.0, params=Ps)
bs = jinns.data.PDEStatioBatch(inside_batch=x, border_batch=bb)
check("LossPDEStatio plain", Ls, Ps, bs)
bs2 = jinns.data.append_param_batch(bs, {"a": jnp.array([[1.],[2.],[3.]])})
check("LossPDEStatio param batch", Ls, Ps, bs2)
class EqN(PDENonStatio):
    def equation(self, t, x, u, params): return u(t, x, params)*params.eq_params["b"] + t
un = mk([{(1,0,0):1.0,(0,1,0):2.0,(0,0,1):1.0}],"nonstatio_PDE", output_transform=ot)
Pn = Params(nn_params=un.init_params(), eq_params={"a": jnp.array(2.), "b": jnp.array(5.)})
Ln = jinns.loss.LossPDENonStatio(u=un, dynamic_loss=EqN(), omega_boundary_fun=lambda t,dx: jnp.array([1.0]), omega_boundary_condition="von neumann", norm_samples=x, norm_int_length=2.0, initial_condition_fun=lambda x: jnp.array([0.5]), params=Pn)
t = jnp.array([[0.],[1.],[2.]])
tb = jnp.concatenate([jnp.repeat(t[:,:,None],4,2), bb],1)
bn = jinns.data.PDENonStatioBatch(times_x_inside_batch=jnp.concatenate([t,x],1), times_x_border_batch=tb)
check("LossPDENonStatio plain", Ln, Pn, bn)
bn2 = jinns.data.append_param_batch(bn, {"a": jnp.array([[1.],[2.],[3.]]), "b": jnp.array([[1.],[0.],[3.]])})
check("LossPDENonStatio param batch", Ln, Pn, bn2)
# generators
for nm, g in [("ODE gen", jinns.data.DataGeneratorODE(jax.random.PRNGKey(0), 6, 0., 1., 2)),
              ("nonstatio gen", jinns.data.CubicMeshPDENonStatio(key=jax.random.PRNGKey(0), n=6, nb=8, nt=4, omega_batch_size=2, omega_border_batch_size=2, temporal_batch_size=2, dim=2, min_pts=(0.,0.), max_pts=(1.,1.), tmin=0., tmax=1.)),
              ("param gen", jinns.data.DataGeneratorParameter(jax.random.PRNGKey(0), 6, 2, param_ranges={"a":(0.,1.)}, user_data={"b": jnp.arange(6.)})),
              ("obs gen", jinns.data.DataGeneratorObservations(jax.random.PRNGKey(0), 2, jnp.arange(5.), jnp.arange(5.), {"a": jnp.arange(5.)}))]:
    s0 = snap(g); g1, b1 = g.get_batch(); s1 = snap(g); g2, b2_ = g.get_batch()
    gj, bj = jax.jit(lambda g: g.get_batch())(g)
    print(nm, "unchanged:", same(s0,s1), "repeat:", same(snap(b1),snap(b2_)) and same(snap(g1),snap(g2)), "jit:", same(snap(b1), snap(bj)))
print("---- nonstatio param batch, per term")
for kw in [dict(norm_samples=None, norm_int_length=None), dict(omega_boundary_fun=None, omega_boundary_condition=None), dict(initial_condition_fun=None)]:
    base = dict(omega_boundary_fun=lambda t,dx: jnp.array([1.0]), omega_boundary_condition="von neumann", norm_samples=x, norm_int_length=2.0, initial_condition_fun=lambda x: jnp.array([0.5]))
    base.update(kw)
    L2 = jinns.loss.LossPDENonStatio(u=un, dynamic_loss=EqN(), params=Pn, **base)
    try:
        print({k:v for k,v in kw.items()}.keys(), {k: float(v) for k,v in L2(Pn, bn2)[1].items()})
    except Exception as e:
        print(list(kw.keys()), "ERR", type(e).__name__)
