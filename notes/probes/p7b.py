from common import *
from jinns.solver._rar import init_rar, trigger_rar
from jinns.loss import ODE, PDENonStatio, PDEStatio
class EqN(PDENonStatio):
    def equation(self, t, x, u, params):
        return u(t, x, params)   # residual = u = t + 10 x
un = make_pinn([[0.,1.,10.,0.]+[0.]*6], "nonstatio_PDE")
pn = Params(nn_params=un.init_params(), eq_params={})
ln = jinns.loss.LossPDENonStatio(u=un, dynamic_loss=EqN(), params=pn)
def run(start, every, n=40, nt=30, n_start=6, nt_start=4, sel_t=2, sel_x=3, ct=5, cx=7, iters=6, cart=True):
    rar = {"start_iter":start, "update_every":every, "sample_size_times":ct, "selected_sample_size_times":sel_t, "sample_size_omega":cx, "selected_sample_size_omega":sel_x}
    g = jinns.data.CubicMeshPDENonStatio(key=jax.random.PRNGKey(3), n=n, nb=None, nt=nt, omega_batch_size=2, omega_border_batch_size=None, temporal_batch_size=2, dim=2, min_pts=(0.,0.), max_pts=(1.,1.), tmin=0., tmax=1., rar_parameters=rar, n_start=n_start, nt_start=nt_start, cartesian_product=cart)
    g, st, sf = init_rar(g)
    for i in range(iters):
        t0 = np.asarray(g.times).copy(); x0=np.asarray(g.omega).copy()
        before = int(g.rar_iter_nb)
        _,_,g = trigger_rar(i, ln, pn, g, st, sf)
        if int(g.rar_iter_nb)-before:
            ch_t = np.nonzero(np.asarray(g.times)!=t0)[0]; ch_x = np.nonzero(np.asarray(g.omega)[:,0]!=x0[:,0])[0]
            print("  step at",i,"times slots changed",ch_t,"omega slots changed",ch_x,"p_times nz idx",np.nonzero(np.asarray(g.p_times))[0],"p_omega nz idx",np.nonzero(np.asarray(g.p_omega))[0])
print("nonstatio n_start=6 nt_start=4"); run(0,1)
print("nonstatio n_start=3 nt_start=5"); run(0,1,n_start=3,nt_start=5, iters=3)
