from common import *
import itertools
def pdiff(p, k):
    out={}
    for es,c in p.items():
        if es[k]>0:
            e2=list(es); e2[k]-=1; out[tuple(e2)] = out.get(tuple(e2),0)+c*es[k]
    return out
def peval(p, pt): return float(sum(c*np.prod([pt[i]**e for i,e in enumerate(es)]) for es,c in p.items())) if p else 0.0
def pmul(p,q):
    out={}
    for a,c in p.items():
        for b,d_ in q.items():
            k=tuple(x+y for x,y in zip(a,b)); out[k]=out.get(k,0)+c*d_
    return out
def padd(p,q,s=1.0):
    out=dict(p)
    for k,v in q.items(): out[k]=out.get(k,0)+s*v
    return out
def pscale(p,s): return {k:s*v for k,v in p.items()}
def prand(rng, nv, deg=2, nterms=3):
    p={}
    for _ in range(nterms):
        es = [0]*nv
        for _ in range(rng.integers(0,deg+1)): es[rng.integers(0,nv)]+=1
        p[tuple(es)] = p.get(tuple(es),0)+float(rng.integers(-3,4))
    return p
class PNet(eqx.Module):
    polys: tuple = eqx.field(static=True)
    dummy: jax.Array
    def __call__(self, z):
        outs=[]
        for p in self.polys:
            v = 0.*self.dummy
            for es,c in p:
                term = c*jnp.ones(())
                for i,e in enumerate(es): term = term * z[i]**e
                v = v + term
            outs.append(v)
        return jnp.stack(outs)
def mk(polys, eq_type, **kw):
    mlp = PNet(tuple(tuple(sorted(p.items())) for p in polys), jnp.zeros(()))
    return jinns.utils.PINN(mlp=mlp, slice_solution=kw.pop("slice_solution", jnp.s_[:]), eq_type=eq_type, input_transform=kw.pop("input_transform", lambda i,p:i), output_transform=kw.pop("output_transform", lambda i,o,p:o), **kw)
