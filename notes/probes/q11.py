from polyc import *
import traceback
key = jax.random.PRNGKey(0)
r=3
def spinn(d, m, eq_type, key):
    return jinns.utils.create_SPINN(key, d, r, ((eqx.nn.Linear,1,4),(jnp.tanh,),(eqx.nn.Linear,4,r*m)), eq_type, m=m)
class Twin(eqx.Module):
    s: eqx.Module
    has_t: bool = eqx.field(static=True)
    def __call__(self, *a):
        if self.has_t:
            t,x,p = a; out = self.s(t[None], x[None], p)
        else:
            x,p = a; out = self.s(x[None], p)
        return out.reshape(-1) # all grid dims are 1 -> (m,)
def twin_pinn(s, has_t):
    # pointwise twin must be a PINN instance for isinstance checks in built-in losses
    class M(eqx.Module):
        s: eqx.Module
        has_t: bool = eqx.field(static=True)
        nin: int = eqx.field(static=True)
        def __call__(self, z):
            if self.has_t: out = self.s(z[None,0:1], z[None,1:], None_params[0])
            else: out = self.s(z[None,:], None_params[0])
            return out.reshape(-1)
    return M
bad=0; tot=0
def chk(name, fw, rv):
    global bad, tot; tot+=1
    if not np.allclose(np.asarray(fw), np.asarray(rv), rtol=1e-7, atol=1e-9):
        bad+=1; print("MISMATCH", name, np.asarray(fw).ravel()[:6], np.asarray(rv).ravel()[:6])
# Build a PINN twin: a PINN whose mlp evaluates the spinn at one point using spinn params stored as its own params
class SpinnAsMLP(eqx.Module):
    inner: eqx.Module   # the _SPINN module (params+static combined)
    d: int = eqx.field(static=True); r: int = eqx.field(static=True); m: int = eqx.field(static=True); has_t: bool = eqx.field(static=True)
    def __call__(self, z):
        res = self.inner(z[0:1], z[1:]) if self.has_t else self.inner(None, z)   # (d, r*m)
        outs = [jnp.sum(jnp.prod(res[:, k*self.r:(k+1)*self.r], axis=0)) for k in range(self.m)]
        return jnp.stack(outs)
def make_twin(s, has_t):
    inner = eqx.combine(s.params, s.static)
    mlp = SpinnAsMLP(inner, s.d, s.r, s.m, has_t)
    return jinns.utils.PINN(mlp=mlp, slice_solution=jnp.s_[:], eq_type=s.eq_type, input_transform=lambda i,p:i, output_transform=lambda i,o,p:o)
def grid_eval(fn_point, t, x):
    # returns array over grid (time first then space dims)
    axes = ([t[:,0]] if t is not None else []) + [x[:,k] for k in range(x.shape[1])]
    out = np.empty([len(a) for a in axes], dtype=object)
    for idx in itertools.product(*[range(len(a)) for a in axes]):
        vals = [float(axes[k][i]) for k,i in enumerate(idx)]
        if t is not None: out[idx] = np.asarray(fn_point(jnp.array(vals[:1]), jnp.array(vals[1:])))
        else: out[idx] = np.asarray(fn_point(None, jnp.array(vals)))
    return np.array(out.tolist(), dtype=float)
B=2
t = jnp.array([[0.1],[0.7]]); 
for name, mkloss, d_x, m, eqp in [
   ("burgers", lambda: jinns.loss.BurgerEquation(Tmax=2.), 1, 1, {"nu": jnp.array(0.3)}),
   ("fisher1d", lambda: jinns.loss.FisherKPP(Tmax=2.), 1, 1, {"D": jnp.array(0.3), "r": jnp.array(1.5), "g": jnp.array(0.7)}),
   ("fisher2d", lambda: jinns.loss.FisherKPP(Tmax=2.), 2, 1, {"D": jnp.array(0.3), "r": jnp.array(1.5), "g": jnp.array(0.7)}),
   ("ou", lambda: jinns.loss.OU_FPENonStatioLoss2D(Tmax=2.), 2, 1, {"alpha": jnp.array([0.5,0.7]), "mu": jnp.array([0.1,-0.2]), "sigma": jnp.array([0.5,0.9])}),
  ]:
    try:
        key, sk = jax.random.split(key)
        s = spinn(1+d_x, m, "nonstatio_PDE", sk); tw = make_twin(s, True)
        x = jax.random.uniform(sk, (B, d_x))
        Ps = Params(nn_params=s.init_params(), eq_params=eqp); Pt = Params(nn_params=tw.init_params(), eq_params=eqp)
        L = mkloss()
        fw = L.evaluate(t, x, s, Ps)
        rv = grid_eval(lambda tt,xx: L.evaluate(tt,xx,tw,Pt), t, x)
        chk(name, np.asarray(fw).reshape(rv.shape), rv)
    except Exception as e:
        print("ERR", name, type(e).__name__, str(e)[:300]); bad+=1
# NS + mass statio
try:
    key, k1, k2 = jax.random.split(key,3)
    su = spinn(2, 2, "statio_PDE", k1); sp_ = spinn(2, 1, "statio_PDE", k2)
    tu, tp = make_twin(su, False), make_twin(sp_, False)
    x = jax.random.uniform(k1, (B,2))
    eqp = {"rho": jnp.array(1.3), "nu": jnp.array(0.4)}
    PDs = ParamsDict(nn_params={"u":su.init_params(),"p":sp_.init_params()}, eq_params=eqp)
    PDt = ParamsDict(nn_params={"u":tu.init_params(),"p":tp.init_params()}, eq_params=eqp)
    for nm, L in [("ns", jinns.loss.NavierStokes2DStatio(u_key="u",p_key="p")), ("mass", jinns.loss.MassConservation2DStatio(nn_key="u"))]:
        fw = L.evaluate(x, {"u":su,"p":sp_}, PDs)
        rv = grid_eval(lambda tt,xx: L.evaluate(xx, {"u":tu,"p":tp}, PDt), None, x)
        chk(nm, np.asarray(fw).reshape(rv.shape), rv)
except Exception as e:
    traceback.print_exc(); bad+=1
print("total",tot,"bad",bad)
