import ast, sys
src = open("/repo/jinns/data/_DataGenerators.py").read()
mod = ast.parse(src)
def find_func(mod, name, cls=None):
    for n in ast.walk(mod):
        if isinstance(n, ast.ClassDef) and cls and n.name==cls:
            for m in n.body:
                if isinstance(m, ast.FunctionDef) and m.name==name: return m
        if cls is None and isinstance(n, ast.FunctionDef) and n.name==name: return n
    raise SystemExit(f"anchor missing: {cls}.{name}")
def zexpr(e, env):
    """int/bool expression -> Gallina (Z/bool); fail closed"""
    if isinstance(e, ast.Compare) and len(e.ops)==1:
        op = {ast.Gt:">?", ast.GtE:">=?", ast.Lt:"<?", ast.LtE:"<=?", ast.Eq:"=?"}[type(e.ops[0])]
        return f"({zexpr(e.left,env)} {op} {zexpr(e.comparators[0],env)})"
    if isinstance(e, ast.BinOp):
        op = {ast.Add:"+", ast.Sub:"-", ast.Mult:"*", ast.FloorDiv:"/", ast.Mod:"mod"}[type(e.op)]
        return f"({zexpr(e.left,env)} {op} {zexpr(e.right,env)})"
    if isinstance(e, ast.Name) and e.id in env: return env[e.id]
    if isinstance(e, ast.Constant) and isinstance(e.value,int): return f"{e.value}"
    if isinstance(e, ast.Attribute) and isinstance(e.value, ast.Name) and e.value.id=="self" and e.attr in env: return env[e.attr]
    raise SystemExit("untranslatable: "+ast.dump(e))
f = find_func(mod, "_reset_or_increment")
ret = [s for s in f.body if isinstance(s, ast.Return)][0].value
assert isinstance(ret, ast.Call) and ast.unparse(ret.func)=="jax.lax.cond"
test, bt, bf, ops = ret.args
print("Definition gen_epoch_done (bend n_eff : Z) : bool :=", zexpr(test, {"bend":"bend","n_eff":"n_eff"}), ".")
print("(* true branch:", ast.unparse(bt), " false branch:", ast.unparse(bf), "*)")
f = find_func(mod, "temporal_batch", "DataGeneratorODE")
for s in f.body:
    if isinstance(s, ast.Assign) and ast.unparse(s.targets[0])=="bend":
        print("Definition gen_bend_times (bstart bs : Z) : Z :=", zexpr(s.value, {"bstart":"bstart","temporal_batch_size":"bs"}), ".")
# numeric: Burgers return
src2 = open("/repo/jinns/loss/_DynamicLoss.py").read(); mod2 = ast.parse(src2)
f = find_func(mod2, "equation", "BurgerEquation")
pinn_if = [s for s in f.body if isinstance(s, ast.If) and "PINN" in ast.unparse(s.test) and "SPINN" not in ast.unparse(s.test)][0]
r = [s for s in pinn_if.body if isinstance(s, ast.Return)][0].value
print("Burgers PINN return:", ast.unparse(r))
