from common import *
bad=[]
for x64 in [True]:
    jax.config.update("jax_enable_x64", x64)
    for (a,b) in [(0.,1.),(-1.,1.),(0.,10.),(-3.,3.),(0.5,2.5),(-0.3,0.7),(0.1,0.9)]:
        for n in range(1,400):
            step=(b-a)/n
            arr = jnp.arange(a,b,step)
            L = arr.shape[0]
            if L!=n or float(arr.max())>b or float(arr.min())<a: bad.append((x64,a,b,n,L,float(arr.max())))
print(len(bad), bad[:20])
jax.config.update("jax_enable_x64", False)
g = jinns.data.DataGeneratorODE(jax.random.PRNGKey(0), 10, 0.1, 0.9, 2, method="grid")
print(g.times.shape, g.times)
