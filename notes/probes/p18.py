from common import *
import optax
from jinns.loss import ODE
class EqO(ODE):
    def equation(self, t, u, params):
        return u(t, params) - 2.
uo = make_pinn([[1.,3.,0.]], "ODE")
po = Params(nn_params=uo.init_params(), eq_params={"k": jnp.array(1.)})
lo = jinns.loss.LossODE(u=uo, dynamic_loss=EqO(), params=po, initial_condition=(0., 1.))
def nan_at(k):
    def init(p): return jnp.array(0)
    def update(g, s, p=None):
        g2 = jax.tree.map(lambda x: jnp.where(s==k, jnp.nan, x), g)
        return g2, s+1
    return optax.GradientTransformation(init, update)
lr=2.**-6
for k in [0,2]:
    g = jinns.data.DataGeneratorODE(jax.random.PRNGKey(0), 8, 0., 1., 4, method="grid")
    opt = optax.chain(nan_at(k), optax.sgd(lr))
    out = jinns.solve(n_iter=6, init_params=po, data=g, loss=lo, optimizer=opt, verbose=False, tracked_params=Params(nn_params=None, eq_params={"k":True}))
    # reference
    g = jinns.data.DataGeneratorODE(jax.random.PRNGKey(0), 8, 0., 1., 4, method="grid")
    g,_ = g.get_batch()
    p = po; hist=[]; plist=[po]
    for i in range(k+1):
        g,b = g.get_batch()
        (v,_),gr = jax.value_and_grad(lo, has_aux=True)(p,b)
        hist.append(float(v))
        p = jax.tree.map(lambda a,b_: a - lr*b_, p, gr); plist.append(p)
    print("k",k,"losses",np.asarray(out[1]),"ref",hist)
    print("   returned W",np.asarray(out[0].nn_params.W).ravel(),"ref last finite", np.asarray(plist[k].nn_params.W).ravel(), "tracked k", np.asarray(out[6].eq_params["k"]))
