import os, warnings
os.environ["JAX_PLATFORMS"]="cpu"
warnings.filterwarnings("ignore")
import jax, jax.numpy as jnp, numpy as np
jax.config.update("jax_enable_x64", True)
import equinox as eqx
import jinns
from jinns.parameters import Params, ParamsDict

class PolyNet(eqx.Module):
    """mlp whose output is W @ monomials(input) ; W are the trainable params"""
    W: jax.Array
    def __call__(self, z):
        # features: 1, z_i, z_i*z_j (i<=j)
        d = z.shape[0]
        feats = [jnp.ones(())] + [z[i] for i in range(d)] + [z[i]*z[j] for i in range(d) for j in range(i,d)]
        return self.W @ jnp.stack(feats)

def nfeat(d): return 1 + d + d*(d+1)//2

def make_pinn(W, eq_type, **kw):
    W = jnp.asarray(W, dtype=float)
    mlp = PolyNet(W)
    nout = W.shape[0]
    u = jinns.utils.PINN(mlp=mlp, slice_solution=kw.pop("slice_solution", jnp.s_[0:nout]), eq_type=eq_type,
        input_transform=kw.pop("input_transform", lambda i,p: i), output_transform=kw.pop("output_transform", lambda i,o,p: o), **kw)
    return u
