From Coq Require Import ZArith List Lia Bool ZifyBool.
Ltac Zify.zify_post_hook ::= Z.to_euclidean_division_equations.
Open Scope Z_scope.
Section M.
Variable gen_epoch_done : Z -> Z -> bool.
Hypothesis gen_ok : forall bend n, gen_epoch_done bend n = (bend >=? n).  (* what Gen says after F1 *)
Variables n b : Z.
Hypothesis Hb : 1 <= b <= n.
Definition e := (n + b - 1) / b.
Definition step (idx : Z) : Z * bool :=
  let bend := idx + b in if gen_epoch_done bend n then (0, true) else (bend, false).
Fixpoint run (k : nat) (idx : Z) : Z * bool :=
  match k with O => step idx | S k' => step (fst (run k' idx)) end.
Definition start (idx : Z) := Z.max 0 (Z.min (n - b) idx).

Lemma e_bounds : (e - 1) * b < n <= e * b.
Proof. unfold e. nia. Qed.

Lemma mod_succ_wrap k m : 0 < m -> k mod m = m - 1 -> (k + 1) mod m = 0.
Proof. intros Hm H. rewrite Z.add_mod by lia. rewrite H.
  destruct (Z.eq_dec m 1) as [->|]; [reflexivity|].
  rewrite (Z.mod_small 1) by lia. replace (m - 1 + 1) with (1 * m) by lia. apply Z.mod_mul. lia. Qed.
Lemma mod_succ_nowrap k m : 0 < m -> k mod m + 1 < m -> (k + 1) mod m = k mod m + 1.
Proof. intros Hm H. pose proof (Z.mod_pos_bound k m Hm). rewrite Z.add_mod by lia.
  rewrite (Z.mod_small 1) by lia. apply Z.mod_small. lia. Qed.

Lemma run_closed idx0 (H0 : n <= idx0 + b) k :
  run k idx0 = ((Z.of_nat k mod e) * b, (Z.of_nat k mod e =? 0)).
Proof.
  pose proof e_bounds as He.
  assert (He1 : 1 <= e) by (unfold e; nia).
  induction k as [|k IH].
  - cbn [run]. unfold step. rewrite gen_ok.
    replace (Z.of_nat 0 mod e) with 0 by (rewrite Z.mod_0_l; lia).
    destruct (idx0 + b >=? n) eqn:E; [reflexivity | lia].
  - cbn [run]. rewrite IH. cbn [fst]. unfold step. rewrite gen_ok.
    assert (Hk : Z.of_nat (S k) = Z.of_nat k + 1) by lia. rewrite Hk.
    pose proof (mod_succ_wrap (Z.of_nat k) e) as Hw.
    pose proof (mod_succ_nowrap (Z.of_nat k) e) as Hn.
    assert (Hj : 0 <= Z.of_nat k mod e < e) by (apply Z.mod_pos_bound; lia).
    remember (Z.of_nat k mod e) as j eqn:Ej. clear Ej IH Hk.
    destruct (j * b + b >=? n) eqn:E.
    + assert (Hje : j = e - 1) by nia. rewrite Hw by lia. reflexivity.
    + assert (Hlt : j + 1 < e) by nia. rewrite Hn by lia.
      f_equal; [ring|]. destruct (j + 1 =? 0) eqn:E2; lia.
Qed.

(* served index interval of call k *)
Lemma served j (Hj : 0 <= j < e) :
  start (j * b) = if j <? e - 1 then j * b else n - b.
Proof. pose proof e_bounds. unfold start. destruct (j <? e - 1) eqn:E; nia. Qed.

Lemma cover : n - b <= (e - 1) * b.   Proof. pose proof e_bounds. nia. Qed.
Lemma disjoint_when_divides : n mod b = 0 -> n - b = (e - 1) * b.
Proof. intro Hd. apply Z.mod_divide in Hd; [|lia]. destruct Hd as [q Hq].
  assert (He : e = q).
  { unfold e. rewrite Hq. replace (q * b + b - 1) with (q * b + (b - 1)) by lia.
    rewrite Z.div_add_l by lia. rewrite Z.div_small by lia. lia. }
  rewrite He, Hq. ring. Qed.
End M.
Print Assumptions run_closed.
