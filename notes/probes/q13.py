from polyc import *
import traceback
from jinns.loss import PDEStatio
class E1(PDEStatio):
    def equation(self, x, u_dict, pd):
        return u_dict["a"](x, pd.extract_params("a")) * pd.eq_params["k"] - u_dict["b"](x, pd.extract_params("b"))
ua = mk([{(1,0):2.0,(0,1):1.0,(0,0):1.0}],"statio_PDE"); ub = mk([{(2,0):1.0,(0,0):-1.0}, {(0,1):1.0}],"statio_PDE")
PD = ParamsDict(nn_params={"a":ua.init_params(),"b":ub.init_params()}, eq_params={"k": jnp.array(3.)})
rng = np.random.default_rng(0)
nb=2; a = rng.integers(0,4,size=(nb,4)).astype(float)
bb = jnp.asarray(np.stack([np.stack([np.zeros(nb),a[:,0]],1), np.stack([np.ones(nb)*4,a[:,1]],1), np.stack([a[:,2],np.zeros(nb)],1), np.stack([a[:,3],np.ones(nb)*4],1)], -1))
x = jnp.asarray(rng.integers(0,4,size=(3,2)).astype(float))
fa = lambda dx: jnp.array([1.0]); 
try:
    lw = jinns.loss.LossWeightsPDEDict(dyn_loss=2., boundary_loss=3., norm_loss=5., observations=7., initial_condition=1.)
    sysl = jinns.loss.SystemLossPDE(u_dict={"a":ua,"b":ub}, dynamic_loss_dict={"e1":E1()}, loss_weights=lw, params_dict=PD,
        omega_boundary_fun_dict={"a":fa, "b":None}, omega_boundary_condition_dict={"a":"dirichlet","b":None}, omega_boundary_dim_dict={"a":jnp.s_[::],"b":None},
        norm_samples_dict={"a":None, "b": x}, norm_int_length_dict={"a":None,"b":2.0}, obs_slice_dict={"a":jnp.s_[...], "b":jnp.s_[0:1]})
    og = jinns.data.DataGeneratorObservationsMultiPINNs(3, {"a": None, "b": x}, {"a": None, "b": jnp.array([[1.],[2.],[3.]])}, key=jax.random.PRNGKey(0))
    og, ob = og.get_batch()
    print("multi obs batch keys", {k:(None if v is None else list(v.keys())) for k,v in ob.items()})
    batch = jinns.data.PDEStatioBatch(inside_batch=x, border_batch=bb)
    batch = jinns.data.append_obs_batch(batch, ob)
    tot, terms = sysl(PD, batch)
    print({k: float(v) for k,v in terms.items()}, float(tot))
    # single-loss references
    la = jinns.loss.LossPDEStatio(u=ua, dynamic_loss=None, omega_boundary_fun=fa, omega_boundary_condition="dirichlet", params=PD.extract_params("a"))
    lb = jinns.loss.LossPDEStatio(u=ub, dynamic_loss=None, norm_samples=x, norm_int_length=2.0, obs_slice=jnp.s_[0:1], params=PD.extract_params("b"))
    ta = la(PD.extract_params("a"), jinns.data.PDEStatioBatch(inside_batch=x, border_batch=bb))[1]
    tb = lb(PD.extract_params("b"), jinns.data.append_obs_batch(jinns.data.PDEStatioBatch(inside_batch=x, border_batch=bb), ob["b"]))[1]
    print("ref boundary", 3*float(ta["boundary_loss"]), "norm", 5*float(tb["norm_loss"]), "obs", 7*float(tb["observations"]))
except Exception as e:
    traceback.print_exc()
