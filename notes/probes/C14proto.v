From Coq Require Import List Arith Lia.
Import ListNotations.
Section C.
Variable A : Type.
(* jnp.repeat(b1, n2, axis=0): every row n2 times in a row; jnp.tile(b2, (n1,1)): the block n1 times *)
Definition repeat_each (n2 : nat) (b1 : list (list A)) := flat_map (fun r => repeat r n2) b1.
Fixpoint tile (n1 : nat) (b2 : list (list A)) := match n1 with O => [] | S k => b2 ++ tile k b2 end.
Definition cart (b1 b2 : list (list A)) :=
  map (fun p => fst p ++ snd p) (combine (repeat_each (length b2) b1) (tile (length b1) b2)).

Lemma repeat_each_length n2 b1 : length (repeat_each n2 b1) = length b1 * n2.
Proof. unfold repeat_each. induction b1 as [|r b IH]; cbn; [reflexivity|]. rewrite app_length, repeat_length, IH. lia. Qed.
Lemma tile_length n1 b2 : length (tile n1 b2) = n1 * length b2.
Proof. induction n1 as [|k IH]; cbn; [reflexivity|]. rewrite app_length, IH. lia. Qed.

Lemma nth_repeat_lt (B : Type) (x d : B) n j : j < n -> nth j (repeat x n) d = x.
Proof. revert j. induction n as [|n IH]; intros [|j] Hj; cbn; try lia; [reflexivity|apply IH; lia]. Qed.
Lemma nth_repeat_each n2 b1 i j d : i < length b1 -> j < n2 ->
  nth (i * n2 + j) (repeat_each n2 b1) d = nth i b1 d.
Proof. unfold repeat_each. revert i. induction b1 as [|r b IH]; intros i Hi Hj; cbn in *; [lia|].
  destruct i as [|i].
  - cbn. rewrite app_nth1 by (rewrite repeat_length; lia). apply nth_repeat_lt. lia.
  - rewrite app_nth2 by (rewrite repeat_length; cbn; lia). rewrite repeat_length.
    replace (S i * n2 + j - n2) with (i * n2 + j) by (cbn; lia). apply IH; lia. Qed.

Lemma nth_tile n1 b2 i j d : i < n1 -> j < length b2 ->
  nth (i * length b2 + j) (tile n1 b2) d = nth j b2 d.
Proof. revert i. induction n1 as [|k IH]; intros i Hi Hj; [lia|]. cbn [tile].
  destruct i as [|i].
  - cbn. rewrite app_nth1 by lia. reflexivity.
  - rewrite app_nth2 by (cbn; lia). replace (S i * length b2 + j - length b2) with (i * length b2 + j) by (cbn; lia).
    apply IH; lia. Qed.

Theorem cart_length b1 b2 : length (cart b1 b2) = length b1 * length b2.
Proof. unfold cart. rewrite map_length, combine_length, repeat_each_length, tile_length. lia. Qed.

(* row i*n2 + j of the product is row i of the first factor followed by row j of the second *)
Theorem cart_nth b1 b2 i j : i < length b1 -> j < length b2 ->
  nth (i * length b2 + j) (cart b1 b2) [] = nth i b1 [] ++ nth j b2 [].
Proof. intros Hi Hj. unfold cart.
  assert (Hlt : i * length b2 + j < length b1 * length b2) by nia.
  set (f := fun p : list A * list A => fst p ++ snd p).
  rewrite (nth_indep _ [] (f ([], []))) by (rewrite map_length, combine_length, repeat_each_length, tile_length; lia).
  rewrite map_nth. unfold f. rewrite combine_nth by (rewrite repeat_each_length, tile_length; lia).
  cbn [fst snd]. rewrite nth_repeat_each, nth_tile by assumption. reflexivity. Qed.
End C.
Print Assumptions cart_nth.
