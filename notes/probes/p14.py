from common import *
import traceback, optax
# C14 cartesian
for dim,cart in [(1,True),(2,True),(2,False),(1,False)]:
    try:
        g = jinns.data.CubicMeshPDENonStatio(key=jax.random.PRNGKey(3), n=8, nb=8 if dim==2 else 2, nt=6, omega_batch_size=2 if not cart else 4, omega_border_batch_size=2, temporal_batch_size=2, dim=dim, min_pts=(0.,)*dim, max_pts=(1.,)*dim, tmin=10., tmax=11., cartesian_product=cart)
        g2, x = g.inside_batch(); g2, dx = g2.border_batch(); g2, t = g2.temporal_batch()
        g3, b = g.get_batch()
        tx = np.asarray(b.times_x_inside_batch); tdx = np.asarray(b.times_x_border_batch)
        print("dim",dim,"cart",cart,"tx",tx.shape,"tdx",tdx.shape, "x",x.shape,"dx",dx.shape,"t",t.shape)
        if cart:
            exp = np.array([[float(ti)]+list(np.asarray(xj)) for ti in t for xj in x])
            print("   inside product ok:", np.array_equal(exp, tx))
            for f in range(tdx.shape[-1]):
                expf = np.array([[float(ti)]+list(np.asarray(dx[j,:,f])) for ti in t for j in range(dx.shape[0])])
                print("   facet",f,"ok:", np.array_equal(expf, tdx[...,f]))
        else:
            print("   pair ok:", np.array_equal(np.concatenate([np.asarray(t)[:,None], np.asarray(x)],1), tx))
            print("   border:", tdx[...,0])
    except Exception as e:
        print("dim",dim,"cart",cart, type(e).__name__, str(e)[:200])
# C15 param loader shapes
for shp in [(6,),(6,1)]:
    try:
        pg = jinns.data.DataGeneratorParameter(jax.random.PRNGKey(0), 6, 2, param_ranges={"a":(0.,1.)}, user_data={"b": jnp.arange(6.).reshape(shp)})
        pg, pb = pg.get_batch(); print("param user_data", shp, "ok", {k:v.shape for k,v in pb.items()})
    except Exception as e: print("param user_data", shp, type(e).__name__, e)
# obs loader alignment
n=7
og = jinns.data.DataGeneratorObservations(jax.random.PRNGKey(0), 3, jnp.arange(n,dtype=float), 10+jnp.arange(n,dtype=float), {"a": 100+jnp.arange(n,dtype=float)})
for k in range(5):
    og, ob = og.get_batch()
    print("obs", np.asarray(ob["pinn_in"]).ravel(), np.asarray(ob["val"]).ravel(), np.asarray(ob["eq_params"]["a"]).ravel())
