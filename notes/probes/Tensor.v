From Coq Require Import List Arith Bool QArith Qcanon Field Lia.
Import ListNotations.
Section T.
Variable K : Type.
Variables (k0 k1 : K) (kadd kmul ksub : K -> K -> K) (kopp : K -> K) (kdiv : K -> K -> K) (kinv : K -> K).
Hypothesis Kfield : field_theory k0 k1 kadd kmul ksub kopp kdiv kinv eq.
Add Field Kf : Kfield.
Variable of_nat : nat -> K.                      (* the image of the naturals, for means *)

Inductive tensor := T0 (x : K) | T1 (l : list K) | T2 (ll : list (list K)).
Definition sumK := fold_right kadd k0.
(* numpy: a batch of per-point results stacked by vmap *)
Definition stack (l : list tensor) : option tensor :=
  if forallb (fun t => match t with T0 _ => true | _ => false end) l
  then Some (T1 (map (fun t => match t with T0 x => x | _ => k0 end) l))
  else if forallb (fun t => match t with T1 _ => true | _ => false end) l
  then Some (T2 (map (fun t => match t with T1 r => r | _ => [] end) l))
  else None.
Definition sq (t : tensor) := match t with T0 x => T0 (kmul x x) | T1 l => T1 (map (fun x => kmul x x) l)
                                         | T2 ll => T2 (map (map (fun x => kmul x x)) ll) end.
(* jnp.sum(., axis=-1) *)
Definition sum_last (t : tensor) : option tensor :=
  match t with T0 _ => None | T1 l => Some (T0 (sumK l)) | T2 ll => Some (T1 (map sumK ll)) end.
(* jnp.mean(w * .) over all axes, scalar w *)
Definition mean_all (w : K) (t : tensor) : option K :=
  match t with T0 x => Some (kmul w x)
             | T1 l => Some (kdiv (sumK (map (kmul w) l)) (of_nat (length l)))
             | T2 _ => None end.
Definition bind {A B} (o : option A) (f : A -> option B) := match o with Some a => f a | None => None end.

(* per-point Neumann mismatch as the SOURCE writes it: dot(...) is 0-d, f's return decides the rank *)
Definition mismatch_src (g : K) (fret : tensor) : tensor :=
  match fret with T0 y => T0 (ksub g y) | T1 l => T1 (map (fun y => ksub g y) l) | T2 ll => T2 ll end.
(* the repaired source wraps the difference in atleast_1d *)
Definition atleast_1d (t : tensor) := match t with T0 x => T1 [x] | t => t end.
Definition facet_value (fix_ : bool) (w : K) (pts : list (K * tensor)) : option K :=
  bind (stack (map (fun p => let m := mismatch_src (fst p) (snd p) in if fix_ then atleast_1d m else m) pts))
       (fun s => bind (sum_last (sq s)) (mean_all w)).
End T.

(* instance: Qc *)
Definition fv := facet_value Qc (Q2Qc 0) Qcplus Qcmult Qcminus Qcdiv (fun n => Q2Qc (inject_Z (Z.of_nat n))).
Definition q (z : Z) := Q2Qc (inject_Z z).
Definition scalar_f := [(q 3, T0 Qc (q 1)); (q 3, T0 Qc (q 1))].      (* two border points, dn u = 3, f = 1 (scalar) *)
Definition array_f  := [(q 3, T1 Qc [q 1]); (q 3, T1 Qc [q 1])].      (* same, f returns a length-one array *)
Eval vm_compute in (option_map (@this) (fv false (q 1) scalar_f), option_map (@this) (fv false (q 1) array_f)).
Eval vm_compute in (option_map (@this) (fv true (q 1) scalar_f), option_map (@this) (fv true (q 1) array_f)).
(* F9: with the pinned source the value depends on the return shape of f *)
Theorem shape_independence_refuted : exists w pts pts',
  (forall i, fst (nth i pts (q 0, T0 Qc (q 0))) = fst (nth i pts' (q 0, T0 Qc (q 0)))) /\
  fv false w pts <> fv false w pts'.
Proof. exists (q 1), scalar_f, array_f. split.
  - intros [|[|[|i]]]; reflexivity.
  - vm_compute. discriminate. Qed.
